//! C17 — at most one writer: the exclusive lock holds for the handle's lifetime.
//!
//! impl:   real `Memvid` handles on a real .mv2 in a tempdir, each held by a CHILD PROCESS (this
//!         binary re-executed with argv[1] = "actor", driven over stdin/stdout one line per command);
//!         actors A (model handle 0) and B (1) are writers, P (2) probes, R (3) is a read-only opener.
//! model:  drv_c17 (MvModel/Lock.lean, `Proto.current` = the code as it is) — flock table, directory, handles.
//! After every op of a history the harness
//!   (a) stats the path (inode),
//!   (b) asks the actor which inodes its data descriptor and its LOCK descriptor are on
//!       (`verif_hooks::verif_fds` + fstat) and whether /proc/locks lists a FLOCK of that process on
//!       the lock descriptor's inode (and how many FLOCKs the process holds in all),
//!   (c) lets P attempt `flock(LOCK_EX|LOCK_NB)` on a fresh descriptor of the path and a real
//!       `Memvid::try_open` (the non-blocking writable open doctor uses),
//! and compares (a)–(c) with the model's state after the same op.
//! oracle (independent of the model): while a writable handle is alive
//!   - P's flock probe is refused, P's try_open fails, `Memvid::doctor` reports lock contention,
//!   - the handle's lock descriptor and data descriptor are on the inode the path names, and the
//!     process holds an exclusive FLOCK on it,
//!   - a second `Memvid::open` / `Memvid::create` of the path fails (slow scenarios, ~10 s each, run
//!     in parallel threads: before a commit, after a commit, with a commit DURING the opener's
//!     retry loop) and a refused create leaves the file's length alone,
//!   - two actors never hold writable handles for one path at the same time (two-writer schedules),
//!   - lock mode switching: the handle's belief (`FileLock::mode()`) and `read_only` are compared with
//!     the model after every op; a handle that just completed a mutation holds an exclusive flock —
//!     in particular after an upgrade that timed out (~10 s, a reader in another process holds the
//!     shared lock) and was retried once the reader left (slow scenario `upgrade_timeout_retry`).
//! known findings (`--known`): an oracle failure is reported as the recorded finding
//! `lock-left-on-unlinked-inode-after-commit` only when the model of the current protocol predicts
//! the very same observation AND the live writer's lock is stale (it has committed since it was
//! opened); a second writer admitted BEFORE the first commit, a missing lock, or any observation
//! the model does not predict stays a violation.  `refused-create-truncates-live-file` is not
//! modelled and is classified by its oracle signature alone.
use mvh::*;
use std::io::{BufRead, BufReader, Write};
use std::os::unix::fs::MetadataExt;
use std::panic::AssertUnwindSafe;
use std::path::{Path, PathBuf};
use std::process::{Child, ChildStdin, ChildStdout, Command, Stdio};

// =========================================================================================
// actor side (child process)
fn clean(s: impl ToString) -> String {
    s.to_string().replace(['\n', '\r'], " ")
}

fn fstat_ino(fd: i32) -> u64 {
    unsafe {
        let mut st: libc::stat = std::mem::zeroed();
        if libc::fstat(fd, &mut st) == 0 { st.st_ino as u64 } else { 0 }
    }
}

/// inodes behind this process' descriptors whose file lives (or lived: "… (deleted)") in `dir`
/// — leaves out Tantivy's own `.tantivy-writer.lock` flocks in its scratch directories
fn own_inodes(dir: &Path) -> std::collections::BTreeSet<u64> {
    let mut set = std::collections::BTreeSet::new();
    if let Ok(rd) = std::fs::read_dir("/proc/self/fd") {
        for e in rd.flatten() {
            let Some(fd) = e.file_name().to_str().and_then(|s| s.parse::<i32>().ok()) else { continue };
            if let Ok(t) = std::fs::read_link(e.path()) {
                if t.starts_with(dir) {
                    set.insert(fstat_ino(fd));
                }
            }
        }
    }
    set
}

/// (mode of a FLOCK this process holds on `ino`, number of FLOCKs this process holds on `own` inodes)
/// /proc/locks is a seq_file over the kernel's global lock list: ONE read is not an atomic snapshot and
/// can miss an entry while other processes on the machine take and drop locks (observed under load:
/// a held flock reported absent).  Locks of the observed process only change between harness ops, so
/// the lock exists iff some read lists it: an absent lock is re-read a few times before it is believed.
fn proc_locks(ino: u64, own: &std::collections::BTreeSet<u64>) -> (&'static str, usize) {
    let mut best = proc_locks_once(ino, own);
    let mut tries = 0;
    while (best.0 == "no" || best.1 == 0) && tries < 6 {
        std::thread::sleep(std::time::Duration::from_millis(15));
        let again = proc_locks_once(ino, own);
        if best.0 == "no" { best.0 = again.0; }
        best.1 = best.1.max(again.1);
        tries += 1;
    }
    best
}

fn proc_locks_once(ino: u64, own: &std::collections::BTreeSet<u64>) -> (&'static str, usize) {
    let pid = std::process::id().to_string();
    let txt = std::fs::read_to_string("/proc/locks").unwrap_or_default();
    let mut held = "no";
    let mut n = 0;
    for line in txt.lines() {
        let ws: Vec<&str> = line.split_whitespace().collect();
        // "12: FLOCK  ADVISORY  WRITE 4242 fd:01:131 0 EOF"   (blocked waiters have "->" after the index)
        if ws.len() < 6 || ws[1] == "->" || ws[1] != "FLOCK" || ws[4] != pid {
            continue;
        }
        let lino = ws[5].rsplit(':').next().and_then(|s| s.parse::<u64>().ok()).unwrap_or(0);
        if own.contains(&lino) {
            n += 1;
        }
        if lino == ino {
            held = if ws[3] == "WRITE" { "ex" } else { "sh" };
        }
    }
    (held, n)
}

fn payload(n: &str) -> Vec<u8> {
    format!("document {n}: the quick brown fox jumps over the lazy dog; lock protocol payload {n}").into_bytes()
}

fn actor_main() {
    use memvid_core::{DoctorFindingCode, DoctorOptions, Memvid};
    std::panic::set_hook(Box::new(|_| {}));
    let stdin = std::io::stdin();
    let mut out = std::io::stdout();
    let mut mem: Option<Memvid> = None;
    for line in stdin.lock().lines() {
        let Ok(line) = line else { break };
        let ws: Vec<&str> = line.split(' ').collect();
        let reply: String = match ws[0] {
            "create" | "open" | "tryopen" | "openro" => {
                drop(mem.take());
                let p = PathBuf::from(ws[1]);
                let r = std::panic::catch_unwind(AssertUnwindSafe(|| match ws[0] {
                    "create" => Memvid::create(&p),
                    "open" => Memvid::open(&p),
                    "tryopen" => memvid_core::verif_hooks::try_open(&p),
                    _ => Memvid::open_read_only(&p),
                }));
                match r {
                    Ok(Ok(m)) => { mem = Some(m); "ok".into() }
                    Ok(Err(e)) => format!("err {}", clean(e)),
                    Err(_) => "panic".into(),
                }
            }
            "put" | "commit" | "vacuum" => match mem.as_mut() {
                None => "nohandle".into(),
                Some(m) => {
                    let r = std::panic::catch_unwind(AssertUnwindSafe(|| match ws[0] {
                        "put" => m.put_bytes(&payload(ws.get(1).copied().unwrap_or("0"))).map(|_| ()),
                        "commit" => m.commit(),
                        _ => m.vacuum(),
                    }));
                    match r {
                        Ok(Ok(())) => "ok".into(),
                        Ok(Err(e)) => format!("err {}", clean(e)),
                        Err(_) => "panic".into(),
                    }
                }
            },
            "downgrade" => match mem.as_mut() {
                None => "nohandle".into(),
                Some(m) => match std::panic::catch_unwind(AssertUnwindSafe(|| m.downgrade_to_shared())) {
                    Ok(Ok(())) => "ok".into(),
                    Ok(Err(e)) => format!("err {}", clean(e)),
                    Err(_) => "panic".into(),
                },
            },
            "drop" => {
                let r = std::panic::catch_unwind(AssertUnwindSafe(|| drop(mem.take())));
                if r.is_ok() { "ok".into() } else { "panic".into() }
            }
            "obs" => match mem.as_ref() {
                None => "none".into(),
                Some(m) => {
                    let (ffd, lfd) = memvid_core::verif_hooks::verif_fds(m);
                    let (fino, lino) = (fstat_ino(ffd), fstat_ino(lfd));
                    let pino = std::fs::metadata(m.path()).map(|x| x.ino()).unwrap_or(0);
                    let own = own_inodes(m.path().parent().unwrap_or(Path::new("/")));
                    let (held, n) = proc_locks(lino, &own);
                    // the handle's BELIEF about its lock (FileLock::mode) next to what it holds
                    let mode = match format!("{:?}", m.lock_handle().mode()).as_str() {
                        "Exclusive" => "ex",
                        "Shared" => "sh",
                        _ => "none",
                    };
                    format!("pino={pino} fino={fino} lino={lino} held={held} nlocks={n} ro={} mode={mode} frames={}",
                        m.is_read_only() as u8, m.frame_count())
                }
            },
            "probe" => match std::fs::OpenOptions::new().read(true).write(true).open(ws[1]) {
                Err(_) => "nofile".into(),
                Ok(f) => {
                    use std::os::fd::AsRawFd;
                    let fd = f.as_raw_fd();
                    let ino = fstat_ino(fd);
                    let r = unsafe { libc::flock(fd, libc::LOCK_EX | libc::LOCK_NB) };
                    if r == 0 {
                        unsafe { libc::flock(fd, libc::LOCK_UN) };
                        format!("granted {ino}")
                    } else {
                        format!("refused {ino}")
                    }
                }
            },
            "doctor" => {
                let p = PathBuf::from(ws[1]);
                let r = std::panic::catch_unwind(AssertUnwindSafe(|| {
                    Memvid::doctor(&p, DoctorOptions { quiet: true, ..Default::default() })
                }));
                match r {
                    Ok(Ok(rep)) => {
                        if rep.findings.iter().any(|f| f.code == DoctorFindingCode::LockContention) {
                            "lockcontention".into()
                        } else {
                            format!("ran {:?}", rep.status)
                        }
                    }
                    Ok(Err(e)) => format!("err {}", clean(e)),
                    Err(_) => "panic".into(),
                }
            }
            "quit" => break,
            _ => "bad-cmd".into(),
        };
        if writeln!(out, "{reply}").is_err() || out.flush().is_err() {
            break;
        }
    }
    drop(mem);
}

// =========================================================================================
// orchestrator side
struct Actor {
    child: Child,
    stdin: ChildStdin,
    stdout: BufReader<ChildStdout>,
}

impl Actor {
    fn spawn() -> Actor {
        let exe = std::env::current_exe().expect("current_exe");
        let mut child = Command::new(exe)
            .arg("actor")
            .stdin(Stdio::piped())
            .stdout(Stdio::piped())
            .stderr(Stdio::null())
            .spawn()
            .expect("spawn actor");
        let stdin = child.stdin.take().unwrap();
        let stdout = BufReader::new(child.stdout.take().unwrap());
        Actor { child, stdin, stdout }
    }
    fn send(&mut self, line: &str) {
        let _ = writeln!(self.stdin, "{line}");
        let _ = self.stdin.flush();
    }
    fn recv(&mut self) -> String {
        let mut s = String::new();
        match self.stdout.read_line(&mut s) {
            Ok(0) | Err(_) => "ACTOR-DEAD".into(),
            Ok(_) => s.trim_end().to_string(),
        }
    }
    fn ask(&mut self, line: &str) -> String {
        self.send(line);
        self.recv()
    }
}

impl Drop for Actor {
    fn drop(&mut self) {
        let _ = writeln!(self.stdin, "quit");
        let _ = self.stdin.flush();
        let _ = self.child.wait();
    }
}

const MP: u32 = 7; // the model's name of the path

fn field<'a>(s: &'a str, key: &str) -> Option<&'a str> {
    s.split(' ').find_map(|kv| kv.strip_prefix(key).and_then(|r| r.strip_prefix('=')))
}

fn ok_of(reply: &str) -> &'static str {
    if reply == "ok" { "ok" } else { "fail" }
}

fn stat_ino(p: &Path) -> Option<u64> {
    std::fs::metadata(p).ok().map(|m| m.ino())
}

/// canonical observation of one handle, real side: `none` or the booleans the model also prints
fn canon_real_obs(obs: &str) -> String {
    if obs == "none" {
        return "none".into();
    }
    let (p, f, l) = (field(obs, "pino"), field(obs, "fino"), field(obs, "lino"));
    format!("mode={} ro={} lockOnPath={} fileOnPath={} held={} nlocks={}",
        field(obs, "mode").unwrap_or("?"), field(obs, "ro").unwrap_or("?"),
        (p == l) as u8, (p == f) as u8, field(obs, "held").unwrap_or("?"), field(obs, "nlocks").unwrap_or("?"))
}

fn canon_model_obs(obs: &str) -> String {
    if obs == "none" {
        return "none".into();
    }
    format!("mode={} ro={} lockOnPath={} fileOnPath={} held={} nlocks={}",
        field(obs, "mode").unwrap_or("?"), field(obs, "ro").unwrap_or("?"),
        field(obs, "lockOnPath").unwrap_or("?"), field(obs, "fileOnPath").unwrap_or("?"),
        field(obs, "held").unwrap_or("?"), field(obs, "nlocks").unwrap_or("?"))
}

/// everything one case produced
#[derive(Default)]
struct Outcome {
    trace: Vec<String>,
    /// (what, model, impl)
    disagreements: Vec<(String, String, String)>,
    /// (signature, what)
    violations: Vec<(String, String)>,
    /// oracle failures that the model of the current protocol predicts exactly and whose class is
    /// a recorded finding: (finding signature, what)
    known: Vec<(String, String)>,
    /// the history went past the point where model and implementation can be stepped together
    /// (two writable handles on one file, or a foreign doctor rewrote it)
    stop: bool,
    branches: Vec<&'static str>,
    nontrivial: bool,
}

/// recorded finding: after the first copy-and-rename commit the writer's flock is on the unlinked
/// old inode, so the path is unprotected (the model of the current protocol predicts every instance)
const FINDING_LOCK: &str = "lock-left-on-unlinked-inode-after-commit";
/// recorded finding: Memvid::create truncates the file before it holds the lock (not modelled:
/// classified by the oracle's signature alone)
const FINDING_TRUNC: &str = "refused-create-truncates-live-file";

static KNOWN: std::sync::OnceLock<std::collections::BTreeSet<String>> = std::sync::OnceLock::new();
fn is_known(sig: &str) -> bool {
    KNOWN.get().map(|k| k.contains(sig)).unwrap_or(false)
}

struct World {
    _dir: tempfile::TempDir,
    path: PathBuf,
    a: Actor,
    b: Actor,
    p: Actor,
    r: Actor,
}

impl World {
    fn new() -> World {
        let dir = tempfile::Builder::new().prefix("c17-").tempdir().expect("tempdir");
        let path = dir.path().join("m.mv2");
        World { _dir: dir, path, a: Actor::spawn(), b: Actor::spawn(), p: Actor::spawn(), r: Actor::spawn() }
    }
    fn pstr(&self) -> String {
        self.path.display().to_string()
    }
}

struct Model<'a> {
    drv: Option<&'a mut Driver>,
}

impl Model<'_> {
    fn ask(&mut self, line: &str) -> Option<String> {
        self.drv.as_mut().map(|d| d.ask(line))
    }
}

/// observe + compare + oracle after one op.  `who` = actors that may hold handles: (model id, actor).
fn observe(w: &mut World, m: &mut Model, out: &mut Outcome, prev_real: &mut Option<u64>, prev_model: &mut String,
           use_b: bool, dirty: bool, label: &str) {
    let ps = w.pstr();
    let pino = stat_ino(&w.path);
    let changed_real = pino != *prev_real;
    *prev_real = pino;
    let oa = w.a.ask("obs");
    let ob = if use_b { w.b.ask("obs") } else { "none".to_string() };
    let probe = w.p.ask(&format!("probe {ps}"));
    let probe_word = probe.split(' ').next().unwrap_or("?").to_string();
    let a_writer = oa != "none" && field(&oa, "ro") == Some("0");
    let b_writer = ob != "none" && field(&ob, "ro") == Some("0");
    // real-code non-blocking writable open by P (dropped at once when it succeeds)
    // (only while a writer is alive: a granted try_open runs a full open, which is slow)
    // (and, when a writer's lock is stale, only while no writer has uncommitted WAL records: a
    //  foreign open that is admitted would replay them and rewrite the file under the writer)
    let stale = [(&oa, a_writer), (&ob, b_writer)].iter()
        .any(|(o, w)| *w && field(o, "pino") != field(o, "lino"));
    let with_tryopen = (a_writer || b_writer) && !(stale && dirty);
    let mut topen = String::from("-");
    if with_tryopen && pino.is_some() {
        let r = w.p.ask(&format!("tryopen {ps}"));
        topen = ok_of(&r).to_string();
        if r == "ok" {
            w.p.ask("drop");
        }
    }
    let real = format!("A[{}] B[{}] probe={} tryopen={} changed={}",
        canon_real_obs(&oa), canon_real_obs(&ob), probe_word, topen, changed_real as u8);
    out.trace.push(format!("  impl  after {label}: {real}   (A: {oa}; B: {ob}; path ino {pino:?}; probe {probe})"));
    // ---- oracle, from the implementation's own observations only
    let mut fails: Vec<(String, String)> = Vec::new();
    for (name, o, is_w) in [("A", &oa, a_writer), ("B", &ob, b_writer)] {
        if !is_w {
            continue;
        }
        let (p, f, l) = (field(o, "pino"), field(o, "fino"), field(o, "lino"));
        if p != l || field(o, "held") != Some("ex") {
            fails.push(("lock-not-on-path-inode".into(),
                format!("after {label}: writable handle {name} alive but its exclusive flock is not on the inode the path names ({o})")));
        } else if p != f {
            fails.push(("data-descriptor-not-on-path-inode".into(),
                format!("after {label}: writable handle {name} alive but its data descriptor is on another inode than the path ({o})")));
        }
        if probe_word == "granted" {
            fails.push(("second-writer-admitted-while-handle-alive".into(),
                format!("after {label}: writable handle {name} alive, yet flock(LOCK_EX|LOCK_NB) on a fresh descriptor of the path was GRANTED to another process ({probe}; {o})")));
        } else {
            out.branches.push("probe-refused-while-writer-alive");
        }
        if topen == "ok" {
            fails.push(("second-writer-admitted-while-handle-alive".into(),
                format!("after {label}: writable handle {name} alive, yet Memvid::try_open of the path SUCCEEDED in another process ({o})")));
        } else if topen == "fail" {
            out.branches.push("tryopen-refused-while-writer-alive");
        }
    }
    if a_writer && b_writer {
        fails.push(("two-writable-handles".into(),
            format!("after {label}: two processes hold writable handles for the path (A: {oa}; B: {ob})")));
    }
    if !a_writer && !b_writer && probe_word == "granted" {
        out.branches.push("probe-granted-when-free");
    }
    // ---- model
    if m.drv.is_some() {
        let ma = m.ask("obs 0").unwrap();
        let mb = if use_b { m.ask("obs 1").unwrap() } else { "none".to_string() };
        let mpino = m.ask(&format!("pino {MP}")).unwrap();
        let mprobe = m.ask(&format!("probe {MP}")).unwrap();
        let mut mtopen = String::from("-");
        if with_tryopen && mpino != "-" {
            let r = m.ask(&format!("tryopen 2 {MP}")).unwrap();
            mtopen = r.clone();
            if r == "ok" {
                m.ask("kill 2");
            }
        }
        let changed_model = mpino != *prev_model;
        *prev_model = mpino.clone();
        let model = format!("A[{}] B[{}] probe={} tryopen={} changed={}",
            canon_model_obs(&ma), canon_model_obs(&mb), mprobe, mtopen, changed_model as u8);
        out.trace.push(format!("  model after {label}: {model}   (0: {ma}; 1: {mb}; path ino {mpino})"));
        // an oracle failure is the recorded finding only if the model of the current protocol
        // predicts this very observation and a live writer's lock is stale (it has committed)
        let predicted = model == real && stale && (ma.contains("lockOnPath=0") || mb.contains("lockOnPath=0"));
        if model != real {
            out.disagreements.push((format!("state after {label}"), model, real));
        }
        if !fails.is_empty() && predicted && is_known(FINDING_LOCK) {
            for (sig, what) in fails.drain(..) {
                out.known.push((FINDING_LOCK.into(), format!("[{sig}] {what}")));
            }
            out.branches.push("known-stale-lock-after-commit");
        }
    }
    out.violations.extend(fails);
    if a_writer && b_writer {
        out.stop = true;
    }
}


/// Whether a commit has something to write is an INPUT of the lock protocol (it depends on index and
/// TOC state the lock model does not have: a fresh create, a reopened empty memory or a vacuum leave
/// work behind without any put).  When the implementation's commit/vacuum/drop replaced the file
/// although the model's handle is clean, the model's handle is marked dirty first; the converse (model
/// dirty after a put, file not replaced) is left to show up as a disagreement.
fn sync_work(m: &mut Model, out: &mut Outcome, id: usize, before: Option<u64>, after: Option<u64>) {
    if before.is_some() && after != before {
        let o = m.ask(&format!("obs {id}")).unwrap_or_default();
        if o.contains("dirty=0") {
            m.ask(&format!("put {id}"));
            out.trace.push(format!("  model handle {id}: the commit had internal work (index/TOC) without a put: marked dirty"));
        }
    }
}

fn model_op(m: &mut Model, out: &mut Outcome, line: &str, real: &str, label: &str) {
    if let Some(ans) = m.ask(line) {
        out.trace.push(format!("  model {line} -> {ans}"));
        if ans != real {
            out.disagreements.push((format!("result of {label}"), ans, real.to_string()));
        }
    }
}

// ----------------------------------------------------------------------------- history cases
/// single-writer histories: ops of A, with P probing and R reading
fn run_hist(ops: &[String], m: &mut Model, w: &mut World) -> Outcome {
    let mut out = Outcome::default();
    let ps = w.pstr();
    m.ask("reset");
    m.ask("proto current");
    let (mut prev_real, mut prev_model) = (None, String::from("-"));
    let mut renames_alive = 0;
    let mut dirty = false;
    let mut reader_alive = false;
    for (i, op) in ops.iter().enumerate() {
        let label = format!("op {i} {op}");
        let before = stat_ino(&w.path);
        match op.as_str() {
            "create" | "open" | "tryopen" => {
                let r = w.a.ask(&format!("{op} {ps}"));
                out.trace.push(format!("impl  A {op} -> {r}"));
                model_op(m, &mut out, &format!("{op} 0 {MP}"), ok_of(&r), &label);
                dirty = false;
            }
            "put" | "commit" | "vacuum"
                if reader_alive && field(&w.a.ask("obs"), "ro") == Some("1") =>
            {
                // the upgrade would wait ~10 s for the reader (covered by the slow scenario)
                out.trace.push(format!("impl  A {op} skipped (handle parked in shared mode while a reader is open)"));
                continue;
            }
            "put" => {
                let r = w.a.ask(&format!("put {i}"));
                out.trace.push(format!("impl  A put -> {r}"));
                if r == "ok" {
                    dirty = true;
                }
                model_op(m, &mut out, "put 0", ok_of(&r), &label);
            }
            "downgrade" => {
                let r = w.a.ask("downgrade");
                let o = w.a.ask("obs");
                out.trace.push(format!("impl  A downgrade_to_shared -> {r}   ({o})"));
                // downgrade_to_shared returns Ok without doing anything while the handle has pending
                // work (dirty / index flush pending): an input of the lock protocol, like sync_work
                if field(&o, "ro") == Some("1") {
                    m.ask("downgrade 0");
                    out.branches.push("downgraded-to-shared");
                } else {
                    out.trace.push("  model: downgrade skipped (the handle had pending work)".into());
                }
            }
            "commit" | "vacuum" | "drop" => {
                let r = w.a.ask(op);
                if r == "ok" {
                    dirty = false;
                }
                out.trace.push(format!("impl  A {op} -> {r}"));
                if m.drv.is_some() {
                    sync_work(m, &mut out, 0, before, stat_ino(&w.path));
                    let a = m.ask(&format!("{op} 0")).unwrap();
                    out.trace.push(format!("  model {op} 0 -> {a}"));
                }
            }
            "ro_open" if { let o = w.a.ask("obs"); o != "none" && field(&o, "ro") == Some("0") } => {
                // a reader's open would wait ~10 s for the writer's exclusive lock
                out.trace.push("impl  R open_read_only skipped (a writable handle is alive)".into());
                continue;
            }
            "ro_open" => {
                let r = w.r.ask(&format!("openro {ps}"));
                out.trace.push(format!("impl  R open_read_only -> {r}"));
                model_op(m, &mut out, &format!("openro 3 {MP}"), ok_of(&r), &label);
                if r == "ok" {
                    out.branches.push("reader-open");
                    reader_alive = true;
                }
            }
            "ro_drop" => {
                let r = w.r.ask("drop");
                out.trace.push(format!("impl  R drop -> {r}"));
                m.ask("kill 3");
                reader_alive = false;
            }
            "doctor" => {
                let oa = w.a.ask("obs");
                let alive = oa != "none";
                let a_stale = alive && field(&oa, "pino") != field(&oa, "lino");
                if a_stale && dirty {
                    // an admitted doctor would replay the live writer's WAL records: skip (the flock
                    // probe after this op still reports the unprotected path)
                    out.trace.push("impl  P doctor skipped (stale lock and uncommitted records)".into());
                    observe(w, m, &mut out, &mut prev_real, &mut prev_model, false, dirty, &label);
                    continue;
                }
                let r = w.p.ask(&format!("doctor {ps}"));
                out.trace.push(format!("impl  P doctor -> {r}"));
                let got = r.starts_with("ran");
                let mut doctor_fail: Option<String> = None;
                if alive && got {
                    doctor_fail = Some(format!("after {label}: Memvid::doctor obtained its writable handle (report: {r}) while another process holds a writable handle ({oa})"));
                    out.stop = true;
                }
                if alive && r == "lockcontention" {
                    out.branches.push("doctor-lock-contention");
                }
                if !alive && got {
                    out.branches.push("doctor-ran-when-free");
                }
                if m.drv.is_some() {
                    let a = m.ask(&format!("tryopen 2 {MP}")).unwrap();
                    out.trace.push(format!("  model tryopen 2 (doctor) -> {a}"));
                    // a doctor that panics in planning (debug assertion on pending WAL records,
                    // property C21) or fails for another reason never reaches its try_open
                    if r == "lockcontention" || got {
                        if (a == "ok") != got {
                            out.disagreements.push((format!("result of {label}"), a.clone(), r.clone()));
                        }
                    }
                    if let Some(what) = doctor_fail.take() {
                        if a == "ok" && a_stale && is_known(FINDING_LOCK) {
                            out.known.push((FINDING_LOCK.into(), format!("[second-writer-admitted-while-handle-alive] {what}")));
                            out.branches.push("known-doctor-admitted-after-commit");
                        } else {
                            out.violations.push(("second-writer-admitted-while-handle-alive".into(), what));
                        }
                    }
                    if a == "ok" {
                        if got && stat_ino(&w.path) != before {
                            m.ask("m put 2");
                            m.ask("commit 2");
                        }
                        m.ask("kill 2");
                    }
                }
                if let Some(what) = doctor_fail {
                    out.violations.push(("second-writer-admitted-while-handle-alive".into(), what));
                }
            }
            _ => {}
        }
        let after = stat_ino(&w.path);
        let a_alive = w.a.ask("obs") != "none";
        if a_alive && before.is_some() && after != before {
            renames_alive += 1;
            out.branches.push("commit-renamed-under-live-handle");
        }
        if out.stop {
            break;
        }
        observe(w, m, &mut out, &mut prev_real, &mut prev_model, false, dirty, &label);
        if !out.violations.is_empty() || out.stop {
            break;
        }
    }
    out.nontrivial = renames_alive > 0;
    for a in [&mut w.a, &mut w.b, &mut w.p, &mut w.r] {
        a.ask("drop");
    }
    let _ = std::fs::remove_file(&w.path);
    out
}

/// two-writer schedules: ops are "<actor>:<op>", actor 0 = A, 1 = B; opens are try_open (non-blocking)
fn run_two(ops: &[String], m: &mut Model, w: &mut World) -> Outcome {
    let mut out = Outcome::default();
    let ps = w.pstr();
    m.ask("reset");
    m.ask("proto current");
    let (mut prev_real, mut prev_model) = (None, String::from("-"));
    let mut contested = 0;
    let mut dirty = [false, false];
    for (i, sop) in ops.iter().enumerate() {
        let (who, op) = sop.split_once(':').unwrap_or(("0", sop.as_str()));
        let label = format!("op {i} {sop}");
        let id: usize = if who == "1" { 1 } else { 0 };
        let other_obs = if id == 0 { w.b.ask("obs") } else { w.a.ask("obs") };
        let other_alive = other_obs != "none";
        let other_stale = other_alive && field(&other_obs, "pino") != field(&other_obs, "lino");
        if matches!(op, "create" | "tryopen") && other_stale && dirty[1 - id] {
            // an admitted second open would replay the first writer's uncommitted WAL records
            out.trace.push(format!("impl  {who} {op} skipped (the other writer's lock is stale and it has uncommitted records)"));
            continue;
        }
        let act = if id == 0 { &mut w.a } else { &mut w.b };
        match op {
            "create" | "tryopen" => {
                let r = act.ask(&format!("{op} {ps}"));
                out.trace.push(format!("impl  {who} {op} -> {r}"));
                model_op(m, &mut out, &format!("{op} {id} {MP}"), ok_of(&r), &label);
                if other_alive {
                    contested += 1;
                }
                if other_alive && r != "ok" {
                    out.branches.push("second-writer-refused");
                }
            }
            "put" => {
                let r = act.ask(&format!("put {i}"));
                out.trace.push(format!("impl  {who} put -> {r}"));
                if r == "ok" {
                    dirty[id] = true;
                }
                if m.drv.is_some() && r == "ok" {
                    m.ask(&format!("put {id}"));
                }
            }
            "commit" | "vacuum" | "drop" => {
                let before = stat_ino(&w.path);
                let r = act.ask(op);
                out.trace.push(format!("impl  {who} {op} -> {r}"));
                if r == "ok" {
                    dirty[id] = false;
                }
                if m.drv.is_some() {
                    sync_work(m, &mut out, id, before, stat_ino(&w.path));
                    m.ask(&format!("{op} {id}"));
                }
            }
            _ => {}
        }
        observe(w, m, &mut out, &mut prev_real, &mut prev_model, true, dirty[0] || dirty[1], &label);
        if !out.violations.is_empty() || out.stop {
            break;
        }
    }
    out.nontrivial = contested > 0;
    for a in [&mut w.a, &mut w.b, &mut w.p, &mut w.r] {
        a.ask("drop");
    }
    let _ = std::fs::remove_file(&w.path);
    out
}

// ----------------------------------------------------------------------------- slow scenarios
/// what a slow scenario did on the implementation (runs in its own thread with its own actors)
struct SlowReal {
    name: String,
    trace: Vec<String>,
    /// result of B's blocking call: "ok" | "fail"
    b_result: String,
    secs: f64,
    a_after: String,
    size_before: u64,
    size_after: u64,
    /// upgrade_timeout_retry: (model request, implementation's canonical answer) step by step
    steps: Vec<(String, String)>,
    /// … and the oracle's verdicts, from the implementation's observations alone: (signature, what)
    fails: Vec<(String, String)>,
}

/// A parks itself in shared mode, a reader R opens, A's mutation times out in the upgrade (~10 s),
/// R leaves, A retries the mutation; then a probe and a second writable open — all BEFORE any
/// commit of the handle under test.
fn slow_upgrade_real() -> SlowReal {
    let mut w = World::new();
    let ps = w.pstr();
    let mut tr = Vec::new();
    let mut steps: Vec<(String, String)> = Vec::new();
    let mut fails: Vec<(String, String)> = Vec::new();
    let t0 = std::time::Instant::now();
    // a committed, closed file; then the handle under test
    for c in [format!("create {ps}"), "put 0".into(), "commit".into(), "drop".into()] {
        tr.push(format!("impl  A {c} -> {}", w.a.ask(&c)));
    }
    let r = w.a.ask(&format!("open {ps}"));
    tr.push(format!("impl  A open -> {r}"));
    steps.push((format!("open 0 {MP}"), ok_of(&r).into()));
    let r = w.a.ask("downgrade");
    let o = w.a.ask("obs");
    tr.push(format!("impl  A downgrade_to_shared -> {r}   ({o})"));
    steps.push(("downgrade 0".into(), "ok".into()));
    steps.push(("obs 0".into(), canon_real_obs(&o)));
    let r = w.r.ask(&format!("openro {ps}"));
    tr.push(format!("impl  R open_read_only -> {r}"));
    steps.push((format!("openro 3 {MP}"), ok_of(&r).into()));
    let t1 = std::time::Instant::now();
    let r = w.a.ask("put 1");
    let o = w.a.ask("obs");
    tr.push(format!("impl  A put (upgrade while R holds the shared lock) -> {r}   ({:.1} s; {o})", t1.elapsed().as_secs_f64()));
    steps.push(("put 0".into(), ok_of(&r).into()));
    steps.push(("obs 0".into(), canon_real_obs(&o)));
    if r == "ok" {
        fails.push(("upgrade-granted-while-reader-holds-shared-lock".into(),
            format!("a mutation on a handle parked in shared mode succeeded while another process holds the shared lock ({o})")));
    }
    tr.push(format!("impl  R drop -> {}", w.r.ask("drop")));
    steps.push(("kill 3".into(), "ok".into()));
    let r = w.a.ask("put 2");
    let o = w.a.ask("obs");
    tr.push(format!("impl  A put (retry) -> {r}   ({o})"));
    steps.push(("put 0".into(), ok_of(&r).into()));
    steps.push(("obs 0".into(), canon_real_obs(&o)));
    let probe = w.p.ask(&format!("probe {ps}"));
    let pw = probe.split(' ').next().unwrap_or("?").to_string();
    steps.push((format!("probe {MP}"), pw.clone()));
    let b = w.b.ask(&format!("tryopen {ps}"));
    tr.push(format!("impl  P probe -> {probe}; B Memvid::try_open -> {b}"));
    steps.push((format!("tryopen 1 {MP}"), ok_of(&b).into()));
    // oracle: a handle that just completed a mutation holds an exclusive flock on the inode the
    // path names, and nobody else gets a writable handle while it is alive (no commit involved)
    if r == "ok" {
        let (p, l) = (field(&o, "pino"), field(&o, "lino"));
        if field(&o, "ro") != Some("0") || field(&o, "held") != Some("ex") || p != l {
            fails.push(("mutation-without-exclusive-lock".into(),
                format!("a handle that just completed a put (after a timed-out upgrade was retried) does not hold an exclusive flock on the file: {o}")));
        }
        if pw == "granted" {
            fails.push(("second-writer-admitted-while-handle-alive".into(),
                format!("writable handle alive (no commit since it was opened), yet flock(LOCK_EX|LOCK_NB) on the path was GRANTED to another process ({probe}; {o})")));
        }
        if b == "ok" {
            fails.push(("second-writer-admitted-while-handle-alive".into(),
                format!("writable handle alive (no commit since it was opened), yet a second Memvid::try_open of the path SUCCEEDED ({o})")));
        }
    }
    w.b.ask("drop");
    w.a.ask("drop");
    SlowReal { name: "upgrade_timeout_retry".into(), trace: tr, b_result: ok_of(&b).into(),
        secs: t0.elapsed().as_secs_f64(), a_after: o, size_before: 0, size_after: 0, steps, fails }
}

fn slow_real(name: &str) -> SlowReal {
    if name == "upgrade_timeout_retry" {
        return slow_upgrade_real();
    }
    let mut w = World::new();
    let ps = w.pstr();
    let mut tr = Vec::new();
    let mut say = |s: String| tr.push(s);
    say(format!("impl  A create -> {}", w.a.ask(&format!("create {ps}"))));
    say(format!("impl  A put -> {}", w.a.ask("put 0")));
    let committed_first = matches!(name, "open_after_commit");
    if committed_first {
        say(format!("impl  A commit -> {}", w.a.ask("commit")));
    }
    let size_before = std::fs::metadata(&w.path).map(|m| m.len()).unwrap_or(0);
    let t0 = std::time::Instant::now();
    let bcmd = if name == "create_refused" { "create" } else { "open" };
    w.b.send(&format!("{bcmd} {ps}"));
    if name == "open_waiting_commit" {
        // B is now inside lock_with_retry (200 attempts, 50 ms apart) on the inode the path named
        std::thread::sleep(std::time::Duration::from_millis(1500));
        say(format!("impl  A put (B waiting) -> {}", w.a.ask("put 1")));
        say(format!("impl  A commit (B waiting) -> {}", w.a.ask("commit")));
    }
    let r = w.b.recv();
    let secs = t0.elapsed().as_secs_f64();
    say(format!("impl  B Memvid::{bcmd} -> {r}   ({secs:.1} s)"));
    let size_after = std::fs::metadata(&w.path).map(|m| m.len()).unwrap_or(0);
    let a_after = w.a.ask("obs");
    let b_after = w.b.ask("obs");
    say(format!("impl  A obs -> {a_after}; B obs -> {b_after}; file length {size_before} -> {size_after}"));
    say(format!("impl  A put+commit afterwards -> {} {}", w.a.ask("put 2"), w.a.ask("commit")));
    w.b.ask("drop");
    w.a.ask("drop");
    SlowReal { name: name.into(), trace: tr, b_result: ok_of(&r).into(), secs, a_after, size_before, size_after,
        steps: Vec::new(), fails: Vec::new() }
}

fn slow_check(sr: SlowReal, m: &mut Model) -> Outcome {
    let mut out = Outcome::default();
    out.trace = sr.trace.clone();
    out.nontrivial = true;
    if sr.name == "upgrade_timeout_retry" {
        // no recorded finding applies here: nothing was committed by the handle under test
        out.violations = sr.fails.clone();
        if sr.fails.is_empty() {
            out.branches.push("slow-upgrade-timeout-then-retry-locks");
        }
        if m.drv.is_some() {
            m.ask("reset");
            m.ask("proto current");
            for c in [format!("create 0 {MP}"), "put 0".into(), "commit 0".into(), "drop 0".into()] {
                m.ask(&c);
            }
            for (req, real) in &sr.steps {
                let ans = m.ask(req).unwrap();
                let ans = if req.starts_with("obs") { canon_model_obs(&ans) } else { ans };
                out.trace.push(format!("  model {req} -> {ans}"));
                if &ans != real {
                    out.disagreements.push((format!("scenario upgrade_timeout_retry: {req}"), ans, real.clone()));
                }
            }
        }
        return out;
    }
    // oracle: A was alive and writable all along
    let mut admitted: Option<String> = None;
    if sr.b_result == "ok" {
        admitted = Some(format!("scenario {}: a second Memvid::{} of the path SUCCEEDED (after {:.1} s) while the first writable handle was alive ({})",
                sr.name, if sr.name == "create_refused" { "create" } else { "open" }, sr.secs, sr.a_after));
    } else {
        out.branches.push(match sr.name.as_str() {
            "open_before_commit" => "slow-open-refused-before-commit",
            "open_after_commit" => "slow-open-refused-after-commit",
            "open_waiting_commit" => "slow-waiting-opener-refused",
            _ => "slow-create-refused",
        });
    }
    if sr.name == "create_refused" && sr.size_after != sr.size_before {
        let what = format!("scenario create_refused: a Memvid::create that was refused ({}) changed the length of the file a live writer holds: {} -> {} bytes",
                sr.b_result, sr.size_before, sr.size_after);
        if sr.b_result == "fail" && sr.size_after == 0 && is_known(FINDING_TRUNC) {
            out.known.push((FINDING_TRUNC.into(), what));
            out.branches.push("known-refused-create-truncated");
        } else {
            out.violations.push((FINDING_TRUNC.into(), what));
        }
    } else if sr.name == "create_refused" {
        out.branches.push("refused-create-left-file-alone");
    }
    // model
    if m.drv.is_some() {
        m.ask("reset");
        m.ask("proto current");
        m.ask(&format!("create 0 {MP}"));
        m.ask("put 0");
        let ans = match sr.name.as_str() {
            "open_before_commit" => m.ask(&format!("open 1 {MP}")).unwrap(),
            "open_after_commit" => {
                m.ask("commit 0");
                m.ask(&format!("open 1 {MP}")).unwrap()
            }
            "create_refused" => m.ask(&format!("create 1 {MP}")).unwrap(),
            _ => {
                // B: open(2), first flock attempt refused; A: put, commit; B: the retry is granted on
                // the OLD inode, the identity check fails, B reopens and is refused until it gives up
                m.ask(&format!("m openfd 1 {MP} 0"));
                m.ask("m flockex 1");
                let mid = m.ask("obs 1").unwrap();
                m.ask("put 0");
                m.ask("commit 0");
                m.ask("m flockex 1");
                let granted = m.ask("obs 1").unwrap();
                m.ask("m validate 1");
                let after = m.ask("obs 1").unwrap();
                out.trace.push(format!("  model B after first attempt: {mid}"));
                out.trace.push(format!("  model B after A's commit + retry: {granted}"));
                out.trace.push(format!("  model B after identity check: {after}"));
                if after.contains("phase=live") {
                    "ok".into()
                } else if after == "none" {
                    // identity check failed: the opener reopens the path and is refused
                    m.ask(&format!("open 1 {MP}")).unwrap()
                } else {
                    // still refused on the descriptor it holds: every further attempt is refused too
                    // (the first handle keeps that lock), the opener gives up
                    m.ask("kill 1");
                    "fail".into()
                }
            }
        };
        out.trace.push(format!("  model second writer -> {ans}"));
        // the recorded finding: admitted only after the first handle's commit, exactly as the model
        // of the current protocol predicts
        if let Some(what) = admitted.take() {
            let a_stale = field(&sr.a_after, "pino") != field(&sr.a_after, "lino");
            if ans == "ok" && a_stale && sr.name == "open_after_commit" && is_known(FINDING_LOCK) {
                out.known.push((FINDING_LOCK.into(), format!("[second-writer-admitted-while-handle-alive] {what}")));
                out.branches.push("known-slow-open-admitted-after-commit");
            } else {
                out.violations.push(("second-writer-admitted-while-handle-alive".into(), what));
            }
        }
        if ans != sr.b_result {
            out.disagreements.push((format!("scenario {}: result of the second writable open", sr.name), ans, sr.b_result.clone()));
        }
        let ma = canon_model_obs(&m.ask("obs 0").unwrap());
        let ra = canon_real_obs(&sr.a_after);
        out.trace.push(format!("  model A: {ma}    impl A: {ra}"));
        if ma != ra {
            out.disagreements.push((format!("scenario {}: first handle's lock state", sr.name), ma, ra));
        }
    }
    if let Some(what) = admitted {
        out.violations.push(("second-writer-admitted-while-handle-alive".into(), what));
    }
    out
}

// ----------------------------------------------------------------------------- generators
fn gen_hist(rng: &mut Rng, len: usize) -> Vec<String> {
    let mut ops: Vec<String> = vec!["create".into()];
    let (mut alive, mut ro) = (true, false);
    let mut parked = false; // the generator's guess: A downgraded itself to shared mode
    while ops.len() < len {
        let op = if alive && parked && ro {
            *rng.pick(&["ro_drop", "ro_drop", "drop"])
        } else if alive && parked {
            *rng.pick(&["put", "commit", "ro_open", "downgrade", "drop", "put"])
        } else if alive {
            *rng.pick(&["put", "put", "commit", "commit", "commit", "vacuum", "drop", "doctor", "put", "downgrade"])
        } else if ro {
            *rng.pick(&["ro_drop", "tryopen", "ro_drop"])
        } else {
            *rng.pick(&["open", "tryopen", "create", "ro_open", "doctor", "open"])
        };
        match op {
            "drop" => { alive = false; parked = false }
            "open" | "create" => alive = true,
            "tryopen" => alive = !ro,
            "downgrade" => parked = true,
            "put" | "commit" | "vacuum" => parked = false,
            "ro_open" => ro = true,
            "ro_drop" => ro = false,
            _ => {}
        }
        ops.push(op.into());
    }
    ops
}

fn gen_two(rng: &mut Rng, len: usize) -> Vec<String> {
    let mut ops: Vec<String> = vec!["0:create".into()];
    // what the generator believes (a correct implementation never lets the second one in)
    let mut alive = [true, false];
    while ops.len() < len {
        let who = rng.below(2) as usize;
        let other = 1 - who;
        let op = if alive[who] {
            *rng.pick(&["put", "commit", "put", "commit", "drop", "vacuum"])
        } else {
            "tryopen"
        };
        match op {
            "drop" => alive[who] = false,
            "tryopen" => alive[who] = !alive[other],
            _ => {}
        }
        ops.push(format!("{who}:{op}"));
    }
    ops
}

/// all schedules of exactly `len` ops after "0:create" over {tryopen | put, commit, drop} per actor
fn enum_two(len: usize) -> Vec<Vec<String>> {
    fn rec(cur: &mut Vec<String>, alive: [bool; 2], left: usize, acc: &mut Vec<Vec<String>>) {
        if left == 0 {
            acc.push(cur.clone());
            return;
        }
        for who in 0..2usize {
            let choices: &[&str] = if alive[who] { &["put", "commit", "drop"] } else { &["tryopen"] };
            for op in choices {
                let mut al = alive;
                match *op {
                    "drop" => al[who] = false,
                    "tryopen" => al[who] = !alive[1 - who],
                    _ => {}
                }
                cur.push(format!("{who}:{op}"));
                rec(cur, al, left - 1, acc);
                cur.pop();
            }
        }
    }
    let mut acc = Vec::new();
    rec(&mut vec!["0:create".to_string()], [true, false], len, &mut acc);
    acc
}

// ----------------------------------------------------------------------------- main
fn strs(v: &Value) -> Vec<String> {
    v.as_array().map(|a| a.iter().filter_map(|x| x.as_str().map(String::from)).collect()).unwrap_or_default()
}

fn run_case(case: &Value, m: &mut Model, w: &mut World) -> Outcome {
    match case["kind"].as_str().unwrap_or("") {
        "hist" => run_hist(&strs(&case["ops"]), m, w),
        "two" => run_two(&strs(&case["ops"]), m, w),
        "slow" => slow_check(slow_real(case["scenario"].as_str().unwrap_or("open_after_commit")), m),
        _ => Outcome::default(),
    }
}

fn account(sum: &mut Summary, case: &Value, out: &Outcome) {
    for b in &out.branches {
        sum.branch(b);
    }
    for (sig, what) in &out.violations {
        sum.oracle_violation(sig, what, case.clone());
    }
    for (sig, what) in &out.known {
        sum.known_finding(sig, what, case.clone());
    }
    if out.violations.is_empty() {
        for (what, model, imp) in &out.disagreements {
            sum.disagreement(what, case.clone(), model, imp);
        }
    }
    let canon = case.to_string();
    sum.case(&canon, out.nontrivial, || json!({"case": case, "trace_tail": out.trace.iter().rev().take(4).rev().collect::<Vec<_>>()}));
}

fn main() {
    if std::env::args().nth(1).as_deref() == Some("actor") {
        actor_main();
        return;
    }
    let args = parse_args();
    let _ = KNOWN.set(args.extra.get("known").map(|k| k.split(',').map(|x| x.trim().to_string()).collect()).unwrap_or_default());
    let mut drv = if args.driver.as_os_str() == "none" { None } else {
        match Driver::spawn(&args.driver) {
            Ok(d) => Some(d),
            Err(e) => { eprintln!("cannot start driver {:?}: {e}", args.driver); std::process::exit(EXIT_ERROR); }
        }
    };
    let mut sum = Summary::new("C17", &args,
        "distinct histories (single-writer, two-writer, slow second-open scenarios) in which a path was renamed under a live writable handle or a second writer contended for it");
    sum.expect_branches(&[
        "commit-renamed-under-live-handle", "probe-refused-while-writer-alive", "tryopen-refused-while-writer-alive",
        "probe-granted-when-free", "doctor-lock-contention", "second-writer-refused", "reader-open",
        "slow-open-refused-before-commit", "slow-waiting-opener-refused", "slow-create-refused",
        "slow-upgrade-timeout-then-retry-locks", "downgraded-to-shared",
    ]);

    if args.mode == "replay" {
        let case = load_replay(args.replay_file.as_ref().expect("replay file"));
        let input = case.get("input").cloned().unwrap_or(case);
        let mut w = World::new();
        let mut m = Model { drv: drv.as_mut() };
        let out = run_case(&input, &mut m, &mut w);
        println!("replay of {input}");
        for l in &out.trace {
            println!("{l}");
        }
        for (sig, what) in &out.violations {
            println!("ORACLE VIOLATION [{sig}] {what}");
        }
        for (sig, what) in &out.known {
            println!("KNOWN FINDING [{sig}] (predicted by the model of the current protocol) {what}");
        }
        for (what, model, imp) in &out.disagreements {
            println!("DISAGREEMENT {what}\n   model: {model}\n   impl:  {imp}");
        }
        account(&mut sum, &input, &out);
        sum.model_requests = drv.as_ref().map(|d| d.requests).unwrap_or(0);
        sum.finish(&args);
    }

    // slow scenarios first, in parallel threads (each ~10 s: the refused open's retry loop)
    let slow_names = ["open_after_commit", "open_before_commit", "open_waiting_commit", "create_refused", "upgrade_timeout_retry"];
    let slow_threads: Vec<_> = slow_names.iter().map(|n| {
        let n = n.to_string();
        std::thread::spawn(move || slow_real(&n))
    }).collect();

    let mut rng = Rng::new(args.seed);
    let mut w = World::new();
    let t0 = std::time::Instant::now();
    let budget = if args.thorough { 14.0 * 60.0 } else { 45.0 };
    {
        let mut m = Model { drv: drv.as_mut() };
        // fixed corpus: the witness of the known defect first
        let corpus: Vec<Value> = vec![
            json!({"kind": "hist", "ops": ["create", "put", "commit"]}),
            json!({"kind": "hist", "ops": ["create", "put", "commit", "put", "commit", "doctor", "vacuum", "put", "drop", "open", "put", "commit", "commit"]}),
            json!({"kind": "hist", "ops": ["create", "doctor", "put", "doctor", "commit", "doctor", "drop", "doctor", "tryopen", "put", "commit", "drop"]}),
            json!({"kind": "hist", "ops": ["create", "put", "drop", "ro_open", "tryopen", "ro_drop", "tryopen", "put", "commit", "drop", "create", "put", "commit"]}),
            json!({"kind": "hist", "ops": ["create", "put", "commit", "drop", "open", "downgrade", "ro_open", "put", "ro_drop", "put", "downgrade", "put", "commit", "downgrade", "drop"]}),
            json!({"kind": "two", "ops": ["0:create", "1:tryopen", "0:put", "0:commit", "1:tryopen", "0:put", "0:commit", "1:tryopen", "0:drop", "1:tryopen", "1:put", "0:tryopen", "1:commit", "0:tryopen", "1:drop", "0:tryopen"]}),
            json!({"kind": "two", "ops": ["0:create", "0:put", "0:vacuum", "1:tryopen", "1:create", "0:put", "0:drop", "1:tryopen", "1:put", "1:commit", "0:tryopen"]}),
        ];
        for case in &corpus {
            let out = run_case(case, &mut m, &mut w);
            account(&mut sum, case, &out);
        }
        // exhaustive small two-writer schedules
        let max_len = if args.thorough { 5 } else { 2 };
        'outer: for len in 1..=max_len {
            for ops in enum_two(len) {
                let case = json!({"kind": "two", "ops": ops});
                let out = run_case(&case, &mut m, &mut w);
                account(&mut sum, &case, &out);
                if sum.oracle_violations.len() > 5 || t0.elapsed().as_secs_f64() > budget * 0.6 {
                    break 'outer;
                }
            }
        }
        // random histories
        let n_random = if args.thorough { 4000 } else { 60 };
        for k in 0..n_random {
            if t0.elapsed().as_secs_f64() > budget || sum.oracle_violations.len() > 5 {
                sum.notes.push(format!("random stream stopped after {k} cases (time budget / violations)"));
                break;
            }
            let case = if k % 2 == 0 {
                let len = rng.usize(3, if args.thorough { 16 } else { 10 });
                json!({"kind": "hist", "ops": gen_hist(&mut rng, len)})
            } else {
                let len = rng.usize(4, if args.thorough { 14 } else { 9 });
                json!({"kind": "two", "ops": gen_two(&mut rng, len)})
            };
            let out = run_case(&case, &mut m, &mut w);
            account(&mut sum, &case, &out);
        }
        // slow scenarios: join, then compare with the model
        for (n, t) in slow_names.iter().zip(slow_threads) {
            let case = json!({"kind": "slow", "scenario": n});
            match t.join() {
                Ok(sr) => {
                    let out = slow_check(sr, &mut m);
                    account(&mut sum, &case, &out);
                }
                Err(_) => sum.notes.push(format!("slow scenario {n} panicked in the harness")),
            }
        }
    }
    sum.model_requests = drv.as_ref().map(|d| d.requests).unwrap_or(0);
    sum.finish(&args);
}
