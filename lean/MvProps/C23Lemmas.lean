/-
  C23 helper development: low-equivalence of two executions of the same history under different oracle
  valuations (a non-interference argument), the engine invariant, and the per-region dependency lemmas.
-/
import MvModel.Determinism
namespace Mv.Det

/-! ## Erasure of oracle-tainted fields -/

/-- a WAL record without what an oracle put into it (tombstone timestamp: clock; segment names: rng + sched) -/
def Rec.low : Rec → Rec
  | .insert ts p u s => .insert ts p u s
  | .tombstone t _ => .tombstone t 0
  | .lexBatch ns => .lexBatch (if ns.isEmpty then [] else [0])

/-- low-equivalence: the two states agree on everything that is not an oracle value -/
structure Rel (a b : St) : Prop where
  lex : a.lex = b.lex
  frames : a.frames = b.frames
  pending : a.pending.map Rec.low = b.pending.map Rec.low
  pins : a.pendingInserts = b.pendingInserts
  wal : a.wal.map Rec.low = b.wal.map Rec.low
  cards : a.cards.map Card.low = b.cards.map Card.low
  enrich : a.enrich.map (·.1) = b.enrich.map (·.1)
  docs : a.docs = b.docs
  seq : a.seq = b.seq
  dirty : a.dirty = b.dirty
  tdirty : a.tantivyDirty = b.tantivyDirty
  lexw : a.lexWritten = b.lexWritten
  gen : a.gen = b.gen
  stale : a.stale = b.stale

/-- the layout on disk holds exactly the engine's documents, and no segment is empty -/
structure Inv (s : St) : Prop where
  perm : (flat s.segs).Perm s.docs
  nonempty : ∀ g ∈ s.segs, g.docs ≠ []

/-- the assumption about the black-box engine: the ranking is a function of the indexed documents, not of
    segment names or of how the documents are spread over segments -/
def EngineDet (E : Engine) : Prop := ∀ a b q, (flat a).Perm (flat b) → E a q = E b q

theorem Rel.refl (a : St) : Rel a a := ⟨rfl, rfl, rfl, rfl, rfl, rfl, rfl, rfl, rfl, rfl, rfl, rfl, rfl, rfl⟩

theorem map_isEmpty {α β} (f : α → β) (l : List α) : (l.map f).isEmpty = l.isEmpty := by cases l <;> rfl

theorem isEmpty_of_map_eq {α β γ} (f : α → γ) (g : β → γ) (l : List α) (m : List β) (h : l.map f = m.map g) :
    l.isEmpty = m.isEmpty := by
  have := congrArg List.isEmpty h
  simpa [map_isEmpty] using this

theorem length_of_map_eq {α β γ} (f : α → γ) (g : β → γ) (l : List α) (m : List β) (h : l.map f = m.map g) :
    l.length = m.length := by
  have := congrArg List.length h
  simpa using this

/-! ## apply_records ignores the tainted fields -/

theorem applyRec_low (fs : List Frame) (r : Rec) : applyRec fs r.low = applyRec fs r := by
  cases r <;> rfl

theorem applyRecs_low (fs : List Frame) (rs : List Rec) : applyRecs fs (rs.map Rec.low) = applyRecs fs rs := by
  unfold applyRecs
  induction rs generalizing fs with
  | nil => rfl
  | cons r rs ih => simp only [List.map_cons, List.foldl_cons, applyRec_low, ih]

theorem applyRecs_congr (fs : List Frame) (a b : List Rec) (h : a.map Rec.low = b.map Rec.low) :
    applyRecs fs a = applyRecs fs b := by
  rw [← applyRecs_low fs a, ← applyRecs_low fs b, h]

/-! ## layout -/

theorem splitDocs_perm (o : Oracles) (k : Nat) (ds : List Doc) :
    ((splitDocs o k ds).1 ++ (splitDocs o k ds).2).Perm ds := by
  induction ds generalizing k with
  | nil => exact List.Perm.refl _
  | cons d ds ih =>
    simp only [splitDocs]
    split
    · exact List.Perm.cons d (ih (k+1))
    · exact (List.perm_middle).trans (List.Perm.cons d (ih (k+1)))

theorem flat_mkSegs (o : Oracles) (ku : Nat) (ab : List Doc × List Doc) : flat (mkSegs o ku ab) = ab.1 ++ ab.2 := by
  obtain ⟨a, b⟩ := ab
  cases a <;> cases b <;> simp [flat, mkSegs]

theorem layout_perm (o : Oracles) (ku ks : Nat) (ds : List Doc) : (flat (layout o ku ks ds)).Perm ds := by
  unfold layout
  rw [flat_mkSegs]
  exact splitDocs_perm o ks ds

theorem mkSegs_nonempty (o : Oracles) (ku : Nat) (ab : List Doc × List Doc) : ∀ g ∈ mkSegs o ku ab, g.docs ≠ [] := by
  obtain ⟨a, b⟩ := ab
  intro g hg
  cases a <;> cases b <;> simp [mkSegs] at hg
  · subst hg; simp
  · subst hg; simp
  · rcases hg with hg | hg <;> subst hg <;> simp

theorem layout_nonempty (o : Oracles) (ku ks : Nat) (ds : List Doc) : ∀ g ∈ layout o ku ks ds, g.docs ≠ [] :=
  mkSegs_nonempty o ku _

/-- segments are empty exactly when the engine holds nothing -/
theorem segs_isEmpty_of_inv {s : St} (i : Inv s) : s.segs.isEmpty = s.docs.isEmpty := by
  cases hs : s.segs with
  | nil =>
    have hp := i.perm
    rw [hs] at hp
    have : s.docs = [] := by simpa [flat] using hp.symm.eq_nil
    simp [this]
  | cons g gs =>
    have hne : g.docs ≠ [] := i.nonempty g (by rw [hs]; exact List.mem_cons_self)
    have hp := i.perm
    rw [hs] at hp
    cases hd : s.docs with
    | nil =>
      rw [hd] at hp
      have : flat (g :: gs) = [] := hp.eq_nil
      simp [flat] at this
      exact absurd this.1 hne
    | cons d ds => rfl

theorem layout_isEmpty (o : Oracles) (ku ks : Nat) (ds : List Doc) : (layout o ku ks ds).isEmpty = ds.isEmpty := by
  have i : Inv { docs := ds, segs := layout o ku ks ds } := ⟨layout_perm o ku ks ds, layout_nonempty o ku ks ds⟩
  exact segs_isEmpty_of_inv i

/-! ## cards built by the extractor -/

theorem autoCards_low (o o' : Oracles) (k k' src : Nat) (t : List (Nat × Nat)) :
    (autoCards o k src t).map Card.low = (autoCards o' k' src t).map Card.low := by
  induction t generalizing k k' with
  | nil => rfl
  | cons x t ih =>
    obtain ⟨sk, v⟩ := x
    simp only [autoCards, List.map_cons, Card.low, if_true]
    rw [ih (k+1) (k'+1)]

/-! ## the engine invariant is preserved -/

theorem inv_create (lex : Bool) (o : Oracles) : Inv (create lex o) := by
  unfold create
  split <;> exact ⟨List.Perm.refl _, by intro g hg; cases hg⟩

theorem inv_commit (o : Oracles) (s : St) (i : Inv s) : Inv (commit o s) := by
  unfold commit
  split
  · exact i
  · simp only
    split
    · exact ⟨i.perm, i.nonempty⟩
    · split
      · exact ⟨layout_perm _ _ _ _, layout_nonempty _ _ _ _⟩
      · split <;> exact ⟨i.perm, i.nonempty⟩

theorem inv_dropCommit (o : Oracles) (s : St) (i : Inv s) : Inv (dropCommit o s) := by
  unfold dropCommit
  split
  · exact inv_commit o s i
  · exact i

theorem inv_openFile (o : Oracles) (s : St) (i : Inv s) : Inv (openFile o s) := by
  unfold openFile
  split
  · exact i
  · simp only
    split <;> exact ⟨i.perm, i.nonempty⟩

theorem inv_step (E : Engine) (o : Oracles) (s : St) (op : Op) (i : Inv s) : Inv (step E o s op).1 := by
  cases op with
  | put ts p u instant trip =>
    simp only [step]
    have h2 : Inv (if (instant && s.lex) = true then
        { s with pending := s.pending ++ [Rec.insert ts p u none], pendingInserts := s.pendingInserts + 1, wal := s.wal ++ [Rec.insert ts p u none], seq := s.seq + 1, dirty := true,
                 docs := s.docs ++ [{ id := s.frames.length + s.pendingInserts, ts := ts, text := p }],
                 segs := s.segs ++ [{ name := o.uuid s.kUuid, docs := [{ id := s.frames.length + s.pendingInserts, ts := ts, text := p }] }],
                 kUuid := s.kUuid + 1, tantivyDirty := true }
      else { s with pending := s.pending ++ [Rec.insert ts p u none], pendingInserts := s.pendingInserts + 1, wal := s.wal ++ [Rec.insert ts p u none], seq := s.seq + 1, dirty := true }) := by
      split
      · refine ⟨?_, ?_⟩
        · simp only [flat, List.flatMap_append, List.flatMap_cons, List.flatMap_nil, List.append_nil]
          exact List.Perm.append i.perm (List.Perm.refl _)
        · intro g hg
          simp only [List.mem_append, List.mem_singleton] at hg
          rcases hg with hg | hg
          · exact i.nonempty g hg
          · subst hg; simp
      · exact ⟨i.perm, i.nonempty⟩
    split
    · exact h2
    · exact ⟨h2.perm, h2.nonempty⟩
  | update id ts p =>
    simp only [step]
    split
    · exact i
    · split
      · exact i
      · exact ⟨i.perm, i.nonempty⟩
  | delete id =>
    simp only [step]
    split
    · exact i
    · split
      · exact i
      · exact ⟨i.perm, i.nonempty⟩
  | card sk v src created => exact ⟨i.perm, i.nonempty⟩
  | commit => exact inv_commit o s i
  | reopen =>
    simp only [step]
    exact inv_openFile o _ (inv_dropCommit o s i)
  | search q => exact i

/-! ## one step preserves low-equivalence and gives equal results -/

theorem rel_commit (o₁ o₂ : Oracles) (a b : St) (r : Rel a b) (ia : Inv a) (ib : Inv b) : Rel (commit o₁ a) (commit o₂ b) := by
  have hpe : a.pending.isEmpty = b.pending.isEmpty := isEmpty_of_map_eq _ _ _ _ r.pending
  have hce : a.cards.isEmpty = b.cards.isEmpty := isEmpty_of_map_eq _ _ _ _ r.cards
  have hfr : applyRecs a.frames a.pending = applyRecs b.frames b.pending := by
    rw [r.frames]; exact applyRecs_congr _ _ _ r.pending
  unfold commit
  rw [hpe, r.dirty, r.tdirty]
  split
  · exact r
  · simp only
    rw [r.lex]
    split
    · exact ⟨rfl, hfr, rfl, rfl, r.wal, r.cards, r.enrich, r.docs, r.seq, rfl, rfl, r.lexw, by simp [r.gen], by simp [r.stale, r.docs, r.gen, hce]⟩
    · split
      · refine ⟨rfl, hfr, rfl, rfl, ?_, r.cards, r.enrich, by rw [hfr], by simp [r.seq], rfl, rfl, rfl, by simp [r.gen], by simp [r.stale, r.docs, r.gen, hce]⟩
        simp only [List.map_append, List.map_cons, List.map_nil, Rec.low, map_isEmpty, layout_isEmpty, r.wal, hfr]
      · split
        · refine ⟨rfl, r.frames, r.pending, r.pins, ?_, r.cards, r.enrich, r.docs, by simp [r.seq], rfl, rfl, rfl, by simp [r.gen], by simp [r.stale, r.docs, r.gen, hce]⟩
          simp only [List.map_append, List.map_cons, List.map_nil, Rec.low, map_isEmpty, segs_isEmpty_of_inv ia, segs_isEmpty_of_inv ib, r.docs, r.wal]
        · exact ⟨rfl, r.frames, r.pending, r.pins, r.wal, r.cards, r.enrich, r.docs, r.seq, rfl, rfl, r.lexw, by simp [r.gen], by simp [r.stale, r.docs, r.gen, hce]⟩

theorem rel_dropCommit (o₁ o₂ : Oracles) (a b : St) (r : Rel a b) (ia : Inv a) (ib : Inv b) : Rel (dropCommit o₁ a) (dropCommit o₂ b) := by
  unfold dropCommit
  rw [r.dirty]
  split
  · exact rel_commit o₁ o₂ a b r ia ib
  · exact r

theorem search_eq (E : Engine) (hE : EngineDet E) (a b : St) (r : Rel a b) (ia : Inv a) (ib : Inv b) (q : Nat) :
    E a.segs q = E b.segs q := by
  apply hE
  have h2 : (flat b.segs).Perm a.docs := by rw [r.docs]; exact ib.perm
  exact ia.perm.trans h2.symm

theorem rel_openFile (o₁ o₂ : Oracles) (a b : St) (r : Rel a b) (ia : Inv a) (ib : Inv b) : Rel (openFile o₁ a) (openFile o₂ b) := by
  unfold openFile
  rw [r.lex]
  split
  · exact r
  · simp only
    rw [r.lexw]
    split
    · exact ⟨rfl, r.frames, r.pending, r.pins, r.wal, r.cards, r.enrich, r.docs, r.seq, r.dirty, rfl, rfl, r.gen, r.stale⟩
    · refine ⟨rfl, r.frames, r.pending, r.pins, ?_, r.cards, r.enrich, r.docs, by simp [r.seq], r.dirty, rfl, rfl, r.gen, r.stale⟩
      simp only [List.map_append, List.map_cons, List.map_nil, Rec.low, map_isEmpty, segs_isEmpty_of_inv ia, segs_isEmpty_of_inv ib, r.docs, r.wal]

set_option hygiene false in
/-- closes every field of a `Rel` goal between two updated states from the fields of `r : Rel a b` -/
local macro "rel_close" : tactic =>
  `(tactic| (constructor <;>
      simp only [List.map_append, List.map_cons, List.map_nil, Rec.low, r.lex, r.frames, r.pending, r.pins, r.wal, r.cards, r.enrich,
        r.docs, r.seq, r.dirty, r.tdirty, r.lexw, r.gen, r.stale, autoCards_low o₁ o₂ a.kClock b.kClock]))

theorem rel_step (E : Engine) (hE : EngineDet E) (o₁ o₂ : Oracles) (a b : St) (op : Op) (r : Rel a b) (ia : Inv a) (ib : Inv b) :
    Rel (step E o₁ a op).1 (step E o₂ b op).1 ∧ (step E o₁ a op).2 = (step E o₂ b op).2 := by
  cases op with
  | put ts p u instant trip =>
    simp only [step]
    rw [r.lex, r.seq]
    refine ⟨?_, rfl⟩
    cases instant && b.lex <;> cases trip.isEmpty <;>
      simp only [Bool.false_eq_true, if_false, if_true] <;> rel_close
  | update id ts p =>
    simp only [step]
    rw [r.frames]
    cases hf : b.frames[id]? with
    | none => exact ⟨r, rfl⟩
    | some f =>
      simp only
      by_cases hs : f.status ≠ .active
      · rw [if_pos hs, if_pos hs]; exact ⟨r, rfl⟩
      · rw [if_neg hs, if_neg hs, r.seq]
        refine ⟨?_, rfl⟩
        rel_close
  | delete id =>
    simp only [step]
    rw [r.frames]
    cases hf : b.frames[id]? with
    | none => exact ⟨r, rfl⟩
    | some f =>
      simp only
      by_cases hs : f.status ≠ .active
      · rw [if_pos hs, if_pos hs]; exact ⟨r, rfl⟩
      · rw [if_neg hs, if_neg hs, r.seq]
        refine ⟨?_, rfl⟩
        rel_close
  | card sk v src created =>
    simp only [step]
    refine ⟨?_, ?_⟩
    · rel_close
    · rw [length_of_map_eq _ _ _ _ r.cards]
  | commit => exact ⟨rel_commit o₁ o₂ a b r ia ib, rfl⟩
  | reopen =>
    simp only [step]
    exact ⟨rel_openFile o₁ o₂ _ _ (rel_dropCommit o₁ o₂ a b r ia ib) (inv_dropCommit o₁ a ia) (inv_dropCommit o₂ b ib), trivial⟩
  | search q =>
    simp only [step]
    exact ⟨r, by rw [search_eq E hE a b r ia ib q]⟩

theorem rel_runFrom (E : Engine) (hE : EngineDet E) (o₁ o₂ : Oracles) (h : List Op) (a b : St) (r : Rel a b) (ia : Inv a) (ib : Inv b) :
    Rel (runFrom E o₁ a h).1 (runFrom E o₂ b h).1 ∧ (runFrom E o₁ a h).2 = (runFrom E o₂ b h).2
    ∧ Inv (runFrom E o₁ a h).1 ∧ Inv (runFrom E o₂ b h).1 := by
  induction h generalizing a b with
  | nil => exact ⟨r, rfl, ia, ib⟩
  | cons op ops ih =>
    simp only [runFrom]
    have hs := rel_step E hE o₁ o₂ a b op r ia ib
    have := ih _ _ hs.1 (inv_step E o₁ a op ia) (inv_step E o₂ b op ib)
    exact ⟨this.1, by rw [hs.2, this.2.1], this.2.2⟩

theorem rel_create (lex : Bool) (o₁ o₂ : Oracles) : Rel (create lex o₁) (create lex o₂) := by
  unfold create
  split <;> exact ⟨rfl, rfl, rfl, rfl, rfl, rfl, rfl, rfl, rfl, rfl, rfl, rfl, rfl, rfl⟩

theorem rel_run (E : Engine) (hE : EngineDet E) (lex : Bool) (o₁ o₂ : Oracles) (h : List Op) :
    Rel (run E lex o₁ h).1 (run E lex o₂ h).1 ∧ (run E lex o₁ h).2 = (run E lex o₂ h).2
    ∧ Inv (run E lex o₁ h).1 ∧ Inv (run E lex o₂ h).1 :=
  rel_runFrom E hE o₁ o₂ h _ _ (rel_create lex o₁ o₂) (inv_create lex o₁) (inv_create lex o₂)

theorem rel_final (E : Engine) (hE : EngineDet E) (lex : Bool) (o₁ o₂ : Oracles) (h : List Op) :
    Rel (final E lex o₁ h) (final E lex o₂ h) ∧ Inv (final E lex o₁ h) ∧ Inv (final E lex o₂ h) := by
  have := rel_run E hE lex o₁ o₂ h
  exact ⟨rel_dropCommit o₁ o₂ _ _ this.1 this.2.2.1 this.2.2.2, inv_dropCommit _ _ this.2.2.1, inv_dropCommit _ _ this.2.2.2⟩

theorem observe_eq (E : Engine) (hE : EngineDet E) (qs : List Nat) (a b : St) (r : Rel a b) (ia : Inv a) (ib : Inv b) :
    observe E qs a = observe E qs b := by
  unfold observe
  rw [r.frames, r.cards]
  congr 1
  exact List.map_congr_left (fun q _ => search_eq E hE a b r ia ib q)

/-! ## per-region dependency on the oracles -/

/-- the only assumption about `HashMap` iteration: with at most one key there is only one order -/
def HashLaw (X : Enc) : Prop := ∀ (s s' : Nat) (ks : List Nat), ks.length ≤ 1 → X.hashOrder s ks = X.hashOrder s' ks

theorem rec_eq_of_low (r r' : Rec) (h : r.low = r'.low) (hc : r.clean = true) : r = r' := by
  cases r with
  | insert ts p u sup =>
    cases r' with
    | insert ts' p' u' sup' => simpa [Rec.low] using h
    | tombstone t x => simp [Rec.low] at h
    | lexBatch ns => simp [Rec.low] at h
  | tombstone t x => simp [Rec.clean] at hc
  | lexBatch ns =>
    have hns : ns = [] := by cases ns with | nil => rfl | cons x xs => simp [Rec.clean] at hc
    subst hns
    cases r' with
    | insert ts' p' u' sup' => simp [Rec.low] at h
    | tombstone t x => simp [Rec.low] at h
    | lexBatch ns' =>
      cases ns' with
      | nil => rfl
      | cons x xs => simp [Rec.low] at h

theorem recs_eq_of_low (a b : List Rec) (h : a.map Rec.low = b.map Rec.low) (hc : a.all Rec.clean = true) : a = b := by
  induction a generalizing b with
  | nil => cases b with | nil => rfl | cons y ys => simp at h
  | cons x xs ih =>
    cases b with
    | nil => simp at h
    | cons y ys =>
      simp only [List.map_cons, List.cons.injEq] at h
      simp only [List.all_cons, Bool.and_eq_true] at hc
      rw [rec_eq_of_low x y h.1 hc.1, ih ys h.2 hc.2]

theorem card_eq_of_low (c c' : Card) (h : c.low = c'.low) (hc : c.auto = false) : c = c' := by
  unfold Card.low at h
  rw [hc] at h
  simp only [Bool.false_eq_true, if_false] at h
  by_cases h' : c'.auto = true
  · rw [if_pos h'] at h
    have := congrArg Card.auto h
    simp [hc, h'] at this
  · rw [if_neg h'] at h; exact h

theorem cards_eq_of_low (a b : List Card) (h : a.map Card.low = b.map Card.low) (hc : a.any (·.auto) = false) : a = b := by
  induction a generalizing b with
  | nil => cases b with | nil => rfl | cons y ys => simp at h
  | cons x xs ih =>
    cases b with
    | nil => simp at h
    | cons y ys =>
      simp only [List.map_cons, List.cons.injEq] at h
      simp only [List.any_cons, Bool.or_eq_false_iff] at hc
      rw [card_eq_of_low x y h.1 hc.1, ih ys h.2 hc.2]

theorem wal_eq {a b : St} (r : Rel a b) (h : walTainted a = false) : a.wal = b.wal := by
  apply recs_eq_of_low _ _ r.wal
  simpa [walTainted] using h

theorem segs_nil {s : St} (i : Inv s) (h : s.docs.isEmpty = true) : s.segs = [] := by
  have := segs_isEmpty_of_inv i
  rw [h] at this
  exact List.isEmpty_iff.mp this

theorem lex_eq (X : Enc) {a b : St} (r : Rel a b) (ia : Inv a) (ib : Inv b) (h : lexTainted a = false) :
    a.segs = b.segs ∧ lexRegion X (a.lex && a.lexWritten) a.segs = lexRegion X (b.lex && b.lexWritten) b.segs := by
  have ha : a.docs.isEmpty = true := by simpa [lexTainted] using h
  have hb : b.docs.isEmpty = true := by rw [← r.docs]; exact ha
  rw [segs_nil ia ha, segs_nil ib hb, r.lex, r.lexw]
  exact ⟨rfl, rfl⟩

theorem mem_eq (X : Enc) (hX : HashLaw X) (o₁ o₂ : Oracles) {a b : St} (r : Rel a b) (h : memTainted a = false) :
    memoriesRegion X o₁ a = memoriesRegion X o₂ b := by
  have hce : a.cards.isEmpty = b.cards.isEmpty := isEmpty_of_map_eq _ _ _ _ r.cards
  unfold memoriesRegion
  rw [← hce]
  cases he : a.cards.isEmpty with
  | true => rfl
  | false =>
    simp only [memTainted, he, Bool.not_false, Bool.true_and, Bool.or_eq_false_iff, Bool.not_eq_false', decide_eq_false_iff_not,
      Nat.not_lt] at h
    obtain ⟨⟨hauto, hen⟩, hslots⟩ := h
    have hcards : a.cards = b.cards := cards_eq_of_low _ _ r.cards hauto
    have hena : a.enrich = [] := List.isEmpty_iff.mp hen
    have henb : b.enrich = [] := by
      have := length_of_map_eq _ _ _ _ r.enrich
      rw [hena] at this
      exact List.eq_nil_of_length_eq_zero this.symm
    simp only [Bool.false_eq_true, if_false]
    rw [← hcards, hena, henb, hX o₁.hashSeed o₂.hashSeed _ hslots, hX o₁.hashSeed o₂.hashSeed (enrichKeys []) (by simp [enrichKeys, dedup])]

theorem time_eq (X : Enc) {a b : St} (r : Rel a b) : timeRegion X a = timeRegion X b := by
  unfold timeRegion; rw [r.frames]

theorem sketch_eq (X : Enc) {a b : St} (r : Rel a b) : sketchRegion X a = sketchRegion X b := by
  unfold sketchRegion; rw [r.frames, r.lex]

theorem toc_eq (X : Enc) (hX : HashLaw X) (o₁ o₂ : Oracles) {a b : St} (r : Rel a b) (ia : Inv a) (ib : Inv b)
    (h : tocTainted a = false) : tocRegion X o₁ a = tocRegion X o₂ b := by
  simp only [tocTainted, Bool.or_eq_false_iff] at h
  have hl := lex_eq X r ia ib h.1
  unfold tocRegion
  rw [r.frames, hl.2, hl.1, time_eq X r, mem_eq X hX o₁ o₂ r h.2, sketch_eq X r, r.gen, r.seq]

/-- a region outside `mayDiffer` has the same bytes whatever the oracles were -/
theorem region_eq (X : Enc) (hX : HashLaw X) (o₁ o₂ : Oracles) (a b : St) (r : Rel a b) (ia : Inv a) (ib : Inv b)
    (k : Kind) (hk : k ∉ mayDiffer a) : region X o₁ a k = region X o₂ b k := by
  have htoc : k = .toc ∨ k = .footer ∨ k = .header → tocTainted a = false := by
    intro hk'
    cases h : tocTainted a with
    | false => rfl
    | true =>
      exfalso; apply hk
      rcases hk' with rfl | rfl | rfl <;> simp [mayDiffer, h]
  cases k with
  | header => simp only [region]; rw [toc_eq X hX o₁ o₂ r ia ib (htoc (.inr (.inr rfl))), r.seq, r.gen]
  | wal =>
    have : walTainted a = false := by
      cases h : walTainted a with
      | false => rfl
      | true => exfalso; apply hk; simp [mayDiffer, h]
    simp only [region]; rw [wal_eq r this]
  | payload => simp only [region]; rw [r.frames]
  | time => exact time_eq X r
  | lex =>
    have : lexTainted a = false := by
      cases h : lexTainted a with
      | false => rfl
      | true => exfalso; apply hk; simp [mayDiffer, h]
    exact (lex_eq X r ia ib this).2
  | memories =>
    have : memTainted a = false := by
      cases h : memTainted a with
      | false => rfl
      | true => exfalso; apply hk; simp [mayDiffer, h]
    exact mem_eq X hX o₁ o₂ r this
  | sketch => exact sketch_eq X r
  | toc => exact toc_eq X hX o₁ o₂ r ia ib (htoc (.inl rfl))
  | footer => simp only [region]; rw [toc_eq X hX o₁ o₂ r ia ib (htoc (.inr (.inl rfl))), r.gen]
  | gap => rfl

/-- `mayDiffer` itself does not depend on the oracles -/
theorem mayDiffer_eq {a b : St} (r : Rel a b) : mayDiffer a = mayDiffer b := by
  have hw : walTainted a = walTainted b := by
    unfold walTainted
    have h1 : ∀ l : List Rec, (l.map Rec.low).all Rec.clean = l.all Rec.clean := by
      intro l; induction l with
      | nil => rfl
      | cons x xs ih =>
        simp only [List.map_cons, List.all_cons, ih]
        congr 1
        cases x with
        | insert => rfl
        | tombstone => rfl
        | lexBatch ns => cases ns <;> rfl
    rw [← h1 a.wal, ← h1 b.wal, r.wal]
  have hl : lexTainted a = lexTainted b := by unfold lexTainted; rw [r.docs]
  have hauto : ∀ l : List Card, (l.map Card.low).any (·.auto) = l.any (·.auto) := by
    intro l; induction l with
    | nil => rfl
    | cons x xs ih =>
      simp only [List.map_cons, List.any_cons, ih]
      congr 1
      unfold Card.low; split <;> rfl
  have hkeys : ∀ l : List Card, (l.map Card.low).map (·.slotKey) = l.map (·.slotKey) := by
    intro l; induction l with
    | nil => rfl
    | cons x xs ih =>
      simp only [List.map_cons, ih]
      congr 1
      unfold Card.low; split <;> rfl
  have hm : memTainted a = memTainted b := by
    unfold memTainted slotKeys
    rw [isEmpty_of_map_eq _ _ _ _ r.cards, ← hauto a.cards, ← hauto b.cards, r.cards, isEmpty_of_map_eq _ _ _ _ r.enrich,
      ← hkeys a.cards, ← hkeys b.cards, r.cards]
  unfold mayDiffer tocTainted
  rw [hw, hl, hm, r.stale]

theorem flatMap_congr' {α β} (l : List α) (f g : α → List β) (h : ∀ x ∈ l, f x = g x) : l.flatMap f = l.flatMap g := by
  induction l with
  | nil => rfl
  | cons x xs ih =>
    simp only [List.flatMap_cons]
    rw [h x List.mem_cons_self, ih (fun y hy => h y (List.mem_cons_of_mem _ hy))]

/-! ## histories that never consult an oracle (lexical index disabled) -/

def quietOp : Op → Bool
  | .put _ _ _ _ trip => trip.isEmpty
  | .update .. => true
  | .delete .. => false
  | .card .. => false
  | .commit => true
  | .reopen => true
  | .search .. => true

structure Quiet (s : St) : Prop where
  lex : s.lex = false
  wal : s.wal.all Rec.clean = true
  pending : s.pending.all Rec.clean = true
  cards : s.cards = []
  enrich : s.enrich = []
  docs : s.docs = []
  stale : s.stale = false

theorem quiet_commit (o : Oracles) (s : St) (q : Quiet s) : Quiet (commit o s) := by
  unfold commit
  split
  · exact q
  · simp only [q.lex, Bool.not_false, if_true]
    exact ⟨rfl, q.wal, rfl, q.cards, q.enrich, q.docs, by simp [q.stale, q.docs, q.cards]⟩

theorem quiet_dropCommit (o : Oracles) (s : St) (q : Quiet s) : Quiet (dropCommit o s) := by
  unfold dropCommit
  split
  · exact quiet_commit o s q
  · exact q

theorem quiet_step (E : Engine) (o : Oracles) (s : St) (op : Op) (q : Quiet s) (hq : quietOp op = true) : Quiet (step E o s op).1 := by
  cases op with
  | put ts p u instant trip =>
    simp only [quietOp] at hq
    simp only [step, q.lex, Bool.and_false, Bool.false_eq_true, if_false, hq, if_true]
    exact ⟨rfl, by simp [q.wal, Rec.clean], by simp [q.pending, Rec.clean], q.cards, q.enrich, q.docs, q.stale⟩
  | update id ts p =>
    simp only [step]
    split
    · exact q
    · split
      · exact q
      · exact ⟨q.lex, by simp [q.wal, Rec.clean], by simp [q.pending, Rec.clean], q.cards, q.enrich, q.docs, q.stale⟩
  | delete id => simp [quietOp] at hq
  | card sk v src created => simp [quietOp] at hq
  | commit => exact quiet_commit o s q
  | reopen =>
    simp only [step, openFile]
    have := quiet_dropCommit o s q
    rw [this.lex]
    exact this
  | search q' => exact q

theorem quiet_runFrom (E : Engine) (o : Oracles) (h : List Op) (s : St) (q : Quiet s) (hq : h.all quietOp = true) :
    Quiet (runFrom E o s h).1 := by
  induction h generalizing s with
  | nil => exact q
  | cons op ops ih =>
    simp only [List.all_cons, Bool.and_eq_true] at hq
    simp only [runFrom]
    exact ih _ (quiet_step E o s op q hq.1) hq.2

theorem quiet_final (E : Engine) (o : Oracles) (h : List Op) (hq : h.all quietOp = true) : Quiet (final E false o h) := by
  apply quiet_dropCommit
  apply quiet_runFrom E o h _ _ hq
  exact ⟨rfl, rfl, rfl, rfl, rfl, rfl, rfl⟩

theorem mayDiffer_quiet {s : St} (q : Quiet s) : mayDiffer s = [] := by
  simp [mayDiffer, walTainted, lexTainted, memTainted, tocTainted, q.wal, q.docs, q.cards, q.stale]

end Mv.Det
