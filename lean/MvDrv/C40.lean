/- Driver for C40: the Core model's line protocol (see MvModel/CoreDrv.lean for the requests) with the
   bulk-ingestion operations as `/verif/fixes/C40.diff` repairs them (MvModel/Bulk.lean):
     skip                → Mem.commitSkipIndexesR
     finalize ft=<n>     → Mem.finalizeIndexesR
     lexn                → number of documents the lexical engine holds (`lexDocs.length`)
     lex                 → the engine's frame ids, sorted (`-` when empty)
     obs / head          → `Core.obs` / `Core.obsHead` with the sketch ids sorted (the harness prints the
                           real sketch track sorted; after the repaired `finalize_indexes` the track's
                           insertion order need not be ascending)
     reopen / crash      → `drvStep`, then the footer catches up with the trace input when the WAL replay
                           re-persisted a non-empty sketch track (recover_wal: `persist_sketch_track`
                           moves `footer_offset`; idempotent once Core.lean's `recoverWal` does it itself)
   every other request goes to `Mv.Core.drvStep` unchanged. -/
import MvModel.CoreDrv
import MvModel.Bulk
open Mv.Core

def c40Step (m : Mem) (ws : List String) : Mem × String :=
  match ws with
  | "skip" :: rest =>
    let kv := kvs rest
    let r := m.commitSkipIndexesR
    (r.1.setWalSize (getN kv "ws" r.1.walSize), showOut r.2)
  | "finalize" :: rest =>
    let kv := kvs rest
    let r := m.finalizeIndexesR (getN kv "ft")
    (r.1.setWalSize (getN kv "ws" r.1.walSize), showOut r.2)
  | ["lexn"] => (m, toString m.lexDocs.length)
  | ["lex"] => (m, showNats (sortBy natLe m.lexDocs))
  | ["obs"] => (m, obs { m with sketch := sortBy natLe m.sketch })
  | ["head"] => (m, obsHead { m with sketch := sortBy natLe m.sketch })
  | "reopen" :: rest =>
    let r := drvStep m ws
    let replayed := !(m.dropHandle (getN (kvs rest) "ftd")).pending.isEmpty
    (if replayed && !r.1.sketch.isEmpty then { r.1 with footer := max r.1.footer (getN (kvs rest) "fto") } else r.1, r.2)
  | "crash" :: rest =>
    let r := drvStep m ws
    (if !m.pending.isEmpty && !r.1.sketch.isEmpty then { r.1 with footer := max r.1.footer (getN (kvs rest) "ft") } else r.1, r.2)
  | _ => drvStep m ws

def main : IO Unit := Mv.runDriver Mem.create c40Step
