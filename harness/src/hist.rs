//! Shared history machinery for the Core family (C01, C06, C07, C08, C14, C24, C26, C40, C42 …):
//! operation histories over the real `Memvid` API on a temp .mv2 file, canonical observations,
//! and the line protocol to the Lean Core model driver.  Owned by the Core agent.
//!
//! Layout
//!   * `Op` (+ `PutSpec`, `UpdSpec`, `PayloadSpec`, `EmbSpec`) — one API call, serialisable (replays).
//!   * `World` — the real handle on a tempdir file + the independent Rust reference model
//!     (`RefModel`: what a client expects from its acknowledged calls) + bookkeeping of known tokens.
//!   * `World::exec(op)` — runs the call on the real code, observes what only the implementation can
//!     know (did the automatic checkpoint fire, footer position, WAL size, …) and returns the
//!     acknowledgement, the driver request line (op + trace inputs) and the observation.
//!   * `Obs` — structured observation of the real handle; `Obs::line()` prints it in EXACTLY the format
//!     of the Lean model's `Core.obs`.
//!   * `gen_op` — online generator (needs the current observation to aim ids / capacities).
//!   * `run_history` — executes a history on both sides, compares after every op, evaluates oracles.
//!   * `run_family` — the whole `main` of a Core-family bin: CLI, corpus, generation, shrinking,
//!     replay files, summary.  A dependent property only supplies its `Oracle` closure and profile.
#![allow(clippy::too_many_arguments)]

use crate::*;
use memvid_core::verif_hooks::{self, VerifIndexState, VerifState};
use memvid_core::{
    DoctorOptions, Frame, FrameRole, FrameStatus, Memvid, MemvidError, PutManyOpts, PutOptions, Ticket,
};
use serde::{Deserialize, Serialize};
use std::collections::{BTreeMap, HashMap};
use std::path::PathBuf;

pub const WAL_OFFSET: u64 = 4096;

// ---------------------------------------------------------------------------------------
// payloads and embeddings: deterministic functions of a small spec

#[derive(Clone, Copy, Debug, PartialEq, Eq, Serialize, Deserialize)]
pub enum PayloadKind {
    Empty,
    /// arbitrary bytes with a high bit set somewhere (never valid UTF-8 for len >= 1)
    Bin,
    Zero,
    /// pseudo-random bytes
    Rand,
    /// ASCII prose of exactly `len` characters
    Ascii,
    /// prose with multi-byte UTF-8 characters, exactly `len` characters
    Utf8,
    /// markdown table / code block text of about `len` characters (structural chunker)
    Table,
}

#[derive(Clone, Debug, PartialEq, Eq, Serialize, Deserialize)]
pub struct PayloadSpec {
    pub kind: PayloadKind,
    pub len: usize,
    pub seed: u64,
}

const WORDS: &[&str] = &[
    "alpha", "bravo", "charlie", "delta", "echo", "foxtrot", "golf", "hotel", "india", "juliet", "kilo", "lima",
    "memory", "frame", "ledger", "orbit", "quartz", "river", "signal", "tundra", "umbra", "vector", "willow", "xenon",
    "Alice", "works", "at", "Acme", "lives", "in", "Paris", "likes", "tea", "is", "the", "manager", "of", "Berlin",
];
const UWORDS: &[&str] = &["naïve", "café", "über", "日本語", "данные", "señor", "crème", "Ω", "façade", "🙂", "miljø", "żółć"];

impl PayloadSpec {
    pub fn new(kind: PayloadKind, len: usize, seed: u64) -> Self {
        PayloadSpec { kind, len, seed }
    }
    pub fn bytes(&self) -> Vec<u8> {
        let mut r = Rng::new(self.seed ^ 0x5eed_5eed);
        match self.kind {
            PayloadKind::Empty => vec![],
            PayloadKind::Bin => {
                let mut v = r.bytes(self.len);
                if let Some(b) = v.first_mut() {
                    *b = 0xff; // 0xff never occurs in UTF-8
                }
                v
            }
            PayloadKind::Zero => vec![0u8; self.len],
            PayloadKind::Rand => {
                let mut v = r.bytes(self.len);
                if let Some(b) = v.last_mut() {
                    *b = 0xfe;
                }
                v
            }
            PayloadKind::Ascii | PayloadKind::Utf8 => {
                let mut s = String::new();
                let mut n = 0usize;
                let mut sentence = 0usize;
                while n < self.len {
                    let w: &str = if self.kind == PayloadKind::Utf8 && r.chance(1, 3) {
                        *r.pick(UWORDS)
                    } else {
                        *r.pick(WORDS)
                    };
                    for c in w.chars() {
                        if n < self.len {
                            s.push(c);
                            n += 1;
                        }
                    }
                    if n < self.len {
                        sentence += 1;
                        let sep = if sentence % 9 == 0 { '.' } else { ' ' };
                        s.push(sep);
                        n += 1;
                        if sep == '.' && n < self.len {
                            s.push(if sentence % 27 == 0 { '\n' } else { ' ' });
                            n += 1;
                        }
                    }
                }
                // never end in whitespace: normalisation would trim it and the length aim would be off
                while s.ends_with(' ') || s.ends_with('\n') {
                    s.pop();
                    s.push('x');
                }
                s.into_bytes()
            }
            PayloadKind::Table => {
                let mut s = String::from("# Report\n\n| name | city | score |\n|---|---|---|\n");
                let mut i = 0;
                while s.chars().count() < self.len {
                    s.push_str(&format!("| {} | {} | {} |\n", r.pick(WORDS), r.pick(WORDS), r.below(1000)));
                    i += 1;
                    if i % 40 == 0 {
                        s.push_str("\n```rust\nfn main() { println!(\"hello\"); }\n```\n\n| name | city | score |\n|---|---|---|\n");
                    }
                }
                s.into_bytes()
            }
        }
    }
}

#[derive(Clone, Debug, PartialEq, Eq, Serialize, Deserialize)]
pub struct EmbSpec {
    pub dim: usize,
    pub seed: u64,
}
impl EmbSpec {
    pub fn vector(&self) -> Vec<f32> {
        let mut r = Rng::new(self.seed ^ 0xe0b0_e0b0);
        (0..self.dim).map(|_| (r.below(2001) as f32 - 1000.0) / 256.0).collect()
    }
}

/// token of a byte string: `E` when empty, else the first 16 hex digits of its blake3
pub fn tok(b: &[u8]) -> String {
    if b.is_empty() { "E".into() } else { b3short(b) }
}
/// token of an embedding = first 16 hex digits of blake3 of its f32 little-endian bytes
pub fn emb_tok(v: &[f32]) -> String {
    let mut bytes = Vec::with_capacity(v.len() * 4);
    for x in v {
        bytes.extend_from_slice(&x.to_le_bytes());
    }
    b3short(&bytes)
}

// ---------------------------------------------------------------------------------------
// operations

#[derive(Clone, Debug, PartialEq, Eq, Serialize, Deserialize)]
pub struct PutSpec {
    pub payload: PayloadSpec,
    pub ts: i64,
    pub uri: Option<String>,
    pub kind: Option<String>,
    pub track: Option<String>,
    pub tags: Vec<String>,
    pub labels: Vec<String>,
    /// 0 = Document, 1 = DocumentChunk, 2 = ExtractedImage
    pub role: u8,
    pub emb: Option<EmbSpec>,
    /// `Some` → `put_with_chunk_embeddings`
    pub chunk_embs: Option<Vec<EmbSpec>>,
    pub instant_index: bool,
    pub enable_embedding: bool,
    pub auto_tag: bool,
    pub extract_dates: bool,
    pub extract_triplets: bool,
}

impl PutSpec {
    pub fn simple(payload: PayloadSpec, ts: i64) -> Self {
        PutSpec {
            payload, ts, uri: None, kind: None, track: None, tags: vec![], labels: vec![], role: 0, emb: None,
            chunk_embs: None, instant_index: false, enable_embedding: false, auto_tag: false, extract_dates: false,
            extract_triplets: false,
        }
    }
}

#[derive(Clone, Debug, PartialEq, Eq, Serialize, Deserialize, Default)]
pub struct UpdSpec {
    pub id: u64,
    pub payload: Option<PayloadSpec>,
    pub ts: Option<i64>,
    pub uri: Option<String>,
    pub kind: Option<String>,
    pub track: Option<String>,
    pub tags: Vec<String>,
    pub labels: Vec<String>,
    pub role: u8,
    pub emb: Option<EmbSpec>,
    pub instant_index: bool,
    pub extract_triplets: bool,
}

#[derive(Clone, Debug, PartialEq, Eq, Serialize, Deserialize)]
pub enum Op {
    Put(PutSpec),
    Update(UpdSpec),
    Delete { id: u64 },
    Commit,
    /// drop the handle (commits when dirty) and open again
    Reopen,
    /// the process dies: no Drop, descriptors closed; the next open replays the WAL
    Crash,
    /// drop, open read-only, observe, drop, open exclusively again
    ReadOnly,
    BeginBatch { disable_auto_checkpoint: bool, skip_sync: bool, compression_level: i32, presize: u64 },
    EndBatch,
    CommitSkip,
    Finalize,
    Vacuum,
    /// drop, `Memvid::doctor`, open
    Doctor { vacuum: bool, rebuild_time: bool, rebuild_lex: bool, rebuild_vec: bool },
    /// `apply_ticket`; `capacity` absolute bytes
    Ticket { seq_no: i64, capacity: Option<u64>, issuer: String },
}

impl Op {
    pub fn name(&self) -> &'static str {
        match self {
            Op::Put(_) => "put", Op::Update(_) => "update", Op::Delete { .. } => "delete", Op::Commit => "commit",
            Op::Reopen => "reopen", Op::Crash => "crash", Op::ReadOnly => "readonly", Op::BeginBatch { .. } => "batch",
            Op::EndBatch => "endbatch", Op::CommitSkip => "skip", Op::Finalize => "finalize", Op::Vacuum => "vacuum",
            Op::Doctor { .. } => "doctor", Op::Ticket { .. } => "ticket",
        }
    }
}

#[derive(Clone, Debug, PartialEq, Eq)]
pub enum Ack {
    Ok,
    Seq(u64),
    /// (kind as the model prints it, detail)
    Err(String, String),
}
impl Ack {
    pub fn is_ok(&self) -> bool { !matches!(self, Ack::Err(..)) }
    pub fn line(&self) -> String {
        match self {
            Ack::Ok => "ok".into(),
            Ack::Seq(s) => format!("ok {s}"),
            Ack::Err(k, _) => format!("err {k}"),
        }
    }
}

pub fn map_err(e: &MemvidError) -> (String, String) {
    let detail = e.to_string();
    let kind = match e {
        MemvidError::CapacityExceeded { .. } => "capacity".to_string(),
        MemvidError::VecDimensionMismatch { .. } => "dim-mismatch".into(),
        MemvidError::FrameNotFound { .. } => "not-found".into(),
        MemvidError::TicketRequired { .. } => "ticket-required".into(),
        MemvidError::TicketSequence { .. } => "ticket-seq".into(),
        MemvidError::InvalidFrame { reason, .. } => match *reason {
            "frame is not active" => "inactive".into(),
            "chunk manifest length mismatch" | "document chunk manifest missing children" => "canon-error".into(),
            other => format!("invalid-frame:{}", other.replace(' ', "_")),
        },
        _ => format!("other:{}", detail.replace(' ', "_").chars().take(80).collect::<String>()),
    };
    (kind, detail)
}

// ---------------------------------------------------------------------------------------
// observation of the real handle

#[derive(Clone, Debug, PartialEq)]
pub struct FrameObs {
    pub id: u64,
    pub uri: Option<String>,
    pub status: char,
    pub role: char,
    pub parent: Option<u64>,
    pub supersedes: Option<u64>,
    pub superseded_by: Option<u64>,
    pub ts: i64,
    pub kind: Option<String>,
    pub track: Option<String>,
    pub tags: Vec<String>,
    pub labels: Vec<String>,
    pub chunk_index: Option<u32>,
    pub chunk_count: Option<u32>,
    pub manifest: Option<usize>,
    /// token of the frame's own stored payload (canonical bytes)
    pub content: String,
    /// token of `frame_canonical_payload(id)`: `cat:…` for a chunked document whose concatenation is
    /// a known one, `err` when the call fails
    pub canon: String,
    /// raw token of `frame_canonical_payload(id)` (blake3 prefix / `E` / `err`), before `cat:` mapping
    pub canon_raw: String,
    pub off: u64,
    pub len: u64,
    pub search_text: Option<String>,
    pub title: Option<String>,
}

fn opt<T: std::fmt::Display>(o: &Option<T>) -> String {
    match o { Some(x) => x.to_string(), None => "-".into() }
}
fn list(sep: &str, l: &[String]) -> String {
    if l.is_empty() { "-".into() } else { l.join(sep) }
}

impl FrameObs {
    pub fn line(&self) -> String {
        [
            self.id.to_string(), opt(&self.uri), self.status.to_string(), self.role.to_string(), opt(&self.parent),
            opt(&self.supersedes), opt(&self.superseded_by), self.ts.to_string(), opt(&self.kind), opt(&self.track),
            list("+", &self.tags), list("+", &self.labels), opt(&self.chunk_index), opt(&self.chunk_count),
            opt(&self.manifest), self.content.clone(), self.canon.clone(),
            (if self.len == 0 { 0 } else { self.off }).to_string(), self.len.to_string(),
        ].join(",")
    }
    pub fn active(&self) -> bool { self.status == 'a' }
}

#[derive(Clone, Debug)]
pub struct Obs {
    pub frame_count: u64,
    pub next_frame_id: u64,
    pub pending_inserts: u64,
    pub pending_records: u64,
    pub seq: u64,
    pub dirty: bool,
    pub wal_size: u64,
    pub payload_end: u64,
    pub data_end: u64,
    pub footer: u64,
    pub capacity: u64,
    pub vec_enabled: bool,
    /// `(id, dim or "?" , token)`; None = no in-memory index
    pub vec: Option<Vec<(u64, String, String)>>,
    pub time: Option<Vec<(i64, u64)>>,
    pub tantivy_dirty: bool,
    pub queue: Vec<u64>,
    pub cards: Vec<u64>,
    pub enr_recs: Vec<u64>,
    pub sketch: Vec<u64>,
    pub batch: Option<bool>,
    pub frames: Vec<FrameObs>,
    pub state: VerifState,
    pub index: VerifIndexState,
}

fn nums<T: std::fmt::Display>(l: &[T]) -> String {
    if l.is_empty() { "-".into() } else { l.iter().map(|x| x.to_string()).collect::<Vec<_>>().join(",") }
}

impl Obs {
    pub fn head(&self) -> String {
        let vec = match &self.vec {
            None => "none".to_string(),
            Some(v) if v.is_empty() => "-".into(),
            Some(v) => v.iter().map(|(i, d, t)| format!("{i}:{d}:{t}")).collect::<Vec<_>>().join(","),
        };
        let time = match &self.time {
            None => "none".to_string(),
            Some(v) if v.is_empty() => "-".into(),
            Some(v) => v.iter().map(|(t, i)| format!("{t}:{i}")).collect::<Vec<_>>().join(","),
        };
        format!(
            "fc={} nf={} pi={} pend={} seq={} dirty={} ws={} pe={} de={} ft={} cap={} ve={} vec={} time={} td={} q={} cards={} er={} sk={} batch={}",
            self.frame_count, self.next_frame_id, self.pending_inserts, self.pending_records, self.seq,
            self.dirty as u8, self.wal_size, self.payload_end, self.data_end, self.footer, self.capacity,
            self.vec_enabled as u8, vec, time, self.tantivy_dirty as u8, nums(&self.queue), nums(&self.cards),
            nums(&self.enr_recs), nums(&self.sketch),
            match self.batch { None => "-", Some(true) => "1", Some(false) => "0" }
        )
    }
    pub fn line(&self) -> String {
        let frames = if self.frames.is_empty() { "-".to_string() } else {
            self.frames.iter().map(|f| f.line()).collect::<Vec<_>>().join(";")
        };
        format!("{} | {}", self.head(), frames)
    }
}

// ---------------------------------------------------------------------------------------
// the independent reference model: what a client expects from its acknowledged calls

#[derive(Clone, Debug, PartialEq)]
pub struct RefFrame {
    pub id: u64,
    /// `None` = the default URI of the frame id
    pub uri: Option<String>,
    pub status: char,
    pub role: char,
    pub supersedes: Option<u64>,
    pub superseded_by: Option<u64>,
    pub ts: i64,
    pub kind: Option<String>,
    pub track: Option<String>,
    pub tags: Vec<String>,
    pub labels: Vec<String>,
    pub chunk_index: Option<u32>,
    pub chunk_count: Option<u32>,
    /// for a chunk made by the chunker: the document it belongs to
    pub doc: Option<u64>,
    /// number of chunks the document was split into
    pub n_chunks: usize,
    /// token of the bytes a read of this frame is expected to return
    pub content: String,
    /// embedding the client attached (directly, per chunk or carried by an update)
    pub emb: Option<String>,
    /// index of the history step that created it
    pub born_at: usize,
    /// how the frame came about, for failure classification: "", "reuse-of-chunked" (payload-less
    /// update of a chunked document), "extracted-plan" (non-UTF-8 payload whose extracted text was chunked)
    pub note: &'static str,
}

impl RefFrame {
    pub fn uri_string(&self) -> String {
        self.uri.clone().unwrap_or_else(|| format!("mv2://frames/{}", self.id))
    }
}

#[derive(Clone, Debug, Default)]
pub struct RefModel {
    pub frames: Vec<RefFrame>,
    /// acknowledged mutating calls so far
    pub acked: usize,
}

impl RefModel {
    pub fn next_id(&self) -> u64 { self.frames.len() as u64 }

    /// acknowledged put: the document gets the next id, its chunks the ids after it
    pub fn put(&mut self, step: usize, p: &PutSpec, bytes: &[u8], chunks: &Option<Vec<String>>) -> u64 {
        self.acked += 1;
        let id = self.next_id();
        self.push_doc(step, id, p.uri.clone(), p.ts, p.kind.clone(), p.track.clone(), p.tags.clone(), p.labels.clone(),
            p.role, None, bytes, chunks, p.emb.as_ref().map(|e| emb_tok(&e.vector())),
            p.chunk_embs.as_ref().map(|v| v.iter().map(|e| emb_tok(&e.vector())).collect()));
        id
    }

    fn push_doc(&mut self, step: usize, id: u64, uri: Option<String>, ts: i64, kind: Option<String>, track: Option<String>,
                tags: Vec<String>, labels: Vec<String>, role: u8, supersedes: Option<u64>, bytes: &[u8],
                chunks: &Option<Vec<String>>, emb: Option<String>, chunk_embs: Option<Vec<String>>) {
        let role_c = match role { 1 => 'c', 2 => 'i', _ => 'd' };
        let n_chunks = chunks.as_ref().map(|c| c.len()).unwrap_or(0);
        // what a client expects to read back: the bytes it put (for UTF-8 text that the chunker
        // split this is the concatenation of the chunks: normalised text, property C07)
        let content = match chunks {
            Some(cs) if std::str::from_utf8(bytes).is_ok() => tok(cs.concat().as_bytes()),
            _ => tok(bytes),
        };
        self.frames.push(RefFrame {
            id, uri: uri.clone(), status: 'a', role: role_c, supersedes, superseded_by: None, ts, kind: kind.clone(),
            track: track.clone(), tags: tags.clone(), labels: labels.clone(), chunk_index: None,
            chunk_count: if n_chunks > 0 { Some(n_chunks as u32) } else { None }, doc: None, n_chunks, content,
            emb, born_at: step, note: if n_chunks > 0 && std::str::from_utf8(bytes).is_err() { "extracted-plan" } else { "" },
        });
        if let Some(cs) = chunks {
            for (i, c) in cs.iter().enumerate() {
                let cid = self.next_id();
                self.frames.push(RefFrame {
                    id: cid, uri: uri.as_ref().map(|u| format!("{u}#page-{}", i + 1)), status: 'a', role: 'c',
                    supersedes: None, superseded_by: None, ts, kind: kind.clone(), track: track.clone(),
                    tags: tags.clone(), labels: labels.clone(), chunk_index: Some(i as u32),
                    chunk_count: Some(n_chunks as u32), doc: Some(id), n_chunks: 0, content: tok(c.as_bytes()),
                    emb: chunk_embs.as_ref().and_then(|v| v.get(i).cloned()), born_at: step, note: "",
                });
            }
        }
    }

    /// acknowledged update: a new version gets the next id, the old one is superseded by it;
    /// unspecified fields are inherited; without a payload the content stays what it was
    pub fn update(&mut self, step: usize, u: &UpdSpec, bytes: Option<&[u8]>, chunks: &Option<Vec<String>>) -> Option<u64> {
        self.acked += 1;
        let old = self.frames.get(u.id as usize)?.clone();
        let id = self.next_id();
        let uri = u.uri.clone().or_else(|| Some(old.uri_string()));
        let emb = u.emb.as_ref().map(|e| emb_tok(&e.vector())).or(old.emb.clone());
        match bytes {
            Some(b) => self.push_doc(step, id, uri, u.ts.unwrap_or(old.ts), u.kind.clone().or(old.kind.clone()),
                u.track.clone().or(old.track.clone()), if u.tags.is_empty() { old.tags.clone() } else { u.tags.clone() },
                if u.labels.is_empty() { old.labels.clone() } else { u.labels.clone() }, u.role, Some(u.id), b, chunks, emb, None),
            None => {
                self.push_doc(step, id, uri, u.ts.unwrap_or(old.ts), u.kind.clone().or(old.kind.clone()),
                    u.track.clone().or(old.track.clone()), if u.tags.is_empty() { old.tags.clone() } else { u.tags.clone() },
                    if u.labels.is_empty() { old.labels.clone() } else { u.labels.clone() }, u.role, Some(u.id), &[], &None, emb, None);
                self.frames[id as usize].content = old.content.clone();
                if old.n_chunks > 0 { self.frames[id as usize].note = "reuse-of-chunked"; }
            }
        }
        let o = &mut self.frames[u.id as usize];
        o.status = 's';
        o.superseded_by = Some(id);
        Some(id)
    }

    pub fn delete(&mut self, id: u64) {
        self.acked += 1;
        if let Some(f) = self.frames.get_mut(id as usize) {
            f.status = 'd';
            f.superseded_by = None;
        }
    }

    /// the bytes a read of frame `id` should return now: a chunked document reads as the
    /// concatenation of its chunks as long as all of them are active; `None` = not determined
    pub fn expected_read(&self, id: u64) -> Option<String> {
        let f = self.frames.get(id as usize)?;
        if f.n_chunks > 0 {
            let kids: Vec<&RefFrame> = self.frames.iter().filter(|c| c.doc == Some(id)).collect();
            if kids.iter().all(|c| c.status == 'a') { Some(f.content.clone()) } else { None }
        } else {
            Some(f.content.clone())
        }
    }
}

// ---------------------------------------------------------------------------------------
// the world: real handle + reference + token bookkeeping

pub struct World {
    pub dir: tempfile::TempDir,
    pub path: PathBuf,
    pub mem: Option<Memvid>,
    pub reference: RefModel,
    /// blake3-prefix of a concatenation of chunk texts → `cat:t1+t2…`
    pub cats: HashMap<String, String>,
    /// embedding token → dimension
    pub emb_dims: HashMap<String, usize>,
    /// the batch options the harness passed (`disable_auto_checkpoint`), while a batch is active
    pub batch: Option<(bool, i32)>,
    pub step_no: usize,
    /// observation of a read-only handle taken by the last `ReadOnly` op
    pub last_ro: Option<Obs>,
    /// what the last doctor run reported
    pub last_doctor: Option<String>,
    pub branches: Vec<String>,
    /// handles abandoned by simulated crashes: released (without their destructor's commit) when the history ends
    pub graveyard: Graveyard,
}

/// Abandoned handles of simulated crashes.  `mem::forget` for good kept every such handle's descriptors,
/// Tantivy writer threads and buffers alive for the whole run: after a few hundred histories (thorough tier)
/// the process held gigabytes and thousands of threads and finally aborted (`failed to initiate panic`).
/// They are kept untouched while the history runs (nothing may be written or unlocked by them) and are
/// released through `verif_hooks::verif_abandon` — dirty flag cleared, so the destructor writes nothing —
/// when the world is dropped.  Declared BEFORE nothing else depends on it: the field order of `World` drops
/// the temp directory first, which is harmless (the files stay reachable through the open descriptors).
#[derive(Default)]
pub struct Graveyard(pub Vec<std::mem::ManuallyDrop<Memvid>>);
impl Drop for Graveyard {
    fn drop(&mut self) {
        for m in self.0.drain(..) {
            let m = std::mem::ManuallyDrop::into_inner(m);
            let _ = std::panic::catch_unwind(std::panic::AssertUnwindSafe(|| verif_hooks::verif_abandon(m)));
        }
    }
}

pub struct Step {
    pub op: Op,
    pub ack: Ack,
    /// request line for the model driver (op + trace inputs)
    pub request: String,
    pub obs: Obs,
}

fn rel(x: u64, base: u64) -> u64 { x.saturating_sub(base) }

impl World {
    pub fn create() -> Result<World, String> {
        let dir = tempfile::Builder::new().prefix("mvh-hist-").tempdir().map_err(|e| e.to_string())?;
        let path = dir.path().join("m.mv2");
        let mem = Memvid::create(&path).map_err(|e| format!("create: {e}"))?;
        Ok(World {
            dir, path, mem: Some(mem), reference: RefModel::default(), cats: HashMap::new(), emb_dims: HashMap::new(),
            batch: None, step_no: 0, last_ro: None, last_doctor: None, branches: vec![], graveyard: Graveyard::default(),
        })
    }

    pub fn mem(&mut self) -> &mut Memvid { self.mem.as_mut().expect("handle open") }

    fn base(st: &VerifState) -> u64 { st.hdr_wal_offset + st.hdr_wal_size }

    pub fn observe_handle(&mut self, mem_in: Option<Memvid>) -> (Obs, Option<Memvid>) {
        // observe either the world's own handle or a foreign (read-only) one
        let foreign = mem_in.is_some();
        let mut mem = match mem_in { Some(m) => m, None => self.mem.take().expect("handle open") };
        let st = verif_hooks::verif_state(&mem);
        let ix = verif_hooks::verif_index_state(&mem);
        let base = Self::base(&st);
        let raw: Vec<Frame> = verif_hooks::verif_frames(&mem);
        let mut frames = Vec::with_capacity(raw.len());
        for f in &raw {
            let canon_raw = match mem.frame_canonical_payload(f.id) { Ok(b) => tok(&b), Err(_) => "err".to_string() };
            let is_manifest_doc = f.role == FrameRole::Document && f.chunk_manifest.is_some();
            let content = if is_manifest_doc {
                "M".to_string()
            } else { canon_raw.clone() };
            let canon = if is_manifest_doc {
                self.cats.get(&canon_raw).cloned().unwrap_or_else(|| canon_raw.clone())
            } else { canon_raw.clone() };
            frames.push(FrameObs {
                id: f.id, uri: f.uri.clone(),
                status: match f.status { FrameStatus::Active => 'a', FrameStatus::Superseded => 's', FrameStatus::Deleted => 'd' },
                role: match f.role { FrameRole::Document => 'd', FrameRole::DocumentChunk => 'c', FrameRole::ExtractedImage => 'i' },
                parent: f.parent_id, supersedes: f.supersedes, superseded_by: f.superseded_by, ts: f.timestamp,
                kind: f.kind.clone(), track: f.track.clone(), tags: f.tags.clone(), labels: f.labels.clone(),
                chunk_index: f.chunk_index, chunk_count: f.chunk_count,
                manifest: f.chunk_manifest.as_ref().map(|m| m.chunks.len()), content, canon, canon_raw,
                off: rel(f.payload_offset, base), len: f.payload_length, search_text: f.search_text.clone(),
                title: f.title.clone(),
            });
        }
        let vec = if st.vec_index_kind == "none" { None } else {
            Some(st.vec_entries.iter().map(|(id, h)| {
                let t = h[..16].to_string();
                let d = self.emb_dims.get(&t).map(|d| d.to_string()).unwrap_or_else(|| "?".into());
                (*id, d, t)
            }).collect())
        };
        let time = match &ix.time_entries { None => None, Some(Ok(v)) => Some(v.clone()), Some(Err(_)) => Some(vec![(i64::MIN, u64::MAX)]) };
        let mut sketch = st.sketch_frame_ids.clone();
        sketch.sort_unstable();
        let mut cards = st.card_sources.clone();
        cards.sort();
        let obs = Obs {
            frame_count: mem.frame_count() as u64, next_frame_id: mem.next_frame_id(),
            pending_inserts: st.pending_frame_inserts, pending_records: (st.wal_pending_bytes > 0) as u64,
            seq: st.wal_sequence, dirty: st.dirty, wal_size: st.hdr_wal_size, payload_end: rel(st.cached_payload_end, base),
            data_end: rel(st.data_end, base), footer: rel(st.hdr_footer_offset, base), capacity: st.capacity_limit,
            vec_enabled: st.vec_enabled, vec, time, tantivy_dirty: st.tantivy_dirty, queue: st.enrichment_queue.clone(),
            cards: cards.iter().map(|c| c.1).collect(), enr_recs: st.enrichment_record_frames.clone(), sketch,
            batch: if st.batch_active { self.batch.map(|b| b.0) } else { None }, frames, state: st, index: ix,
        };
        if foreign { (obs, Some(mem)) } else { self.mem = Some(mem); (obs, None) }
    }

    pub fn observe(&mut self) -> Obs { self.observe_handle(None).0 }

    fn put_options(p: &PutSpec) -> PutOptions {
        let mut o = PutOptions::default();
        o.timestamp = Some(p.ts);
        o.uri = p.uri.clone();
        o.kind = p.kind.clone();
        o.track = p.track.clone();
        o.tags = p.tags.clone();
        o.labels = p.labels.clone();
        o.role = match p.role { 1 => FrameRole::DocumentChunk, 2 => FrameRole::ExtractedImage, _ => FrameRole::Document };
        o.instant_index = p.instant_index;
        o.enable_embedding = p.enable_embedding;
        o.auto_tag = p.auto_tag;
        o.extract_dates = p.extract_dates;
        o.extract_triplets = p.extract_triplets;
        // full (un-budgeted) extraction: the time-budgeted skim is timing dependent
        o.extraction_budget_ms = 0;
        o
    }

    fn level(&self) -> i32 { self.batch.map(|b| b.1).unwrap_or(3) }

    fn stored_len(bytes: &[u8], level: i32) -> usize {
        verif_hooks::prepare_canonical_payload(bytes, level).map(|x| x.0).unwrap_or(bytes.len())
    }
    fn stored_zstd(bytes: &[u8], level: i32) -> bool {
        verif_hooks::prepare_canonical_payload(bytes, level).map(|x| x.1).unwrap_or(false)
    }

    fn emb_field(&mut self, e: &Option<EmbSpec>) -> String {
        match e {
            None => "-".into(),
            Some(e) => {
                let t = emb_tok(&e.vector());
                self.emb_dims.insert(t.clone(), e.dim);
                format!("{}:{}", e.dim, t)
            }
        }
    }

    /// `ct= len= plen= chunks=` for a payload, registering the concatenation token of a chunk plan
    fn payload_fields(&mut self, bytes: &[u8], chunks: &Option<Vec<String>>, chunk_embs: &Option<Vec<EmbSpec>>) -> String {
        let plen = Self::stored_len(bytes, self.level());
        match chunks {
            None => format!("ct={} len={} plen={} z={} chunks=-", tok(bytes), plen, plen, Self::stored_zstd(bytes, self.level()) as u8),
            Some(cs) => {
                let cat_key = tok(cs.concat().as_bytes());
                let cat_val = format!("cat:{}", cs.iter().map(|c| tok(c.as_bytes())).collect::<Vec<_>>().join("+"));
                self.cats.insert(cat_key, cat_val);
                let mut items = vec![];
                for (i, c) in cs.iter().enumerate() {
                    let e = chunk_embs.as_ref().and_then(|v| v.get(i).cloned());
                    let ef = match &e { None => "0:-".to_string(), Some(_) => self.emb_field(&e) };
                    items.push(format!("{}:{}:{}", tok(c.as_bytes()), Self::stored_len(c.as_bytes(), 3), ef));
                }
                if std::str::from_utf8(bytes).is_ok() {
                    format!("ct=E len=0 plen={} chunks={}", plen, items.join(";"))
                } else {
                    // plan over extracted text: the parent keeps the original payload
                    format!("ct={} len={} plen={} z=0 chunks={}", tok(bytes), plen, plen, items.join(";"))
                }
            }
        }
    }

    fn common_fields(ts: Option<i64>, uri: &Option<String>, kind: &Option<String>, track: &Option<String>, tags: &[String], labels: &[String], role: u8) -> String {
        format!("ts={} uri={} kind={} track={} tags={} labels={} role={}",
            opt(&ts), opt(uri), opt(kind), opt(track), list(",", tags), list(",", labels),
            match role { 1 => "c", 2 => "i", _ => "d" })
    }

    /// run one op on the real handle; returns the step (ack, request line with trace inputs, observation)
    pub fn exec(&mut self, op: &Op) -> Step {
        self.step_no += 1;
        let step_no = self.step_no;
        let before = verif_hooks::verif_state(self.mem());
        let base_before = Self::base(&before);
        let (ack, request): (Ack, String) = match op {
            Op::Put(p) => {
                let bytes = p.payload.bytes();
                let chunks = verif_hooks::put_chunk_plan(&bytes, p.uri.as_deref()).unwrap_or(None);
                let fields = self.payload_fields(&bytes, &chunks, &p.chunk_embs);
                let embf = self.emb_field(&p.emb);
                let opts = Self::put_options(p);
                let emb = p.emb.as_ref().map(|e| e.vector());
                let mem = self.mem();
                let r = if let Some(ce) = &p.chunk_embs {
                    mem.put_with_chunk_embeddings(&bytes, emb, ce.iter().map(|e| e.vector()).collect(), opts)
                } else if let Some(e) = emb {
                    mem.put_with_embedding_and_options(&bytes, e, opts)
                } else {
                    mem.put_bytes_with_options(&bytes, opts)
                };
                let after = verif_hooks::verif_state(self.mem());
                let ack = match &r { Ok(s) => Ack::Seq(*s), Err(e) => { let (k, d) = map_err(e); Ack::Err(k, d) } };
                if ack.is_ok() { self.reference.put(step_no, p, &bytes, &chunks); }
                let tr = Self::trace_fields(&before, &after, ack.is_ok(), true);
                let st = !(p.instant_index && ack.is_ok() && !before.tantivy_dirty && !after.tantivy_dirty && after.dirty);
                let cdims = match &p.chunk_embs { Some(v) if !v.is_empty() => v.iter().map(|e| e.dim.to_string()).collect::<Vec<_>>().join(","), _ => "-".into() };
                (ack, format!("put {} {} emb={} cdims={} ii={} st={} {}",
                    Self::common_fields(Some(p.ts), &p.uri, &p.kind, &p.track, &p.tags, &p.labels, p.role), fields, embf, cdims,
                    p.instant_index as u8, st as u8, tr))
            }
            Op::Update(u) => {
                let bytes = u.payload.as_ref().map(|p| p.bytes());
                let chunks = match &bytes { Some(b) => self.mem().preview_chunks(b), None => None };
                let fields = match &bytes { Some(b) => format!("pl=1 {}", self.payload_fields(b, &chunks, &None)), None => "pl=0".to_string() };
                let embf = self.emb_field(&u.emb);
                let mut o = PutOptions::default();
                o.timestamp = u.ts; o.uri = u.uri.clone(); o.kind = u.kind.clone(); o.track = u.track.clone();
                o.tags = u.tags.clone(); o.labels = u.labels.clone();
                o.role = match u.role { 1 => FrameRole::DocumentChunk, 2 => FrameRole::ExtractedImage, _ => FrameRole::Document };
                o.instant_index = u.instant_index; o.enable_embedding = false; o.auto_tag = false; o.extract_dates = false;
                o.extract_triplets = u.extract_triplets; o.extraction_budget_ms = 0;
                let r = self.mem().update_frame(u.id, bytes.clone(), o, u.emb.as_ref().map(|e| e.vector()));
                let after = verif_hooks::verif_state(self.mem());
                let ack = match &r { Ok(s) => Ack::Seq(*s), Err(e) => { let (k, d) = map_err(e); Ack::Err(k, d) } };
                if ack.is_ok() { self.reference.update(step_no, u, bytes.as_deref(), &chunks); }
                let tr = Self::trace_fields(&before, &after, ack.is_ok(), true);
                let st = !(u.instant_index && ack.is_ok() && !before.tantivy_dirty && !after.tantivy_dirty && after.dirty);
                (ack, format!("update id={} {} {} emb={} ii={} st={} {}", u.id,
                    Self::common_fields(u.ts, &u.uri, &u.kind, &u.track, &u.tags, &u.labels, u.role), fields, embf,
                    u.instant_index as u8, st as u8, tr))
            }
            Op::Delete { id } => {
                let r = self.mem().delete_frame(*id);
                let after = verif_hooks::verif_state(self.mem());
                let ack = match &r { Ok(s) => Ack::Seq(*s), Err(e) => { let (k, d) = map_err(e); Ack::Err(k, d) } };
                if ack.is_ok() { self.reference.delete(*id); }
                let tr = Self::trace_fields(&before, &after, ack.is_ok(), false);
                (ack, format!("delete id={id} {tr}"))
            }
            Op::Commit => {
                let r = self.mem().commit();
                let after = verif_hooks::verif_state(self.mem());
                (Self::unit_ack(r), format!("commit ft={}", rel(after.hdr_footer_offset, Self::base(&after))))
            }
            Op::Reopen => {
                let ftd = self.drop_handle();
                match Memvid::open(&self.path) {
                    Ok(m) => {
                        self.mem = Some(m);
                        self.batch = None;
                        let after = verif_hooks::verif_state(self.mem());
                        (Ack::Ok, format!("reopen ftd={ftd} fto={}", rel(after.hdr_footer_offset, Self::base(&after))))
                    }
                    Err(e) => return self.dead_step(op, format!("open-failed: {e}")),
                }
            }
            Op::Crash => {
                // process death: the handle's destructor never runs, the kernel closes its descriptors
                let mem = self.mem.take().expect("handle open");
                let (_fd_file, fd_lock) = verif_hooks::verif_fds(&mem);
                self.graveyard.0.push(std::mem::ManuallyDrop::new(mem));
                // what the kernel does when the process dies: the advisory lock of the open file
                // description goes away (the leaked descriptors themselves are harmless)
                unsafe { libc::flock(fd_lock, libc::LOCK_UN); }
                match Memvid::open(&self.path) {
                    Ok(m) => {
                        self.mem = Some(m);
                        self.batch = None;
                        let after = verif_hooks::verif_state(self.mem());
                        (Ack::Ok, format!("crash ft={}", rel(after.hdr_footer_offset, Self::base(&after))))
                    }
                    Err(e) => return self.dead_step(op, format!("open-after-crash-failed: {e}")),
                }
            }
            Op::ReadOnly => {
                let ftd = self.drop_handle();
                match Memvid::open_read_only(&self.path) {
                    Ok(ro) => {
                        let (o, ro) = self.observe_handle(Some(ro));
                        self.last_ro = Some(o);
                        drop(ro);
                    }
                    Err(e) => return self.dead_step(op, format!("open-read-only-failed: {e}")),
                }
                match Memvid::open(&self.path) {
                    Ok(m) => {
                        self.mem = Some(m);
                        self.batch = None;
                        let after = verif_hooks::verif_state(self.mem());
                        (Ack::Ok, format!("reopen ftd={ftd} fto={}", rel(after.hdr_footer_offset, Self::base(&after))))
                    }
                    Err(e) => return self.dead_step(op, format!("open-failed: {e}")),
                }
            }
            Op::BeginBatch { disable_auto_checkpoint, skip_sync, compression_level, presize } => {
                let mut o = PutManyOpts::default();
                o.disable_auto_checkpoint = *disable_auto_checkpoint;
                o.skip_sync = *skip_sync;
                o.compression_level = *compression_level;
                o.wal_pre_size_bytes = *presize;
                let r = self.mem().begin_batch(o);
                if r.is_ok() { self.batch = Some((*disable_auto_checkpoint, *compression_level)); }
                let after = verif_hooks::verif_state(self.mem());
                (Self::unit_ack(r), format!("batch dis={} ws={}", *disable_auto_checkpoint as u8, after.hdr_wal_size))
            }
            Op::EndBatch => {
                let r = self.mem().end_batch();
                if r.is_ok() { self.batch = None; }
                (Self::unit_ack(r), "endbatch".into())
            }
            Op::CommitSkip => (Self::unit_ack(self.mem().commit_skip_indexes()), "skip".into()),
            Op::Finalize => {
                let r = self.mem().finalize_indexes();
                let after = verif_hooks::verif_state(self.mem());
                (Self::unit_ack(r), format!("finalize ft={}", rel(after.hdr_footer_offset, Self::base(&after))))
            }
            Op::Vacuum => {
                let r = self.mem().vacuum();
                let after = verif_hooks::verif_state(self.mem());
                let ft = rel(after.hdr_footer_offset, Self::base(&after));
                (Self::unit_ack(r), format!("vacuum ftc={ft} ftr={ft}"))
            }
            Op::Doctor { vacuum, rebuild_time, rebuild_lex, rebuild_vec } => {
                let ftd = self.drop_handle();
                let opts = DoctorOptions {
                    rebuild_time_index: *rebuild_time, rebuild_lex_index: *rebuild_lex, rebuild_vec_index: *rebuild_vec,
                    vacuum: *vacuum, dry_run: false, quiet: true,
                };
                let path = self.path.clone();
                let rep = guarded(move || Memvid::doctor(&path, opts));
                self.last_doctor = Some(match &rep {
                    Ok(Ok(r)) => format!("{:?}", r.status),
                    Ok(Err(e)) => format!("error: {e}"),
                    Err(p) => format!("panic: {p}"),
                });
                match Memvid::open(&self.path) {
                    Ok(m) => {
                        self.mem = Some(m);
                        self.batch = None;
                        let after = verif_hooks::verif_state(self.mem());
                        let ft = rel(after.hdr_footer_offset, Self::base(&after));
                        // the doctor's own probe may schedule rebuilds the options did not ask for
                        // (e.g. a missing time index): observed through a time index that appeared and
                        // through an emptied vector index
                        let probe_rebuild = !before.time_index_present && after.time_index_present;
                        let vec_emptied = !before.vec_entries.is_empty() && after.vec_entries.is_empty();
                        (Ack::Ok, format!("doctor vac={} rt={} rl={} rv={} ftd={ftd} fta={ft} ftb={ft} fto={ft}", *vacuum as u8,
                            (*rebuild_time || probe_rebuild) as u8, *rebuild_lex as u8, (*rebuild_vec || vec_emptied) as u8))
                    }
                    Err(e) => return self.dead_step(op, format!("open-after-doctor-failed: {e}")),
                }
            }
            Op::Ticket { seq_no, capacity, issuer } => {
                let mut t = Ticket::new(issuer.clone(), *seq_no);
                if let Some(c) = capacity { t = t.capacity_bytes(*c); }
                #[allow(deprecated)]
                let r = self.mem().apply_ticket(t);
                (Self::unit_ack(r), format!("ticket seq={} cap={} blank={} free={}", seq_no, capacity.unwrap_or(0),
                    issuer.trim().is_empty() as u8, (issuer == "free-tier") as u8))
            }
        };
        let _ = base_before;
        let obs = self.observe();
        let request = if request.contains(" ws=") { request } else { format!("{request} ws={}", obs.wal_size) };
        Step { op: op.clone(), ack, request, obs }
    }

    fn unit_ack(r: memvid_core::Result<()>) -> Ack {
        match r { Ok(()) => Ack::Ok, Err(e) => { let (k, d) = map_err(&e); Ack::Err(if k.starts_with("other") || k.starts_with("invalid-frame") { format!("commit-failed:{k}") } else { k }, d) } }
    }

    /// trace inputs observed on the real handle: ac (auto checkpoint fired), ft, ws, q, nc
    fn trace_fields(before: &VerifState, after: &VerifState, ok: bool, is_put: bool) -> String {
        let ac = ok && !after.dirty;
        let _ = is_put;
        let q = after.enrichment_queue.len() > before.enrichment_queue.len();
        let nc = after.card_sources.len().saturating_sub(before.card_sources.len());
        format!("q={} nc={} ac={} ft={} ws={}", q as u8, nc, ac as u8,
            rel(after.hdr_footer_offset, Self::base(after)), after.hdr_wal_size)
    }

    /// drop the handle; returns the footer (relative) the drop's commit left, read back from the header
    fn drop_handle(&mut self) -> u64 {
        self.mem = None; // Drop commits when dirty
        let mut buf = [0u8; 4096];
        let ok = std::fs::File::open(&self.path).and_then(|mut f| { use std::io::Read; f.read_exact(&mut buf) }).is_ok();
        if !ok { return 0; }
        match memvid_core::io::header::HeaderCodec::decode(&buf) {
            Ok(h) => rel(h.footer_offset, h.wal_offset + h.wal_size),
            Err(_) => 0,
        }
    }

    fn dead_step(&mut self, op: &Op, why: String) -> Step {
        // the file can no longer be opened: fabricate an empty observation; the caller reports it
        let w = World::create().expect("scratch world");
        let mut w = w;
        let mut obs = w.observe();
        obs.frames.clear();
        Step { op: op.clone(), ack: Ack::Err("dead".into(), why), request: "dead".into(), obs }
    }
}

// ---------------------------------------------------------------------------------------
// generator

#[derive(Clone, Debug)]
pub struct GenProfile {
    /// relative weights
    pub w_put: u64,
    pub w_update: u64,
    pub w_delete: u64,
    pub w_commit: u64,
    pub w_reopen: u64,
    pub w_crash: u64,
    pub w_readonly: u64,
    pub w_batch: u64,
    pub w_skip: u64,
    pub w_finalize: u64,
    pub w_vacuum: u64,
    pub w_doctor: u64,
    pub w_ticket: u64,
    /// probability (percent) that a put carries an embedding
    pub emb_percent: u64,
    /// fixed embedding dimension of a history is drawn from 1..=8; percent of puts with a WRONG dimension
    pub wrong_dim_percent: u64,
    pub triplets: bool,
    pub instant_index_percent: u64,
    pub auto_tag: bool,
    /// ids of update/delete aim at existing frames with this probability (percent)
    pub valid_target_percent: u64,
    /// number of short histories and their length range; long WAL-filling histories
    pub n_short: usize,
    pub short_len: (usize, usize),
    pub n_long: usize,
    pub long_len: (usize, usize),
    /// fixed histories that run first
    pub corpus: Vec<(String, Vec<Op>)>,
}

impl GenProfile {
    pub fn standard(thorough: bool) -> Self {
        GenProfile {
            w_put: 46, w_update: 12, w_delete: 10, w_commit: 8, w_reopen: 5, w_crash: 3, w_readonly: 1, w_batch: 3,
            w_skip: 2, w_finalize: 2, w_vacuum: 2, w_doctor: 1, w_ticket: 1, emb_percent: 25, wrong_dim_percent: 4,
            triplets: false, instant_index_percent: 30, auto_tag: false, valid_target_percent: 85,
            n_short: if thorough { 400 } else { 22 }, short_len: (10, 48),
            n_long: if thorough { 30 } else { 3 }, long_len: (if thorough { 250 } else { 100 }, if thorough { 400 } else { 150 }),
            corpus: vec![],
        }
    }
}

/// mutable generator state of one history
pub struct GenState {
    pub dim: usize,
    pub ts: i64,
    pub long: bool,
    pub uris: Vec<String>,
    pub ticket_seq: i64,
    pub in_batch: bool,
    pub n: u64,
}

impl GenState {
    pub fn new(rng: &mut Rng, long: bool) -> Self {
        GenState { dim: rng.usize(1, 8), ts: rng.i64(1_600_000_000, 1_700_000_000), long, uris: vec![], ticket_seq: 0, in_batch: false, n: 0 }
    }
}

pub fn gen_payload(rng: &mut Rng, long: bool) -> PayloadSpec {
    let seed = rng.u64();
    let r = rng.below(100);
    let (kind, len) = if long {
        // records of ~300-900 bytes so that the 64 KiB WAL crosses 75 % and wraps; now and then one
        // larger than the region (forces grow_wal_region)
        match r {
            0..=54 => (PayloadKind::Rand, rng.usize(250, 850)),
            55..=69 => (PayloadKind::Bin, rng.usize(1, 16)),
            70..=84 => (PayloadKind::Ascii, rng.usize(200, 2300)),
            85..=91 => (PayloadKind::Ascii, rng.usize(2390, 2410)),
            92..=95 => (PayloadKind::Zero, rng.usize(1, 5000)),
            96..=97 => (PayloadKind::Rand, rng.usize(66_000, 140_000)),
            _ => (PayloadKind::Empty, 0),
        }
    } else {
        match r {
            0..=5 => (PayloadKind::Empty, 0),
            6..=17 => (PayloadKind::Bin, rng.usize(1, 16)),
            18..=23 => (PayloadKind::Zero, rng.usize(1, 3000)),
            24..=38 => (PayloadKind::Rand, rng.usize(17, 4000)),
            39..=55 => (PayloadKind::Ascii, rng.usize(1, 600)),
            56..=63 => (PayloadKind::Ascii, *rng.pick(&[2398usize, 2399, 2400, 2401, 2402])),
            64..=72 => (PayloadKind::Ascii, rng.usize(2400, 9000)),
            73..=82 => (PayloadKind::Utf8, rng.usize(1, 500)),
            83..=88 => (PayloadKind::Utf8, rng.usize(2380, 2420)),
            89..=92 => (PayloadKind::Utf8, rng.usize(2400, 6000)),
            93..=96 => (PayloadKind::Table, rng.usize(300, 5000)),
            _ => (PayloadKind::Rand, rng.usize(66_000, 100_000)),
        }
    };
    PayloadSpec { kind, len, seed }
}

fn gen_word(rng: &mut Rng) -> String {
    let w: &str = *rng.pick(&["news", "note", "log", "doc", "mail", "wiki", "alpha", "beta", "gamma", "red", "blue"]);
    w.to_string()
}

pub fn gen_put(rng: &mut Rng, prof: &GenProfile, gs: &mut GenState) -> PutSpec {
    gs.n += 1;
    gs.ts += rng.i64(-50, 400);
    let payload = gen_payload(rng, gs.long);
    let uri = if rng.chance(55, 100) {
        let u = if !gs.uris.is_empty() && rng.chance(20, 100) { rng.pick(&gs.uris).clone() }
                else { format!("mv2://{}/{}-{}.txt", gen_word(rng), gen_word(rng), gs.n) };
        gs.uris.push(u.clone());
        Some(u)
    } else { None };
    let mut p = PutSpec::simple(payload, gs.ts);
    p.uri = uri;
    if rng.chance(30, 100) { p.kind = Some(gen_word(rng)); }
    if rng.chance(30, 100) { p.track = Some(gen_word(rng)); }
    if rng.chance(35, 100) { p.tags = (0..rng.usize(1, 3)).map(|_| gen_word(rng)).collect(); p.tags.dedup(); }
    if rng.chance(25, 100) { p.labels = (0..rng.usize(1, 2)).map(|_| gen_word(rng)).collect(); p.labels.dedup(); }
    // roles: Document, and ExtractedImage for binary payloads (a caller-chosen DocumentChunk role without a
    // parent is outside the histories the family quantifies over)
    p.role = if matches!(p.payload.kind, PayloadKind::Bin | PayloadKind::Rand | PayloadKind::Zero) && rng.chance(8, 100) { 2 } else { 0 };
    if rng.chance(prof.emb_percent, 100) {
        let dim = if rng.chance(prof.wrong_dim_percent, 100) { gs.dim % 8 + 1 } else { gs.dim };
        p.emb = Some(EmbSpec { dim, seed: rng.u64() });
        if rng.chance(40, 100) {
            let n = rng.usize(0, 4);
            p.chunk_embs = Some((0..n).map(|_| EmbSpec { dim, seed: rng.u64() }).collect());
            if rng.chance(30, 100) { p.emb = None; }
        }
    }
    p.instant_index = rng.chance(prof.instant_index_percent, 100);
    p.auto_tag = prof.auto_tag;
    p.extract_dates = prof.auto_tag;
    p.extract_triplets = prof.triplets;
    p
}

fn pick_target(rng: &mut Rng, prof: &GenProfile, obs: &Obs) -> u64 {
    let n = obs.frame_count;
    if n > 0 && rng.chance(prof.valid_target_percent, 100) {
        // prefer active frames
        let act: Vec<u64> = obs.frames.iter().filter(|f| f.active()).map(|f| f.id).collect();
        if !act.is_empty() && rng.chance(85, 100) { *rng.pick(&act) } else { rng.below(n) }
    } else {
        n + rng.below(3)
    }
}

pub fn gen_op(rng: &mut Rng, prof: &GenProfile, gs: &mut GenState, obs: &Obs) -> Op {
    let weights = [
        prof.w_put, prof.w_update, prof.w_delete, prof.w_commit, prof.w_reopen, prof.w_crash, prof.w_readonly,
        prof.w_batch, prof.w_skip, prof.w_finalize, prof.w_vacuum, prof.w_doctor, prof.w_ticket,
    ];
    let total: u64 = weights.iter().sum();
    let mut r = rng.below(total.max(1));
    let mut which = 0;
    for (i, w) in weights.iter().enumerate() {
        if r < *w { which = i; break; }
        r -= *w;
    }
    match which {
        0 => Op::Put(gen_put(rng, prof, gs)),
        1 => {
            let id = pick_target(rng, prof, obs);
            let mut u = UpdSpec { id, ..Default::default() };
            if rng.chance(55, 100) { u.payload = Some(gen_payload(rng, false)); }
            if rng.chance(25, 100) { gs.ts += 7; u.ts = Some(gs.ts); }
            if rng.chance(20, 100) { u.uri = Some(format!("mv2://upd/{}-{}.md", gen_word(rng), rng.below(1000))); }
            if rng.chance(20, 100) { u.kind = Some(gen_word(rng)); }
            if rng.chance(20, 100) { u.track = Some(gen_word(rng)); }
            if rng.chance(25, 100) { u.tags = vec![gen_word(rng)]; }
            if rng.chance(15, 100) { u.labels = vec![gen_word(rng)]; }
            if rng.chance(prof.emb_percent / 2, 100) { u.emb = Some(EmbSpec { dim: gs.dim, seed: rng.u64() }); }
            u.instant_index = rng.chance(prof.instant_index_percent, 100);
            u.extract_triplets = prof.triplets;
            Op::Update(u)
        }
        2 => Op::Delete { id: pick_target(rng, prof, obs) },
        3 => Op::Commit,
        4 => Op::Reopen,
        5 => Op::Crash,
        6 => Op::ReadOnly,
        7 => {
            if gs.in_batch { gs.in_batch = false; Op::EndBatch } else {
                gs.in_batch = true;
                Op::BeginBatch {
                    disable_auto_checkpoint: rng.chance(70, 100), skip_sync: rng.bool(),
                    compression_level: *rng.pick(&[0, 1, 3, 3, 9]),
                    presize: if rng.chance(25, 100) { *rng.pick(&[0u64, 100_000, 131_072, 200_000]) } else { 0 },
                }
            }
        }
        8 => Op::CommitSkip,
        // finalize_indexes while inserts are pending leaves a Lex record behind them in the WAL (see
        // CORE_READY.md, finding F-lex-after-inserts): the generator commits first
        9 => if obs.pending_inserts > 0 { Op::Commit } else { Op::Finalize },
        10 => Op::Vacuum,
        11 => Op::Doctor { vacuum: rng.chance(40, 100), rebuild_time: rng.bool(), rebuild_lex: rng.bool(), rebuild_vec: rng.bool() },
        _ => {
            gs.ticket_seq += rng.i64(0, 2);
            let base = WAL_OFFSET + obs.wal_size;
            let cap = match rng.below(4) {
                0 => None,
                1 => Some(base + obs.payload_end + rng.below(3000)),
                2 => Some(base + obs.payload_end + rng.below(200_000)),
                _ => Some(1 << 30),
            };
            Op::Ticket { seq_no: gs.ticket_seq, capacity: cap, issuer: (*rng.pick(&["verif", "free-tier", "", "acme"])).to_string() }
        }
    }
}

// ---------------------------------------------------------------------------------------
// running a history on both sides

/// what a property oracle sees after every op
pub struct StepView<'a> {
    pub index: usize,
    pub op: &'a Op,
    pub ack: &'a Ack,
    /// observation before / after the op
    pub before: &'a Obs,
    pub after: &'a Obs,
    /// the independent reference model AFTER this op (it already contains the op when acknowledged)
    pub reference: &'a RefModel,
    /// reference BEFORE the op
    pub reference_before: &'a RefModel,
    /// the world (real handle, paths, last read-only observation, last doctor status): an oracle may
    /// call read APIs (search, timeline, stats, …) on `world.mem()`
    pub world: &'a mut World,
    /// the model's answer / observation for this step (None when running without a driver)
    pub model_ack: Option<&'a str>,
    pub model_obs: Option<&'a str>,
}

/// property oracle: `Some((signature, what))` when the implementation violates the property at this step
pub type Oracle<'o> = dyn FnMut(&mut StepView) -> Option<(String, String)> + 'o;

#[derive(Default)]
pub struct Outcome {
    pub ops: Vec<Op>,
    pub trace: Vec<String>,
    /// (signature, what, step index, model predicted the same observation)
    pub oracle: Option<(String, String, usize, bool)>,
    /// (what, model, impl)
    pub disagree: Option<(String, String, String)>,
    /// harness-level failure (file no longer opens, panic in the implementation …)
    pub dead: Option<String>,
    pub branches: Vec<String>,
    pub acked_mutations: usize,
    pub final_frames: usize,
}

pub enum Source<'a> {
    Fixed(&'a [Op]),
    Gen { rng: &'a mut Rng, prof: &'a GenProfile, len: usize, long: bool },
}

fn first_diff(a: &str, b: &str) -> String {
    // the first differing space- or ';'-separated token, with a little context
    let ta: Vec<&str> = a.split(|c| c == ' ' || c == ';').collect();
    let tb: Vec<&str> = b.split(|c| c == ' ' || c == ';').collect();
    for i in 0..ta.len().max(tb.len()) {
        let x = ta.get(i).copied().unwrap_or("<missing>");
        let y = tb.get(i).copied().unwrap_or("<missing>");
        if x != y { return format!("token {i}: model `{x}` vs impl `{y}`"); }
    }
    "equal".into()
}

pub fn branch_tags(step: &Step, before: &Obs, out: &mut Vec<String>) {
    let o = &step.obs;
    out.push(format!("op-{}", step.op.name()));
    if let Ack::Err(k, _) = &step.ack { out.push(format!("reject-{}", k.split(':').next().unwrap_or(k))); }
    if matches!(step.op, Op::Put(_) | Op::Update(_) | Op::Delete { .. }) && step.ack.is_ok() && !o.dirty { out.push("auto-commit".into()); }
    if o.wal_size > before.wal_size { out.push("wal-grow".into()); }
    if o.frame_count > before.frame_count + 1 && matches!(step.op, Op::Put(_)) { out.push("chunked-put-committed".into()); }
    if let Op::Put(p) = &step.op { if step.ack.is_ok() && o.next_frame_id > before.next_frame_id + 1 { out.push("chunked-put".into()); let _ = p; } }
    if let Op::Update(u) = &step.op { if step.ack.is_ok() { out.push(if u.payload.is_some() { "update-payload".into() } else { "update-reuse".into() }); } }
    if matches!(step.op, Op::Crash) && before.pending_records > 0 { out.push("wal-replay-on-open".into()); }
    if matches!(step.op, Op::Reopen) && before.dirty { out.push("drop-commit".into()); }
}

/// run one history; `drv = None` → implementation + oracle only
pub fn run_history(src: Source, mut drv: Option<&mut Driver>, oracle: &mut Oracle, verbose: bool) -> Outcome {
    let mut out = Outcome::default();
    let mut world = match World::create() { Ok(w) => w, Err(e) => { out.dead = Some(e); return out; } };
    if let Some(d) = drv.as_deref_mut() {
        let a = d.ask("create");
        if a != "ok" { out.disagree = Some(("create".into(), a, "ok".into())); return out; }
    }
    let mut before = world.observe();
    if let Some(d) = drv.as_deref_mut() {
        let m = d.ask("obs");
        let i = before.line();
        if m != i { out.disagree = Some((format!("after create: {}", first_diff(&m, &i)), m, i)); return out; }
    }
    let (fixed, mut genr): (Option<&[Op]>, Option<(&mut Rng, &GenProfile, usize, GenState)>) = match src {
        Source::Fixed(ops) => (Some(ops), None),
        Source::Gen { rng, prof, len, long } => { let gs = GenState::new(rng, long); (None, Some((rng, prof, len, gs))) }
    };
    let n = match (&fixed, &genr) { (Some(o), _) => o.len(), (_, Some(g)) => g.2, _ => 0 };
    for i in 0..n {
        let op: Op = match (&fixed, genr.as_mut()) {
            (Some(ops), _) => ops[i].clone(),
            (_, Some((rng, prof, len, gs))) => {
                // every generated history ends by making everything durable and visible
                if i + 3 == *len { Op::Commit } else if i + 2 == *len { Op::Reopen } else if i + 1 == *len { Op::ReadOnly }
                else { gen_op(rng, prof, gs, &before) }
            }
            _ => unreachable!(),
        };
        let ref_before = world.reference.clone();
        let step = match guarded(std::panic::AssertUnwindSafe(|| world.exec(&op))) {
            Ok(s) => s,
            Err(p) => { out.ops.push(op.clone()); out.dead = Some(format!("op {i} {}: panic in implementation: {p}", op.name())); return out; }
        };
        out.ops.push(op.clone());
        if let Ack::Err(k, d) = &step.ack { if k == "dead" { out.dead = Some(format!("op {i} {}: {d}", op.name())); return out; } }
        branch_tags(&step, &before, &mut out.branches);
        let impl_ack = step.ack.line();
        let impl_obs = step.obs.line();
        let (model_ack, model_obs) = match drv.as_deref_mut() {
            Some(d) => { let a = d.ask(&step.request); let o = d.ask("obs"); (Some(a), Some(o)) }
            None => (None, None),
        };
        if verbose {
            println!("--- op {i}: {:?}", op);
            println!("    request: {}", step.request);
            println!("    impl : {} | {}", impl_ack, step.obs.head());
            if let (Some(a), Some(o)) = (&model_ack, &model_obs) { println!("    model: {} | {}", a, o.split(" | ").next().unwrap_or("")); }
            if let Ack::Err(_, d) = &step.ack { println!("    impl error detail: {d}"); }
        }
        out.trace.push(format!("{} -> {}", step.request.chars().take(120).collect::<String>(), impl_ack));
        let mut model_same = true;
        if let (Some(a), Some(o)) = (&model_ack, &model_obs) {
            if *a != impl_ack {
                model_same = false;
                if out.disagree.is_none() { out.disagree = Some((format!("op {i} `{}` answer", op.name()), a.clone(), format!("{impl_ack} ({})", match &step.ack { Ack::Err(_, d) => d.as_str(), _ => "" }))); }
            } else if *o != impl_obs {
                model_same = false;
                if out.disagree.is_none() { out.disagree = Some((format!("op {i} `{}` observation: {}", op.name(), first_diff(o, &impl_obs)), o.clone(), impl_obs.clone())); }
            }
        }
        if step.ack.is_ok() && matches!(op, Op::Put(_) | Op::Update(_) | Op::Delete { .. }) { out.acked_mutations += 1; }
        // property oracle on the implementation's own outputs
        if out.oracle.is_none() {
            let reference = world.reference.clone();
            let mut view = StepView {
                index: i, op: &op, ack: &step.ack, before: &before, after: &step.obs, reference: &reference,
                reference_before: &ref_before, world: &mut world, model_ack: model_ack.as_deref(), model_obs: model_obs.as_deref(),
            };
            if let Some((sig, what)) = oracle(&mut view) {
                if verbose { println!("    ORACLE {sig}: {what}"); }
                out.oracle = Some((sig, format!("op {i} ({}): {what}", op.name()), i, model_same));
            }
        }
        // branch tags an oracle pushed into `world.branches` (for `expect_branches`)
        out.branches.append(&mut world.branches);
        out.final_frames = step.obs.frames.len();
        before = step.obs;
        if out.oracle.is_some() || out.disagree.is_some() { break; }
    }
    out
}

// ---------------------------------------------------------------------------------------
// oracles shared by the family

/// immutable identity of a committed frame (what must never change once the id is assigned)
pub fn identity_of(f: &FrameObs) -> String {
    // (the stored bytes of an INACTIVE frame may be dropped by vacuum: its content is not part of the identity)
    format!("{},{},{},{},{},{},{},{},{},{},{},{},{}", f.id, opt(&f.uri), f.role, opt(&f.supersedes), f.ts, opt(&f.kind),
        opt(&f.track), list("+", &f.tags), list("+", &f.labels), opt(&f.chunk_index), opt(&f.chunk_count), opt(&f.manifest),
        "")
}

/// compare committed frame `f` with what the reference expects of that id; `quiescent` = every
/// acknowledged call has been applied (status / superseded_by / content are final)
pub fn frame_vs_reference(f: &FrameObs, r: &RefFrame, refm: &RefModel, quiescent: bool) -> Option<(String, String)> {
    let mut bad: Vec<String> = vec![];
    if f.uri.as_deref() != Some(r.uri_string().as_str()) { bad.push(format!("uri {:?} expected {:?}", f.uri, r.uri_string())); }
    if f.role != r.role { bad.push(format!("role {} expected {}", f.role, r.role)); }
    if f.ts != r.ts { bad.push(format!("ts {} expected {}", f.ts, r.ts)); }
    if f.kind != r.kind { bad.push(format!("kind {:?} expected {:?}", f.kind, r.kind)); }
    if f.track != r.track { bad.push(format!("track {:?} expected {:?}", f.track, r.track)); }
    if f.tags != r.tags { bad.push(format!("tags {:?} expected {:?}", f.tags, r.tags)); }
    if f.labels != r.labels { bad.push(format!("labels {:?} expected {:?}", f.labels, r.labels)); }
    if f.supersedes != r.supersedes { bad.push(format!("supersedes {:?} expected {:?}", f.supersedes, r.supersedes)); }
    if f.chunk_index != r.chunk_index { bad.push(format!("chunk_index {:?} expected {:?}", f.chunk_index, r.chunk_index)); }
    if f.chunk_count != r.chunk_count { bad.push(format!("chunk_count {:?} expected {:?}", f.chunk_count, r.chunk_count)); }
    if r.doc.is_some() && f.parent != r.doc { bad.push(format!("parent {:?} expected {:?}", f.parent, r.doc)); }
    if !bad.is_empty() { return Some(("frame-metadata-differs-from-acknowledged-call".into(), format!("frame {}: {}", f.id, bad.join("; ")))); }
    if quiescent {
        if f.status != r.status || f.superseded_by != r.superseded_by {
            return Some(("frame-status-differs-from-acknowledged-calls".into(),
                format!("frame {}: status {} superseded_by {:?}, expected {} {:?}", f.id, f.status, f.superseded_by, r.status, r.superseded_by)));
        }
    }
    // the content of a COMMITTED frame never changes: it is compared at every moment, not only at quiescent
    // ones (status may lag behind pending tombstones / updates, content may not).  Seed C01-1 damaged committed
    // payloads while records were pending and was first reported only as a model/implementation disagreement.
    {
        if let Some(exp) = refm.expected_read(f.id) {
            if f.canon_raw != exp && !(f.status != 'a' && f.canon_raw == "err") {
                if r.note == "reuse-of-chunked" && f.canon_raw == "E" {
                    return Some(("payloadless-update-of-chunked-document-reads-empty".into(),
                        format!("frame {} is a payload-less update of chunked document {:?}; its canonical payload reads back empty instead of the document text", f.id, r.supersedes)));
                }
                if r.note == "extracted-plan" {
                    return Some(("binary-payload-with-extracted-text-chunks-reads-as-text".into(),
                        format!("frame {} was put with a non-UTF-8 payload whose extracted text was chunked; its canonical payload is the concatenated chunk text ({}), not the payload ({})", f.id, f.canon_raw, exp)));
                }
                if r.role != 'd' && r.n_chunks > 0 && f.canon_raw == "E" {
                    return Some(("chunked-put-with-non-document-role-reads-empty".into(),
                        format!("frame {} (role {}) was put with {} chars of text that the chunker split; its canonical payload reads back empty", f.id, r.role, "2400+")));
                }
                return Some(("frame-content-differs-from-acknowledged-call".into(),
                    format!("frame {}: canonical payload token {} expected {}", f.id, f.canon_raw, exp)));
            }
        }
    }
    None
}

/// C01 oracle: the committed frame table is a prefix of what the acknowledged calls predict, and
/// equals it (ids, URIs, status, content, metadata) whenever nothing is pending
pub fn oracle_c01(v: &mut StepView) -> Option<(String, String)> {
    let obs = v.after;
    let refm = v.reference;
    if obs.frames.len() > refm.frames.len() {
        return Some(("more-frames-than-acknowledged-inserts".into(), format!("{} committed frames, {} acknowledged inserts", obs.frames.len(), refm.frames.len())));
    }
    let quiescent = obs.pending_inserts == 0 && !obs.dirty;
    if quiescent && obs.frames.len() != refm.frames.len() {
        return Some(("acknowledged-insert-lost".into(), format!("{} committed frames after everything was committed, {} acknowledged inserts", obs.frames.len(), refm.frames.len())));
    }
    for (f, r) in obs.frames.iter().zip(refm.frames.iter()) {
        if f.id != r.id { return Some(("frame-id-not-its-position".into(), format!("frame at position {} has id {}", r.id, f.id))); }
        if let Some(x) = frame_vs_reference(f, r, refm, quiescent) { return Some(x); }
    }
    // a read-only handle opened after a drop sees exactly the same table
    if matches!(v.op, Op::ReadOnly) {
        if let Some(ro) = &v.world.last_ro {
            let a: Vec<String> = ro.frames.iter().map(|f| f.line()).collect();
            let b: Vec<String> = obs.frames.iter().map(|f| f.line()).collect();
            if a != b { return Some(("read-only-view-differs".into(), format!("read-only handle saw {} frames, writer {}", a.len(), b.len()))); }
        }
    }
    None
}

/// C06 oracle: ids dense and in put order (chunks directly after their document), next_frame_id
/// predicts the next id, an assigned id keeps naming the same frame
pub fn oracle_c06(v: &mut StepView) -> Option<(String, String)> {
    let obs = v.after;
    for (i, f) in obs.frames.iter().enumerate() {
        if f.id != i as u64 { return Some(("ids-not-dense".into(), format!("frame at position {i} has id {}", f.id))); }
    }
    // next_frame_id() before a put = the id the document gets
    if let (Op::Put(_), true) = (v.op, v.ack.is_ok()) {
        let predicted = v.before.next_frame_id;
        let assigned = v.reference_before.next_id();
        if predicted != assigned {
            return Some(("next-frame-id-mispredicts".into(), format!("next_frame_id() = {predicted} before the put, the document is insert number {assigned}")));
        }
    }
    if obs.next_frame_id != v.reference.next_id() && !matches!(v.op, Op::Crash) {
        return Some(("next-frame-id-mispredicts".into(), format!("next_frame_id() = {} after the op, {} inserts acknowledged", obs.next_frame_id, v.reference.next_id())));
    }
    // stability: every id that existed before still names the same frame
    if obs.frames.len() < v.before.frames.len() {
        return Some(("frame-table-shrank".into(), format!("{} frames before, {} after", v.before.frames.len(), obs.frames.len())));
    }
    for (a, b) in v.before.frames.iter().zip(obs.frames.iter()) {
        if identity_of(a) != identity_of(b) || (a.active() && b.active() && a.content != b.content) {
            return Some(("id-renamed".into(), format!("id {} named [{}{}] before and [{}{}] after", a.id, identity_of(a), a.content, identity_of(b), b.content)));
        }
    }
    // put order: frame i is what the i-th acknowledged insert predicts; chunks follow their document
    for (f, r) in obs.frames.iter().zip(v.reference.frames.iter()) {
        if f.uri.as_deref() != Some(r.uri_string().as_str()) || f.role != r.role || f.chunk_index != r.chunk_index {
            return Some(("ids-not-in-put-order".into(), format!("frame {} is uri {:?} role {} chunk {:?}; insert number {} was uri {} role {} chunk {:?}",
                f.id, f.uri, f.role, f.chunk_index, r.id, r.uri_string(), r.role, r.chunk_index)));
        }
        if let Some(doc) = r.doc {
            let ci = r.chunk_index.unwrap_or(0) as u64;
            if f.id != doc + 1 + ci || f.parent != Some(doc) {
                return Some(("chunk-not-directly-after-document".into(), format!("chunk {} (index {ci}) of document {doc} has id {} parent {:?}", r.id, f.id, f.parent)));
            }
        }
    }
    // frame_by_uri agrees with the table: newest active frame with the URI, else newest frame with it
    if v.index % 5 == 0 {
        let uris: std::collections::BTreeSet<String> = obs.frames.iter().filter_map(|f| f.uri.clone()).collect();
        for u in uris.iter().take(12) {
            let want = obs.frames.iter().rev().find(|f| f.uri.as_deref() == Some(u.as_str()) && f.active())
                .or_else(|| obs.frames.iter().rev().find(|f| f.uri.as_deref() == Some(u.as_str()))).map(|f| f.id);
            let got = v.world.mem().frame_by_uri(u).ok().map(|f| f.id);
            if got != want { return Some(("frame-by-uri-wrong-version".into(), format!("frame_by_uri({u}) = {got:?}, table says {want:?}"))); }
        }
    }
    None
}

// ---------------------------------------------------------------------------------------
// the shared main

pub struct FamilyConfig<'a> {
    pub property: &'a str,
    pub rule: &'a str,
    pub expect_branches: Vec<&'a str>,
}

fn ops_json(ops: &[Op]) -> Value { serde_json::to_value(ops).unwrap_or(Value::Null) }
pub fn ops_from_json(v: &Value) -> Vec<Op> { serde_json::from_value(v.clone()).expect("ops in replay file") }

fn record(sum: &mut Summary, args: &Args, drv: &mut Option<Driver>, oracle: &mut Oracle, label: &str, out: Outcome, shrink_budget_s: u64) {
    for b in &out.branches { sum.branch(b); }
    let canon = out.trace.join(";");
    let nontrivial = out.acked_mutations >= 2 && out.branches.iter().any(|b| matches!(b.as_str(), "auto-commit" | "op-commit" | "op-reopen" | "op-crash" | "drop-commit"));
    sum.case(&canon, nontrivial, || json!({"label": label, "ops": out.ops.len(), "acked_mutations": out.acked_mutations, "frames": out.final_frames,
        "trace_tail": out.trace.iter().rev().take(3).collect::<Vec<_>>()}));
    if let Some(d) = &out.dead {
        sum.oracle_violation("implementation-failed", d, json!({"ops": ops_json(&out.ops)}));
        return;
    }
    if out.oracle.is_none() && out.disagree.is_none() { return; }
    // shrink to a minimal failing op list (same failure class)
    let want_sig: Option<String> = out.oracle.as_ref().map(|o| o.0.clone());
    let t0 = std::time::Instant::now();
    let mut fails = |cand: &[Op]| -> bool {
        if t0.elapsed().as_secs() > shrink_budget_s { return false; }
        let o = run_history(Source::Fixed(cand), drv.as_mut(), oracle, false);
        match &want_sig { Some(s) => o.oracle.as_ref().map(|x| &x.0) == Some(s), None => o.disagree.is_some() && o.oracle.is_none() }
    };
    let small = shrink_list(&out.ops, &mut fails);
    let o2 = run_history(Source::Fixed(&small), drv.as_mut(), oracle, false);
    let case = json!({"ops": ops_json(&small), "label": label});
    let known: Vec<String> = args.extra.get("known").map(|s| s.split(',').map(|x| x.to_string()).collect()).unwrap_or_default();
    let (oracle_res, disagree_res) = if o2.oracle.is_some() || o2.disagree.is_some() { (o2.oracle, o2.disagree) } else { (out.oracle, out.disagree) };
    if let Some((sig, what, _, model_same)) = oracle_res {
        if model_same && known.iter().any(|k| *k == sig) { sum.known_finding(&sig, &what, case); } else { sum.oracle_violation(&sig, &what, case); }
    } else if let Some((what, m, i)) = disagree_res {
        let cut = |s: &str| s.chars().take(1500).collect::<String>();
        sum.disagreement(&what, case, &cut(&m), &cut(&i));
    }
}

/// `main` of a Core-family bin
pub fn run_family(cfg: FamilyConfig, prof: GenProfile, oracle: &mut Oracle) -> ! {
    let args = parse_args();
    let mut drv: Option<Driver> = if args.driver.as_os_str() == "none" { None } else { Some(Driver::spawn(&args.driver).expect("spawn driver")) };
    let mut sum = Summary::new(cfg.property, &args, cfg.rule);
    sum.expect_branches(&cfg.expect_branches);
    if args.mode == "replay" {
        let case = load_replay(args.replay_file.as_ref().expect("replay file"));
        let input = case.get("input").unwrap_or(&case);
        let ops = ops_from_json(&input["ops"]);
        let out = run_history(Source::Fixed(&ops), drv.as_mut(), oracle, true);
        if let Some((sig, what, _, _)) = &out.oracle { println!("ORACLE {sig}: {what}"); }
        if let Some((w, m, i)) = &out.disagree { println!("DISAGREE {w}\n  model: {}\n  impl : {}", m.chars().take(600).collect::<String>(), i.chars().take(600).collect::<String>()); }
        if let Some(d) = &out.dead { println!("DEAD {d}"); }
        record(&mut sum, &args, &mut drv, oracle, "replay", out, 0);
        sum.model_requests = drv.as_ref().map(|d| d.requests).unwrap_or(0);
        sum.finish(&args);
    }
    let mut prof = prof;
    if let Some(n) = args.extra.get("nshort").and_then(|s| s.parse().ok()) { prof.n_short = n; }
    if let Some(n) = args.extra.get("nlong").and_then(|s| s.parse().ok()) { prof.n_long = n; }
    let max_fail: usize = args.extra.get("maxfail").and_then(|s| s.parse().ok()).unwrap_or(3);
    let budget = args.extra.get("shrink").and_then(|s| s.parse().ok()).unwrap_or(if args.thorough { 180 } else { 40 });
    for (label, ops) in prof.corpus.clone() {
        let out = run_history(Source::Fixed(&ops), drv.as_mut(), oracle, false);
        sum.branch("corpus");
        record(&mut sum, &args, &mut drv, oracle, &label, out, budget);
    }
    let mut rng = Rng::new(args.seed);
    let progress = std::env::var("VERIF_PROGRESS").is_ok();
    for k in 0..prof.n_short {
        if sum.oracle_violations.len() + sum.disagreements.len() >= max_fail { break; }
        if progress { eprintln!("[progress] short-{k}"); }
        let len = rng.usize(prof.short_len.0, prof.short_len.1);
        let mut r = rng.fork();
        let out = run_history(Source::Gen { rng: &mut r, prof: &prof, len, long: false }, drv.as_mut(), oracle, false);
        record(&mut sum, &args, &mut drv, oracle, &format!("short-{k}"), out, budget);
    }
    for k in 0..prof.n_long {
        if sum.oracle_violations.len() + sum.disagreements.len() >= max_fail { break; }
        if progress { eprintln!("[progress] long-{k}"); }
        let len = rng.usize(prof.long_len.0, prof.long_len.1);
        let mut r = rng.fork();
        let mut p = prof.clone();
        // long histories: mostly puts, so that the WAL fills, checkpoints automatically and wraps
        p.w_put = 70; p.w_update = 8; p.w_delete = 8; p.w_commit = 2; p.w_reopen = 2; p.w_crash = 2; p.w_vacuum = 1; p.w_doctor = 0;
        p.w_skip = 1; p.w_finalize = 1; p.w_ticket = 0; p.w_batch = 2; p.w_readonly = 0;
        let out = run_history(Source::Gen { rng: &mut r, prof: &p, len, long: true }, drv.as_mut(), oracle, false);
        sum.branch("long-history");
        record(&mut sum, &args, &mut drv, oracle, &format!("long-{k}"), out, budget);
    }
    sum.model_requests = drv.as_ref().map(|d| d.requests).unwrap_or(0);
    sum.finish(&args);
}

/// helper for bins: BTreeMap of named counters an oracle wants to report
pub type Counters = BTreeMap<String, u64>;
