/-
  Line-protocol plumbing for the model drivers: one request line in, one answer line out.
-/
import MvModel.Bytes
namespace Mv

partial def drvLoop {σ : Type} (h : IO.FS.Stream) (out : IO.FS.Stream) (step : σ → List String → σ × String)
    (s : σ) : IO Unit := do
  let line ← h.getLine
  if line.isEmpty then return ()
  let ws := (line.trimAscii.toString.splitOn " ").filter (· ≠ "")
  let (s', ans) := step s ws
  out.putStrLn ans
  out.flush
  drvLoop h out step s'

def runDriver {σ : Type} (init : σ) (step : σ → List String → σ × String) : IO Unit := do
  drvLoop (← IO.getStdin) (← IO.getStdout) step init

def natList (s : String) : Option (List Nat) :=
  if s == "-" then some [] else (s.splitOn ",").mapM (·.toNat?)

def showNats (l : List Nat) : String :=
  if l.isEmpty then "-" else ",".intercalate (l.map toString)

def parseInt (s : String) : Option Int :=
  if s.startsWith "-" then (s.drop 1).toString.toNat?.map (fun n => - (Int.ofNat n)) else s.toNat?.map Int.ofNat

end Mv
