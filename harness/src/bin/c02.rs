//! C02 — process-crash atomicity.
//!
//! One history (create / put / update / delete / commit / vacuum / batch pre-size / commit_skip_indexes /
//! finalize_indexes / clean reopen) runs in a child process under `strace`; the recorded syscall stream
//! on the memory's directory is replayed on an in-memory file system; for EVERY prefix (process-crash
//! model: completed syscalls persist) the surviving `m.mv2` is written to a scratch directory and the
//! real `Memvid::open` is run on it in another child.  Oracle (independent of the Lean model): the
//! reopened memory shows every operation acknowledged before the crash point, optionally the
//! in-flight one, nothing else; active frames' contents byte-identical; search finds them.
//! Model (drv_c02): tie #1 — the canonicalised stream of each API step equals `emit` of the model;
//! tie #2 — the real observation at each crash point equals `recover` of the model image.
#[path = "../crashlib.rs"]
mod crashlib;
use crashlib::*;
use mvh::*;

fn corpus() -> Vec<(&'static str, Vec<HOp>)> {
    vec![
        ("staged-commit-and-plain-put", vec![
            HOp::Put { kind: 0, len: 200, seed: 1 },
            HOp::Put { kind: 1, len: 300, seed: 2 },
            HOp::Commit,
            HOp::Put { kind: 0, len: 100, seed: 3 },
            HOp::Delete { id: 0 },
            HOp::Put { kind: 0, len: 150, seed: 4 },
        ]),
        ("wal-wrap", vec![
            HOp::Put { kind: 1, len: 20_000, seed: 11 },
            HOp::Put { kind: 1, len: 20_000, seed: 12 },
            HOp::Put { kind: 1, len: 20_000, seed: 13 },
            HOp::Put { kind: 1, len: 21_000, seed: 14 },
            HOp::Commit,
        ]),
        ("wal-growth", vec![
            HOp::Put { kind: 0, len: 300, seed: 21 },
            HOp::Commit,
            HOp::Put { kind: 1, len: 70_000, seed: 22 },
            HOp::Commit,
        ]),
        ("update-and-reopen", vec![
            HOp::Put { kind: 0, len: 120, seed: 31 },
            HOp::Commit,
            HOp::Update { id: 0, kind: 0, len: 140, seed: 32 },
            HOp::Reopen,
            HOp::Put { kind: 0, len: 90, seed: 33 },
        ]),
        ("vacuum", vec![
            HOp::Put { kind: 0, len: 200, seed: 41 },
            HOp::Put { kind: 0, len: 220, seed: 42 },
            HOp::Commit,
            HOp::Delete { id: 0 },
            HOp::Vacuum,
        ]),
        ("batch-presize-and-skip-indexes", vec![
            HOp::Put { kind: 0, len: 200, seed: 51 },
            HOp::Commit,
            HOp::BatchBegin { presize: 100_000 },
            HOp::Put { kind: 0, len: 210, seed: 52 },
            HOp::BatchEnd,
            HOp::CommitSkipIndexes,
            HOp::FinalizeIndexes,
        ]),
    ]
}

fn main() {
    if child_main() {
        return;
    }
    if std::env::args().nth(1).as_deref() == Some("probe-wal") {
        let d = scratch_dir("pw");
        let p = d.join("x.mv2");
        let mut m = memvid_core::Memvid::create(&p).unwrap();
        let len: usize = std::env::args().nth(2).and_then(|x| x.parse().ok()).unwrap_or(2000);
        for i in 0..40u64 {
            let mut o = memvid_core::PutOptions::default();
            o.auto_tag = false; o.extract_dates = false; o.extract_triplets = false;
            let r = m.put_bytes_with_options(&payload(1, len, 100 + i), o);
            let st = memvid_core::verif_hooks::verif_state(&m);
            println!("put {i}: {:?} wh={} pend={} walsize={} frames={}", r.is_ok(), st.wal_write_head, st.wal_pending_bytes, st.hdr_wal_size, m.frame_count());
        }
        drop(m);
        let _ = std::fs::remove_dir_all(&d);
        return;
    }
    let args = parse_args();
    let exe = std::env::current_exe().unwrap();
    let mut sum = Summary::new("C02", &args, "one evaluation = one process-crash point (prefix of the recorded syscall stream) of one history: surviving m.mv2 reopened by the real Memvid::open and judged against the acknowledged-operations reference; distinct_nontrivial = distinct surviving images");
    let known: Vec<String> = args.extra.get("known").map(|s| s.split(',').map(|x| x.to_string()).collect()).unwrap_or_default();
    let scratch = scratch_dir("c02");
    let verbose = args.extra.contains_key("verbose");
    let only = args.extra.get("only").cloned();

    let mut histories: Vec<(String, Vec<HOp>)> = vec![];
    if args.mode == "replay" {
        let case = load_replay(args.replay_file.as_ref().expect("replay file"));
        let input = case.get("input").cloned().unwrap_or(case.clone());
        let h: Vec<HOp> = serde_json::from_value(input["history"].clone()).expect("history");
        histories.push(("replay".into(), h));
    } else {
        for (n, h) in corpus() {
            if only.as_deref().map(|o| o == n).unwrap_or(true) { histories.push((n.to_string(), h)); }
        }
    }

    for (name, history) in &histories {
        let t0 = std::time::Instant::now();
        let rec = match record_history(&exe, &scratch, history) {
            Ok(r) => r,
            Err(e) => {
                sum.disagreement("recorder failed (strace parse / simulated file system self-check)", json!({"history": history, "name": name}), "-", &e);
                continue;
            }
        };
        let t_rec = t0.elapsed();
        let spans = step_spans(&rec.ops);
        if verbose {
            let mut sim = rec.initial.clone();
            let mut pos = 0;
            for sp in &spans {
                while pos < sp.begin { sim.apply(&rec.ops[pos]); pos += 1; }
                let c = canon_step(&rec.ops, sp.begin, sp.end, &sim, FILE_NAME);
                let r: Vec<String> = rle(&c).into_iter().map(|(t, n)| if n > 1 { format!("{t}*{n}") } else { t }).collect();
                println!("  step {} {} ok={} {}: {}", sp.index, sp.name, sp.ok, sp.err, r.join(" "));
            }
        }
        let ev = eval_process_crashes(&exe, &scratch, history, &rec, false);
        let t_all = t0.elapsed();
        let mut bad = 0;
        let mut seen_sig: std::collections::BTreeSet<String> = Default::default();
        for p in &ev.points {
            sum.branch(&format!("crash-in-{}", p.inflight));
            let canon = format!("{name}/{}", p.image);
            let o = &ev.obs[p.image].first;
            sum.case(&canon, true, || json!({"history": name, "k": p.k, "inflight": p.inflight, "obs": o.logical()}));
            if !p.verdict.ok {
                bad += 1;
                let case = json!({"history": history, "name": name, "crash_prefix": p.k, "inflight": p.inflight,
                                  "last_syscall": rec.ops[p.k - 1].brief(), "observation": o.logical()});
                let first = seen_sig.insert(p.verdict.signature.clone());
                if verbose && first { println!("  FAIL k={} {} :: {} :: {}", p.k, rec.ops[p.k - 1].brief(), p.verdict.signature, p.verdict.what); }
                if known.contains(&p.verdict.signature) {
                    sum.known_finding(&p.verdict.signature, &p.verdict.what, case);
                } else if first {
                    sum.oracle_violation(&p.verdict.signature, &p.verdict.what, case);
                }
            } else {
                sum.branch(&format!("matched-{}", p.verdict.matched));
            }
        }
        println!("history {name}: ops={} crash_points={} distinct_images={} failing_points={} record={:.1}s total={:.1}s",
            rec.ops.len(), ev.points.len(), ev.images.len(), bad, t_rec.as_secs_f64(), t_all.as_secs_f64());
    }
    let _ = std::fs::remove_dir_all(&scratch);
    sum.finish(&args);
}
