/-
  C39 — Sketch term filter has no false negatives; sketch track round-trips.
  Property theorems only.  Model: MvModel/Sketch.lean (mirror of /repo/src/types/sketch_track.rs);
  helper lemmas: MvProps/C39Lemmas.lean.

  Clause 1 (no false negatives) is PROVED for the code as it is.
  Clause 2 (a written track reads back identical) is FALSE for the code as it is: `C39_track_full`
  is refuted by `C39_track_counterexample`; what a write+read really does is characterised exactly
  by `C39_track_normal_form`, and `C39_track_partial` / `C39_track_roundtrip_iff` give the precise
  class of tracks that do round-trip.
-/
import MvProps.C39Lemmas
namespace Mv.Sketch
open Mv.Gen.C39

/-! ## Clause 1 — no false negatives -/

/-- **C39_bloom_no_false_negative** — `build_term_filter` on any hash list and any non-zero size does
    not panic, returns `size` bytes, and `term_filter_maybe_contains` answers `true` for every hash
    that was inserted. -/
theorem C39_bloom_no_false_negative (hs : List Nat) (size : Nat) (hsz : 0 < size) :
    ∃ f, buildTermFilter hs size = some f ∧ f.length = size ∧ ∀ h ∈ hs, maybeContains f h = some true :=
  bloom_no_fn hs size hsz

example : ∃ f, buildTermFilter [300, 2 ^ 64 - 2, 0] 16 = some f ∧ maybeContains f 300 = some true ∧
    maybeContains f 45 = some false := ⟨_, rfl, by decide, by decide⟩

/-- **C39_filter** — for every token list (whatever tokenizer produced it), every token hash function and
    every weight function: if `generate_sketch` returns an entry, its filter has the variant's size and
    reports every token of the text as possibly present. -/
theorem C39_filter (hash : Bytes → Nat) (wt : Bytes → Nat → Nat) (frameId : Nat) (tokens : List Bytes)
    (v : Variant) (e : Entry) (hg : generateSketch hash wt frameId tokens v = some e) :
    e.termFilter.length = v.filterSize ∧ ∀ t ∈ tokens, maybeContains e.termFilter (hash t) = some true := by
  unfold generateSketch at hg
  split at hg
  · rename_i hemp
    cases hg
    refine ⟨by simp [Entry.new], ?_⟩
    intro t ht
    simp [List.isEmpty_iff] at hemp
    subst hemp; cases ht
  · obtain ⟨f, hb, hlen, hall⟩ := bloom_no_fn ((computeTokenWeights hash wt tokens).map (·.1)) v.filterSize (filterSize_pos v)
    simp only [hb] at hg
    split at hg
    · cases hg
    · cases hg
      exact ⟨hlen, fun t ht => hall _ (hash_mem_weighted hash wt tokens t ht)⟩

/-- **C39_sketch_total** — `generate_sketch` does not panic when `topTermsCount * W` fits a `u32`, `W`
    bounding the weights.  (Without an IDF map `W = 300`; with one, weights reach `i32::MAX` and only
    the Small variant, 2 top terms, is safe — see `C39_sketch_weight_sum_overflow`.) -/
theorem C39_sketch_total (hash : Bytes → Nat) (wt : Bytes → Nat → Nat) (frameId : Nat) (tokens : List Bytes)
    (v : Variant) (W : Nat) (hW : ∀ t c, wt t c ≤ W) (hk : v.topTermsCount * W < 2 ^ 32) :
    ∃ e, generateSketch hash wt frameId tokens v = some e := by
  unfold generateSketch
  split
  · exact ⟨_, rfl⟩
  · obtain ⟨f, hb, _, _⟩ := bloom_no_fn ((computeTokenWeights hash wt tokens).map (·.1)) v.filterSize (filterSize_pos v)
    simp only [hb]
    have hsum : (((computeTokenWeights hash wt tokens).take v.topTermsCount).map (·.2)).sum ≤ v.topTermsCount * W := by
      have hb : ∀ p ∈ (computeTokenWeights hash wt tokens).take v.topTermsCount, p.2 ≤ W := by
        intro p hp
        have := List.mem_of_mem_take hp
        simp only [computeTokenWeights, mem_sortPairs, List.mem_map] at this
        obtain ⟨t, _, rfl⟩ := this
        exact hW _ _
      have hl : ((computeTokenWeights hash wt tokens).take v.topTermsCount).length ≤ v.topTermsCount := by
        simp [List.length_take]; omega
      exact Nat.le_trans (sum_map_le _ _ W hb) (Nat.mul_le_mul_right W hl)
    rw [if_neg (by omega)]
    exact ⟨_, rfl⟩

/-- without an IDF map `generate_sketch` never panics, for every variant -/
theorem C39_sketch_total_no_idf (hash : Bytes → Nat) (frameId : Nat) (tokens : List Bytes) (v : Variant) :
    ∃ e, generateSketch hash wtNoIdf frameId tokens v = some e := by
  apply C39_sketch_total hash wtNoIdf frameId tokens v 300
  · intro t c
    have h1 : WEIGHT_MIN = 1 := by decide
    have h2 : TF_CAP = 3 := by decide
    have h3 : WEIGHT_SCALE = 100 := by decide
    simp only [wtNoIdf, h1, h2, h3]
    omega
  · cases v <;> decide

/-- **C39_filter_ascii** — end to end for ASCII text, with the tokenizer, the weights and the filter all
    inside the model: `generate_sketch(text)` returns an entry and every token the tokenizer produces
    from the text is reported as possibly present, for every token hash function. -/
theorem C39_filter_ascii (hash : Bytes → Nat) (frameId : Nat) (text : Bytes) (v : Variant) :
    ∃ e, generateSketch hash wtNoIdf frameId (tokenizeAscii text) v = some e ∧
      ∀ t ∈ tokenizeAscii text, maybeContains e.termFilter (hash t) = some true := by
  obtain ⟨e, he⟩ := C39_sketch_total_no_idf hash frameId (tokenizeAscii text) v
  exact ⟨e, he, (C39_filter hash wtNoIdf frameId _ v e he).2⟩

/-- non-vacuity: "Hi, hi a CAT!" has tokens `hi, hi, cat` -/
example : tokenizeAscii [72, 105, 44, 32, 104, 105, 32, 97, 32, 67, 65, 84, 33] =
    [[104, 105], [104, 105], [99, 97, 116]] := by decide

/-- with weights near `i32::MAX` (absurd IDF values) the Medium/Large `u32` weight sum overflows: the
    debug build panics (reproduced on the real code; not part of C39's statement) -/
theorem C39_sketch_weight_sum_overflow :
    generateSketch leVal (fun _ _ => 2147483647) 0 [[97, 97], [98, 98], [99, 99]] .medium = none := by
  decide

/-- **C39_overlap** — a query that shares a token with the text passes the term-filter stage of candidate
    search (`term_filter_maybe_overlaps` is true). -/
theorem C39_overlap (hash : Bytes → Nat) (wt : Bytes → Nat → Nat) (frameId : Nat) (doc query : List Bytes)
    (v : Variant) (e : Entry) (qf : Bytes) (t : Bytes)
    (hg : generateSketch hash wt frameId doc v = some e) (hq : queryFilter hash query v = some qf)
    (htd : t ∈ doc) (htq : t ∈ query) : maybeOverlaps e.termFilter qf = true := by
  obtain ⟨hlen, hall⟩ := C39_filter hash wt frameId doc v e hg
  have hd := hall t htd
  have hqne : query.isEmpty = false := by cases query <;> simp_all
  simp only [queryFilter, hqne] at hq
  obtain ⟨f, hb, hlenq, hallq⟩ := bloom_no_fn ((computeTokenWeights hash wtNoIdf query).map (·.1)) v.filterSize (filterSize_pos v)
  rw [hb] at hq
  cases hq
  have hqq := hallq _ (hash_mem_weighted hash wtNoIdf query t htq)
  exact overlaps_of_common hlen hlenq (filterSize_pos v) hd hqq

/-! ## Clause 2 — write then read -/

/-- the property as stated: every track (fields within their Rust types, distinct frame ids, as
    `SketchTrack::insert` guarantees) is identical after `write_sketch_track` + `read_sketch_track` -/
def C39_track_full : Prop :=
  ∀ t : Track, t.InRange → (t.entries.map (·.frameId)).Nodup →
    readTrack (writeTrack t) 0 (writeTrack t).length = .ok t

/-- one Small entry, all fields already in stored form, for frame 5 -/
def witnessIds : Track :=
  ⟨.small, [{ frameId := 5, simhash := 0, termFilter := zeros 16, topTerms := [0, 0], termWeightSum := 0,
              flags := 7, lengthHint := 0 }]⟩

/-- **C39_track_counterexample** — the round-trip clause is false for the code as it is: frame ids are not
    stored, the reader renumbers from 0 (frame 5's sketch comes back as frame 0's). -/
theorem C39_track_counterexample : ¬ C39_track_full := by
  intro h
  have := h witnessIds (by decide) (by decide)
  revert this
  decide

/-- what comes back for the witness: the same entry under frame id 0 -/
example : readTrack (writeTrack witnessIds) 0 (writeTrack witnessIds).length =
    .ok ⟨.small, [{ frameId := 0, simhash := 0, termFilter := zeros 16, topTerms := [0, 0], termWeightSum := 0,
                    flags := 7, lengthHint := 0 }]⟩ := by decide

/-- **C39_track_normal_form** — what write+read really does, for every track, anywhere in a file (`pre`
    bytes before, `post` bytes after, any `length` argument covering the track): the reader returns
    exactly `normalize t` — ids renumbered 0..n-1, shapes forced to the stored sizes, and in the Small
    variant weight sum / flags / length hint reset.  In particular it never fails and never panics. -/
theorem C39_track_normal_form (t : Track) (pre post : Bytes) (L : Nat) (hr : t.InRange)
    (hL : (writeTrack t).length ≤ L) :
    readTrack (pre ++ writeTrack t ++ post) pre.length L = .ok (normalize t) :=
  read_write_normal t pre post L hr hL

/-- **C39_track_partial** — the round trip under its true precondition: a track whose frame ids are
    0..n-1 in insertion order and whose entries are in stored shape reads back identical. -/
theorem C39_track_partial (t : Track) (pre post : Bytes) (hr : t.InRange) (hc : t.Canonical) :
    readTrack (pre ++ writeTrack t ++ post) pre.length (writeTrack t).length = .ok t := by
  rw [C39_track_normal_form t pre post _ hr (Nat.le_refl _), (normalize_eq_iff t).mpr hc]

/-- **C39_track_roundtrip_iff** — and that precondition is exact: no other track survives. -/
theorem C39_track_roundtrip_iff (t : Track) (pre post : Bytes) (hr : t.InRange) :
    readTrack (pre ++ writeTrack t ++ post) pre.length (writeTrack t).length = .ok t ↔ t.Canonical := by
  rw [C39_track_normal_form t pre post _ hr (Nat.le_refl _), ← normalize_eq_iff]
  constructor
  · intro h; exact Except.ok.inj h
  · intro h; rw [h]

/-- non-vacuity: a canonical two-entry Medium track (and it does round-trip, by evaluation) -/
def canonMedium : Track :=
  ⟨.medium, [{ frameId := 0, simhash := 2 ^ 64 - 1, termFilter := List.replicate 32 0xFF, topTerms := [1, 2, 3, 2 ^ 32 - 1],
               termWeightSum := 65535, flags := 23, lengthHint := 255 },
             { frameId := 1, simhash := 7, termFilter := zeros 32, topTerms := [0, 0, 0, 0],
               termWeightSum := 0, flags := 0, lengthHint := 0 }]⟩

example : canonMedium.InRange ∧ canonMedium.Canonical := by decide
set_option maxRecDepth 8000 in
example : readTrack ([9, 9] ++ writeTrack canonMedium ++ [1]) 2 (writeTrack canonMedium).length = .ok canonMedium := by
  decide

/-- **C39_track_positions** — what survives for EVERY track, position by position: the i-th entry written
    comes back as the i-th entry (under id i) with the same simhash, the same top terms up to zero
    padding / truncation to the stored count, the same filter when it had the stored size, and — except in
    the Small variant — the same weight sum, flags and length hint. -/
theorem C39_track_positions (t : Track) (pre post : Bytes) (L : Nat) (hr : t.InRange)
    (hL : (writeTrack t).length ≤ L) :
    ∃ t', readTrack (pre ++ writeTrack t ++ post) pre.length L = .ok t' ∧ t'.variant = t.variant ∧
      t'.entries.length = t.entries.length ∧
      ∀ (i : Nat) (e : Entry), t.entries[i]? = some e → ∃ e' : Entry, t'.entries[i]? = some e' ∧
        e'.frameId = i ∧ e'.simhash = e.simhash ∧
        e'.topTerms = padTake t.variant.storedTops e.topTerms 0 ∧
        (e.termFilter.length = t.variant.storedFilter → e'.termFilter = e.termFilter) ∧
        (t.variant ≠ .small → e'.termWeightSum = e.termWeightSum ∧ e'.flags = e.flags ∧ e'.lengthHint = e.lengthHint) := by
  refine ⟨normalize t, read_write_normal t pre post L hr hL, rfl, normFrom_length _ _ _, ?_⟩
  intro i e he
  refine ⟨normEntry t.variant i e, by simp [normalize, normFrom_getElem?, he], ?_⟩
  cases hv : t.variant
  · refine ⟨rfl, rfl, rfl, ?_, fun h => absurd rfl h⟩
    intro hlen
    exact (smallFilter_eq_self_iff _).mpr hlen
  · refine ⟨rfl, rfl, rfl, ?_, fun _ => ⟨rfl, rfl, rfl⟩⟩
    intro hlen
    exact (padTake_eq_self_iff _ _ _).mpr hlen
  · refine ⟨rfl, rfl, rfl, ?_, fun _ => ⟨rfl, rfl, rfl⟩⟩
    intro hlen
    exact (padTake_eq_self_iff _ _ _).mpr hlen

/-- **C39_roundtrip_keeps_filter** — in the Small and Medium variants the filter of a generated sketch is
    stored whole, so clause 1 still holds for the entry that is read back. -/
theorem C39_roundtrip_keeps_filter (hash : Bytes → Nat) (wt : Bytes → Nat → Nat) (frameId i : Nat)
    (tokens : List Bytes) (v : Variant) (hv : v ≠ .large) (e : Entry)
    (hg : generateSketch hash wt frameId tokens v = some e) :
    (normEntry v i e).termFilter = e.termFilter := by
  have hl := generated_filter_length hash wt frameId tokens v e hg
  cases v
  · exact (smallFilter_eq_self_iff _).mpr hl
  · exact (padTake_eq_self_iff _ _ _).mpr hl
  · exact absurd rfl hv

/-- **C39_large_roundtrip_false_negative** — in the Large variant it does not: the 64-byte filter is cut
    to 32 bytes on disk, the membership test then works modulo 256 bits, and a token of the text is
    reported absent (hash 300: bit 300 of 512 was set, bit 300 mod 256 = 44 is tested). -/
theorem C39_large_roundtrip_false_negative :
    ∃ e, generateSketch (fun _ => 300) wtNoIdf 0 [[97, 97]] .large = some e ∧
      maybeContains e.termFilter 300 = some true ∧
      maybeContains (normEntry .large 0 e).termFilter 300 = some false := by
  refine ⟨_, rfl, ?_, ?_⟩ <;> decide

/-- **C39_small_generated_never_identical** — no sketch produced by `generate_sketch(.., Small, None)` is
    in stored shape: whatever the text, flags / weight sum differ after a write+read of a Small track
    (the variant `Memvid` always writes). -/
theorem C39_small_generated_never_identical (hash : Bytes → Nat) (frameId i : Nat) (tokens : List Bytes) (e : Entry)
    (hg : generateSketch hash wtNoIdf frameId tokens .small = some e) : normEntry .small i e ≠ e := by
  intro hn
  obtain ⟨_, _, _, hw, hf, _⟩ := (normEntry_eq_iff .small i e).mp hn
  unfold generateSketch at hg
  split at hg
  · cases hg
    simp only at hf
    revert hf; decide
  · rename_i hne
    obtain ⟨f, hb, _, _⟩ := bloom_no_fn ((computeTokenWeights hash wtNoIdf tokens).map (·.1)) Variant.small.filterSize (filterSize_pos _)
    simp only [hb] at hg
    split at hg
    · cases hg
    · cases hg
      simp only at hw hf
      split at hf
      · revert hf; decide
      · -- 50 tokens or more: the flags agree, but the weight sum is at least 1
        cases hd : dedup tokens with
        | nil =>
          cases tokens with
          | nil => simp at hne
          | cons a as => simp [dedup] at hd
        | cons a as =>
          have hlen : (computeTokenWeights hash wtNoIdf tokens).length = as.length + 1 := by
            simp [computeTokenWeights, length_sortPairs, hd]
          cases hc : computeTokenWeights hash wtNoIdf tokens with
          | nil => rw [hc] at hlen; simp at hlen
          | cons p ps =>
            have hp : p ∈ computeTokenWeights hash wtNoIdf tokens := by rw [hc]; simp
            simp only [computeTokenWeights, mem_sortPairs, List.mem_map] at hp
            obtain ⟨t, _, rfl⟩ := hp
            have := wtNoIdf_pos t (tokens.count t)
            rw [hc] at hw
            have hts : Variant.small.topTermsCount = 2 := by decide
            simp only [hts, List.take_succ_cons, List.map_cons, List.sum_cons] at hw
            omega

theorem ofInserts_ids_nodup (v : Variant) (es : List Entry) :
    ((Track.ofInserts v es).entries.map (·.frameId)).Nodup := by
  unfold Track.ofInserts
  have : ∀ (t : Track), (t.entries.map (·.frameId)).Nodup → ((es.foldl Track.insert t).entries.map (·.frameId)).Nodup := by
    induction es with
    | nil => intro t h; exact h
    | cons e es ih => intro t h; exact ih _ (insert_nodup t e h)
  exact this _ (by simp [Track.new])

/-- even with dense frame ids the clause fails in the Small variant: a weight sum of 1 comes back as 0 -/
def witnessSmallFields : Track :=
  ⟨.small, [{ frameId := 0, simhash := 0, termFilter := zeros 16, topTerms := [0, 0], termWeightSum := 1,
              flags := 7, lengthHint := 0 }]⟩

/-- … and in the Medium variant for an entry with fewer than 4 top terms (zero padding) -/
def witnessShape : Track :=
  ⟨.medium, [{ frameId := 0, simhash := 0, termFilter := zeros 32, topTerms := [1, 2], termWeightSum := 0,
               flags := 0, lengthHint := 0 }]⟩

theorem C39_track_counterexample_small_fields :
    witnessSmallFields.InRange ∧ witnessSmallFields.entries.map (·.frameId) = [0] ∧
      readTrack (writeTrack witnessSmallFields) 0 (writeTrack witnessSmallFields).length ≠ .ok witnessSmallFields := by
  decide

set_option maxRecDepth 4000 in
theorem C39_track_counterexample_shape :
    witnessShape.InRange ∧ witnessShape.entries.map (·.frameId) = [0] ∧
      readTrack (writeTrack witnessShape) 0 (writeTrack witnessShape).length ≠ .ok witnessShape := by
  decide

/-- **C39_weights_order_independent** — `compute_token_weights` is well defined although it iterates a
    `HashMap`: ANY list that is sorted by its comparator and is a permutation of the (hash, weight) pairs
    of the distinct tokens — i.e. whatever `sort_by` returns for whatever iteration order — is the
    model's list. -/
theorem C39_weights_order_independent (hash : Bytes → Nat) (wt : Bytes → Nat → Nat) (tokens : List Bytes)
    (r : List (Nat × Nat)) (hs : SortedPairs r)
    (hp : r.Perm ((dedup tokens).map fun t => (hash t, wt t (tokens.count t)))) :
    r = computeTokenWeights hash wt tokens :=
  sortPairs_unique _ r hs hp

/-- clause 1 + candidate search still work on a Small/Medium entry that went through write+read -/
theorem C39_overlap_after_reload (hash : Bytes → Nat) (wt : Bytes → Nat → Nat) (frameId i : Nat)
    (doc query : List Bytes) (v : Variant) (hv : v ≠ .large) (e : Entry) (qf : Bytes) (t : Bytes)
    (hg : generateSketch hash wt frameId doc v = some e) (hq : queryFilter hash query v = some qf)
    (htd : t ∈ doc) (htq : t ∈ query) :
    maybeContains (normEntry v i e).termFilter (hash t) = some true ∧
      maybeOverlaps (normEntry v i e).termFilter qf = true := by
  rw [C39_roundtrip_keeps_filter hash wt frameId i doc v hv e hg]
  exact ⟨(C39_filter hash wt frameId doc v e hg).2 t htd, C39_overlap hash wt frameId doc query v e qf t hg hq htd htq⟩

/-- `Memvid` always writes a Small track but `insert_sketch` accepts any variant: a Medium sketch stored
    in a Small track keeps only its first 16 filter bytes and loses tokens (hash 200: bit 200 of 256 set,
    bit 200 mod 128 = 72 tested). -/
theorem C39_medium_in_small_track_false_negative :
    ∃ e, generateSketch (fun _ => 200) wtNoIdf 0 [[97, 97]] .medium = some e ∧
      maybeContains e.termFilter 200 = some true ∧
      maybeContains (normEntry .small 0 e).termFilter 200 = some false := by
  refine ⟨_, rfl, ?_, ?_⟩ <;> decide

/-! ## The reader on arbitrary bytes (reported for C22; C39 itself only needs `C39_track_normal_form`) -/

/-- **C39_reader_panic_iff** — `read_sketch_track` panics (debug profile: overflow checks on) exactly when
    the header is well-formed and `entry_count * entry_size` does not fit a `u64`; it is always the
    multiplication (`panicAdd` is unreachable), whatever `length` is passed. -/
theorem C39_reader_panic_iff (file : Bytes) (offset length : Nat) :
    (readTrack file offset length = .error .panicAdd ↔ False) ∧
    (readTrack file offset length = .error .panicMul ↔
      READER_CHECKED_ARITH = false ∧ HeaderOk file offset ∧
        leVal (slice (slice file offset HDR) 8 8) * leVal (slice (slice file offset HDR) 6 2) ≥ 2 ^ 64) := by
  unfold readTrack HeaderOk
  simp only
  split
  · rename_i h
    refine ⟨by simp, ?_⟩
    have hl := slice_length_le file offset HDR
    constructor
    · intro h'; cases h'
    · rintro ⟨_, ⟨h1, _⟩, _⟩; omega
  · rename_i hlen
    have hl := slice_length_le file offset HDR
    have hlen' : (slice file offset HDR).length = HDR := by omega
    split
    · rename_i hm
      refine ⟨by simp, ?_⟩
      constructor
      · intro h'; cases h'
      · rintro ⟨_, ⟨_, h2, _⟩, _⟩; exact absurd h2 hm
    · rename_i hm
      have hm' : slice (slice file offset HDR) 0 4 = MAGIC := Classical.byContradiction hm
      split
      · rename_i hv
        refine ⟨by simp, ?_⟩
        constructor
        · intro h'; cases h'
        · rintro ⟨_, ⟨_, _, h3⟩, _⟩; rw [hv] at h3; cases h3
      · rename_i v hv
        have hes := ofEntrySize_some _ _ hv
        rw [hes, expectedLength_valid]
        by_cases hmul : leVal (slice (slice file offset HDR) 8 8) * v.entrySize ≥ 2 ^ 64
        · rw [if_pos hmul]
          cases hc : READER_CHECKED_ARITH
          · simp only [Bool.false_eq_true, if_false]
            refine ⟨by simp, ?_⟩
            constructor
            · intro _; exact ⟨trivial, ⟨hlen', hm', by rw [ofEntrySize_entrySize]; rfl⟩, hmul⟩
            · intro _; trivial
          · simp only [if_true]
            refine ⟨by simp, ?_⟩
            constructor
            · intro h'; cases h'
            · rintro ⟨h1, _⟩; cases h1
        · rw [if_neg hmul]
          simp only
          split
          · refine ⟨by simp, ?_⟩
            constructor
            · intro h'; cases h'
            · rintro ⟨_, _, h3⟩; exact absurd h3 hmul
          · split
            · rename_i e he
              have := readEntries_error _ _ _ _ _ he
              subst this
              refine ⟨by simp, ?_⟩
              constructor
              · intro h'; cases h'
              · rintro ⟨_, _, h3⟩; exact absurd h3 hmul
            · refine ⟨by simp, ?_⟩
              constructor
              · intro h'; cases h'
              · rintro ⟨_, _, h3⟩; exact absurd h3 hmul

/-- a 24-byte crafted header (`MVSK`, version 1, entry size 32, entry count 2^59) followed by anything -/
def craftedHeader : Bytes :=
  [0x4D, 0x56, 0x53, 0x4B, 1, 0, 32, 0, 0, 0, 0, 0, 0, 0, 0, 8, 0, 0, 0, 0, 0, 0, 0, 0]

/-- **C39_reader_panic_witness** — on the current code (`READER_CHECKED_ARITH = false`) this header makes
    the reader panic; with checked arithmetic it is rejected as an error. -/
theorem C39_reader_panic_witness (rest : Bytes) (length : Nat) :
    readTrack (craftedHeader ++ rest) 0 length =
      .error (if READER_CHECKED_ARITH then .overflow else .panicMul) := by
  have h : slice (craftedHeader ++ rest) 0 HDR = craftedHeader := by
    rw [HDR_eq]; exact slice_append_here _ _ 24 (by decide)
  have h1 : ¬ (craftedHeader.length < HDR) := by decide
  have h2 : ¬ (slice craftedHeader 0 4 ≠ MAGIC) := by decide
  have h3 : Variant.ofEntrySize (leVal (slice craftedHeader 6 2)) = some .small := by decide
  have h4 : expectedLength (leVal (slice craftedHeader 8 8)) (leVal (slice craftedHeader 6 2)) =
      .error (if READER_CHECKED_ARITH then .overflow else .panicMul) := by decide
  unfold readTrack
  simp only [h, h1, h2, h3, h4, if_false]

end Mv.Sketch
