/-
  C17Cur.lean — the inductive invariant of the CURRENT lock protocol (`Proto.current`, the code as
  it is): every writable handle keeps, for its whole lifetime, an exclusive flock through its own
  description on the inode it OPENED (`lockIno`) — whether or not the path still names that inode.
  Helper development for MvProps/C17.lean.
-/
import MvProps.C17Lemmas
namespace Mv.Lock

/-- What the current protocol guarantees about one handle, phase by phase. -/
def HandleOkC (L : List Ent) (nIno : Nat) (id : Nat) (h : Handle) : Prop :=
  h.lockSer < h.nd ∧ h.lockIno < nIno ∧
  (∀ n k, h.stg = some (n, k) → n ≠ h.lockSer ∧ k < nIno) ∧
  match h.phase with
  | .opening => h.stg = none ∧ h.mode = none
  | .opened => h.mode = none
  | .locked => h.mode = some .ex ∧ (h.lost = false → ⟨id, h.lockSer, h.lockIno, .ex⟩ ∈ L)
  | .reader => h.mode = some .sh ∧ (h.lost = false → ⟨id, h.lockSer, h.lockIno, .sh⟩ ∈ L)
  | .live => h.mode = some .ex ∧ (h.lost = false → ⟨id, h.lockSer, h.lockIno, .ex⟩ ∈ L)
  | .staged => h.mode = some .ex ∧ (h.lost = false → ⟨id, h.lockSer, h.lockIno, .ex⟩ ∈ L)
  | .renamed => h.mode = some .ex ∧ (h.lost = false → ⟨id, h.lockSer, h.lockIno, .ex⟩ ∈ L)
  | .downgrading => h.mode = some .ex
  | .upgrading => h.mode = some .sh

/-- The inductive invariant of the current protocol. -/
structure InvC (s : State) : Prop where
  compat : Compat s.locks
  inoLt : ∀ e ∈ s.locks, e.ino < s.nIno
  dirLt : ∀ p i, s.dir p = some i → i < s.nIno
  hOk : ∀ id h, s.hnd id = some h → HandleOkC s.locks s.nIno id h

theorem HandleOkC.writerLock {L nIno id h} (ok : HandleOkC L nIno id h)
    (hw : h.phase.writer = true) (hl : h.lost = false) : ⟨id, h.lockSer, h.lockIno, .ex⟩ ∈ L := by
  obtain ⟨_, _, _, ok⟩ := ok
  cases hp : h.phase <;> simp only [hp, Phase.writer] at ok hw <;> first | exact ok.2 hl | cases hw

/-- the belief never over-claims: outside a downgrade call, a handle whose `FileLock::mode()` says
    Exclusive (and no switch of which timed out) holds the exclusive flock; a handle inside or after
    an upgrade attempt that has not been granted still says Shared -/
theorem HandleOkC.belief {L nIno id h} (ok : HandleOkC L nIno id h) :
    (h.mode = some .ex → h.phase ≠ .downgrading → h.lost = false →
      ⟨id, h.lockSer, h.lockIno, .ex⟩ ∈ L) ∧
    (h.phase = .upgrading ∨ h.phase = .reader → h.mode = some .sh) := by
  obtain ⟨_, _, _, ok⟩ := ok
  refine ⟨?_, ?_⟩
  · intro h1 h2 h3
    cases hp : h.phase <;> simp only [hp] at ok h2 <;> simp_all
  · intro h1
    cases hp : h.phase <;> simp only [hp] at ok h1 <;> simp_all

theorem HandleOkC.frame {L L' : List Ent} {n n' id : Nat} {h : Handle}
    (ok : HandleOkC L n id h) (hL : ∀ e ∈ L, e.owner = id → e ∈ L') (hn : n ≤ n') :
    HandleOkC L' n' id h := by
  obtain ⟨h1, h2, h3, ok⟩ := ok
  refine ⟨h1, Nat.lt_of_lt_of_le h2 hn, fun a b hs => ⟨(h3 a b hs).1, Nat.lt_of_lt_of_le (h3 a b hs).2 hn⟩, ?_⟩
  cases hp : h.phase <;> simp only [hp] at ok ⊢ <;>
    first | exact ok | exact ⟨ok.1, fun hl => hL _ (ok.2 hl) rfl⟩

theorem InvC.update {s : State} (inv : InvC s) (s' : State) (h : Nat)
    (hc : Compat s'.locks) (hi : ∀ e ∈ s'.locks, e.ino < s'.nIno)
    (hdl : ∀ p i, s'.dir p = some i → i < s'.nIno)
    (hn : s.nIno ≤ s'.nIno)
    (hLk : ∀ e ∈ s.locks, e.owner ≠ h → e ∈ s'.locks)
    (hoth : ∀ id, id ≠ h → s'.hnd id = s.hnd id)
    (hnew : ∀ x, s'.hnd h = some x → HandleOkC s'.locks s'.nIno h x) : InvC s' := by
  refine ⟨hc, hi, hdl, ?_⟩
  intro id hh hid
  by_cases e : id = h
  · subst e; exact hnew hh hid
  · rw [hoth id e] at hid
    exact (inv.hOk id hh hid).frame (fun x hx ho => hLk x hx (by rw [ho]; exact e)) hn

theorem updHnd_other' (s : State) (h : Nat) (x : Option Handle) (id : Nat) (hne : id ≠ h) :
    (updHnd s h x).hnd id = s.hnd id := by
  simp [updHnd, hne]

theorem updHnd_self' (s : State) (h : Nat) (x : Option Handle) : (updHnd s h x).hnd h = x := by
  simp [updHnd]

theorem stepC_mkfile {s : State} (inv : InvC s) (p : Nat) : InvC (step .current s (.mkfile p)) := by
  simp only [step]
  split
  · exact inv
  · refine ⟨inv.compat, fun e he => Nat.lt_succ_of_lt (inv.inoLt e he), ?_, ?_⟩
    · intro q i hq
      simp only [updDir] at hq
      split at hq
      · cases hq; exact Nat.lt_succ_self _
      · exact Nat.lt_succ_of_lt (inv.dirLt q i hq)
    · intro id hh hid
      exact (inv.hOk id hh hid).frame (fun _ hx _ => hx) (Nat.le_succ _)

theorem stepC_openFd {s : State} (inv : InvC s) (h p : Nat) (two : Bool) :
    InvC (step .current s (.openFd h p two)) := by
  simp only [step]
  split
  · rename_i i hnone hdir
    refine inv.update _ h inv.compat inv.inoLt inv.dirLt (Nat.le_refl _) (fun _ he _ => he)
      (fun id hne => updHnd_other' s h _ id hne) ?_
    intro x hx
    rw [updHnd_self'] at hx
    cases hx
    refine ⟨Nat.zero_lt_one, inv.dirLt p i hdir, fun _ _ hs => (by cases hs), ?_⟩
    cases two <;> simp
  · exact inv

theorem stepC_openFd2 {s : State} (inv : InvC s) (h : Nat) :
    InvC (step .current s (.openFd2 h)) := by
  simp only [step]
  split
  · rename_i hd hh
    have ok := inv.hOk h hd hh
    split
    · rename_i hph
      split
      · rename_i i hdir
        refine inv.update _ h inv.compat inv.inoLt inv.dirLt (Nat.le_refl _) (fun _ he _ => he)
          (fun id hne => updHnd_other' s h _ id hne) ?_
        intro x hx
        rw [updHnd_self'] at hx
        cases hx
        obtain ⟨_, _, _, o4⟩ := ok
        simp only [hph] at o4
        refine ⟨Nat.lt_succ_self _, inv.dirLt _ i hdir, ?_, o4.2⟩
        intro n k hs
        simp only [o4.1] at hs
        cases hs
      · refine inv.update _ h inv.compat inv.inoLt inv.dirLt (Nat.le_refl _) (fun _ he _ => he)
          (fun id hne => updHnd_other' s h _ id hne) ?_
        intro x hx
        rw [updHnd_self'] at hx
        cases hx
    · exact inv
  · exact inv

theorem stepC_flockEx {s : State} (inv : InvC s) (h : Nat) :
    InvC (step .current s (.flockEx h)) := by
  simp only [step]
  split
  · rename_i hd hh
    split
    · rename_i hc
      obtain ⟨hph, hg⟩ := hc
      have ok := inv.hOk h hd hh
      refine inv.update _ h (inv.compat.of_setLock hg) ?_ inv.dirLt (Nat.le_refl _) ?_
        (fun id hne => updHnd_other' s h _ id hne) ?_
      · intro e he
        rcases mem_setLock.mp he with rfl | ⟨heL, _⟩
        · exact ok.2.1
        · exact inv.inoLt e heL
      · intro e he hne
        exact mem_setLock.mpr (Or.inr ⟨he, fun hh => hne hh.1⟩)
      · intro x hx
        simp only [updHnd_self'] at hx
        cases hx
        refine ⟨ok.1, ok.2.1, ok.2.2.1, ?_⟩
        simp only [Proto.current]
        exact ⟨trivial, fun _ => mem_setLock.mpr (Or.inl rfl)⟩
    · exact inv
  · exact inv

theorem stepC_flockSh {s : State} (inv : InvC s) (h : Nat) :
    InvC (step .current s (.flockSh h)) := by
  simp only [step]
  split
  · rename_i hd hh
    split
    · rename_i hc
      obtain ⟨hph, hg⟩ := hc
      have ok := inv.hOk h hd hh
      refine inv.update _ h (inv.compat.of_setLock hg) ?_ inv.dirLt (Nat.le_refl _) ?_
        (fun id hne => updHnd_other' s h _ id hne) ?_
      · intro e he
        rcases mem_setLock.mp he with rfl | ⟨heL, _⟩
        · exact ok.2.1
        · exact inv.inoLt e heL
      · intro e he hne
        exact mem_setLock.mpr (Or.inr ⟨he, fun hh => hne hh.1⟩)
      · intro x hx
        simp only [updHnd_self'] at hx
        cases hx
        exact ⟨ok.1, ok.2.1, ok.2.2.1, rfl, fun _ => mem_setLock.mpr (Or.inl rfl)⟩
    · exact inv
  · exact inv

theorem stepC_drop {s : State} (inv : InvC s) (h : Nat) :
    InvC (step .current s (.drop h)) := by
  simp only [step]
  split
  · refine inv.update _ h (inv.compat.of_closeAll h) (fun e he => inv.inoLt e (mem_closeAll.mp he).1)
      inv.dirLt (Nat.le_refl _) (fun e he hne => mem_closeAll.mpr ⟨he, hne⟩)
      (fun id hne => updHnd_other' s h _ id hne) ?_
    intro x hx
    simp only [updHnd_self'] at hx
    cases hx
  · exact inv

theorem stepC_validate {s : State} (inv : InvC s) (h : Nat) :
    InvC (step .current s (.validate h)) := by
  simp only [step]
  split
  · rename_i hd hh
    have ok := inv.hOk h hd hh
    split
    · rename_i hph
      split
      · refine inv.update _ h inv.compat inv.inoLt inv.dirLt (Nat.le_refl _) (fun _ he _ => he)
          (fun id hne => updHnd_other' s h _ id hne) ?_
        intro x hx
        rw [updHnd_self'] at hx
        cases hx
        obtain ⟨o1, o2, o3, o4⟩ := ok
        simp only [hph] at o4
        exact ⟨o1, o2, o3, o4⟩
      · refine inv.update _ h (inv.compat.of_closeAll h)
          (fun e he => inv.inoLt e (mem_closeAll.mp he).1)
          inv.dirLt (Nat.le_refl _) (fun e he hne => mem_closeAll.mpr ⟨he, hne⟩)
          (fun id hne => updHnd_other' s h _ id hne) ?_
        intro x hx
        simp only [updHnd_self'] at hx
        cases hx
    · exact inv
  · exact inv

theorem stepC_put {s : State} (inv : InvC s) (h : Nat) :
    InvC (step .current s (.put h)) := by
  simp only [step]
  split
  · rename_i hd hh
    split
    · refine inv.update _ h inv.compat inv.inoLt inv.dirLt (Nat.le_refl _) (fun _ he _ => he)
        (fun id hne => updHnd_other' s h _ id hne) ?_
      intro x hx
      rw [updHnd_self'] at hx
      cases hx
      exact inv.hOk h hd hh
    · exact inv
  · exact inv

theorem stepC_stage {s : State} (inv : InvC s) (h : Nat) :
    InvC (step .current s (.stage h)) := by
  simp only [step]
  split
  · rename_i hd hh
    have ok := inv.hOk h hd hh
    split
    · rename_i hc
      obtain ⟨o1, o2, o3, o4⟩ := ok
      simp only [hc.1] at o4
      simp only [Proto.current]
      refine inv.update _ h inv.compat (fun e he => Nat.lt_succ_of_lt (inv.inoLt e he))
        (fun q i hq => Nat.lt_succ_of_lt (inv.dirLt q i hq)) (Nat.le_succ _) (fun _ he _ => he)
        (fun id hne => updHnd_other' s h _ id hne) ?_
      intro x hx
      simp only [updHnd_self'] at hx
      cases hx
      refine ⟨Nat.lt_succ_of_lt o1, Nat.lt_succ_of_lt o2, ?_, o4⟩
      intro n k hs
      cases hs
      exact ⟨Nat.ne_of_gt o1, Nat.lt_succ_self _⟩
    · exact inv
  · exact inv

theorem stepC_rename {s : State} (inv : InvC s) (h : Nat) :
    InvC (step .current s (.rename h)) := by
  simp only [step]
  split
  · rename_i hd hh
    have ok := inv.hOk h hd hh
    split
    · rename_i hph
      split
      · rename_i n k hstg
        obtain ⟨o1, o2, o3, o4⟩ := ok
        simp only [hph] at o4
        refine inv.update _ h inv.compat inv.inoLt ?_ (Nat.le_refl _) (fun _ he _ => he)
          (fun id hne => updHnd_other' _ h _ id hne) ?_
        · intro q i hq
          simp only [updHnd, updDir] at hq
          split at hq
          · cases hq; exact (o3 n k hstg).2
          · exact inv.dirLt q i hq
        · intro x hx
          simp only [updHnd_self'] at hx
          cases hx
          exact ⟨o1, o2, o3, o4⟩
      · exact inv
    · exact inv
  · exact inv

theorem stepC_finish {s : State} (inv : InvC s) (h : Nat) :
    InvC (step .current s (.finish h)) := by
  simp only [step]
  split
  · rename_i hd hh
    have ok := inv.hOk h hd hh
    split
    · rename_i hph
      split
      · rename_i n k i hstg hdir
        obtain ⟨o1, o2, o3, o4⟩ := ok
        simp only [hph] at o4
        simp only [Proto.current]
        refine inv.update _ h inv.compat inv.inoLt inv.dirLt (Nat.le_refl _) (fun _ he _ => he)
          (fun id hne => updHnd_other' s h _ id hne) ?_
        intro x hx
        simp only [updHnd_self', Bool.false_eq_true, if_false] at hx
        cases hx
        exact ⟨Nat.lt_succ_of_lt o1, o2, fun _ _ hs => (by cases hs), o4⟩
      · exact inv
    · exact inv
  · exact inv

theorem stepC_abort {s : State} (inv : InvC s) (h : Nat) :
    InvC (step .current s (.abort h)) := by
  simp only [step]
  split
  · rename_i hd hh
    have ok := inv.hOk h hd hh
    split
    · rename_i hph
      split
      · rename_i n k hstg
        obtain ⟨o1, o2, o3, o4⟩ := ok
        simp only [hph] at o4
        refine inv.update _ h (inv.compat.of_unlockDesc h n)
          (fun e he => inv.inoLt e (mem_unlockDesc.mp he).1) inv.dirLt (Nat.le_refl _)
          (fun e he hne => mem_unlockDesc.mpr ⟨he, fun hh => hne hh.1⟩)
          (fun id hne => updHnd_other' s h _ id hne) ?_
        intro x hx
        simp only [updHnd_self'] at hx
        cases hx
        exact ⟨o1, o2, fun _ _ hs => (by cases hs), o4.1,
          fun hl => mem_unlockDesc.mpr ⟨o4.2 hl, fun hh => (o3 n k hstg).1 hh.2.symm⟩⟩
      · exact inv
    · exact inv
  · exact inv

theorem stepC_dgUnlock {s : State} (inv : InvC s) (h : Nat) :
    InvC (step .current s (.dgUnlock h)) := by
  simp only [step]
  split
  · rename_i hd hh
    have ok := inv.hOk h hd hh
    split
    · rename_i hc
      obtain ⟨o1, o2, o3, o4⟩ := ok
      simp only [hc.2.1] at o4
      refine inv.update _ h (inv.compat.of_unlockDesc h hd.lockSer)
        (fun e he => inv.inoLt e (mem_unlockDesc.mp he).1) inv.dirLt (Nat.le_refl _)
        (fun e he hne => mem_unlockDesc.mpr ⟨he, fun hh => hne hh.1⟩)
        (fun id hne => updHnd_other' s h _ id hne) ?_
      intro x hx
      simp only [updHnd_self'] at hx
      cases hx
      exact ⟨o1, o2, o3, o4.1⟩
    · exact inv
  · exact inv

theorem stepC_ugUnlock {s : State} (inv : InvC s) (h : Nat) :
    InvC (step .current s (.ugUnlock h)) := by
  simp only [step]
  split
  · rename_i hd hh
    have ok := inv.hOk h hd hh
    split
    · rename_i hc
      obtain ⟨o1, o2, o3, o4⟩ := ok
      simp only [hc.2] at o4
      refine inv.update _ h (inv.compat.of_unlockDesc h hd.lockSer)
        (fun e he => inv.inoLt e (mem_unlockDesc.mp he).1) inv.dirLt (Nat.le_refl _)
        (fun e he hne => mem_unlockDesc.mpr ⟨he, fun hh => hne hh.1⟩)
        (fun id hne => updHnd_other' s h _ id hne) ?_
      intro x hx
      simp only [updHnd_self'] at hx
      cases hx
      exact ⟨o1, o2, o3, o4.1⟩
    · exact inv
  · exact inv

theorem stepC_dgLock {s : State} (inv : InvC s) (h : Nat) :
    InvC (step .current s (.dgLock h)) := by
  simp only [step]
  split
  · rename_i hd hh
    split
    · rename_i hc
      obtain ⟨_, hph, hg⟩ := hc
      have ok := inv.hOk h hd hh
      refine inv.update _ h (inv.compat.of_setLock hg) ?_ inv.dirLt (Nat.le_refl _) ?_
        (fun id hne => updHnd_other' s h _ id hne) ?_
      · intro e he
        rcases mem_setLock.mp he with rfl | ⟨heL, _⟩
        · exact ok.2.1
        · exact inv.inoLt e heL
      · intro e he hne
        exact mem_setLock.mpr (Or.inr ⟨he, fun hh => hne hh.1⟩)
      · intro x hx
        simp only [updHnd_self'] at hx
        cases hx
        exact ⟨ok.1, ok.2.1, ok.2.2.1, rfl, fun _ => mem_setLock.mpr (Or.inl rfl)⟩
    · exact inv
  · exact inv

theorem stepC_ugLock {s : State} (inv : InvC s) (h : Nat) :
    InvC (step .current s (.ugLock h)) := by
  simp only [step]
  split
  · rename_i hd hh
    split
    · rename_i hc
      obtain ⟨_, hph, hg⟩ := hc
      have ok := inv.hOk h hd hh
      refine inv.update _ h (inv.compat.of_setLock hg) ?_ inv.dirLt (Nat.le_refl _) ?_
        (fun id hne => updHnd_other' s h _ id hne) ?_
      · intro e he
        rcases mem_setLock.mp he with rfl | ⟨heL, _⟩
        · exact ok.2.1
        · exact inv.inoLt e heL
      · intro e he hne
        exact mem_setLock.mpr (Or.inr ⟨he, fun hh => hne hh.1⟩)
      · intro x hx
        simp only [updHnd_self'] at hx
        cases hx
        exact ⟨ok.1, ok.2.1, ok.2.2.1, rfl, fun _ => mem_setLock.mpr (Or.inl rfl)⟩
    · exact inv
  · exact inv

theorem stepC_dgFail {s : State} (inv : InvC s) (h : Nat) :
    InvC (step .current s (.dgFail h)) := by
  simp only [step]
  split
  · rename_i hd hh
    have ok := inv.hOk h hd hh
    split
    · rename_i hc
      obtain ⟨o1, o2, o3, o4⟩ := ok
      simp only [hc.2] at o4
      refine inv.update _ h inv.compat inv.inoLt inv.dirLt (Nat.le_refl _) (fun _ he _ => he)
        (fun id hne => updHnd_other' s h _ id hne) ?_
      intro x hx
      rw [updHnd_self'] at hx
      cases hx
      exact ⟨o1, o2, o3, o4, fun hl => (by cases hl)⟩
    · exact inv
  · exact inv

theorem stepC_ugFail {s : State} (inv : InvC s) (h : Nat) :
    InvC (step .current s (.ugFail h)) := by
  simp only [step]
  split
  · rename_i hd hh
    have ok := inv.hOk h hd hh
    split
    · rename_i hc
      obtain ⟨o1, o2, o3, o4⟩ := ok
      simp only [hc.2] at o4
      refine inv.update _ h inv.compat inv.inoLt inv.dirLt (Nat.le_refl _) (fun _ he _ => he)
        (fun id hne => updHnd_other' s h _ id hne) ?_
      intro x hx
      rw [updHnd_self'] at hx
      cases hx
      exact ⟨o1, o2, o3, o4, fun hl => (by cases hl)⟩
    · exact inv
  · exact inv

/-- every step of the current protocol preserves `InvC` -/
theorem stepC_inv {s : State} (inv : InvC s) (st : Step) : InvC (step .current s st) := by
  cases st with
  | mkfile p => exact stepC_mkfile inv p
  | openFd h p two => exact stepC_openFd inv h p two
  | openFd2 h => exact stepC_openFd2 inv h
  | flockEx h => exact stepC_flockEx inv h
  | flockSh h => exact stepC_flockSh inv h
  | validate h => exact stepC_validate inv h
  | put h => exact stepC_put inv h
  | stage h => exact stepC_stage inv h
  | rename h => exact stepC_rename inv h
  | finish h => exact stepC_finish inv h
  | abort h => exact stepC_abort inv h
  | drop h => exact stepC_drop inv h
  | dgUnlock h => exact stepC_dgUnlock inv h
  | dgLock h => exact stepC_dgLock inv h
  | dgFail h => exact stepC_dgFail inv h
  | ugUnlock h => exact stepC_ugUnlock inv h
  | ugLock h => exact stepC_ugLock inv h
  | ugFail h => exact stepC_ugFail inv h

theorem init_invC : InvC init :=
  ⟨fun _ h => (by cases h), fun _ h => (by cases h), fun _ _ h => (by cases h),
   fun _ _ h => (by cases h)⟩

theorem runC_inv {s : State} (inv : InvC s) (t : List Step) : InvC (run .current s t) := by
  induction t generalizing s with
  | nil => exact inv
  | cons st t ih => exact ih (stepC_inv inv st)

/-- two live writers never hold their locks on the same inode (current protocol, ONE state) -/
theorem InvC.lockInoDistinct {s : State} (inv : InvC s) {a b : Nat} {ha hb : Handle}
    (h1 : s.hnd a = some ha) (h2 : s.hnd b = some hb)
    (w1 : ha.phase.writer = true) (w2 : hb.phase.writer = true)
    (l1 : ha.lost = false) (l2 : hb.lost = false) (hne : a ≠ b) :
    ha.lockIno ≠ hb.lockIno := by
  intro heq
  have e1 := (inv.hOk a ha h1).writerLock w1 l1
  have e2 := (inv.hOk b hb h2).writerLock w2 l2
  have := (inv.compat _ e1 _ e2 heq (Or.inl hne)).1
  simp at this

-- ------------------------------------------------------------------ as long as nobody renames
def Step.isRename : Step → Bool
  | .rename _ => true
  | _ => false

def Step.isDgFail : Step → Bool
  | .dgFail _ => true
  | _ => false

/-- "no commit has replaced any file yet": every descriptor is on the inode its path names -/
def NR (s : State) : Prop :=
  ∀ id h, s.hnd id = some h →
    s.dir h.path = some h.fileIno ∧ (h.phase ≠ .opening → h.lockIno = h.fileIno) ∧ h.phase ≠ .renamed ∧
    (h.lost = true → h.phase = .reader ∨ h.phase = .upgrading)

theorem NR.update {s : State} (nr : NR s) (s' : State) (h : Nat)
    (hdir : ∀ q i, s.dir q = some i → s'.dir q = some i)
    (hoth : ∀ id, id ≠ h → s'.hnd id = s.hnd id)
    (hnew : ∀ x, s'.hnd h = some x →
      s'.dir x.path = some x.fileIno ∧ (x.phase ≠ .opening → x.lockIno = x.fileIno) ∧ x.phase ≠ .renamed ∧
      (x.lost = true → x.phase = .reader ∨ x.phase = .upgrading)) :
    NR s' := by
  intro id hh hid
  by_cases e : id = h
  · subst e; exact hnew hh hid
  · rw [hoth id e] at hid
    obtain ⟨a, b, c, d⟩ := nr id hh hid
    exact ⟨hdir _ _ a, b, c, d⟩

/-- a step that is not a rename keeps every descriptor on the inode its path names -/
theorem stepNR {s : State} (nr : NR s) (st : Step) (hst : st.isRename = false)
    (hdf : st.isDgFail = false) :
    NR (step .current s st) := by
  cases st with
  | rename r => simp [Step.isRename] at hst
  | mkfile p =>
      simp only [step]
      split
      · exact nr
      · rename_i hnone
        intro id hh hid
        obtain ⟨a, b, c, d⟩ := nr id hh hid
        refine ⟨?_, b, c, d⟩
        simp only [updDir]
        split
        · rename_i heq; rw [heq, hnone] at a; cases a
        · exact a
  | openFd h p two =>
      simp only [step]
      split
      · rename_i i hnone hdir
        refine nr.update _ h (fun _ _ hq => hq) (fun id hne => updHnd_other' s h _ id hne) ?_
        intro x hx
        rw [updHnd_self'] at hx
        cases hx
        refine ⟨hdir, fun _ => rfl, ?_, fun hl => (by cases hl)⟩
        cases two <;> simp
      · exact nr
  | openFd2 h =>
      simp only [step]
      split
      · rename_i hd hh
        obtain ⟨a, b, c, d⟩ := nr h hd hh
        split
        · rename_i hph
          split
          · rename_i i hdir
            refine nr.update _ h (fun _ _ hq => hq) (fun id hne => updHnd_other' s h _ id hne) ?_
            intro x hx
            rw [updHnd_self'] at hx
            cases hx
            rw [a] at hdir
            cases hdir
            exact ⟨a, fun _ => rfl, by simp, fun hl => by have := d hl; rw [hph] at this; simp at this⟩
          · refine nr.update _ h (fun _ _ hq => hq) (fun id hne => updHnd_other' s h _ id hne) ?_
            intro x hx
            rw [updHnd_self'] at hx
            cases hx
        · exact nr
      · exact nr
  | flockEx h =>
      simp only [step]
      split
      · rename_i hd hh
        obtain ⟨a, b, c, d⟩ := nr h hd hh
        split
        · rename_i hc
          refine nr.update _ h (fun _ _ hq => hq) (fun id hne => updHnd_other' s h _ id hne) ?_
          intro x hx
          simp only [updHnd_self'] at hx
          cases hx
          exact ⟨a, fun _ => b (by rw [hc.1]; decide), by simp [Proto.current], fun hl => by have := d hl; rw [hc.1] at this; simp at this⟩
        · exact nr
      · exact nr
  | flockSh h =>
      simp only [step]
      split
      · rename_i hd hh
        obtain ⟨a, b, c, d⟩ := nr h hd hh
        split
        · rename_i hc
          refine nr.update _ h (fun _ _ hq => hq) (fun id hne => updHnd_other' s h _ id hne) ?_
          intro x hx
          simp only [updHnd_self'] at hx
          cases hx
          exact ⟨a, fun _ => b (by rw [hc.1]; decide), by simp, fun hl => by have := d hl; rw [hc.1] at this; simp at this⟩
        · exact nr
      · exact nr
  | validate h =>
      simp only [step]
      split
      · rename_i hd hh
        obtain ⟨a, b, c, d⟩ := nr h hd hh
        split
        · rename_i hph
          split
          · refine nr.update _ h (fun _ _ hq => hq) (fun id hne => updHnd_other' s h _ id hne) ?_
            intro x hx
            rw [updHnd_self'] at hx
            cases hx
            exact ⟨a, fun _ => b (by rw [hph]; decide), by simp, fun hl => by have := d hl; rw [hph] at this; simp at this⟩
          · refine nr.update _ h (fun _ _ hq => hq) (fun id hne => updHnd_other' s h _ id hne) ?_
            intro x hx
            simp only [updHnd_self'] at hx
            cases hx
        · exact nr
      · exact nr
  | put h =>
      simp only [step]
      split
      · rename_i hd hh
        split
        · refine nr.update _ h (fun _ _ hq => hq) (fun id hne => updHnd_other' s h _ id hne) ?_
          intro x hx
          rw [updHnd_self'] at hx
          cases hx
          exact nr h hd hh
        · exact nr
      · exact nr
  | stage h =>
      simp only [step]
      split
      · rename_i hd hh
        obtain ⟨a, b, c, d⟩ := nr h hd hh
        split
        · rename_i hc
          refine nr.update _ h (fun _ _ hq => hq) (fun id hne => updHnd_other' s h _ id hne) ?_
          intro x hx
          simp only [updHnd_self'] at hx
          cases hx
          exact ⟨a, fun _ => b (by rw [hc.1]; decide), by simp, fun hl => by have := d hl; rw [hc.1] at this; simp at this⟩
        · exact nr
      · exact nr
  | finish h =>
      simp only [step]
      split
      · rename_i hd hh
        obtain ⟨a, b, c, d⟩ := nr h hd hh
        split
        · rename_i hph
          exact absurd hph c
        · exact nr
      · exact nr
  | abort h =>
      simp only [step]
      split
      · rename_i hd hh
        obtain ⟨a, b, c, d⟩ := nr h hd hh
        split
        · rename_i hph
          split
          · refine nr.update _ h (fun _ _ hq => hq) (fun id hne => updHnd_other' s h _ id hne) ?_
            intro x hx
            simp only [updHnd_self'] at hx
            cases hx
            exact ⟨a, fun _ => b (by rw [hph]; decide), by simp, fun hl => by have := d hl; rw [hph] at this; simp at this⟩
          · exact nr
        · exact nr
      · exact nr
  | drop h =>
      simp only [step]
      split
      · refine nr.update _ h (fun _ _ hq => hq) (fun id hne => updHnd_other' s h _ id hne) ?_
        intro x hx
        simp only [updHnd_self'] at hx
        cases hx
      · exact nr
  | dgUnlock h =>
      simp only [step]
      split
      · rename_i hd hh
        obtain ⟨a, b, c, d⟩ := nr h hd hh
        split
        · rename_i hc
          refine nr.update _ h (fun _ _ hq => hq) (fun id hne => updHnd_other' s h _ id hne) ?_
          intro x hx
          simp only [updHnd_self'] at hx
          cases hx
          exact ⟨a, fun _ => b (by rw [hc.2.1]; decide), by simp, fun hl => by have := d hl; rw [hc.2.1] at this; simp at this⟩
        · exact nr
      · exact nr
  | dgLock h =>
      simp only [step]
      split
      · rename_i hd hh
        obtain ⟨a, b, c, d⟩ := nr h hd hh
        split
        · rename_i hc
          refine nr.update _ h (fun _ _ hq => hq) (fun id hne => updHnd_other' s h _ id hne) ?_
          intro x hx
          simp only [updHnd_self'] at hx
          cases hx
          exact ⟨a, fun _ => b (by rw [hc.2.1]; decide), by simp, fun hl => (by cases hl)⟩
        · exact nr
      · exact nr
  | dgFail h => simp [Step.isDgFail] at hdf
  | ugUnlock h =>
      simp only [step]
      split
      · rename_i hd hh
        obtain ⟨a, b, c, d⟩ := nr h hd hh
        split
        · rename_i hc
          refine nr.update _ h (fun _ _ hq => hq) (fun id hne => updHnd_other' s h _ id hne) ?_
          intro x hx
          simp only [updHnd_self'] at hx
          cases hx
          exact ⟨a, fun _ => b (by rw [hc.2]; decide), by simp, fun _ => Or.inr rfl⟩
        · exact nr
      · exact nr
  | ugLock h =>
      simp only [step]
      split
      · rename_i hd hh
        obtain ⟨a, b, c, d⟩ := nr h hd hh
        split
        · rename_i hc
          refine nr.update _ h (fun _ _ hq => hq) (fun id hne => updHnd_other' s h _ id hne) ?_
          intro x hx
          simp only [updHnd_self'] at hx
          cases hx
          exact ⟨a, fun _ => b (by rw [hc.2.1]; decide), by simp, fun hl => (by cases hl)⟩
        · exact nr
      · exact nr
  | ugFail h =>
      simp only [step]
      split
      · rename_i hd hh
        obtain ⟨a, b, c, d⟩ := nr h hd hh
        split
        · rename_i hc
          refine nr.update _ h (fun _ _ hq => hq) (fun id hne => updHnd_other' s h _ id hne) ?_
          intro x hx
          simp only [updHnd_self'] at hx
          cases hx
          exact ⟨a, fun _ => b (by rw [hc.2]; decide), by simp, fun _ => Or.inl rfl⟩
        · exact nr
      · exact nr

theorem init_NR : NR init := fun _ _ h => (by cases h)

theorem runNR {s : State} (nr : NR s) (t : List Step)
    (ht : ∀ st ∈ t, st.isRename = false ∧ st.isDgFail = false) :
    NR (run .current s t) := by
  induction t generalizing s with
  | nil => exact nr
  | cons st t ih =>
      exact ih (stepNR nr st (ht st (List.mem_cons_self)).1 (ht st (List.mem_cons_self)).2)
        (fun x hx => ht x (List.mem_cons_of_mem _ hx))

end Mv.Lock
