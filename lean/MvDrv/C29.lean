/- Driver for C29 (encrypted capsules).

   The AEAD and the KDF are parameters of the model; the driver instantiates them with TOY
   versions (the correspondence run therefore checks the framing / decision logic, not AES or
   Argon2):
     toy kdf  pw salt        = blake3(pw ‖ salt)
     toy enc  key nonce p    = p ‖ first TAG_SIZE bytes of blake3(key ‖ nonce ‖ u64le |p| ‖ u64le fnv1a64(p))
     toy dec  key nonce c    = the plaintext part when the tag matches, else none
   A toy ciphertext has exactly the length of the AES-256-GCM one, so the toy capsule of a file
   has byte for byte the layout of the real capsule and the harness applies the same edit recipe
   to both.

   requests (bytes as hex, "-" = empty):
     load h <file-hex> <pw> <salt> <nonce>   model lock of the given content
     load g <seed> <len> <pw> <salt> <nonce> content = MV2 magic ‖ xorshift64 stream (len ≥ 4)
        → ok <header-hex> <ciphertext lengths of the frames, comma separated> <capsule length>
          (the capsule and the file are kept as state) | err <kind>
     unlock <pw> <recipe>                    recipe = pieces separated by ',':
                                               r<off>:<len>  bytes of the stored capsule
                                               l<hex>        literal bytes
                                               x<off>:<mask> stored byte at off, xor mask (decimal)
        → ok <len> <fnv1a64 of the output, decimal> <rel> | err <kind>      (reader with fixes/C29.diff)
          rel = same | prefix | other (output compared with the loaded file)
     unlockcur <pw> <recipe>                 same, for the reader as it was before fixes/C29.diff
     hdr <hex64>                             → decodeHeader: ok <salt> <nonce> <size> <reserved> | err <kind>
-/
import MvModel.Capsule
import MvModel.Blake3
import MvModel.DrvUtil
open Mv Mv.Capsule

/-- FNV-1a, 64 bit -/
def fnv (b : Bytes) : UInt64 :=
  b.foldl (fun h x => (h ^^^ x.toUInt64) * 0x100000001B3) 0xCBF29CE484222325

def toyKdf : Kdf := fun pw salt => Blake3.hash (pw ++ salt)

def toyTag (key nonce p : Bytes) : Bytes :=
  (Blake3.hash (key ++ nonce ++ u64le p.length ++ u64le (fnv p).toNat)).take Mv.Gen.C29.TAG_SIZE

def toyAead : Aead where
  enc key nonce p := p ++ toyTag key nonce p
  dec key nonce c :=
    if c.length < Mv.Gen.C29.TAG_SIZE then none
    else
      let n := c.length - Mv.Gen.C29.TAG_SIZE
      let p := c.take n
      if c.drop n == toyTag key nonce p then some p else none

/-- hex parsing without deep recursion (requests carry megabytes) -/
def hexNib (c : UInt8) : Option UInt8 :=
  if 48 ≤ c && c ≤ 57 then some (c - 48)
  else if 97 ≤ c && c ≤ 102 then some (c - 87)
  else if 65 ≤ c && c ≤ 70 then some (c - 55)
  else none

def ofHexLoop (a : ByteArray) : Nat → Bytes → Option Bytes
  | 0, acc => some acc
  | k + 1, acc =>
    match hexNib (a.get! (2 * k)), hexNib (a.get! (2 * k + 1)) with
    | some x, some y => ofHexLoop a k ((x * 16 + y) :: acc)
    | _, _ => none

def ofHexFast (s : String) : Option Bytes :=
  if s == "-" then some []
  else
    let a := s.toUTF8
    if a.size % 2 ≠ 0 then none else ofHexLoop a (a.size / 2) []

/-- xorshift64 byte stream shared with the harness -/
def xsStream : Nat → UInt64 → Bytes → Bytes
  | 0, _, acc => acc.reverse
  | n + 1, x, acc =>
    let x := x ^^^ (x <<< 13)
    let x := x ^^^ (x >>> 7)
    let x := x ^^^ (x <<< 17)
    xsStream n x ((x >>> 32).toUInt8 :: acc)

def genFile (seed len : Nat) : Bytes :=
  Mv.Gen.C29.MV2_MAGIC ++ xsStream (len - 4) (UInt64.ofNat seed ||| 1) []

structure St where
  file : Bytes := []
  capsule : Bytes := []

inductive Piece where
  | range (off len : Nat)
  | lit (b : Bytes)
  | xor (off mask : Nat)

def parsePiece (s : String) : Option Piece :=
  let body := (s.drop 1).toString
  match s.front with
  | 'r' => match body.splitOn ":" with
    | [a, b] => do pure (.range (← a.toNat?) (← b.toNat?))
    | _ => none
  | 'x' => match body.splitOn ":" with
    | [a, b] => do pure (.xor (← a.toNat?) (← b.toNat?))
    | _ => none
  | 'l' => (ofHexFast body).map .lit
  | _ => none

def applyPieces (cap : Bytes) : List Piece → Bytes
  | [] => []
  | .range o l :: ps => slice cap o l ++ applyPieces cap ps
  | .lit b :: ps => b ++ applyPieces cap ps
  | .xor o m :: ps => (match cap[o]? with | some v => [v ^^^ UInt8.ofNat m] | none => []) ++ applyPieces cap ps

def isPrefix : Bytes → Bytes → Bool
  | [], _ => true
  | _ :: _, [] => false
  | a :: as, b :: bs => a == b && isPrefix as bs

def showRes (file : Bytes) (r : Except Err Bytes) : String :=
  match r with
  | .error e => s!"err {e.name}"
  | .ok out =>
    let rel := if out == file then "same" else if isPrefix out file then "prefix" else "other"
    s!"ok {out.length} {(fnv out).toNat} {rel}"

/-- ciphertext lengths of the frames after the header (honest capsule) -/
def frameLens : Nat → Bytes → List Nat → List Nat
  | 0, _, acc => acc.reverse
  | fuel + 1, rest, acc =>
    if rest.length < 4 then acc.reverse
    else
      let len := leVal (rest.take 4)
      frameLens fuel ((rest.drop 4).drop len) (len :: acc)

def doLoad (file : Bytes) (pw salt nonce : String) : St × String :=
  match ofHexFast pw, ofHexFast salt, ofHexFast nonce with
  | some pw, some salt, some nonce =>
    match lock toyAead toyKdf pw salt nonce file with
    | .error e => ({}, s!"err {e.name}")
    | .ok cap =>
      let rest := cap.drop HEADER_SIZE
      ({ file := file, capsule := cap },
       s!"ok {toHexW (cap.take HEADER_SIZE)} {showNats (frameLens (rest.length + 1) rest [])} {cap.length}")
  | _, _, _ => ({}, "bad-op")

def step (st : St) (ws : List String) : St × String :=
  match ws with
  | ["load", "h", f, pw, salt, nonce] =>
    match ofHexFast f with
    | some file => doLoad file pw salt nonce
    | none => (st, "bad-op")
  | ["load", "g", seed, len, pw, salt, nonce] =>
    match seed.toNat?, len.toNat? with
    | some seed, some len => if len < 4 then (st, "bad-op") else doLoad (genFile seed len) pw salt nonce
    | _, _ => (st, "bad-op")
  | ["unlock", pw, recipe] =>
    match ofHexFast pw, (recipe.splitOn ",").mapM parsePiece with
    | some pw, some ps =>
      let c := applyPieces st.capsule ps
      (st, showRes st.file (unlock true toyAead toyKdf pw c))
    | _, _ => (st, "bad-op")
  | ["unlockcur", pw, recipe] =>
    match ofHexFast pw, (recipe.splitOn ",").mapM parsePiece with
    | some pw, some ps =>
      let c := applyPieces st.capsule ps
      (st, showRes st.file (unlock false toyAead toyKdf pw c))
    | _, _ => (st, "bad-op")
  | ["hdr", h] =>
    match ofHexFast h with
    | some b =>
      if b.length ≠ HEADER_SIZE then (st, "bad-op")
      else match decodeHeader b with
        | .ok hd => (st, s!"ok {toHexW hd.salt} {toHexW hd.nonce} {hd.originalSize} {toHexW hd.reserved}")
        | .error e => (st, s!"err {e.name}")
    | none => (st, "bad-op")
  | _ => (st, "bad-op")

def main : IO Unit := runDriver {} step
