#!/usr/bin/env python3
"""C37: literals of src/types/adaptive.rs the adaptive cut-off model depends on.

 * the elbow significance factor `max_distance > 0.05 * sensitivity`
 * the minimum number of points of the elbow strategy (`scores.len() < 3`)
 * the guards that compare with `f32::EPSILON` (their number; the value 2^-23 is a language constant)
 * `AdaptiveConfig::default()` / `CutoffStrategy::default()` (min_results, normalize, combined 0.5/0.4/0.3)
Float literals are emitted as exact decimal ratios NUM/DEN; the model rounds them to binary32."""
from fractions import Fraction
from common import *


def fn_body(src, name):
    m = re.search(r"\bfn\s+" + re.escape(name) + r"\b", src)
    if not m:
        raise TranslateError(f"fn {name} not found")
    i = src.find("{", m.end())
    depth, j = 0, i
    while j < len(src):
        if src[j] == "{":
            depth += 1
        elif src[j] == "}":
            depth -= 1
            if depth == 0:
                return src[i:j + 1]
        j += 1
    raise TranslateError(f"fn {name}: unbalanced braces")


def ratio(txt, what):
    try:
        fr = Fraction(txt.replace("_", ""))
    except ValueError:
        raise TranslateError(f"{what}: not a float literal: {txt!r}")
    # keep the decimal shape (5/100 rather than 1/20): both parts must be exact in binary32
    den = 10 ** max(0, len(txt.split(".")[1]) if "." in txt else 0)
    num = fr * den
    if num.denominator != 1 or num.numerator >= 2 ** 24 or den >= 2 ** 24:
        raise TranslateError(f"{what}: literal {txt} not expressible as small NUM/DEN")
    return int(num), den


def find(pat, text, what):
    m = re.search(pat, text, re.S)
    if not m:
        raise TranslateError(f"{what} not found")
    return m


def run():
    src = strip_comments(read("src/types/adaptive.rs"))
    elbow = fn_body(src, "find_elbow_cutoff")
    m = find(r"max_distance\s*>\s*([0-9][0-9_]*\.[0-9]+)\s*\*\s*sensitivity", elbow, "elbow significance test")
    en, ed = ratio(m.group(1), "elbow factor")
    m = find(r"scores\.len\(\)\s*<\s*(\d+)\s*\{\s*return\s*\(scores\.len\(\),\s*\"too_few_points\"", elbow, "elbow min points")
    minpts = int(m.group(1))
    find(r"line_len\s*<\s*f32::EPSILON", elbow, "elbow flat-curve guard")
    find(r"range\s*<\s*f32::EPSILON", fn_body(src, "normalize_scores"), "normalize range guard")
    find(r"prev\s*>\s*f32::EPSILON", fn_body(src, "find_cliff_cutoff"), "cliff guard")
    find(r"prev\s*>\s*f32::EPSILON", fn_body(src, "find_combined_cutoff"), "combined cliff guard")
    # defaults
    dflt = find(r"impl\s+Default\s+for\s+AdaptiveConfig\s*\{(.*?)\n\}", src, "Default for AdaptiveConfig").group(1)
    dmin = int(find(r"min_results:\s*(\d+)", dflt, "default min_results").group(1))
    dnorm = find(r"normalize_scores:\s*(true|false)", dflt, "default normalize_scores").group(1)
    sd = find(r"impl\s+Default\s+for\s+CutoffStrategy\s*\{(.*?)\n\}", src, "Default for CutoffStrategy").group(1)
    find(r"Self::Combined", sd, "default strategy Combined")
    rel = ratio(find(r"relative_threshold:\s*([0-9.]+)", sd, "default relative_threshold").group(1), "relative_threshold")
    drop = ratio(find(r"max_drop_ratio:\s*([0-9.]+)", sd, "default max_drop_ratio").group(1), "max_drop_ratio")
    amin = ratio(find(r"absolute_min:\s*([0-9.]+)", sd, "default absolute_min").group(1), "absolute_min")
    body = (
        f"def ELBOW_FACTOR_NUM : Nat := {en}\ndef ELBOW_FACTOR_DEN : Nat := {ed}\n"
        f"def ELBOW_MIN_POINTS : Nat := {minpts}\n"
        f"def DEFAULT_MIN_RESULTS : Nat := {dmin}\ndef DEFAULT_NORMALIZE : Bool := {dnorm}\n"
        f"def DEFAULT_REL_NUM : Nat := {rel[0]}\ndef DEFAULT_REL_DEN : Nat := {rel[1]}\n"
        f"def DEFAULT_DROP_NUM : Nat := {drop[0]}\ndef DEFAULT_DROP_DEN : Nat := {drop[1]}\n"
        f"def DEFAULT_ABS_NUM : Nat := {amin[0]}\ndef DEFAULT_ABS_DEN : Nat := {amin[1]}\n"
    )
    return emit("C37", body)


main(run)
