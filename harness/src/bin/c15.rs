//! C15 — timeline is complete, chronological and correctly filtered.
//! impl: `Memvid::timeline` on real .mv2 files (histories of put/update/delete/commit/reopen/doctor/…);
//! model: drv_c15 `tl fix` (build_timeline with /verif/fixes/C15.diff applied), `tl cur` (the code
//! before the repair, used only to classify a mismatch), `tindex` (rebuild_indexes' time entries),
//! `sort` / `readtrack` (io::time_index::append_track / read_track);
//! oracle: the four clauses of the property (complete / ordered / bounds / limit-prefix) evaluated on
//! the real output against the real frame table, independent of the model.
use memvid_core::{
    DoctorOptions, FrameRole, FrameStatus, Memvid, PutOptions, TimeIndexEntry, TimelineQuery,
    find_last_valid_footer, time_index_append, time_index_read,
};
use mvh::*;
use std::num::NonZeroU64;
use std::path::PathBuf;

// ------------------------------------------------------------------------------------- history ops
#[derive(Clone, Debug)]
enum Op {
    /// role: 0 document, 1 chunk role given directly, 2 extracted image; long = text ≥ 2400 chars (auto-chunked)
    Put { ts: i64, role: u8, long: bool },
    /// delete the (pick mod n)-th committed active frame
    Delete { pick: u64 },
    /// update (supersede) the (pick mod n)-th committed active frame; new_ts None = keep timestamp
    Update { pick: u64, new_ts: Option<i64> },
    Commit,
    CommitSkip,
    Finalize,
    Reopen,
    Doctor { rebuild_time: bool },
    Vacuum,
}

fn op_json(op: &Op) -> Value {
    match op {
        Op::Put { ts, role, long } => json!({"op": "put", "ts": ts, "role": role, "long": long}),
        Op::Delete { pick } => json!({"op": "delete", "pick": pick}),
        Op::Update { pick, new_ts } => json!({"op": "update", "pick": pick, "new_ts": new_ts}),
        Op::Commit => json!({"op": "commit"}),
        Op::CommitSkip => json!({"op": "commit_skip_indexes"}),
        Op::Finalize => json!({"op": "finalize_indexes"}),
        Op::Reopen => json!({"op": "reopen"}),
        Op::Doctor { rebuild_time } => json!({"op": "doctor", "rebuild_time": rebuild_time}),
        Op::Vacuum => json!({"op": "vacuum"}),
    }
}

fn op_from(v: &Value) -> Op {
    match v["op"].as_str().unwrap_or("") {
        "put" => Op::Put { ts: v["ts"].as_i64().unwrap(), role: v["role"].as_u64().unwrap() as u8, long: v["long"].as_bool().unwrap_or(false) },
        "delete" => Op::Delete { pick: v["pick"].as_u64().unwrap() },
        "update" => Op::Update { pick: v["pick"].as_u64().unwrap(), new_ts: v["new_ts"].as_i64() },
        "commit" => Op::Commit,
        "commit_skip_indexes" => Op::CommitSkip,
        "finalize_indexes" => Op::Finalize,
        "reopen" => Op::Reopen,
        "doctor" => Op::Doctor { rebuild_time: v["rebuild_time"].as_bool().unwrap_or(false) },
        "vacuum" => Op::Vacuum,
        o => panic!("unknown op {o}"),
    }
}

#[derive(Clone, Debug, PartialEq)]
struct Q { since: Option<i64>, until: Option<i64>, limit: u64, reverse: bool }

fn q_json(q: &Q) -> Value { json!({"since": q.since, "until": q.until, "limit": q.limit, "reverse": q.reverse}) }
fn q_from(v: &Value) -> Q {
    Q { since: v["since"].as_i64(), until: v["until"].as_i64(), limit: v["limit"].as_u64().unwrap_or(0), reverse: v["reverse"].as_bool().unwrap_or(false) }
}
fn q_wire(q: &Q) -> String {
    let o = |x: Option<i64>| x.map(|v| v.to_string()).unwrap_or_else(|| "n".into());
    format!("{} {} {} {}", o(q.since), o(q.until), q.limit, q.reverse as u8)
}

// ------------------------------------------------------------------------------------- the real side
/// (id field, timestamp, role, status) of toc.frames[i], in position order
type Row = (u64, i64, FrameRole, FrameStatus);

struct World {
    _dir: tempfile::TempDir,
    path: PathBuf,
    mem: Option<Memvid>,
    n_put: u64,
}

fn long_text(n: u64) -> String {
    let mut s = String::new();
    let mut i = 0;
    while s.len() < 2600 {
        s.push_str(&format!("Section {n}-{i} describes the quarterly harvest of the orchard in plain words. "));
        i += 1;
    }
    s
}

impl World {
    fn new() -> Result<World, String> {
        // tmpfs when available: every commit fsyncs several times
        let dir = if std::env::var_os("TMPDIR").is_none() && std::path::Path::new("/dev/shm").is_dir() { tempfile::tempdir_in("/dev/shm") } else { tempfile::tempdir() }.map_err(|e| e.to_string())?;
        let path = dir.path().join("c15.mv2");
        let t0 = std::time::Instant::now();
        let mem = Memvid::create(&path).map_err(|e| format!("create: {e}"))?;
        if std::env::var_os("C15_TIMING").is_some() { eprintln!("timing create {:?}", t0.elapsed()); }
        Ok(World { _dir: dir, path, mem: Some(mem), n_put: 0 })
    }
    fn mem(&mut self) -> Result<&mut Memvid, String> { self.mem.as_mut().ok_or_else(|| "no handle".to_string()) }
    fn opts(ts: Option<i64>, role: FrameRole) -> PutOptions {
        let mut o = PutOptions::default();
        o.timestamp = ts;
        o.role = role;
        o.auto_tag = false;
        o.extract_dates = false;
        o.extract_triplets = false;
        o.instant_index = false;
        o
    }
    fn table(&mut self) -> Result<Vec<Row>, String> {
        let m = self.mem()?;
        let n = m.frame_count();
        let mut v = Vec::with_capacity(n);
        for i in 0..n {
            let f = m.frame_by_id(i as u64).map_err(|e| format!("frame_by_id {i}: {e}"))?;
            v.push((f.id, f.timestamp, f.role, f.status));
        }
        Ok(v)
    }
    fn active_ids(&mut self) -> Result<Vec<u64>, String> {
        Ok(self.table()?.iter().filter(|r| r.3 == FrameStatus::Active).map(|r| r.0).collect())
    }
    /// returns Ok(tag) where tag names what happened (ok / skipped / error class)
    fn apply(&mut self, op: &Op) -> Result<String, String> {
        let t0 = std::time::Instant::now();
        let r = self.apply_inner(op);
        if std::env::var_os("C15_TIMING").is_some() { eprintln!("timing {:?} {:?}", op, t0.elapsed()); }
        r
    }
    fn apply_inner(&mut self, op: &Op) -> Result<String, String> {
        match op {
            Op::Put { ts, role, long } => {
                self.n_put += 1;
                let n = self.n_put;
                let text = if *long { long_text(n) } else { format!("note {n} about the orchard") };
                let role = match role { 0 => FrameRole::Document, 1 => FrameRole::DocumentChunk, _ => FrameRole::ExtractedImage };
                let o = Self::opts(Some(*ts), role);
                let m = self.mem()?;
                match guarded(std::panic::AssertUnwindSafe(|| m.put_bytes_with_options(text.as_bytes(), o))) {
                    Ok(Ok(_)) => Ok("ok".into()),
                    Ok(Err(e)) => Ok(format!("error:{}", short(&e.to_string()))),
                    Err(p) => Err(format!("put panicked: {p}")),
                }
            }
            Op::Delete { pick } => {
                let act = self.active_ids()?;
                if act.is_empty() { return Ok("skipped".into()); }
                let id = act[(*pick % act.len() as u64) as usize];
                let m = self.mem()?;
                match m.delete_frame(id) { Ok(_) => Ok("ok".into()), Err(e) => Ok(format!("error:{}", short(&e.to_string()))) }
            }
            Op::Update { pick, new_ts } => {
                let act = self.active_ids()?;
                if act.is_empty() { return Ok("skipped".into()); }
                let id = act[(*pick % act.len() as u64) as usize];
                self.n_put += 1;
                let text = format!("revised note {} about the orchard", self.n_put);
                let role = self.table()?.iter().find(|r| r.0 == id).map(|r| r.2).unwrap_or(FrameRole::Document);
                let o = Self::opts(*new_ts, role);
                let m = self.mem()?;
                match m.update_frame(id, Some(text.into_bytes()), o, None) { Ok(_) => Ok("ok".into()), Err(e) => Ok(format!("error:{}", short(&e.to_string()))) }
            }
            Op::Commit => { self.mem()?.commit().map_err(|e| format!("commit: {e}"))?; Ok("ok".into()) }
            Op::CommitSkip => { self.mem()?.commit_skip_indexes().map_err(|e| format!("commit_skip_indexes: {e}"))?; Ok("ok".into()) }
            Op::Finalize => { self.mem()?.finalize_indexes().map_err(|e| format!("finalize_indexes: {e}"))?; Ok("ok".into()) }
            Op::Reopen => {
                self.mem = None;
                self.mem = Some(Memvid::open(&self.path).map_err(|e| format!("open: {e}"))?);
                Ok("ok".into())
            }
            Op::Doctor { rebuild_time } => {
                // doctor works on a closed file; uncommitted WAL records are replayed by it
                self.mem = None;
                let mut d = DoctorOptions::default();
                d.rebuild_time_index = *rebuild_time;
                d.quiet = true;
                let path = self.path.clone();
                let r = guarded(move || Memvid::doctor(&path, d).map(|_| ()).map_err(|e| e.to_string()));
                let tag = match r { Ok(Ok(())) => "ok".to_string(), Ok(Err(e)) => format!("error:{}", short(&e)), Err(p) => format!("panic:{}", short(&p)) };
                self.mem = Some(Memvid::open(&self.path).map_err(|e| format!("open after doctor: {e}"))?);
                Ok(tag)
            }
            Op::Vacuum => {
                let m = self.mem()?;
                match m.vacuum() { Ok(_) => Ok("ok".into()), Err(e) => Ok(format!("error:{}", short(&e.to_string()))) }
            }
        }
    }
    /// the time index track as stored in the file (None = toc.time_index is None); Err = TOC not readable
    fn stored_index(&self, expect_frames: usize) -> Result<Option<Vec<(i64, u64)>>, String> {
        let bytes = std::fs::read(&self.path).map_err(|e| e.to_string())?;
        let slice = find_last_valid_footer(&bytes).ok_or("no valid footer")?;
        let toc = memvid_core::types::Toc::decode(slice.toc_bytes).map_err(|e| format!("toc decode: {e}"))?;
        if toc.frames.len() != expect_frames {
            return Err(format!("file toc has {} frames, handle has {}", toc.frames.len(), expect_frames));
        }
        match toc.time_index {
            None => Ok(None),
            Some(m) => {
                let mut cur = std::io::Cursor::new(&bytes[..]);
                let es = time_index_read(&mut cur, m.bytes_offset, m.bytes_length).map_err(|e| format!("read_track: {e}"))?;
                Ok(Some(es.iter().map(|e| (e.timestamp, e.frame_id)).collect()))
            }
        }
    }
    fn timeline(&mut self, q: &Q) -> Result<Vec<(i64, u64)>, String> {
        let tq = TimelineQuery { limit: NonZeroU64::new(q.limit), since: q.since, until: q.until, reverse: q.reverse };
        let m = self.mem()?;
        match guarded(std::panic::AssertUnwindSafe(|| m.timeline(tq))) {
            Ok(Ok(v)) => Ok(v.iter().map(|e| (e.timestamp, e.frame_id)).collect()),
            Ok(Err(e)) => Err(format!("timeline error: {e}")),
            Err(p) => Err(format!("timeline panicked: {p}")),
        }
    }
}

fn short(s: &str) -> String { s.chars().take(40).collect::<String>().replace(' ', "_") }

// ------------------------------------------------------------------------------------- wire
fn role_c(r: FrameRole) -> char { match r { FrameRole::Document => 'd', FrameRole::DocumentChunk => 'c', FrameRole::ExtractedImage => 'i' } }
fn status_c(s: FrameStatus) -> char { match s { FrameStatus::Active => 'a', FrameStatus::Superseded => 's', FrameStatus::Deleted => 'x' } }
fn frames_wire(t: &[Row]) -> String {
    if t.is_empty() { return "-".into(); }
    t.iter().map(|r| format!("{}:{}:{}:{}", r.0, r.1, role_c(r.2), status_c(r.3))).collect::<Vec<_>>().join(",")
}
fn entries_wire(es: &[(i64, u64)]) -> String {
    if es.is_empty() { return "-".into(); }
    es.iter().map(|e| format!("{}:{}", e.0, e.1)).collect::<Vec<_>>().join(",")
}
fn index_wire(ix: &Option<Vec<(i64, u64)>>) -> String {
    match ix { None => "none".into(), Some(es) => entries_wire(es) }
}

// ------------------------------------------------------------------------------------- oracle
/// the frames the timeline lists: active, any role but chunk (Document and ExtractedImage)
fn listed(r: &Row) -> bool { r.3 == FrameStatus::Active && r.2 != FrameRole::DocumentChunk }

fn in_bounds(q: &Q, ts: i64) -> bool { q.since.map_or(true, |s| ts >= s) && q.until.map_or(true, |u| ts <= u) }

/// returns failures as (signature, what)
fn oracle(table: &[Row], q: &Q, out: &[(i64, u64)], unlimited: &[(i64, u64)]) -> Vec<(String, String)> {
    let mut f = vec![];
    // bounds (inclusive)
    if let Some(e) = out.iter().find(|e| !in_bounds(q, e.0)) {
        f.push(("timeline-entry-outside-since-until".to_string(), format!("entry ({},{}) outside [{:?},{:?}]", e.0, e.1, q.since, q.until)));
    }
    // order: strictly ascending by (ts, id); exactly the reverse when reverse
    let bad = out.windows(2).position(|w| if q.reverse { w[0] <= w[1] } else { w[0] >= w[1] });
    if let Some(i) = bad {
        f.push(("timeline-not-in-timestamp-frameid-order".to_string(),
            format!("entries {} and {} are ({},{}) then ({},{}) with reverse={}", i, i + 1, out[i].0, out[i].1, out[i + 1].0, out[i + 1].1, q.reverse)));
    }
    if q.limit == 0 {
        // complete, exactly once, nothing else
        let mut want: Vec<(i64, u64)> = table.iter().filter(|r| listed(r) && in_bounds(q, r.1)).map(|r| (r.1, r.0)).collect();
        want.sort();
        let mut got = out.to_vec();
        got.sort();
        if want != got {
            let missing: Vec<_> = want.iter().filter(|e| !got.contains(e)).take(3).collect();
            let extra: Vec<_> = got.iter().filter(|e| !want.contains(e)).take(3).collect();
            let dup = got.windows(2).any(|w| w[0] == w[1]);
            f.push(("timeline-lists-wrong-frame-set".to_string(), format!("missing {:?} extra {:?} duplicates={}", missing, extra, dup)));
        }
    } else {
        // a limit returns the first min(n, len) entries of the unlimited result of the same query
        let n = (q.limit.min(unlimited.len() as u64)) as usize;
        if out != &unlimited[..n] {
            f.push(("timeline-limit-not-prefix-of-unlimited".to_string(), format!("limit {} returned {} entries; unlimited has {}", q.limit, out.len(), unlimited.len())));
        }
    }
    f
}

// ------------------------------------------------------------------------------------- real execution
struct QRes { q: Q, out: Result<Vec<(i64, u64)>, String>, unlimited: Vec<(i64, u64)> }
struct Obs { prefix_len: usize, table: Vec<Row>, stored: Option<Vec<(i64, u64)>>, results: Vec<QRes>, tags: Vec<&'static str> }
enum Event { Op { name: String, tag: String }, Obs(Obs), Fatal { sig: &'static str, what: String, prefix_len: usize } }
struct HistRun { ops: Vec<Op>, events: Vec<Event> }

fn is_observation_point(op: &Op) -> bool {
    matches!(op, Op::Commit | Op::CommitSkip | Op::Finalize | Op::Reopen | Op::Doctor { .. } | Op::Vacuum)
}

/// run one history on a fresh .mv2 file; observe after every commit-like op (and sometimes with pending
/// operations): frame table, stored time index, and the answers to the queries.  Real code only.
fn exec_history(ops: &[Op], rng: &mut Rng, extra_q: usize, final_queries: Option<&[Q]>) -> HistRun {
    let mut run = HistRun { ops: ops.to_vec(), events: vec![] };
    let mut w = match World::new() { Ok(w) => w, Err(e) => { run.events.push(Event::Fatal { sig: "history-operation-failed", what: e, prefix_len: 0 }); return run; } };
    for (i, op) in ops.iter().enumerate() {
        match w.apply(op) {
            Ok(tag) => run.events.push(Event::Op { name: op_json(op)["op"].as_str().unwrap().to_string(), tag }),
            Err(e) => { run.events.push(Event::Fatal { sig: "history-operation-failed", what: e, prefix_len: i + 1 }); return run; }
        }
        let last = i + 1 == ops.len();
        let pending_obs = !is_observation_point(op) && final_queries.is_none() && rng.chance(1, 8);
        if !(is_observation_point(op) || pending_obs || last) { continue; }
        let mut tags = vec![];
        if pending_obs { tags.push("observe-with-pending-operations"); }
        match op {
            Op::Reopen => tags.push("observe-after-reopen"),
            Op::Doctor { .. } => tags.push("observe-after-doctor"),
            Op::CommitSkip => tags.push("observe-after-commit-skip-indexes"),
            Op::Finalize => tags.push("observe-after-finalize-indexes"),
            Op::Vacuum => tags.push("observe-after-vacuum"),
            _ => {}
        }
        let table = match w.table() { Ok(t) => t, Err(e) => { run.events.push(Event::Fatal { sig: "observation-failed", what: e, prefix_len: i + 1 }); return run; } };
        // frame ids are dense (hypothesis DenseIds of the theorems; property C06)
        if let Some((k, r)) = table.iter().enumerate().find(|(k, r)| r.0 != *k as u64) {
            run.events.push(Event::Fatal { sig: "observation-failed", what: format!("frame at position {k} has id {}", r.0), prefix_len: i + 1 });
            return run;
        }
        let stored = match w.stored_index(table.len()) {
            Ok(s) => s,
            Err(e) => { run.events.push(Event::Fatal { sig: "observation-failed", what: format!("stored index: {e}"), prefix_len: i + 1 }); return run; }
        };
        let queries: Vec<Q> = match (last, final_queries) {
            (true, Some(qs)) => qs.to_vec(),
            (_, Some(_)) => vec![],
            _ => gen_queries(rng, &table, extra_q),
        };
        let mut results = vec![];
        for q in queries {
            let out = w.timeline(&q);
            let unlimited = match (&out, q.limit) {
                (Ok(o), 0) => o.clone(),
                (Ok(_), _) => w.timeline(&Q { limit: 0, ..q.clone() }).unwrap_or_default(),
                _ => vec![],
            };
            results.push(QRes { q, out, unlimited });
        }
        run.events.push(Event::Obs(Obs { prefix_len: i + 1, table, stored, results, tags }));
    }
    run
}

/// all oracle failures of one answered query (a limited query inherits the failures of the unlimited
/// result of the same query: "prefix of the unlimited result" presupposes a correct unlimited result)
fn query_failures(table: &[Row], r: &QRes) -> Vec<(String, String)> {
    let out = match &r.out { Ok(o) => o, Err(e) => return vec![("timeline-call-failed".into(), e.clone())] };
    let mut fails = oracle(table, &r.q, out, &r.unlimited);
    if r.q.limit != 0 {
        for (sig, what) in oracle(table, &Q { limit: 0, ..r.q.clone() }, &r.unlimited, &r.unlimited) {
            if !fails.iter().any(|f| f.0 == sig) { fails.push((sig, format!("unlimited result of the same query: {what}"))); }
        }
    }
    fails
}

/// run ops from scratch, then evaluate `q`; true if the oracle reports `sig` (used for shrinking)
fn fails_with(ops: &[Op], q: &Q, sig: &str) -> bool {
    let mut rng = Rng::new(0);
    let run = exec_history(ops, &mut rng, 0, Some(std::slice::from_ref(q)));
    match run.events.last() {
        Some(Event::Obs(o)) if o.prefix_len == ops.len() => o.results.iter().any(|r| query_failures(&o.table, r).iter().any(|f| f.0 == sig)),
        _ => false,
    }
}

// ------------------------------------------------------------------------------------- evaluation
fn case_json(ops: &[Op], q: &Q) -> Value { json!({"ops": ops.iter().map(op_json).collect::<Vec<_>>(), "query": q_json(q)}) }

fn eval_query(o: &Obs, r: &QRes, ops: &[Op], drv: &mut Option<Driver>, sum: &mut Summary) -> Vec<String> {
    let (table, stored, q) = (&o.table[..], &o.stored, &r.q);
    let fails = query_failures(table, r);
    let out = match &r.out {
        Ok(out) => out,
        Err(e) => { sum.oracle_violation("timeline-call-failed", e, case_json(ops, q)); return vec!["timeline-call-failed".into()]; }
    };
    let unlimited = &r.unlimited;
    let imp = format!("ok {}", entries_wire(out));
    if table.iter().any(|r| r.3 == FrameStatus::Active && r.2 == FrameRole::ExtractedImage) { sum.branch("active-extracted-image-present"); }
    if table.iter().any(|r| r.2 == FrameRole::DocumentChunk) { sum.branch("chunk-frames-present"); }
    if table.iter().any(|r| r.3 == FrameStatus::Deleted) { sum.branch("deleted-frames-present"); }
    if table.iter().any(|r| r.3 == FrameStatus::Superseded) { sum.branch("superseded-frames-present"); }
    if stored.is_none() { sum.branch("no-time-index"); }
    if q.reverse { sum.branch("reverse"); }
    if q.limit != 0 && (q.limit as usize) < unlimited.len() { sum.branch("limit-cuts"); }
    if q.limit != 0 && (q.limit as usize) >= unlimited.len() { sum.branch("limit-not-reached"); }
    if q.since.is_some() || q.until.is_some() { sum.branch("bounded"); }
    let listed_n = table.iter().filter(|r| listed(r)).count();
    if (q.since.is_some() || q.until.is_some()) && unlimited.len() < listed_n { sum.branch("bounds-exclude-something"); }
    if out.windows(2).any(|w| w[0].0 == w[1].0) { sum.branch("equal-timestamps-in-result"); }
    if out.iter().any(|e| e.0 < 0) { sum.branch("negative-timestamp-in-result"); }
    if out.iter().any(|e| e.0 == i64::MIN || e.0 == i64::MAX) { sum.branch("i64-extreme-in-result"); }
    let canon = format!("{}|{}|{}", frames_wire(table), index_wire(stored), q_wire(q));
    sum.case(&canon, listed_n >= 2, || json!({"frames": frames_wire(table), "time_index": index_wire(stored), "query": q_json(q), "timeline": entries_wire(out)}));
    if let Some(drv) = drv.as_mut() {
        let req = format!("{} {} {}", frames_wire(table), index_wire(stored), q_wire(q));
        let fixm = drv.ask(&format!("tl fix {req}"));
        if fixm == imp {
            sum.branch("impl-matches-repaired-model");
        } else {
            let curm = drv.ask(&format!("tl cur {req}"));
            if curm == imp {
                sum.branch("impl-matches-unrepaired-model");
                if fails.is_empty() {
                    sum.disagreement("timeline equals the unrepaired model, differs from the repaired model, yet the oracle accepts it", case_json(ops, q), &fixm, &imp);
                }
            } else {
                sum.disagreement("Memvid::timeline vs model (repaired and unrepaired both differ)", case_json(ops, q), &format!("fix={fixm} cur={curm}"), &imp);
            }
        }
    }
    for (sig, what) in &fails {
        sum.oracle_violation(sig, &format!("{what}; timeline={} frames={} time_index={}", entries_wire(out), frames_wire(table), index_wire(stored)), case_json(ops, q));
    }
    fails.into_iter().map(|f| f.0).collect()
}

fn eval_run(run: &HistRun, drv: &mut Option<Driver>, sum: &mut Summary, shrunk: &mut std::collections::BTreeSet<String>, do_shrink: bool) {
    let all = Q { since: None, until: None, limit: 0, reverse: false };
    for ev in &run.events {
        match ev {
            Event::Op { name, tag } => {
                if tag == "ok" { sum.branch(&format!("op-{name}")); } else { sum.branch(&format!("op-{name}-{}", tag.split(':').next().unwrap())); }
                if name == "doctor" && tag != "ok" { sum.notes.push(format!("doctor: {tag}")); }
            }
            Event::Fatal { sig, what, prefix_len } => {
                sum.oracle_violation(sig, what, case_json(&run.ops[..*prefix_len], &all));
            }
            Event::Obs(o) => {
                let prefix = &run.ops[..o.prefix_len];
                for t in &o.tags { sum.branch(t); }
                if let (Some(es), Some(d)) = (&o.stored, drv.as_mut()) {
                    let m = d.ask(&format!("tindex {}", frames_wire(&o.table)));
                    let i = entries_wire(es);
                    if m != i {
                        sum.disagreement("time index stored by rebuild_indexes vs model timeIndexOf", case_json(prefix, &all), &m, &i);
                    } else {
                        sum.branch("stored-index-equals-timeIndexOf");
                    }
                }
                for r in &o.results {
                    let sigs = eval_query(o, r, prefix, drv, sum);
                    if !do_shrink { continue; }
                    // shrink the first failing (history, query) of each signature to a minimal witness
                    for sig in sigs {
                        if shrunk.contains(&sig) { continue; }
                        shrunk.insert(sig.clone());
                        if !fails_with(prefix, &r.q, &sig) { continue; }
                        let small = shrink_list(prefix, &mut |cand: &[Op]| fails_with(cand, &r.q, &sig));
                        sum.oracle_violation(&sig, &format!("minimised witness: {} operations", small.len()),
                            json!({"ops": small.iter().map(op_json).collect::<Vec<_>>(), "query": q_json(&r.q), "minimised": true}));
                    }
                }
            }
        }
    }
}

// ------------------------------------------------------------------------------------- generators
const TS_POOL: [i64; 14] = [i64::MIN, i64::MIN + 1, -1_000_000_007, -10, -1, 0, 1, 5, 10, 10, 1_700_000_000, 4_102_444_800, i64::MAX - 1, i64::MAX];

fn gen_ts(rng: &mut Rng, style: u64) -> i64 {
    match style {
        0 => rng.i64(-3, 3),                                   // many equal timestamps
        1 => *rng.pick(&TS_POOL),
        2 => rng.i64(-50, 50),
        _ => if rng.chance(1, 6) { *rng.pick(&TS_POOL) } else { rng.i64(-20, 20) },
    }
}

fn gen_queries(rng: &mut Rng, table: &[Row], k: usize) -> Vec<Q> {
    let mut qs = vec![
        Q { since: None, until: None, limit: 0, reverse: false },
        Q { since: None, until: None, limit: 0, reverse: true },
    ];
    let tss: Vec<i64> = table.iter().map(|r| r.1).collect();
    let n_listed = table.iter().filter(|r| listed(r)).count() as u64;
    let bound = |rng: &mut Rng| -> Option<i64> {
        match rng.below(8) {
            0 | 1 | 2 => None,
            3 if !tss.is_empty() => Some(*rng.pick(&tss)),
            4 if !tss.is_empty() => Some(rng.pick(&tss).saturating_add(1)),
            5 if !tss.is_empty() => Some(rng.pick(&tss).saturating_sub(1)),
            6 => Some(*rng.pick(&TS_POOL)),
            _ => Some(rng.i64(-25, 25)),
        }
    };
    for _ in 0..k {
        let since = bound(rng);
        let until = bound(rng);
        let limit = match rng.below(8) {
            0 | 1 => 0,
            2 => 1,
            3 => 2,
            4 => n_listed.saturating_sub(1).max(1),
            5 => n_listed.max(1),
            6 => n_listed + 1,
            _ => *rng.pick(&[3u64, 7, 1 << 32, u64::MAX]),
        };
        qs.push(Q { since, until, limit, reverse: rng.bool() });
    }
    qs
}

/// rounds of 0-7 mutations followed by a commit-like step
fn gen_history(rng: &mut Rng, thorough: bool) -> Vec<Op> {
    let style = rng.below(4);
    let rounds = rng.usize(1, if thorough { 6 } else { 3 });
    let img_w = *rng.pick(&[0u64, 1, 3, 6]);
    let mut ops = vec![];
    for _ in 0..rounds {
        for _ in 0..rng.usize(0, 7) {
            let r = rng.below(100);
            ops.push(if r < 70 {
                let role = { let x = rng.below(10); if x < img_w { 2 } else if x == 9 { 1 } else { 0 } };
                Op::Put { ts: gen_ts(rng, style), role, long: role == 0 && rng.chance(1, 10) }
            } else if r < 85 { Op::Delete { pick: rng.below(1000) } }
            else { Op::Update { pick: rng.below(1000), new_ts: if rng.bool() { Some(gen_ts(rng, style)) } else { None } } });
        }
        let r = rng.below(100);
        if r < 58 { ops.push(Op::Commit); }
        else if r < 68 { ops.push(Op::Commit); ops.push(Op::Reopen); }
        else if r < 73 { ops.push(Op::Reopen); }                       // uncommitted WAL records are recovered by open
        else if r < 81 { ops.push(Op::CommitSkip); }
        else if r < 86 { ops.push(Op::CommitSkip); ops.push(Op::Finalize); }
        else if r < 91 { ops.push(Op::Commit); ops.push(Op::Doctor { rebuild_time: rng.bool() }); }
        else if r < 95 { ops.push(Op::Doctor { rebuild_time: rng.bool() }); }
        else { ops.push(Op::Commit); ops.push(Op::Vacuum); }
    }
    ops.push(Op::Commit);
    ops
}

// ------------------------------------------------------------------------------------- track codec tie
/// io::time_index::append_track (sort) and read_track (ordering validation) against the model
fn track_cases(rng: &mut Rng, drv: &mut Option<Driver>, sum: &mut Summary, n: usize) {
    for k in 0..n {
        let len = if k < 3 { k } else { rng.usize(0, 12) };
        let es: Vec<(i64, u64)> = (0..len).map(|_| { let st = rng.below(4); (gen_ts(rng, st), rng.below(6)) }).collect();
        track_case(&es, drv, sum);
    }
}

fn track_case(es: &[(i64, u64)], drv: &mut Option<Driver>, sum: &mut Summary) {
    // append_track sorts in place by (timestamp, frame_id)
    let mut v: Vec<TimeIndexEntry> = es.iter().map(|e| TimeIndexEntry::new(e.0, e.1)).collect();
    let mut cur = std::io::Cursor::new(Vec::new());
    let (off, length, _) = time_index_append(&mut cur, &mut v).expect("append_track");
    let sorted: Vec<(i64, u64)> = v.iter().map(|e| (e.timestamp, e.frame_id)).collect();
    let back = time_index_read(&mut cur, off, length).map(|r| r.iter().map(|e| (e.timestamp, e.frame_id)).collect::<Vec<_>>());
    let mut want = es.to_vec();
    want.sort();
    if sorted != want || back.as_ref().ok() != Some(&want) {
        sum.oracle_violation("time-index-track-not-sorted-roundtrip", &format!("entries {:?} stored as {:?}", es, sorted), json!({"track": entries_wire(es)}));
    }
    // read_track on the sequence as given (possibly unsorted), written raw
    let mut raw = Vec::new();
    raw.extend_from_slice(&memvid_core::TIME_INDEX_MAGIC);
    raw.extend_from_slice(&(es.len() as u64).to_le_bytes());
    for e in es { raw.extend_from_slice(&e.0.to_le_bytes()); raw.extend_from_slice(&e.1.to_le_bytes()); }
    let rl = raw.len() as u64;
    let mut c2 = std::io::Cursor::new(raw);
    let rr = match time_index_read(&mut c2, 0, rl) {
        Ok(r) => format!("ok {}", entries_wire(&r.iter().map(|e| (e.timestamp, e.frame_id)).collect::<Vec<_>>())),
        Err(_) => "err unsorted-index".to_string(),
    };
    sum.branch(if rr.starts_with("ok") { "read-track-accepts" } else { "read-track-rejects-unsorted" });
    if let Some(d) = drv.as_mut() {
        let ms = d.ask(&format!("sort {}", entries_wire(es)));
        if ms != entries_wire(&sorted) { sum.disagreement("append_track sort vs model sortE", json!({"track": entries_wire(es)}), &ms, &entries_wire(&sorted)); }
        let mr = d.ask(&format!("readtrack {}", entries_wire(es)));
        if mr != rr { sum.disagreement("read_track vs model readTrack", json!({"track": entries_wire(es)}), &mr, &rr); }
    }
    sum.case(&format!("track|{}", entries_wire(es)), es.len() >= 2, || json!({"track": entries_wire(es), "read_track": rr}));
}

// ------------------------------------------------------------------------------------- corpus
fn corpus() -> Vec<(Vec<Op>, Vec<Q>)> {
    let all = Q { since: None, until: None, limit: 0, reverse: false };
    let rev = Q { reverse: true, ..all.clone() };
    let put = |ts: i64, role: u8| Op::Put { ts, role, long: false };
    vec![
        // the probe witness: extracted image ts=5, documents ts=10 and ts=1
        (vec![put(5, 2), put(10, 0), put(1, 0), Op::Commit], vec![all.clone(), rev.clone(), Q { limit: 1, ..all.clone() }, Q { limit: 1, ..rev.clone() }]),
        // equal timestamps, negative, extremes
        (vec![put(0, 0), put(0, 0), put(-1, 0), put(i64::MAX, 0), put(i64::MIN, 0), put(0, 2), Op::Commit, Op::Reopen],
         vec![all.clone(), rev.clone(), Q { since: Some(0), until: Some(0), ..all.clone() }, Q { since: Some(i64::MIN), until: Some(i64::MAX), limit: 3, reverse: true },
              Q { since: Some(1), until: Some(-1), ..all.clone() }]),
        // chunked document + delete + doctor
        (vec![Op::Put { ts: 7, role: 0, long: true }, put(3, 0), put(9, 0), Op::Commit, Op::Delete { pick: 1 }, Op::Commit, Op::Doctor { rebuild_time: true }],
         vec![all.clone(), rev.clone(), Q { limit: 2, ..all.clone() }]),
        // no time index: commit_skip_indexes, then finalize
        (vec![put(4, 0), Op::Put { ts: 2, role: 0, long: true }, put(3, 2), Op::CommitSkip], vec![all.clone(), rev.clone()]),
        (vec![put(4, 0), put(2, 0), put(3, 2), Op::CommitSkip, Op::Finalize], vec![all.clone(), rev.clone()]),
        // update supersedes; delete of an image
        (vec![put(1, 0), put(2, 2), Op::Commit, Op::Update { pick: 0, new_ts: Some(-4) }, Op::Commit, Op::Delete { pick: 0 }, Op::Commit],
         vec![all.clone(), rev.clone()]),
        // empty memory
        (vec![Op::Commit], vec![all.clone(), Q { limit: 5, ..rev.clone() }]),
    ]
}

/// run the jobs on `workers` threads (each history on its own file); results in job order
fn exec_parallel(jobs: Vec<(Vec<Op>, Rng, usize, Option<Vec<Q>>)>, workers: usize, deadline: std::time::Instant) -> Vec<Option<HistRun>> {
    use std::sync::{Mutex, atomic::{AtomicUsize, Ordering}};
    let next = AtomicUsize::new(0);
    let out: Mutex<Vec<Option<HistRun>>> = Mutex::new((0..jobs.len()).map(|_| None).collect());
    let jobs = &jobs;
    std::thread::scope(|s| {
        for _ in 0..workers {
            s.spawn(|| loop {
                let i = next.fetch_add(1, Ordering::SeqCst);
                if i >= jobs.len() || std::time::Instant::now() > deadline { break; }
                let (ops, rng, k, fq) = &jobs[i];
                let mut rng = rng.clone();
                let run = exec_history(ops, &mut rng, *k, fq.as_deref());
                out.lock().unwrap()[i] = Some(run);
            });
        }
    });
    out.into_inner().unwrap()
}

fn main() {
    let args = parse_args();
    let mut drv: Option<Driver> = if args.driver.as_os_str() == "none" { None } else { Some(Driver::spawn(&args.driver).expect("spawn driver")) };
    let mut sum = Summary::new("C15", &args,
        "random histories on real .mv2 files (rounds of put with explicit timestamps: equal / negative / i64 extremes; roles document, \
         chunk (auto-chunked long text and role given directly), extracted image; delete, update; each round closed by commit, \
         commit+reopen, reopen (WAL recovery), commit_skip_indexes (+finalize_indexes), doctor, vacuum); after every commit-like step \
         (and sometimes with pending operations) the frame table and the stored time index are read back and 2 fixed + 8-10 random \
         TimelineQuery (since/until from the table ±1 and extremes, limit around the result size and u64::MAX, reverse) are evaluated; \
         one case = (frame table, stored index, query); non-trivial = at least 2 listed frames; plus raw time-index tracks for \
         append_track/read_track");
    sum.expect_branches(&["active-extracted-image-present", "chunk-frames-present", "deleted-frames-present", "superseded-frames-present",
        "no-time-index", "reverse", "limit-cuts", "limit-not-reached", "bounds-exclude-something", "equal-timestamps-in-result",
        "negative-timestamp-in-result", "i64-extreme-in-result", "observe-after-reopen", "observe-after-doctor",
        "observe-with-pending-operations", "stored-index-equals-timeIndexOf", "read-track-rejects-unsorted"]);
    let mut shrunk = std::collections::BTreeSet::new();
    if args.mode == "replay" {
        let case = load_replay(args.replay_file.as_ref().expect("replay file"));
        let input = case.get("input").unwrap_or(&case);
        if let Some(t) = input.get("track").and_then(|t| t.as_str()) {
            let es: Vec<(i64, u64)> = if t == "-" { vec![] } else {
                t.split(',').map(|e| { let (a, b) = e.rsplit_once(':').unwrap(); (a.parse().unwrap(), b.parse().unwrap()) }).collect()
            };
            println!("track: {t}");
            track_case(&es, &mut drv, &mut sum);
            sum.finish(&args);
        }
        let ops: Vec<Op> = input["ops"].as_array().expect("ops").iter().map(op_from).collect();
        let q = q_from(&input["query"]);
        println!("ops  : {}", serde_json::to_string(&input["ops"]).unwrap());
        println!("query: {}", q_json(&q));
        let mut rng = Rng::new(args.seed);
        let run = exec_history(&ops, &mut rng, 0, Some(std::slice::from_ref(&q)));
        for ev in &run.events {
            match ev {
                Event::Op { name, tag } => println!("op {name}: {tag}"),
                Event::Fatal { sig, what, .. } => println!("FATAL {sig}: {what}"),
                Event::Obs(o) => {
                    println!("after {} ops: frames={} stored_time_index={}", o.prefix_len, frames_wire(&o.table), index_wire(&o.stored));
                    for r in &o.results {
                        println!("impl : {:?}", r.out.as_ref().map(|x| entries_wire(x)));
                        if r.q.limit != 0 { println!("impl (same query, no limit): {}", entries_wire(&r.unlimited)); }
                        if let Some(d) = drv.as_mut() {
                            let req = format!("{} {} {}", frames_wire(&o.table), index_wire(&o.stored), q_wire(&r.q));
                            println!("model (repaired)  : {}", d.ask(&format!("tl fix {req}")));
                            println!("model (unrepaired): {}", d.ask(&format!("tl cur {req}")));
                        }
                        for (sig, what) in query_failures(&o.table, r) { println!("oracle: {sig}: {what}"); }
                    }
                }
            }
        }
        eval_run(&run, &mut drv, &mut sum, &mut shrunk, false);
        if let Some(d) = &drv { sum.model_requests = d.requests; }
        sum.finish(&args);
    }
    let mut rng = Rng::new(args.seed);
    let mut jobs: Vec<(Vec<Op>, Rng, usize, Option<Vec<Q>>)> = vec![];
    let n_corpus = corpus().len();
    for (ops, qs) in corpus() { jobs.push((ops, rng.fork(), 0, Some(qs))); }
    let n_hist = if args.thorough { 500 } else { 16 };
    for _ in 0..n_hist {
        let ops = gen_history(&mut rng, args.thorough);
        jobs.push((ops, rng.fork(), if args.thorough { 10 } else { 8 }, None));
    }
    let deadline = std::time::Instant::now() + std::time::Duration::from_secs(if args.thorough { 1000 } else { 150 });
    let runs = exec_parallel(jobs, 4, deadline);
    let done = runs.iter().filter(|r| r.is_some()).count();
    for run in runs.iter().flatten() {
        eval_run(run, &mut drv, &mut sum, &mut shrunk, true);
    }
    track_cases(&mut rng, &mut drv, &mut sum, if args.thorough { 3000 } else { 400 });
    sum.notes.push(format!("histories run: {} of {} ({} corpus + {} generated)", done, n_corpus + n_hist, n_corpus, n_hist));
    if done < n_corpus + n_hist { sum.notes.push("time budget reached before all histories were run".into()); }
    if let Some(d) = &drv { sum.model_requests = d.requests; }
    sum.finish(&args);
}
