#!/usr/bin/env python3
"""C08: code-shape flags of the read paths (does each result loop re-check the frame status?).

Gen/C08.lean gets
  TANTIVY_STATUS_TEST       `try_tantivy_search`: the hit loop skips a frame whose status is not Active
                            (src/memvid/search/tantivy.rs)
  LEX_FALLBACK_STATUS_TEST  `search_with_lex_fallback`: same                (src/memvid/search/fallback.rs)
  FILTERS_ONLY_STATUS_TEST  `search_with_filters_only`: same                (src/memvid/search/fallback.rs)
  VEC_SEARCH_STATUS_TEST    `vec_search_with_embedding_acl`: same           (src/memvid/search/api.rs)
  TIMELINE_STATUS_TEST      `build_timeline`: the entry loop skips non-Active frames (src/memvid/timeline.rs)
  SKIP_DETACHES_ENGINE      `commit_skip_indexes_inner` takes the Tantivy engine away while it applies the
                            records and puts it back unchanged             (src/memvid/mutation.rs)
The flags select the variant of `Mv.Core.searchHits` / `vecHits` / `timelineIds` (MvModel/ReadPaths.lean)
that the correspondence run compares with the implementation; the theorems are stated for explicit
variants.  The translator also insists on the shape of the pieces the model mirrors without a flag:
`remove_frame_from_indexes` (engine delete + dirty flag, vector index removal), `mark_frame_deleted`,
`mark_frame_superseded`, `frame_by_uri` (active first, then any), `frame_is_active`, `build_vec_artifact`
(surviving entries filtered by `frame_is_active`), the time-index filter of `rebuild_indexes`."""
import re
from common import *


def fn_body(src, name):
    s = strip_comments(src)
    m = re.search(r"\bfn\s+" + re.escape(name) + r"\b", s)
    if not m:
        raise TranslateError(f"fn {name} not found")
    i = s.find("{", m.end())
    depth, j = 0, i
    while j < len(s):
        if s[j] == "{":
            depth += 1
        elif s[j] == "}":
            depth -= 1
            if depth == 0:
                break
        j += 1
    if i < 0 or j >= len(s):
        raise TranslateError(f"fn {name}: body not delimited")
    return re.sub(r"\s+", "", s[i:j + 1])


def lean_bool(b):
    return "true" if b else "false"


ACTIVE = r"(?:crate::types::)?FrameStatus::Active"


def skips_inactive(body, var, fn):
    """`if <var>.status != FrameStatus::Active { continue; }` somewhere in the body"""
    return re.search(r"if" + re.escape(var) + r"\.status!=" + ACTIVE + r"\{continue;\}", body) is not None


def need(body, frags, where):
    for f in frags:
        if f not in body:
            raise TranslateError(f"{where}: statement not found: {f}")


def run():
    tan = read("src/memvid/search/tantivy.rs")
    fb = read("src/memvid/search/fallback.rs")
    api = read("src/memvid/search/api.rs")
    tl = read("src/memvid/timeline.rs")
    mut = read("src/memvid/mutation.rs")
    frm = read("src/memvid/frame.rs")
    bld = read("src/memvid/search/builders.rs")

    t = fn_body(tan, "try_tantivy_search")
    need(t, ["forhitinsearch_hits{", "memvid.toc.frames.get(usize::try_from(hit.frame_id).unwrap_or(usize::MAX))"], "try_tantivy_search")
    tantivy_test = skips_inactive(t, "frame_meta", "try_tantivy_search")

    lf = fn_body(fb, "search_with_lex_fallback")
    need(lf, ["formatchedin&matches{", "memvid.toc.frames.get(idx)"], "search_with_lex_fallback")
    lex_test = skips_inactive(lf, "frame_meta", "search_with_lex_fallback")

    fo = fn_body(fb, "search_with_filters_only")
    need(fo, ["forframeinframes{", "memvid.toc.frames.clone()"], "search_with_filters_only")
    filt_test = skips_inactive(fo, "frame", "search_with_filters_only")

    vs = fn_body(api, "vec_search_with_embedding_acl")
    need(vs, ["forvec_hitinvec_hits{", "self.toc.frames.get(frame_idx)"], "vec_search_with_embedding_acl")
    vec_test = skips_inactive(vs, "frame", "vec_search_with_embedding_acl")

    bt = fn_body(tl, "build_timeline")
    need(bt, ["frame.status==FrameStatus::Active&&frame.role==FrameRole::ExtractedImage&&!indexed_ids.contains(&frame.id)",
              "frame.status==FrameStatus::Active&&frame.role!=FrameRole::DocumentChunk",
              "entries.sort_by_key(|entry|(entry.timestamp,entry.frame_id));"], "build_timeline")
    tl_test = skips_inactive(bt, "frame", "build_timeline")

    skip = fn_body(mut, "commit_skip_indexes_inner")
    need(skip, ["letresult=self.apply_records(records);", "self.toc.time_index=None;"], "commit_skip_indexes_inner")
    detaches = "lettantivy_backup=self.tantivy.take();" in skip and "self.tantivy=tantivy_backup;" in skip

    # pieces mirrored without a flag
    need(fn_body(mut, "remove_frame_from_indexes"),
         ["ifletSome(engine)=self.tantivy.as_mut(){engine.delete_frame(frame_id)?;self.tantivy_dirty=true;}",
          "ifletSome(index)=self.vec_index.as_mut(){index.remove(frame_id);}"], "remove_frame_from_indexes")
    need(fn_body(mut, "mark_frame_deleted"),
         ["frame.status=FrameStatus::Deleted;frame.superseded_by=None;self.remove_frame_from_indexes(frame_id)"], "mark_frame_deleted")
    need(fn_body(mut, "mark_frame_superseded"),
         ["frame.status=FrameStatus::Superseded;frame.superseded_by=Some(successor_id);self.remove_frame_from_indexes(frame_id)"],
         "mark_frame_superseded")
    need(fn_body(mut, "frame_is_active"), [".is_some_and(|frame|frame.status==FrameStatus::Active)"], "frame_is_active")
    need(fn_body(mut, "rebuild_indexes"),
         [".filter(|frame|{frame.status==FrameStatus::Active&&frame.role==FrameRole::Document}).map(|frame|TimeIndexEntry::new(frame.timestamp,frame.id))"],
         "rebuild_indexes")
    need(fn_body(bld, "build_vec_artifact"),
         ["for(frame_id,embedding)inindex.entries(){ifself.frame_is_active(frame_id){builder.add_document(frame_id,embedding.to_vec());}}"],
         "build_vec_artifact")
    need(fn_body(frm, "frame_by_uri"),
         ["&&frame.status==FrameStatus::Active}).or_else(||{self.toc.frames.iter().rev().find(|frame|frame.uri.as_deref()==Some(uri))})"],
         "frame_by_uri")

    body = "\n".join([
        f"def TANTIVY_STATUS_TEST : Bool := {lean_bool(tantivy_test)}",
        f"def LEX_FALLBACK_STATUS_TEST : Bool := {lean_bool(lex_test)}",
        f"def FILTERS_ONLY_STATUS_TEST : Bool := {lean_bool(filt_test)}",
        f"def VEC_SEARCH_STATUS_TEST : Bool := {lean_bool(vec_test)}",
        f"def TIMELINE_STATUS_TEST : Bool := {lean_bool(tl_test)}",
        f"def SKIP_DETACHES_ENGINE : Bool := {lean_bool(detaches)}",
    ]) + "\n"
    return emit("C08", body)


main(run)
