/-
  Helper lemmas for MvProps/C22.lean: safety (= no panic / abort / hang) of the primitives of
  MvModel/Decoders.lean and the compositional rule for `bind`.
-/
import MvModel.Decoders
namespace Mv.Dec
open Mv

variable {α β : Type}

@[simp] theorem safe_ok (a : α) : (Out.ok a).Safe := rfl
@[simp] theorem safe_err (e : String) : (Out.err e : Out α).Safe := rfl
@[simp] theorem not_safe_panic (w : String) : ¬ (Out.panic w : Out α).Safe := by simp [Out.Safe, Out.crashes]
@[simp] theorem not_safe_abort (w : String) : ¬ (Out.abort w : Out α).Safe := by simp [Out.Safe, Out.crashes]
@[simp] theorem not_safe_hang : ¬ (Out.hang : Out α).Safe := by simp [Out.Safe, Out.crashes]

@[simp] theorem bind_ok (a : α) (f : α → Out β) : (Out.ok a).bind f = f a := rfl
@[simp] theorem bind_err (e : String) (f : α → Out β) : (Out.err e).bind f = .err e := rfl
@[simp] theorem bind_panic (w : String) (f : α → Out β) : (Out.panic w).bind f = .panic w := rfl
@[simp] theorem bind_abort (w : String) (f : α → Out β) : (Out.abort w).bind f = .abort w := rfl
@[simp] theorem bind_hang (f : α → Out β) : (Out.hang : Out α).bind f = .hang := rfl
@[simp] theorem bind_eq (x : Out α) (f : α → Out β) : (x >>= f) = x.bind f := rfl
@[simp] theorem pure_eq (a : α) : (pure a : Out α) = .ok a := rfl

/-- the compositional rule: a safe first step and safe continuations on its results -/
theorem Safe_bind {x : Out α} {f : α → Out β} (hx : x.Safe) (hf : ∀ a, x = .ok a → (f a).Safe) :
    (x.bind f).Safe := by
  cases x with
  | ok a => exact hf a rfl
  | err e => rfl
  | panic w => exact absurd hx (not_safe_panic w)
  | abort w => exact absurd hx (not_safe_abort w)
  | hang => exact absurd hx not_safe_hang

/-- a crash of `x.bind f` is a crash of `x` or of `f` on the value of `x` -/
theorem crash_bind {x : Out α} {f : α → Out β} (h : ¬ (x.bind f).Safe) :
    ¬ x.Safe ∨ ∃ a, x = .ok a ∧ ¬ (f a).Safe := by
  cases x with
  | ok a => exact .inr ⟨a, rfl, h⟩
  | err e => exact absurd rfl h
  | panic w => exact .inl (not_safe_panic w)
  | abort w => exact .inl (not_safe_abort w)
  | hang => exact .inl not_safe_hang

/-! ### primitives -/

theorem addP_safe {a b : Nat} (h : a + b < 2^64) : (addP a b).Safe := by simp [addP, h]
theorem addP_ok {a b c : Nat} (h : addP a b = .ok c) : c = a + b ∧ a + b < 2^64 := by
  unfold addP at h; split at h
  · injection h with h; exact ⟨h.symm, by assumption⟩
  · cases h
theorem subP_safe {a b : Nat} (h : b ≤ a) : (subP a b).Safe := by simp [subP, h]
theorem subP_ok {a b c : Nat} (h : subP a b = .ok c) : c = a - b ∧ b ≤ a := by
  unfold subP at h; split at h
  · injection h with h; exact ⟨h.symm, by assumption⟩
  · cases h
theorem mulP_safe {a b : Nat} (h : a * b < 2^64) : (mulP a b).Safe := by simp [mulP, h]
theorem mulP_ok {a b c : Nat} (h : mulP a b = .ok c) : c = a * b ∧ a * b < 2^64 := by
  unfold mulP at h; split at h
  · injection h with h; exact ⟨h.symm, by assumption⟩
  · cases h

theorem sliceP_safe {b : Bytes} {s e : Nat} (h : s ≤ e ∧ e ≤ b.length) : (sliceP b s e).Safe := by
  simp [sliceP, h]
theorem sliceP_ok {b x : Bytes} {s e : Nat} (h : sliceP b s e = .ok x) :
    x = slice b s (e - s) ∧ s ≤ e ∧ e ≤ b.length ∧ x.length = e - s := by
  unfold sliceP at h; split at h
  · rename_i hc
    injection h with h
    refine ⟨h.symm, hc.1, hc.2, ?_⟩
    rw [← h]; exact slice_length _ _ _ (by omega)
  · cases h

theorem idxP_safe {b : Bytes} {i : Nat} (h : i < b.length) : (idxP b i).Safe := by
  unfold idxP
  rw [List.getElem?_eq_getElem h]
  rfl

theorem readAt_safe (file : Bytes) (pos n : Nat) : (readAt file pos n).Safe := by
  unfold readAt; split
  · rfl
  · split <;> rfl
theorem readAt_ok {file x : Bytes} {pos n : Nat} (h : readAt file pos n = .ok x) :
    x = slice file pos n ∧ pos < 2^63 ∧ pos + n ≤ file.length ∧ x.length = n := by
  unfold readAt at h; split at h
  · cases h
  · split at h
    · rename_i h1 h2
      injection h with h
      refine ⟨h.symm, by omega, h2, ?_⟩
      rw [← h]; exact slice_length _ _ _ h2
    · cases h
theorem readSeq_safe (file : Bytes) (pos n : Nat) : (readSeq file pos n).Safe := by
  unfold readSeq; split <;> rfl
theorem readSeq_ok {file x : Bytes} {pos n : Nat} (h : readSeq file pos n = .ok x) :
    x = slice file pos n ∧ pos + n ≤ file.length := by
  unfold readSeq at h; split at h
  · injection h with h; exact ⟨h.symm, by assumption⟩
  · cases h

theorem extractArrayP_safe (b : Bytes) (off n : Nat) : (extractArrayP b off n).Safe := by
  unfold extractArrayP; split <;> rfl
theorem readU64_safe (b : Bytes) (s e : Nat) : (readU64 b s e).Safe := by
  unfold readU64; split
  · rfl
  · split <;> rfl
theorem readU64_ok {b : Bytes} {s e v : Nat} (h : readU64 b s e = .ok v) : v < 2^64 := by
  unfold readU64 at h; split at h
  · cases h
  · split at h
    · rename_i sl _ hl
      injection h with h
      have := leVal_lt sl
      rw [hl] at this
      omega
    · cases h

theorem satAdd_le (a b : Nat) : satAdd a b ≤ 2^64 - 1 := Nat.min_le_right _ _
theorem checkedAdd_some {a b e : Nat} (h : checkedAdd a b = some e) : e = a + b ∧ e < 2^64 := by
  unfold checkedAdd at h; split at h
  · injection h with h; exact ⟨h.symm, by omega⟩
  · cases h

end Mv.Dec
