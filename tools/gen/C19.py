#!/usr/bin/env python3
"""C19: the forbidden-sidecar tables and candidate-name formats of `ensure_single_file`
(src/memvid/lifecycle.rs), the list of entry points that call it before touching the file system, and
the staging-temp naming constants of the pinned `atomic-write-file` crate (vendored source in the cargo
registry: prefix '.', separator '.', 6 alphanumeric characters)."""
import glob, os, re
from common import *


def fn_body(src, name):
    """text of `fn NAME ... { ... }` (brace matched), comments stripped"""
    s = strip_comments(src)
    m = re.search(r"\bfn\s+" + re.escape(name) + r"\b", s)
    if not m:
        raise TranslateError(f"fn {name} not found")
    i = s.find("{", m.end())
    depth, j = 0, i
    while j < len(s):
        if s[j] == "{":
            depth += 1
        elif s[j] == "}":
            depth -= 1
            if depth == 0:
                break
        j += 1
    return s[i:j + 1]


def str_array(body, var):
    m = re.search(r"let\s+" + re.escape(var) + r"\s*=\s*\[(.*?)\]\s*;", body, re.S)
    if not m:
        raise TranslateError(f"table `{var}` not found in ensure_single_file")
    items = re.findall(r'"((?:[^"\\]|\\.)*)"', m.group(1))
    if not items:
        raise TranslateError(f"table `{var}` is empty")
    return items


def candidate_format(body, var):
    """the `format!("…{name}{suffix}")` used inside `for suffix in <var>` → (prefix, infix) around name/suffix"""
    m = re.search(r"for\s+suffix\s+in\s+" + re.escape(var) + r"\s*\{(.*?)\n\s*\}\n", body, re.S)
    if not m:
        raise TranslateError(f"loop over `{var}` not found")
    loop = m.group(1)
    f = re.search(r'parent\s*\.\s*join\(\s*format!\(\s*"([^"]*)"\s*\)\s*\)', loop)
    if not f:
        raise TranslateError(f"candidate format for `{var}` not found")
    fm = re.fullmatch(r"([^{}]*)\{name\}([^{}]*)\{suffix\}", f.group(1))
    if not fm:
        raise TranslateError(f"candidate format {f.group(1)!r} is not <prefix>{{name}}<infix>{{suffix}}")
    if "candidate.exists()" not in loop or "AuxiliaryFileDetected" not in loop:
        raise TranslateError(f"loop over `{var}` no longer answers AuxiliaryFileDetected when the candidate exists")
    return fm.group(1), fm.group(2)


def guarded(src, name):
    """does `fn name` call ensure_single_file(..)? before any other file-system call"""
    b = fn_body(src, name)
    k = b.find("ensure_single_file(")
    if k < 0:
        return False
    before = b[:k]
    return not re.search(r"OpenOptions|File::|FileLock::|fs::|try_open|Self::open", before)


def lean_chars(x):
    def one(c):
        if c == "'":
            return "'\\''"
        if c == "\\":
            return "'\\\\'"
        if not (32 <= ord(c) < 127):
            raise TranslateError(f"non-printable character in table entry {x!r}")
        return f"'{c}'"
    return "[" + ", ".join(one(c) for c in x) + "]"


def lean_chars_list(xs):
    return "[" + ", ".join(lean_chars(x) for x in xs) + "]"


def atomic_write_file_consts():
    lock = read("Cargo.lock")
    m = re.search(r'name = "atomic-write-file"\s*\nversion = "([^"]+)"', lock)
    if not m:
        raise TranslateError("atomic-write-file not in Cargo.lock")
    ver = m.group(1)
    cands = glob.glob(os.path.expanduser(f"~/.cargo/registry/src/*/atomic-write-file-{ver}/src/imp/unix/mod.rs"))
    if not cands:
        raise TranslateError(f"vendored source of atomic-write-file {ver} not found")
    src = strip_comments(open(cands[0], encoding="utf-8").read())
    m = re.search(r"const\s+SUFFIX_SIZE\s*:\s*usize\s*=\s*(\d+)\s*;", src)
    if not m:
        raise TranslateError("RandomName::SUFFIX_SIZE not found")
    size = int(m.group(1))
    new = re.search(r"fn\s+new\(base_name.*?\{(.*?)\n    \}", src, re.S)
    if not new:
        raise TranslateError("RandomName::new not found")
    pushes = re.findall(r"buf\.push\(b'(.)'\)", new.group(1))
    if len(pushes) != 2 or "extend_from_slice(base_name.as_bytes())" not in new.group(1):
        raise TranslateError("RandomName::new no longer builds <c><name><c><suffix>")
    if "Alphanumeric" not in src:
        raise TranslateError("RandomName no longer samples Alphanumeric")
    cfg = read("Cargo.toml")
    dep = re.search(r'^atomic-write-file\s*=\s*(.*)$', cfg, re.M)
    if not dep:
        raise TranslateError("atomic-write-file dependency not found in Cargo.toml")
    unnamed = "unnamed-tmpfile" in dep.group(1)
    return ver, pushes[0], pushes[1], size, unnamed


def run():
    src = read("src/memvid/lifecycle.rs")
    body = fn_body(src, "ensure_single_file")
    plain = str_array(body, "forbidden")
    hidden = str_array(body, "hidden_forbidden")
    ppre, pin = candidate_format(body, "forbidden")
    hpre, hin = candidate_format(body, "hidden_forbidden")
    if body.find("for suffix in forbidden") > body.find("for suffix in hidden_forbidden"):
        raise TranslateError("the plain table is no longer scanned before the hidden one")
    doctor = read("src/memvid/doctor.rs")
    guards = [
        ("create", guarded(src, "create")),
        ("open", guarded(src, "open")),
        ("open_read_only_with_options", guarded(src, "open_read_only_with_options")),
        ("try_open", guarded(src, "try_open")),
        ("doctor_plan", guarded(doctor, "doctor_plan")),
    ]
    ver, c1, c2, size, unnamed = atomic_write_file_consts()
    mut = strip_comments(read("src/memvid/mutation.rs"))
    if not re.search(r"fn\s+prepare\(path:\s*&Path\).*?AtomicWriteFile::options\(\)", mut, re.S):
        raise TranslateError("CommitStaging::prepare no longer uses AtomicWriteFile")
    out = []
    out.append("/-- `forbidden` of `ensure_single_file`, in scan order -/")
    out.append(f"def forbidden : List (List Char) := {lean_chars_list(plain)}")
    out.append("/-- `hidden_forbidden` of `ensure_single_file`, in scan order (scanned after `forbidden`) -/")
    out.append(f"def hiddenForbidden : List (List Char) := {lean_chars_list(hidden)}")
    out.append("/-- candidate = prefix ++ name ++ infix ++ suffix, from the two `format!` strings -/")
    out.append(f"def plainPrefix : List Char := {lean_chars(ppre)}")
    out.append(f"def plainInfix : List Char := {lean_chars(pin)}")
    out.append(f"def hiddenPrefix : List Char := {lean_chars(hpre)}")
    out.append(f"def hiddenInfix : List Char := {lean_chars(hin)}")
    out.append("/-- entry points and whether their first file-system relevant statement is `ensure_single_file(..)?` -/")
    for n, g in guards:
        out.append(f"def guard_{n} : Bool := {'true' if g else 'false'}")
    out.append(f"/-- staging temp of atomic-write-file {ver}: tmpLead ++ name ++ tmpSep ++ <tmpSuffixLen alphanumerics> -/")
    out.append(f"def tmpLead : List Char := {lean_chars(c1)}")
    out.append(f"def tmpSep : List Char := {lean_chars(c2)}")
    out.append(f"def tmpSuffixLen : Nat := {size}")
    out.append("/-- the `unnamed-tmpfile` (O_TMPFILE) variant of the crate is feature-gated; memvid does not enable it -/")
    out.append(f"def unnamedTmpfile : Bool := {'true' if unnamed else 'false'}")
    return emit("C19", "\n".join(out) + "\n")


main(run)
