/-
  C26Lemmas — helper development for property C26 (derived data refers to the frame it was derived from).

    A. `stepG .frameId = step`: the `frameId` policy of MvModel/Derived.lean IS the shared Core model
       (which mirrors the repaired code); `walSeq` is the code as it was before a8580e2.
    B. `SameDer`: commits, checkpoints, index rebuilds, WAL growth never touch cards / enrichment
       records / the enrichment queue (only `put_internal` creates derived data).
    C. What one accepted `put_internal` adds to the derived data (`putTailG_derived` …).
    D. Simulation of the policy-parametric put path against the reference spec (`putG_sim`,
       `updateG_sim`; same statements as CoreLemmas' `put_sim` / `update_sim`, for every policy),
       `stepG_sim`, `runG_refines`.
    E. Reference-side facts: the document an acknowledged put/update adds sits at index `S.length`,
       and identities of existing ids never change (`specRun_ident`).
-/
import MvProps.CoreLemmas
import MvModel.Derived
namespace Mv.Core

/-! ## A. the `frameId` policy is the shared model (Core.lean mirrors the repaired code, a8580e2) -/

theorem appendPutG_frameId (m : Mem) (a : PutArgs) (sup reuse : Option Nat) :
    m.appendPutG m.nextFrameId a sup reuse = m.appendPut a sup reuse := rfl

/-- a rejected `putTail` leaves the handle as it was -/
theorem putTail_rejected (m : Mem) (a : PutArgs) (sup reuse : Option Nat) (t : Trace) :
    (m.putTail a sup reuse t).2.isAck = false → (m.putTail a sup reuse t).1 = m := by
  unfold Mem.putTail
  repeat' split
  all_goals first
    | (intro _; rfl)
    | (intro h; simp [Out.isAck] at h)

/-- an accepted `putTail` is: WAL appends, automatic checkpoint, triplet cards; it answers the sequence
    number of the parent record -/
theorem putTail_accepted (m : Mem) (a : PutArgs) (sup reuse : Option Nat) (t : Trace) :
    (m.putTail a sup reuse t).2.isAck = true →
    m.putTail a sup reuse t =
      ((((m.appendPut a sup reuse).afterAppend t).addCards a.nc m.nextFrameId), .seq (m.seq + 1)) := by
  unfold Mem.putTail
  repeat' split
  all_goals first
    | (intro _; rfl)
    | (intro h; simp [Out.isAck] at h)

theorem putTailG_frameId (m : Mem) (a : PutArgs) (sup reuse : Option Nat) (t : Trace) :
    m.putTailG .frameId a sup reuse t = m.putTail a sup reuse t := by
  unfold Mem.putTailG
  split
  · rename_i h
    rw [putTail_accepted m a sup reuse t h]
    rfl
  · rfl

theorem putCoreG_frameId (m : Mem) (a : PutArgs) (sup reuse : Option Nat) (t : Trace) :
    m.putCoreG .frameId a sup reuse t = m.putCore a sup reuse t := by
  simp only [Mem.putCoreG, Mem.putCore, putTailG_frameId]
  rfl

theorem updateG_frameId (m : Mem) (id : Nat) (u : UpdArgs) (t : Trace) :
    m.updateG .frameId id u t = m.update id u t := by
  simp only [Mem.updateG, Mem.update, putCoreG_frameId]
  rfl

theorem stepG_frameId (m : Mem) (op : Op) : stepG .frameId m op = step m op := by
  cases op with
  | put a t => exact putCoreG_frameId m a none none t
  | update id u t => exact updateG_frameId m id u t
  | _ => rfl

theorem runG_frameId (m : Mem) (ops : List Op) : runG .frameId m ops = run m ops := by
  induction ops generalizing m with
  | nil => rfl
  | cons op ops ih => simp only [runG, run, stepG_frameId, ih]

theorem traceG_frameId (m : Mem) (ops : List Op) : traceG .frameId m ops = trace m ops := by
  induction ops generalizing m with
  | nil => rfl
  | cons op ops ih => simp only [traceG, trace, stepG_frameId, ih]

/-! ## B. derived data is untouched by everything a put calls after its appends -/

/-- same memory cards, enrichment records and enrichment queue -/
structure SameDer (m' m : Mem) : Prop where
  cards : m'.cards = m.cards
  recs : m'.enrRecs = m.enrRecs
  queue : m'.queue = m.queue

theorem SameDer.refl (m : Mem) : SameDer m m := ⟨rfl, rfl, rfl⟩
theorem SameDer.trans {a b c : Mem} (h1 : SameDer a b) (h2 : SameDer b c) : SameDer a c :=
  ⟨h1.cards.trans h2.cards, h1.recs.trans h2.recs, h1.queue.trans h2.queue⟩

theorem persistToc_der (m : Mem) : SameDer m.persistToc m := ⟨rfl, rfl, rfl⟩

theorem flushTantivy_der (m : Mem) (ft : Nat) : SameDer (m.flushTantivy ft) m := by
  unfold Mem.flushTantivy
  split
  · exact SameDer.refl m
  · split <;> exact ⟨rfl, rfl, rfl⟩

theorem setWalSize_der (m : Mem) (ws : Nat) : SameDer (m.setWalSize ws) m := by
  unfold Mem.setWalSize
  split
  · exact SameDer.refl m
  · exact ⟨rfl, rfl, rfl⟩

theorem rebuildLex_der (m : Mem) (ins : List Nat) (ft : Nat) : SameDer (m.rebuildLex ins ft) m := by
  unfold Mem.rebuildLex
  split
  · exact SameDer.trans (flushTantivy_der _ ft) ⟨rfl, rfl, rfl⟩
  · exact SameDer.refl m

theorem rebuildVec_der (m : Mem) (embs : List VecEnt) : SameDer (m.rebuildVec embs) m := by
  unfold Mem.rebuildVec
  split <;> exact ⟨rfl, rfl, rfl⟩

theorem rebuildIndexes_der (m : Mem) (embs : List VecEnt) (ins : List Nat) (ft : Nat) :
    SameDer (m.rebuildIndexes embs ins ft) m := by
  unfold Mem.rebuildIndexes
  split
  · exact SameDer.refl m
  · apply SameDer.trans (persistToc_der _)
    apply SameDer.trans (b := (Mem.rebuildLex { m with dataEnd := m.payloadEnd, time := some (timeEntries m.frames) } ins ft).rebuildVec embs)
    · exact ⟨rfl, rfl, rfl⟩
    · exact SameDer.trans (rebuildVec_der _ _) (SameDer.trans (rebuildLex_der _ _ _) ⟨rfl, rfl, rfl⟩)

theorem checkpoint_der (m : Mem) : SameDer m.checkpoint m := ⟨rfl, rfl, rfl⟩

theorem applyRecords_der (m : Mem) (recs : List (Nat × Entry)) (eng : Bool) (m1 : Mem) (δ : Delta)
    (h : applyRecords m recs eng = some (m1, δ)) : SameDer m1 m := by
  unfold applyRecords at h
  split at h
  · cases h; exact SameDer.refl m
  · dsimp only at h
    split at h
    · cases h
    · cases h; exact ⟨rfl, rfl, rfl⟩

theorem commitFromRecords_der (m : Mem) (ft : Nat) (m' : Mem) (h : m.commitFromRecords ft = some m') :
    SameDer m' m := by
  unfold Mem.commitFromRecords at h
  split at h
  · cases h
  · rename_i m1 δ h1
    have hd := applyRecords_der m m.pending true m1 δ h1
    cases h
    refine SameDer.trans ?_ hd
    split
    · exact SameDer.trans (b := (m1.rebuildIndexes δ.embs δ.inserted ft).checkpoint) ⟨rfl, rfl, rfl⟩
        (SameDer.trans (checkpoint_der _) (rebuildIndexes_der _ _ _ _))
    · have hf := flushTantivy_der m1 ft
      exact ⟨hf.cards, hf.recs, hf.queue⟩

theorem commit_der (m : Mem) (ft : Nat) : SameDer (m.commit ft).1 m := by
  unfold Mem.commit
  split
  · exact SameDer.refl m
  · split
    · rename_i m' h
      exact commitFromRecords_der m ft m' h
    · exact SameDer.refl m

theorem autoCommit_der (m : Mem) (t : Trace) : SameDer (m.autoCommit t) m := by
  unfold Mem.autoCommit
  split
  · exact commit_der m t.ft
  · exact SameDer.refl m

theorem afterAppend_der (m : Mem) (t : Trace) : SameDer (m.afterAppend t) m := by
  unfold Mem.afterAppend
  split
  · exact setWalSize_der m t.ws
  · exact SameDer.trans (autoCommit_der _ t) (setWalSize_der m t.ws)

/-! ## C. what one accepted put adds -/

/-- the derived data of `m'` is that of `m` plus: `nc` cards naming `fid`, a queue entry naming `fid`
    when `q`, and (at most) an enrichment record filed under `fid` -/
structure Adds (m' m : Mem) (fid nc : Nat) (q : Bool) : Prop where
  cards : m'.cards = m.cards ++ List.replicate nc fid
  queue : m'.queue = m.queue ++ (if q then [fid] else [])
  recs : ∀ r, r ∈ m'.enrRecs ↔ (r ∈ m.enrRecs ∨ (nc ≠ 0 ∧ r = fid))

theorem Adds.of_sameDer {m' m m0 : Mem} {fid nc : Nat} {q : Bool} (h : Adds m' m fid nc q) (h0 : SameDer m m0) :
    Adds m' m0 fid nc q :=
  ⟨by rw [h.cards, h0.cards], by rw [h.queue, h0.queue], fun r => by rw [h.recs r, h0.recs]⟩

theorem addCards_adds (m : Mem) (nc fid : Nat) :
    (m.addCards nc fid).cards = m.cards ++ List.replicate nc fid ∧ (m.addCards nc fid).queue = m.queue ∧
    ∀ r, r ∈ (m.addCards nc fid).enrRecs ↔ (r ∈ m.enrRecs ∨ (nc ≠ 0 ∧ r = fid)) := by
  unfold Mem.addCards
  split
  · rename_i h
    subst h
    exact ⟨by simp, rfl, fun r => by simp⟩
  · rename_i h
    refine ⟨rfl, rfl, fun r => ?_⟩
    show r ∈ (if m.enrRecs.contains fid then m.enrRecs else m.enrRecs ++ [fid]) ↔ _
    split
    · rename_i hc
      have hmem : fid ∈ m.enrRecs := by simpa using hc
      constructor
      · intro hr; exact Or.inl hr
      · rintro (hr | ⟨_, rfl⟩)
        · exact hr
        · exact hmem
    · simp [h]

theorem putTailG_derived (p : IdPolicy) (m : Mem) (a : PutArgs) (sup reuse : Option Nat) (t : Trace)
    (hack : (m.putTailG p a sup reuse t).2.isAck = true) :
    Adds (m.putTailG p a sup reuse t).1 m (p.id m) a.nc a.q := by
  revert hack
  unfold Mem.putTailG
  split
  · intro _
    have ha := afterAppend_der (m.appendPutG (p.id m) a sup reuse) t
    obtain ⟨c1, c2, c3⟩ := addCards_adds ((m.appendPutG (p.id m) a sup reuse).afterAppend t) a.nc (p.id m)
    have hq : (m.appendPutG (p.id m) a sup reuse).queue = m.queue ++ (if a.q then [p.id m] else []) := by
      show (if a.q then m.queue ++ [p.id m] else m.queue) = _
      split <;> simp
    exact ⟨by rw [c1, ha.cards]; rfl, by rw [c2, ha.queue, hq], fun r => by rw [c3 r, ha.recs]; rfl⟩
  · rename_i h
    intro h'
    exact absurd h' h

theorem enableVec_der (m : Mem) : SameDer m.enableVec m := by
  unfold Mem.enableVec; split
  · exact SameDer.refl m
  · exact ⟨rfl, rfl, rfl⟩

theorem noteDim_der (m : Mem) (d : Nat) : SameDer (m.noteDim d) m := by
  unfold Mem.noteDim; split
  · exact ⟨rfl, rfl, rfl⟩
  · exact SameDer.refl m

theorem loadVec_der (m : Mem) : SameDer m.loadVec m := by
  unfold Mem.loadVec; split
  · exact ⟨rfl, rfl, rfl⟩
  · exact SameDer.refl m

/-- neither policy's id looks at anything `enable_vec` / the early dimension / `ensure_vec_index` change -/
theorem id_enableVec (p : IdPolicy) (m : Mem) : p.id m.enableVec = p.id m := by
  cases p <;> (unfold Mem.enableVec; split <;> rfl)

theorem id_noteDim (p : IdPolicy) (m : Mem) (d : Nat) : p.id (m.noteDim d) = p.id m := by
  cases p <;> (unfold Mem.noteDim; split <;> rfl)

theorem id_loadVec (p : IdPolicy) (m : Mem) : p.id m.loadVec = p.id m := by
  cases p <;> (unfold Mem.loadVec; split <;> rfl)

theorem putCoreG_derived (p : IdPolicy) (m : Mem) (a : PutArgs) (sup reuse : Option Nat) (t : Trace)
    (hack : (m.putCoreG p a sup reuse t).2.isAck = true) :
    Adds (m.putCoreG p a sup reuse t).1 m (p.id m) a.nc a.q := by
  revert hack
  unfold Mem.putCoreG
  split
  · intro h; simp [Out.isAck] at h
  · split
    · split
      · intro h; simp [Out.isAck] at h
      · split
        · intro h; simp [Out.isAck] at h
        · intro hack
          have hh := putTailG_derived p (m.enableVec.noteDim _) a sup reuse t hack
          rw [id_noteDim, id_enableVec] at hh
          exact hh.of_sameDer (SameDer.trans (noteDim_der _ _) (enableVec_der m))
    · intro hack
      exact putTailG_derived p m a sup reuse t hack

theorem putTailG_out (p : IdPolicy) (m : Mem) (a : PutArgs) (sup reuse : Option Nat) (t : Trace)
    (hack : (m.putTailG p a sup reuse t).2.isAck = true) : (m.putTailG p a sup reuse t).2 = .seq (m.seq + 1) := by
  revert hack
  unfold Mem.putTailG
  split
  · intro _; rfl
  · rename_i h
    intro h'
    exact absurd h' h

theorem seq_enableVec (m : Mem) : m.enableVec.seq = m.seq := by
  unfold Mem.enableVec; split <;> rfl

theorem seq_noteDim (m : Mem) (d : Nat) : (m.noteDim d).seq = m.seq := by
  unfold Mem.noteDim; split <;> rfl

theorem seq_loadVec (m : Mem) : m.loadVec.seq = m.seq := by
  unfold Mem.loadVec; split <;> rfl

theorem putCoreG_out (p : IdPolicy) (m : Mem) (a : PutArgs) (sup reuse : Option Nat) (t : Trace)
    (hack : (m.putCoreG p a sup reuse t).2.isAck = true) : (m.putCoreG p a sup reuse t).2 = .seq (m.seq + 1) := by
  revert hack
  unfold Mem.putCoreG
  split
  · intro h; simp [Out.isAck] at h
  · split
    · split
      · intro h; simp [Out.isAck] at h
      · split
        · intro h; simp [Out.isAck] at h
        · intro hack
          rw [putTailG_out p _ a sup reuse t hack, seq_noteDim, seq_enableVec]
    · intro hack
      exact putTailG_out p m a sup reuse t hack

/-- an acknowledged `update_frame`: the target is a committed frame, and the derived data grows as for a put -/
theorem updateG_derived (p : IdPolicy) (m : Mem) (id : Nat) (u : UpdArgs) (t : Trace)
    (hack : (m.updateG p id u t).2.isAck = true) :
    Adds (m.updateG p id u t).1 m (p.id m) u.nc u.q ∧ ∃ old, m.frames[id]? = some old := by
  revert hack
  unfold Mem.updateG
  split
  · intro h; simp [Out.isAck] at h
  · split
    · intro h; simp [Out.isAck] at h
    · rename_i old hold
      split
      · intro h; simp [Out.isAck] at h
      · split
        · intro h; simp [Out.isAck] at h
        · intro hack
          have hh := putCoreG_derived p m.loadVec (inheritArgs old u (m.carriedEmb id u.emb)) (some id)
            (if u.payload.isNone then some id else none) t hack
          rw [id_loadVec] at hh
          exact ⟨hh.of_sameDer (loadVec_der m), old, hold⟩

theorem updateG_out (p : IdPolicy) (m : Mem) (id : Nat) (u : UpdArgs) (t : Trace)
    (hack : (m.updateG p id u t).2.isAck = true) : (m.updateG p id u t).2 = .seq (m.seq + 1) := by
  revert hack
  unfold Mem.updateG
  split
  · intro h; simp [Out.isAck] at h
  · split
    · intro h; simp [Out.isAck] at h
    · split
      · intro h; simp [Out.isAck] at h
      · split
        · intro h; simp [Out.isAck] at h
        · intro hack
          rw [putCoreG_out p _ _ _ _ t hack, seq_loadVec]

/-! ## D. simulation of the policy-parametric put path -/

theorem addCardsG_skel (m : Mem) (nc fid : Nat) : SkelLex (m.addCards nc fid) m := addCards_skel m nc fid

theorem putTailG_sim (p : IdPolicy) (m : Mem) (a : PutArgs) (sup reuse : Option Nat) (t : Trace) (hi : Inv m)
    (hsup : ∀ x, sup = some x → x < m.frames.length) (hreu : ∀ x, reuse = some x → x < m.frames.length) :
    Inv (m.putTailG p a sup reuse t).1 ∧
    ((m.putTailG p a sup reuse t).2.isAck = true →
        abs (m.putTailG p a sup reuse t).1 = sApply (abs m) (putRecords m.seq a sup reuse)) ∧
    ((m.putTailG p a sup reuse t).2.isAck = false → abs (m.putTailG p a sup reuse t).1 = abs m) := by
  unfold Mem.putTailG
  split
  · have hf : (m.appendPutG (p.id m) a sup reuse).frames = m.frames := rfl
    have hp : (m.appendPutG (p.id m) a sup reuse).pending = m.pending ++ putRecords m.seq a sup reuse := rfl
    have hpi : (m.appendPutG (p.id m) a sup reuse).pendingInserts = m.pendingInserts + (putRecords m.seq a sup reuse).length := rfl
    have hi1 : Inv (m.appendPutG (p.id m) a sup reuse) := by
      constructor
      · rw [hf, hp]
        intro r hr
        rcases List.mem_append.mp hr with hr | hr
        · exact hi.ok r hr
        · exact allOk_putRecords _ _ _ _ _ hsup hreu r hr
      · rw [hpi, hp, countInserts_append, countInserts_putRecords, hi.pi]
    have ha1 : abs (m.appendPutG (p.id m) a sup reuse) = sApply (abs m) (putRecords m.seq a sup reuse) := by
      unfold Mv.Core.abs; rw [hf, hp, sApply_append]
    have hc := addCards_skel ((m.appendPutG (p.id m) a sup reuse).afterAppend t) a.nc (p.id m)
    refine ⟨hc.inv (afterAppend_inv _ t hi1), fun _ => ?_, fun h => by simp [Out.isAck] at h⟩
    show abs (((m.appendPutG (p.id m) a sup reuse).afterAppend t).addCards a.nc (p.id m)) = _
    rw [hc.abs, afterAppend_abs _ t hi1, ha1]
  · exact putTail_sim m a sup reuse t hi hsup hreu

theorem putCoreG_sim (p : IdPolicy) (m : Mem) (a : PutArgs) (sup reuse : Option Nat) (t : Trace) (hi : Inv m)
    (hsup : ∀ x, sup = some x → x < m.frames.length) (hreu : ∀ x, reuse = some x → x < m.frames.length) :
    Inv (m.putCoreG p a sup reuse t).1 ∧
    ((m.putCoreG p a sup reuse t).2.isAck = true → abs (m.putCoreG p a sup reuse t).1 = putForm (abs m) a sup reuse) ∧
    ((m.putCoreG p a sup reuse t).2.isAck = false → abs (m.putCoreG p a sup reuse t).1 = abs m) := by
  have key : ∀ (m' : Mem), SkelLex m' m → m'.frames.length = m.frames.length →
      Inv (m'.putTailG p a sup reuse t).1 ∧
      ((m'.putTailG p a sup reuse t).2.isAck = true → abs (m'.putTailG p a sup reuse t).1 = putForm (abs m) a sup reuse) ∧
      ((m'.putTailG p a sup reuse t).2.isAck = false → abs (m'.putTailG p a sup reuse t).1 = abs m) := by
    intro m' hs hl
    obtain ⟨h1, h2, h3⟩ := putTailG_sim p m' a sup reuse t (hs.inv hi) (by rw [hl]; exact hsup) (by rw [hl]; exact hreu)
    exact ⟨h1, fun h => by rw [h2 h, sApply_putRecords, hs.abs], fun h => by rw [h3 h, hs.abs]⟩
  have hev : SkelLex m.enableVec m := by
    unfold Mem.enableVec; split
    · exact SkelLex.refl m
    · exact SkelLex.of_eq rfl rfl rfl
  have hnd : ∀ d, SkelLex (m.enableVec.noteDim d) m := by
    intro d
    refine SkelLex.trans ?_ hev
    unfold Mem.noteDim; split
    · exact SkelLex.of_eq rfl rfl rfl
    · exact SkelLex.refl _
  unfold Mem.putCoreG
  split
  · exact ⟨hi, fun h => by simp [Out.isAck] at h, fun _ => rfl⟩
  · split
    · split
      · exact ⟨hi, fun h => by simp [Out.isAck] at h, fun _ => rfl⟩
      · split
        · exact ⟨hev.inv hi, fun h => by simp [Out.isAck] at h, fun _ => hev.abs⟩
        · exact key _ (hnd _) (hnd _).length
    · exact key m (SkelLex.refl m) rfl

theorem putG_sim (p : IdPolicy) (m : Mem) (a : PutArgs) (t : Trace) (hi : Inv m) :
    Inv (m.putG p a t).1 ∧
    ((m.putG p a t).2.isAck = true → abs (m.putG p a t).1 = specPut (abs m) a) ∧
    ((m.putG p a t).2.isAck = false → abs (m.putG p a t).1 = abs m) := by
  obtain ⟨h1, h2, h3⟩ := putCoreG_sim p m a none none t hi (fun x h => by cases h) (fun x h => by cases h)
  exact ⟨h1, fun h => by rw [Mem.putG, h2 h]; rfl, h3⟩

theorem updateG_sim (p : IdPolicy) (m : Mem) (id : Nat) (u : UpdArgs) (t : Trace) (hi : Inv m) :
    Inv (m.updateG p id u t).1 ∧
    ((m.updateG p id u t).2.isAck = true → abs (m.updateG p id u t).1 = specUpdate (abs m) id u) ∧
    ((m.updateG p id u t).2.isAck = false → abs (m.updateG p id u t).1 = abs m) := by
  have hl := loadVec_skel m
  unfold Mem.updateG
  split
  · exact ⟨hi, fun h => by simp [Out.isAck] at h, fun _ => rfl⟩
  · split
    · exact ⟨hi, fun h => by simp [Out.isAck] at h, fun _ => rfl⟩
    · rename_i old hold
      split
      · exact ⟨hi, fun h => by simp [Out.isAck] at h, fun _ => rfl⟩
      · split
        · exact ⟨hl.inv hi, fun h => by simp [Out.isAck] at h, fun _ => hl.abs⟩
        · have hlt : id < m.frames.length := (List.getElem?_eq_some_iff.mp hold).1
          obtain ⟨h1, h2, h3⟩ := putCoreG_sim p m.loadVec (inheritArgs old u (m.carriedEmb id u.emb)) (some id)
            (if u.payload.isNone then some id else none) t (hl.inv hi)
            (fun x hx => by cases hx; rw [hl.length]; exact hlt)
            (fun x hx => by
              rw [hl.length]
              split at hx
              · cases hx; exact hlt
              · cases hx)
          obtain ⟨old', hS, hidn⟩ := abs_ident m id old hold
          refine ⟨h1, fun h => ?_, fun h => by rw [h3 h, hl.abs]⟩
          rw [h2 h, hl.abs]
          exact putForm_update (abs m) id old old' u _ hS hidn

/-- `(abs m).length = next_frame_id()` -/
theorem abs_length_next (m : Mem) (hi : Inv m) : (abs m).length = m.nextFrameId := by
  unfold Mv.Core.abs Mem.nextFrameId
  rw [sApply_length, List.length_map, hi.pi]

/-! ## E. reference side -/

/-- the document frame an acknowledged put / update adds to the reference state `S` -/
def specDocOf (S : Spec) : Op → Option SFrame
  | .put a _ => some (specDoc a S.length none a.content)
  | .update id u _ =>
    (S[id]?).map fun old => specDoc (specInherit old u) S.length (some id) (specInherit old u).content
  | _ => none

/-- … and it sits at index `S.length` of the next reference state -/
theorem specStep_doc (S : Spec) (op : Op) (d : SFrame) (h : specDocOf S op = some d) :
    (specStep S op)[S.length]? = some d := by
  cases op with
  | put a t =>
    simp only [specDocOf, Option.some.injEq] at h
    subst h
    simp [specStep, specPut]
  | update id u t =>
    simp only [specDocOf] at h
    cases hS : S[id]? with
    | none => rw [hS] at h; simp at h
    | some old =>
      rw [hS] at h
      simp only [Option.map_some, Option.some.injEq] at h
      subst h
      simp only [specStep, specUpdate, hS]
      rw [List.getElem?_append_right (by simp)]
      simp
  | _ => simp [specDocOf] at h

theorem specDoc_id (a : PutArgs) (id : Nat) (sup : Option Nat) (c : String) :
    (specDoc a id sup c).id = id ∧ (specDoc a id sup c).chunkIndex = none := ⟨rfl, rfl⟩

theorem specStep_length_le (S : Spec) (op : Op) (hop : op ≠ .create) : S.length ≤ (specStep S op).length := by
  cases op with
  | create => exact absurd rfl hop
  | put a t => simp [specStep, specPut]
  | update id u t =>
    simp only [specStep, specUpdate]
    split <;> simp
  | delete id t => simp [specStep, specDelete]
  | _ => simp [specStep]

/-- an operation other than `create` never changes the identity of an existing id -/
theorem specStep_ident (S : Spec) (op : Op) (hop : op ≠ .create) (i : Nat) (hi : i < S.length) :
    ((specStep S op)[i]?).map SFrame.ident = (S[i]?).map SFrame.ident := by
  cases op with
  | create => exact absurd rfl hop
  | put a t => simp [specStep, specPut, List.getElem?_append_left hi]
  | update id u t =>
    simp only [specStep, specUpdate]
    split
    · rfl
    · have : i < (S.modify id (SFrame.markSup S.length)).length := by simpa using hi
      rw [List.getElem?_append_left this]
      exact getElem?_modify_ident S id i _ (markSup_ident _)
  | delete id t => exact getElem?_modify_ident S id i _ markDel_ident
  | _ => rfl

/-- no `create` among the operations of a trace -/
def NoCreate (tr : List (Op × Out)) : Prop := ∀ x ∈ tr, x.1 ≠ Op.create

theorem specRun_ident (S : Spec) (tr : List (Op × Out)) (hn : NoCreate tr) (i : Nat) (hi : i < S.length) :
    ((specRun S tr)[i]?).map SFrame.ident = (S[i]?).map SFrame.ident := by
  induction tr generalizing S with
  | nil => rfl
  | cons x rest ih =>
    obtain ⟨op, out⟩ := x
    have hop : op ≠ Op.create := hn (op, out) (by simp)
    have hrest : NoCreate rest := fun y hy => hn y (by simp [hy])
    simp only [specRun]
    split
    · rw [ih _ hrest (Nat.lt_of_lt_of_le hi (specStep_length_le S op hop)), specStep_ident S op hop i hi]
    · exact ih S hrest hi

theorem specRun_append (S : Spec) (a b : List (Op × Out)) : specRun S (a ++ b) = specRun (specRun S a) b := by
  induction a generalizing S with
  | nil => rfl
  | cons x rest ih => obtain ⟨op, out⟩ := x; simp only [List.cons_append, specRun, ih]

theorem traceG_append (p : IdPolicy) (m : Mem) (a b : List Op) :
    traceG p m (a ++ b) = traceG p m a ++ traceG p (runG p m a) b := by
  induction a generalizing m with
  | nil => rfl
  | cons op ops ih => simp only [List.cons_append, traceG, runG, ih]

theorem runG_append (p : IdPolicy) (m : Mem) (a b : List Op) : runG p m (a ++ b) = runG p (runG p m a) b := by
  induction a generalizing m with
  | nil => rfl
  | cons op ops ih => simp only [List.cons_append, runG, ih]

theorem traceG_noCreate (p : IdPolicy) (m : Mem) (ops : List Op) (h : ∀ op ∈ ops, op ≠ Op.create) :
    NoCreate (traceG p m ops) := by
  induction ops generalizing m with
  | nil => intro x hx; cases hx
  | cons op ops ih =>
    intro x hx
    simp only [traceG, List.mem_cons] at hx
    rcases hx with rfl | hx
    · exact h op (by simp)
    · exact ih _ (fun o ho => h o (by simp [ho])) x hx

/-! ## F. every operation, whole histories (for every id policy) -/

theorem stepG_sim (p : IdPolicy) (m : Mem) (op : Op) (hi : Inv m) :
    Inv (stepG p m op).1 ∧
    abs (stepG p m op).1 = (if (stepG p m op).2.isAck then specStep (abs m) op else abs m) := by
  cases op with
  | put a t =>
    obtain ⟨h1, h2, h3⟩ := putG_sim p m a t hi
    refine ⟨h1, ?_⟩
    show abs (m.putG p a t).1 = if (m.putG p a t).2.isAck then specPut (abs m) a else abs m
    cases hk : (m.putG p a t).2.isAck
    · simpa using h3 hk
    · simpa using h2 hk
  | update id u t =>
    obtain ⟨h1, h2, h3⟩ := updateG_sim p m id u t hi
    refine ⟨h1, ?_⟩
    show abs (m.updateG p id u t).1 = if (m.updateG p id u t).2.isAck then specUpdate (abs m) id u else abs m
    cases hk : (m.updateG p id u t).2.isAck
    · simpa using h3 hk
    · simpa using h2 hk
  | create => exact ⟨inv_step m .create hi, core_sim m .create hi⟩
  | delete id t => exact ⟨inv_step m (.delete id t) hi, core_sim m (.delete id t) hi⟩
  | commit ft => exact ⟨inv_step m (.commit ft) hi, core_sim m (.commit ft) hi⟩
  | reopen a b => exact ⟨inv_step m (.reopen a b) hi, core_sim m (.reopen a b) hi⟩
  | crash ft => exact ⟨inv_step m (.crash ft) hi, core_sim m (.crash ft) hi⟩
  | beginBatch d ws => exact ⟨inv_step m (.beginBatch d ws) hi, core_sim m (.beginBatch d ws) hi⟩
  | endBatch => exact ⟨inv_step m .endBatch hi, core_sim m .endBatch hi⟩
  | commitSkipIndexes => exact ⟨inv_step m .commitSkipIndexes hi, core_sim m .commitSkipIndexes hi⟩
  | finalizeIndexes ft => exact ⟨inv_step m (.finalizeIndexes ft) hi, core_sim m (.finalizeIndexes ft) hi⟩
  | vacuum a b => exact ⟨inv_step m (.vacuum a b) hi, core_sim m (.vacuum a b) hi⟩
  | doctor v rt rl rv a b c d =>
    exact ⟨inv_step m (.doctor v rt rl rv a b c d) hi, core_sim m (.doctor v rt rl rv a b c d) hi⟩
  | ticket s c b f => exact ⟨inv_step m (.ticket s c b f) hi, core_sim m (.ticket s c b f) hi⟩

theorem inv_create : Inv Mem.create := ⟨fun r hr => (by cases hr), rfl⟩

/-- whole histories under any id policy: the abstract state is the reference run of the acknowledged operations -/
theorem runG_refines (p : IdPolicy) (m : Mem) (ops : List Op) (hi : Inv m) :
    Inv (runG p m ops) ∧ abs (runG p m ops) = specRun (abs m) (traceG p m ops) := by
  induction ops generalizing m with
  | nil => exact ⟨hi, rfl⟩
  | cons op ops ih =>
    obtain ⟨h1, h2⟩ := stepG_sim p m op hi
    obtain ⟨h3, h4⟩ := ih (stepG p m op).1 h1
    refine ⟨h3, ?_⟩
    show abs (runG p (stepG p m op).1 ops) = specRun (if (stepG p m op).2.isAck then specStep (abs m) op else abs m) (traceG p (stepG p m op).1 ops)
    rw [h4, h2]

theorem abs_create : abs Mem.create = [] := rfl

end Mv.Core
