/-
  Model of `/repo/src/io/header.rs`: `HeaderCodec::encode` / `HeaderCodec::decode` over the
  fixed 4 KiB header.  Every offset, magic and version number comes from the source through
  tools/gen/C30.py (MvModel/Gen/C30.lean), so a changed layout re-checks the theorems.
-/
import MvModel.Bytes
import MvModel.Gen.C30
namespace Mv.Header

def MAGIC : Bytes := Mv.Gen.C30.MAGIC
def HEADER_SIZE : Nat := Mv.Gen.C30.HEADER_SIZE
def SPEC_MAJOR : Nat := Mv.Gen.C30.SPEC_MAJOR
def SPEC_MINOR : Nat := Mv.Gen.C30.SPEC_MINOR
def EXPECTED_VERSION : Nat := Mv.Gen.C30.EXPECTED_VERSION
def WAL_OFFSET : Nat := Mv.Gen.C30.WAL_OFFSET
def VERSION_OFFSET : Nat := Mv.Gen.C30.VERSION_OFFSET
def SPEC_BYTES_OFFSET : Nat := Mv.Gen.C30.SPEC_BYTES_OFFSET
def FOOTER_OFFSET_POS : Nat := Mv.Gen.C30.FOOTER_OFFSET_POS
def WAL_OFFSET_POS : Nat := Mv.Gen.C30.WAL_OFFSET_POS
def WAL_SIZE_POS : Nat := Mv.Gen.C30.WAL_SIZE_POS
def WAL_CHECKPOINT_POS : Nat := Mv.Gen.C30.WAL_CHECKPOINT_POS
def WAL_SEQUENCE_POS : Nat := Mv.Gen.C30.WAL_SEQUENCE_POS
def TOC_CHECKSUM_POS : Nat := Mv.Gen.C30.TOC_CHECKSUM_POS
def TOC_CHECKSUM_END : Nat := Mv.Gen.C30.TOC_CHECKSUM_END

/-- The layout facts the proofs rely on: the fields written by `encode` tile `[0, 80)` without
    gap or overlap, in this order.  Fails to elaborate when the source constants change. -/
theorem layout_ok :
    MAGIC.length = 4 ∧ VERSION_OFFSET = 4 ∧ SPEC_BYTES_OFFSET = VERSION_OFFSET + 2 ∧
    FOOTER_OFFSET_POS = SPEC_BYTES_OFFSET + 2 ∧ WAL_OFFSET_POS = FOOTER_OFFSET_POS + 8 ∧
    WAL_SIZE_POS = WAL_OFFSET_POS + 8 ∧ WAL_CHECKPOINT_POS = WAL_SIZE_POS + 8 ∧
    WAL_SEQUENCE_POS = WAL_CHECKPOINT_POS + 8 ∧ TOC_CHECKSUM_POS = WAL_SEQUENCE_POS + 8 ∧
    TOC_CHECKSUM_END = TOC_CHECKSUM_POS + 32 ∧ TOC_CHECKSUM_END ≤ HEADER_SIZE ∧
    EXPECTED_VERSION = SPEC_MAJOR * 256 + SPEC_MINOR ∧ SPEC_MAJOR < 256 ∧ SPEC_MINOR < 256 := by decide

theorem HEADER_SIZE_eq : HEADER_SIZE = 4096 := by decide
theorem VERSION_OFFSET_eq : VERSION_OFFSET = 4 := by decide
theorem SPEC_BYTES_OFFSET_eq : SPEC_BYTES_OFFSET = 6 := by decide
theorem FOOTER_OFFSET_POS_eq : FOOTER_OFFSET_POS = 8 := by decide
theorem WAL_OFFSET_POS_eq : WAL_OFFSET_POS = 16 := by decide
theorem WAL_SIZE_POS_eq : WAL_SIZE_POS = 24 := by decide
theorem WAL_CHECKPOINT_POS_eq : WAL_CHECKPOINT_POS = 32 := by decide
theorem WAL_SEQUENCE_POS_eq : WAL_SEQUENCE_POS = 40 := by decide
theorem TOC_CHECKSUM_POS_eq : TOC_CHECKSUM_POS = 48 := by decide
theorem TOC_CHECKSUM_END_eq : TOC_CHECKSUM_END = 80 := by decide
theorem MAGIC_length : MAGIC.length = 4 := by decide

/-- `types::Header` (`magic: [u8;4]`, `version: u16`, five `u64`, `toc_checksum: [u8;32]`) -/
structure Header where
  magic : Bytes
  version : Nat
  footerOffset : Nat
  walOffset : Nat
  walSize : Nat
  walCheckpointPos : Nat
  walSequence : Nat
  tocChecksum : Bytes
deriving Repr, DecidableEq

/-- `MemvidError::InvalidHeader { reason }`, one constructor per reason string -/
inductive Err where
  | magic        -- "magic mismatch"
  | version      -- "unsupported version"
  | spec         -- "spec byte mismatch"
  | walOffset    -- "wal_offset precedes data region"
  | walSize      -- "wal_size must be non-zero"
  | truncated    -- "header truncated"
deriving Repr, DecidableEq

def Err.name : Err → String
  | .magic => "magic" | .version => "version" | .spec => "spec"
  | .walOffset => "wal_offset" | .walSize => "wal_size" | .truncated => "truncated"

/-- `HeaderCodec::encode` -/
def encode (h : Header) : Except Err Bytes :=
  if h.magic ≠ MAGIC then .error .magic
  else if h.version ≠ EXPECTED_VERSION then .error .version
  else if h.walOffset < WAL_OFFSET then .error .walOffset
  else if h.walSize = 0 then .error .walSize
  else
    let buf := zeros HEADER_SIZE
    let buf := writeAt buf 0 h.magic
    let buf := writeAt buf VERSION_OFFSET (u16le h.version)
    let buf := writeAt buf SPEC_BYTES_OFFSET [UInt8.ofNat SPEC_MAJOR]
    let buf := writeAt buf (SPEC_BYTES_OFFSET + 1) [UInt8.ofNat SPEC_MINOR]
    let buf := writeAt buf FOOTER_OFFSET_POS (u64le h.footerOffset)
    let buf := writeAt buf WAL_OFFSET_POS (u64le h.walOffset)
    let buf := writeAt buf WAL_SIZE_POS (u64le h.walSize)
    let buf := writeAt buf WAL_CHECKPOINT_POS (u64le h.walCheckpointPos)
    let buf := writeAt buf WAL_SEQUENCE_POS (u64le h.walSequence)
    let buf := writeAt buf TOC_CHECKSUM_POS h.tocChecksum
    .ok buf

/-- `extract_array::<N>(bytes, offset)` -/
def extractArray (b : Bytes) (off n : Nat) : Except Err Bytes :=
  if off + n ≤ b.length then .ok (slice b off n) else .error .truncated

/-- `HeaderCodec::decode`.  The Rust parameter is `&[u8; HEADER_SIZE]`; the first test stands
    for that type constraint. -/
def decode (b : Bytes) : Except Err Header :=
  if b.length ≠ HEADER_SIZE then .error .truncated else do
  let magic ← extractArray b 0 4
  if magic ≠ MAGIC then .error .magic else do
  let version := leVal (← extractArray b VERSION_OFFSET 2)
  if version ≠ EXPECTED_VERSION then .error .version else do
  if b[SPEC_BYTES_OFFSET]? ≠ some (UInt8.ofNat SPEC_MAJOR) ∨ b[SPEC_BYTES_OFFSET + 1]? ≠ some (UInt8.ofNat SPEC_MINOR) then
    .error .spec else do
  let footerOffset := leVal (← extractArray b FOOTER_OFFSET_POS 8)
  let walOffset := leVal (← extractArray b WAL_OFFSET_POS 8)
  if walOffset < WAL_OFFSET then .error .walOffset else do
  let walSize := leVal (← extractArray b WAL_SIZE_POS 8)
  if walSize = 0 then .error .walSize else do
  let walCheckpointPos := leVal (← extractArray b WAL_CHECKPOINT_POS 8)
  let walSequence := leVal (← extractArray b WAL_SEQUENCE_POS 8)
  let tocChecksum ← extractArray b TOC_CHECKSUM_POS 32
  .ok { magic, version, footerOffset, walOffset, walSize, walCheckpointPos, walSequence, tocChecksum }

/-- what the Rust field types guarantee -/
def WellFormed (h : Header) : Prop :=
  h.magic.length = 4 ∧ h.version < 2^16 ∧ h.footerOffset < 2^64 ∧ h.walOffset < 2^64 ∧ h.walSize < 2^64 ∧
  h.walCheckpointPos < 2^64 ∧ h.walSequence < 2^64 ∧ h.tocChecksum.length = 32

/-- the four value checks of `encode` (and of `decode`) -/
def Accepted (h : Header) : Prop :=
  h.magic = MAGIC ∧ h.version = EXPECTED_VERSION ∧ WAL_OFFSET ≤ h.walOffset ∧ 0 < h.walSize

instance (h : Header) : Decidable (WellFormed h) := by unfold WellFormed; infer_instance
instance (h : Header) : Decidable (Accepted h) := by unfold Accepted; infer_instance

/-- the 80 meaningful bytes, in file order -/
def fieldBytes (h : Header) : Bytes :=
  h.magic ++ u16le h.version ++ [UInt8.ofNat SPEC_MAJOR, UInt8.ofNat SPEC_MINOR] ++ u64le h.footerOffset ++
  u64le h.walOffset ++ u64le h.walSize ++ u64le h.walCheckpointPos ++ u64le h.walSequence ++ h.tocChecksum

end Mv.Header
