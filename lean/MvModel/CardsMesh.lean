/-
  Model of the logic mesh as far as C27 needs it (src/types/logic_mesh.rs: merge_node, merge_edge,
  is_empty, and what serialize→deserialize does: nodes sorted by id, edges by (from, to, link name),
  both with the stable `sort_by`).  Node ids are `DefaultHasher` values in Rust; here they are data.
-/
import MvModel.Cards
namespace Mv.Cards

structure MNode where
  id : Nat
  name : Bytes        -- canonical_name
  display : Bytes
  kind : Nat          -- EntityKind discriminant
  conf : Nat
  frames : List Nat
  mentions : List (Nat × Nat × Nat)
  deriving DecidableEq, Repr

structure MEdge where
  src : Nat
  dst : Nat
  tag : Nat           -- LinkType variant index (11 = Custom)
  link : Bytes        -- LinkType::as_str
  conf : Nat
  frame : Nat
  deriving DecidableEq, Repr

structure Mesh where
  nodes : List MNode
  edges : List MEdge
  deriving DecidableEq, Repr

def Mesh.new : Mesh := { nodes := [], edges := [] }

/-- `LogicMesh::is_empty` -/
def Mesh.isEmpty (m : Mesh) : Bool := m.nodes.isEmpty && m.edges.isEmpty

/-- `for fid in node.frame_ids { if !existing.frame_ids.contains(&fid) { push } }` -/
def mergeFrames : List Nat → List Nat → List Nat
  | acc, [] => acc
  | acc, f :: fs => if acc.contains f then mergeFrames acc fs else mergeFrames (acc ++ [f]) fs

def mergeInto (n : MNode) : List MNode → Option (List MNode)
  | [] => none
  | x :: xs =>
    if x.name = n.name ∧ x.kind = n.kind then
      some ({ x with frames := mergeFrames x.frames n.frames, mentions := x.mentions ++ n.mentions,
                     conf := max x.conf n.conf } :: xs)
    else (mergeInto n xs).map (x :: ·)

/-- `LogicMesh::merge_node` -/
def Mesh.mergeNode (m : Mesh) (n : MNode) : Mesh :=
  match mergeInto n m.nodes with
  | some ns => { m with nodes := ns }
  | none => { m with nodes := m.nodes ++ [n] }

/-- `LogicMesh::merge_edge` -/
def Mesh.mergeEdge (m : Mesh) (e : MEdge) : Mesh :=
  if m.edges.any (fun x => decide (x.src = e.src ∧ x.dst = e.dst ∧ x.link = e.link)) then m
  else { m with edges := m.edges ++ [e] }

/-- bytewise lexicographic `<` (str::cmp) -/
def bytesLt : Bytes → Bytes → Bool
  | [], [] => false
  | [], _ :: _ => true
  | _ :: _, [] => false
  | a :: as, b :: bs => if a < b then true else if b < a then false else bytesLt as bs

def edgeLt (a b : MEdge) : Bool :=
  if a.src < b.src then true else if b.src < a.src then false
  else if a.dst < b.dst then true else if b.dst < a.dst then false
  else bytesLt a.link b.link

/-- effect of `serialize` (sorts a clone) followed by `deserialize` -/
def Mesh.canon (m : Mesh) : Mesh :=
  { nodes := sortBy (fun a b => decide (a.id < b.id)) m.nodes, edges := sortBy edgeLt m.edges }

end Mv.Cards
