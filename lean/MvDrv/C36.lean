/- Driver for C36 (PII masking).  Text travels as comma-separated decimal code points ("-" = empty).
   requests:  all <cps>   → c=<0|1> m=<cps> mc=<0|1> mf=<7 flags> mm=<cps> safe=<0|1>
                 c  = containsPii input          m  = maskPii input
                 mc = containsPii (maskPii input) mf = which patterns (contains order) match the masked text
                 mm = maskPii (maskPii input)
                 safe = maskSafe input (no pass creates a word boundary: hypothesis of C36_partial)
              mask <cps>      → <cps>
              contains <cps>  → 0|1
              flags <cps>     → per-pattern is_match flags in contains order
              names           → pattern names in contains order, comma separated -/
import MvModel.Pii
import MvModel.DrvUtil
open Mv Mv.Pii Mv.Regex

def T : Tables := Mv.Gen.C36.tables
def b01 (b : Bool) : String := if b then "1" else "0"
def flagStr (l : List Bool) : String := String.join (l.map b01)

def step (_ : Unit) (ws : List String) : Unit × String :=
  match ws with
  | ["all", a] => match natList a with
      | some s =>
        let m := maskPii T s
        ((), s!"c={b01 (containsPii T s)} m={showNats m} mc={b01 (containsPii T m)} mf={flagStr (matchFlags T m)} mm={showNats (maskPii T m)} safe={b01 (maskSafe T s)}")
      | none => ((), "bad-op")
  | ["mask", a] => match natList a with
      | some s => ((), showNats (maskPii T s))
      | none => ((), "bad-op")
  | ["contains", a] => match natList a with
      | some s => ((), b01 (containsPii T s))
      | none => ((), "bad-op")
  | ["flags", a] => match natList a with
      | some s => ((), flagStr (matchFlags T s))
      | none => ((), "bad-op")
  | ["names"] => ((), ",".intercalate Mv.Gen.C36.containsNames)
  | _ => ((), "bad-op")

def main : IO Unit := runDriver () step
