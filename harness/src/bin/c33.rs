//! C33 — text normalization invariants.
//! impl : memvid_core::{normalize_text, truncate_at_grapheme_boundary}
//! model: drv_c33 (`pre` / `clean` / `norm` / `trunc`); the Unicode black boxes (NFKC, grapheme
//!        segmentation) are computed HERE with the crates the implementation uses and sent on
//!        the wire; control / whitespace tables of the model are compared with std exhaustively.
//! oracle: the property restated over the implementation's outputs with unicode-normalization /
//!        unicode-segmentation / std directly (independent of the model).
use memvid_core::{normalize_text, truncate_at_grapheme_boundary};
use mvh::*;
use unicode_normalization::{UnicodeNormalization, is_nfkc};
use unicode_segmentation::UnicodeSegmentation;

const KNOWN_FIRST_WS: &str = "first-grapheme-ends-in-whitespace";

fn cps(s: &str) -> String {
    if s.is_empty() { "-".into() } else { s.chars().map(|c| (c as u32).to_string()).collect::<Vec<_>>().join(",") }
}
fn from_cps(s: &str) -> Option<String> {
    if s == "-" { return Some(String::new()); }
    s.split(',').map(|x| x.parse::<u32>().ok().and_then(char::from_u32)).collect()
}
fn lens(s: &str) -> String {
    let v: Vec<String> = s.graphemes(true).map(|g| g.chars().count().to_string()).collect();
    if v.is_empty() { "-".into() } else { v.join(",") }
}
fn show_impl(r: &Result<Option<(String, bool)>, String>) -> String {
    match r {
        Err(_) => "panic".into(),
        Ok(None) => "none".into(),
        Ok(Some((t, tr))) => format!("some {} {}", cps(t), if *tr { 1 } else { 0 }),
    }
}
fn run_impl(input: &str, limit: usize) -> Result<Option<(String, bool)>, String> {
    let i = input.to_string();
    guarded(move || normalize_text(&i, limit).map(|n| (n.text, n.truncated)))
}

/// ask the model: the filter in front of NFKC and the cleaning are the model's; NFKC and the
/// segmentation of the model's own cleaned text are computed here with the real crates
fn run_model(drv: &mut Driver, input: &str, limit: usize, op: &str) -> String {
    let pre = match op {
        "normfix" => drv.ask(&format!("prefix {}", cps(input))),
        "normorig" => cps(input),
        _ => drv.ask(&format!("pre {}", cps(input))),
    };
    let Some(pre_s) = from_cps(&pre) else { return format!("model-pre:{pre}") };
    let nf: String = pre_s.nfkc().collect();
    let cl = drv.ask(&format!("clean {}", cps(&nf)));
    let t = if cl == "none" { String::new() } else {
        match cl.strip_prefix("some ").and_then(from_cps) { Some(t) => t, None => return format!("model-clean:{cl}") }
    };
    drv.ask(&format!("{op} {limit} {} {} {}", cps(input), cps(&nf), lens(&t)))
}

fn boundaries(s: &str) -> Vec<usize> {
    let mut b: Vec<usize> = s.grapheme_indices(true).map(|(i, _)| i).collect();
    b.push(s.len());
    b.sort(); b.dedup();
    b
}

/// the property over one implementation result; returns (signature, explanation) per failed clause
fn oracle_norm(input: &str, limit: usize, res: &Result<Option<(String, bool)>, String>) -> Vec<(&'static str, String)> {
    let mut bad = vec![];
    let (out, truncated) = match res {
        Err(e) => { bad.push(("panic", e.clone())); return bad; }
        Ok(None) => return bad,
        Ok(Some(x)) => (x.0.as_str(), x.1),
    };
    let chars: Vec<char> = out.chars().collect();
    if !is_nfkc(out) || out.nfkc().collect::<String>() != out {
        bad.push(("output-not-nfkc", format!("output {:?} normalises to {:?}", out, out.nfkc().collect::<String>())));
    }
    if let Some(c) = chars.iter().find(|c| c.is_control() && **c != '\n') {
        bad.push(("control-char-in-output", format!("U+{:04X} in {:?}", *c as u32, out)));
    }
    if chars.is_empty() {
        bad.push(("empty-output", "Some(\"\")".into()));
    }
    if chars.first().is_some_and(|c| c.is_whitespace()) {
        bad.push(("leading-whitespace", format!("{out:?}")));
    }
    if chars.last().is_some_and(|c| c.is_whitespace()) {
        bad.push(("trailing-whitespace", format!("{out:?} (truncated={truncated})")));
    }
    if chars.windows(2).any(|w| w[0] == ' ' && w[1] == ' ') {
        bad.push(("run-of-spaces", format!("{out:?}")));
    }
    if out.split('\n').any(|line| line.chars().all(|c| c.is_whitespace())) && !chars.is_empty() {
        bad.push(("blank-line", format!("{out:?}")));
    }
    let n_gr = out.graphemes(true).count();
    if out.len() > limit && n_gr != 1 {
        bad.push(("over-limit", format!("{} bytes > limit {limit} with {n_gr} graphemes", out.len())));
    }
    // reference for the grapheme-boundary clause: the untruncated normalisation
    match run_impl(input, usize::MAX) {
        Ok(Some((full, ftr))) => {
            if ftr { bad.push(("truncated-with-unbounded-limit", format!("{full:?}"))); }
            if !full.starts_with(out) || !boundaries(&full).contains(&out.len()) {
                bad.push(("not-a-grapheme-boundary", format!("output {:?} is not a whole-grapheme prefix of the untruncated text {:?}", out, full)));
            }
            if !truncated && out != full {
                bad.push(("untruncated-but-shortened", format!("{out:?} vs {full:?}")));
            }
            if truncated && full.len() <= limit.max(1) {
                bad.push(("truncated-although-it-fits", format!("{full:?} limit {limit}")));
            }
        }
        other => bad.push(("unbounded-limit-gives-none", format!("{other:?}"))),
    }
    if !truncated {
        let again = run_impl(out, limit);
        if again != Ok(Some((out.to_string(), false))) {
            bad.push(("not-idempotent", format!("normalize({:?}) = {}", out, show_impl(&again))));
        }
    }
    bad
}

fn oracle_trunc(s: &str, limit: usize, idx: usize) -> Vec<(&'static str, String)> {
    let mut bad = vec![];
    if !boundaries(s).contains(&idx) {
        bad.push(("truncate-not-a-boundary", format!("{idx} in {s:?}")));
    }
    let first = s.graphemes(true).next().map_or(0, str::len);
    if idx > limit && !(idx == first && first > limit) {
        bad.push(("truncate-over-limit", format!("{idx} > {limit}, first grapheme {first} bytes")));
    }
    bad
}

// ------------------------------------------------------------------------------------------ generator
const LETTERS: &[&str] = &["a", "e", "o", "u", "A", "c", "n", "z", "Q", "0", "7", ".", ",", "-", "(", "!"];
const SPACES: &[&str] = &[" ", " ", " ", "\t", "\n", "\n", "\r", "\r\n", "\u{A0}", "\u{2003}", "\u{3000}", "\u{1680}",
    "\u{2028}", "\u{2029}", "\u{85}", "\u{B}", "\u{C}", "\u{202F}", "\u{205F}", "\u{2009}", "\u{200B}", "\u{FEFF}"];
const CONTROLS: &[&str] = &["\u{0}", "\u{1}", "\u{7}", "\u{8}", "\u{1B}", "\u{1F}", "\u{7F}", "\u{80}", "\u{9F}", "\u{85}"];
const MARKS: &[&str] = &["\u{301}", "\u{300}", "\u{308}", "\u{323}", "\u{327}", "\u{334}", "\u{345}", "\u{30A}", "\u{93C}",
    "\u{3099}", "\u{309A}", "\u{5B0}", "\u{64B}", "\u{E31}", "\u{1AB0}", "\u{20D7}", "\u{FE0F}", "\u{FE0E}", "\u{200D}", "\u{200C}"];
const PRECOMPOSED: &[&str] = &["\u{E9}", "\u{F1}", "\u{C5}", "\u{212B}", "\u{1E9B}", "\u{1E0B}", "\u{1ED9}", "\u{3094}", "\u{AC00}", "\u{D4DB}", "\u{958}", "\u{2126}"];
const COMPAT: &[&str] = &["\u{FB01}", "\u{FB03}", "\u{FF46}", "\u{FF21}", "\u{FF10}", "\u{2460}", "\u{B2}", "\u{3300}", "\u{FDFA}",
    "\u{FDFB}", "\u{A8}", "\u{B4}", "\u{AF}", "\u{2DA}", "\u{37A}", "\u{2026}", "\u{FE70}", "\u{BD}", "\u{1D400}", "\u{2122}", "\u{3392}",
    "\u{FF9E}", "\u{FF76}", "\u{309B}", "\u{2017}", "\u{203E}", "\u{FFE3}", "\u{132}", "\u{1C4}", "\u{2002}", "\u{2474}", "\u{33A7}"];
const JAMO: &[&str] = &["\u{1100}", "\u{1105}", "\u{1112}", "\u{1161}", "\u{1169}", "\u{1175}", "\u{11A8}", "\u{11AB}", "\u{11C2}", "\u{AC00}", "\u{AC01}"];
const EMOJI: &[&str] = &["\u{1F468}", "\u{1F469}", "\u{1F467}", "\u{2764}", "\u{1F3FB}", "\u{1F3FF}", "\u{1F1EE}", "\u{1F1F3}", "\u{1F1FA}",
    "\u{1F1F8}", "\u{20E3}", "\u{1F600}", "\u{1F3F3}", "\u{1F308}", "\u{E0067}", "\u{E007F}", "\u{1F9D1}", "\u{1F91D}"];
const PREPEND: &[&str] = &["\u{600}", "\u{6DD}", "\u{110BD}", "\u{D4E}", "\u{70F}", "\u{8E2}"];
const OTHER: &[&str] = &["\u{915}", "\u{94D}", "\u{937}", "\u{E01}", "\u{E33}", "\u{627}", "\u{4E2D}", "\u{10FFFF}", "\u{E000}", "\u{FFFD}",
    "\u{DF}", "\u{130}", "\u{1F}", "\u{9C7}", "\u{9BE}", "\u{B47}", "\u{B56}", "\u{1B05}", "\u{1B35}", "\u{11099}", "\u{110BA}", "\u{FB2C}", "\u{F900}"];

fn pk(rng: &mut Rng, xs: &[&'static str]) -> &'static str { *rng.pick(xs) }

fn rand_scalar(rng: &mut Rng) -> char {
    loop {
        let v = match rng.below(6) {
            0 => rng.below(0x80),
            1 => rng.below(0x800),
            2 => rng.below(0x3100),
            3 => rng.below(0x10000),
            4 => 0x10000 + rng.below(0x20000),
            _ => rng.below(0x110000),
        } as u32;
        if let Some(c) = char::from_u32(v) { return c; }
    }
}

fn gen_input(rng: &mut Rng, thorough: bool) -> String {
    let style = rng.below(10);
    let n = match rng.below(8) { 0 => rng.usize(0, 3), 1 | 2 | 3 => rng.usize(1, 8), 7 if thorough => rng.usize(10, 120), _ => rng.usize(4, 30) };
    let mut s = String::new();
    for _ in 0..n {
        let k = if style == 0 { rng.below(4) } else if style == 1 { 4 + rng.below(4) } else if style == 2 { 20 } else { rng.below(20) };
        match k {
            0 | 1 => s.push_str(pk(rng, LETTERS)),
            2 | 3 => { for _ in 0..rng.usize(1, 3) { s.push_str(pk(rng, SPACES)); } }
            4 => { s.push_str(pk(rng, LETTERS)); s.push_str(pk(rng, CONTROLS)); s.push_str(pk(rng, MARKS)); }
            5 => { s.push_str(pk(rng, LETTERS)); for _ in 0..rng.usize(1, 3) { s.push_str(pk(rng, MARKS)); if rng.chance(1, 3) { s.push_str(pk(rng, CONTROLS)); } } }
            6 => { s.push_str(pk(rng, JAMO)); if rng.chance(1, 2) { s.push_str(pk(rng, CONTROLS)); } s.push_str(pk(rng, JAMO)); }
            7 => s.push_str(pk(rng, CONTROLS)),
            8 => s.push_str(pk(rng, PRECOMPOSED)),
            9 | 10 => s.push_str(pk(rng, COMPAT)),
            11 => { s.push_str(pk(rng, EMOJI)); for _ in 0..rng.usize(0, 3) { if rng.chance(2, 3) { s.push('\u{200D}'); } s.push_str(pk(rng, EMOJI)); } if rng.chance(1, 3) { s.push('\u{FE0F}'); } }
            12 => { s.push_str(pk(rng, PREPEND)); if rng.chance(2, 3) { s.push_str(pk(rng, SPACES)); } }
            13 => s.push_str(pk(rng, OTHER)),
            14 => s.push_str(pk(rng, MARKS)),
            15 => { s.push_str(pk(rng, SPACES)); s.push_str(pk(rng, MARKS)); }
            16 => { s.push_str(pk(rng, LETTERS)); s.push_str(pk(rng, SPACES)); s.push_str(pk(rng, LETTERS)); }
            17 => { for _ in 0..rng.usize(1, 4) { s.push_str(pk(rng, &["\n", "\r", "\r\n", " ", "\t", "\u{1}"])); } }
            18 => s.push_str(pk(rng, JAMO)),
            _ => s.push(rand_scalar(rng)),
        }
    }
    s
}

fn gen_limit(rng: &mut Rng, input: &str) -> usize {
    let full = normalize_text(input, usize::MAX).map(|n| n.text).unwrap_or_default();
    let b = boundaries(&full);
    match rng.below(12) {
        0 => 0,
        1 => 1,
        2 => usize::MAX,
        3 => full.len(),
        4 => full.len().saturating_sub(1),
        5 => full.len() + 1,
        6 | 7 | 8 => { let x = *rng.pick(&b); match rng.below(3) { 0 => x, 1 => x.saturating_sub(1), _ => x + 1 } }
        9 => rng.usize(0, 6),
        _ => rng.usize(0, full.len() + 2),
    }
}

// ------------------------------------------------------------------------------------------ one case
struct Ctx { known: Vec<String>, shrink: bool }

fn case_json(input: &str, limit: usize) -> Value {
    json!({"kind": "norm", "input": input.chars().map(|c| c as u32).collect::<Vec<_>>(), "limit": limit.to_string(),
           "input_escaped": input.escape_unicode().to_string()})
}

fn shrink_input(input: &str, limit: usize, sig: &str) -> String {
    let chars: Vec<char> = input.chars().collect();
    let mut fails = |cs: &[char]| {
        let s: String = cs.iter().collect();
        oracle_norm(&s, limit, &run_impl(&s, limit)).iter().any(|(g, _)| *g == sig)
    };
    shrink_list(&chars, &mut fails).into_iter().collect()
}

fn run_norm_case(input: &str, limit: usize, drv: &mut Option<Driver>, sum: &mut Summary, ctx: &Ctx) {
    let imp = run_impl(input, limit);
    let imp_s = show_impl(&imp);
    let model = drv.as_mut().map(|d| run_model(d, input, limit, "norm"));
    let bad = oracle_norm(input, limit, &imp);
    // branches
    match &imp {
        Ok(None) => sum.branch("none"),
        Ok(Some((out, tr))) => {
            sum.branch(if *tr { "truncated" } else { "untruncated" });
            if *tr && out.len() > limit.max(1) { sum.branch("first-grapheme-exceeds-limit"); }
            if out.graphemes(true).any(|g| g.chars().count() > 1) { sum.branch("multi-char-grapheme-in-output"); }
            if out.contains('\n') { sum.branch("newline-in-output"); }
            let filtered: String = input.chars().filter(|c| !c.is_control() || matches!(c, '\n' | '\r' | '\t')).collect();
            if input.nfkc().collect::<String>() != input { sum.branch("nfkc-changes-input"); }
            if filtered.nfkc().filter(|c| !c.is_control()).collect::<String>() != input.nfkc().filter(|c| !c.is_control()).collect::<String>() {
                sum.branch("control-between-composable-pair");
            }
            if *tr {
                // would the plain cut (largest boundary within the limit) end in whitespace?
                let full = normalize_text(input, usize::MAX).map(|n| n.text).unwrap_or_default();
                let raw = boundaries(&full).into_iter().filter(|b| *b <= limit.max(1)).max().unwrap_or(0);
                if full[..raw].ends_with(char::is_whitespace) { sum.branch("cut-next-to-whitespace"); }
            }
        }
        Err(_) => sum.branch("panic"),
    }
    let nontrivial = matches!(&imp, Ok(Some(_)));
    sum.case(&format!("{}|{limit}|{imp_s}", cps(input)), nontrivial, || json!({"input": input.escape_unicode().to_string(), "limit": limit.to_string(), "impl": imp_s}));
    let agree = model.as_ref().is_none_or(|m| *m == imp_s);
    for (sig, what) in &bad {
        let single_ws_cluster = matches!(&imp, Ok(Some((out, true))) if out.graphemes(true).count() == 1 && out.chars().count() > 1);
        if *sig == "trailing-whitespace" && single_ws_cluster && agree && model.is_some() && ctx.known.iter().any(|k| k == KNOWN_FIRST_WS) {
            sum.known_finding(KNOWN_FIRST_WS, what, case_json(input, limit));
            continue;
        }
        let small = if ctx.shrink { shrink_input(input, limit, sig) } else { input.to_string() };
        let small_res = run_impl(&small, limit);
        let what2 = format!("{what}; minimal input {} limit {limit} -> {}", small.escape_unicode(), show_impl(&small_res));
        sum.oracle_violation(sig, &what2, case_json(&small, limit));
    }
    if let Some(m) = model {
        if m != imp_s {
            sum.disagreement("normalize_text vs model normalizeSrc", case_json(input, limit), &m, &imp_s);
        }
    }
}

fn run_trunc_case(s: &str, limit: usize, drv: &mut Option<Driver>, sum: &mut Summary) {
    let s2 = s.to_string();
    let imp = guarded(move || truncate_at_grapheme_boundary(&s2, limit));
    let imp_s = match &imp { Ok(i) => i.to_string(), Err(e) => format!("panic {e}") };
    let case = json!({"kind": "trunc", "input": s.chars().map(|c| c as u32).collect::<Vec<_>>(), "limit": limit.to_string(),
                      "input_escaped": s.escape_unicode().to_string()});
    match &imp {
        Ok(i) => {
            sum.branch(if s.len() <= limit { "trunc-fits" } else if *i > limit { "trunc-first-grapheme-exceeds" } else { "trunc-cut" });
            for (sig, what) in oracle_trunc(s, limit, *i) { sum.oracle_violation(sig, &what, case.clone()); }
        }
        Err(e) => sum.oracle_violation("panic", e, case.clone()),
    }
    sum.case(&format!("T{}|{limit}|{imp_s}", cps(s)), s.len() > limit, || json!({"trunc_input": s.escape_unicode().to_string(), "limit": limit.to_string(), "impl": imp_s}));
    if let Some(d) = drv.as_mut() {
        let m = d.ask(&format!("trunc {limit} {} {}", cps(s), lens(s)));
        if m != imp_s { sum.disagreement("truncate_at_grapheme_boundary vs model truncIdx", case, &m, &imp_s); }
    }
}

/// the laws the theorems assume of the black boxes, sampled on the real crates
fn check_laws(s: &str, other: &str, rng: &mut Rng, sum: &mut Summary) {
    let cp = |x: &str| x.chars().map(|c| c as u32).collect::<Vec<_>>();
    let (sc, oc) = (cp(s), cp(other));
    let law = |sum: &mut Summary, name: &str, detail: String| {
        sum.disagreement(&format!("black-box law violated on the real crate: {name}"),
            json!({"kind": "law", "s": sc, "other": oc, "detail": detail}), "law holds", "law fails");
    };
    let n: String = s.nfkc().collect();
    if !is_nfkc(&n) || n.nfkc().collect::<String>() != n { law(sum, "nfkc_idem", format!("{:?}", s)); }
    let idx: Vec<usize> = n.char_indices().map(|(i, _)| i).chain(std::iter::once(n.len())).collect();
    let cut = *rng.pick(&idx);
    let cut2 = *rng.pick(&idx);
    let (lo, hi) = (cut.min(cut2), cut.max(cut2));
    if !is_nfkc(&n[..cut]) || !is_nfkc(&n[cut..]) || !is_nfkc(&n[lo..hi]) { law(sum, "nfkc_sub", format!("{:?} cut {cut}/{lo}..{hi}", n)); }
    let m: String = other.nfkc().collect();
    for sep in [" ", "\n"] {
        let j = format!("{}{sep}{}", &n[..cut], m);
        if !is_nfkc(&j) || j.nfkc().collect::<String>() != j { law(sum, "nfkc_join", format!("{:?}", j)); }
    }
    let f: String = s.chars().filter(|c| !c.is_control() || matches!(c, '\n' | '\r' | '\t')).collect();
    if f.nfkc().any(|c| c.is_control() && !matches!(c, '\n' | '\r' | '\t')) { law(sum, "nfkc_ctl", format!("{:?}", f)); }
    let gs: Vec<&str> = n.graphemes(true).collect();
    if gs.concat() != n || gs.iter().any(|g| g.is_empty()) { law(sum, "seg_flat/seg_ne", format!("{:?}", n)); }
    sum.branch("laws-sampled");
}

/// exhaustive over all scalar values: model tables = std tables; NFKC of a non-control char has no control char
fn check_tables(drv: &mut Option<Driver>, sum: &mut Summary) {
    let mut ctl = vec![]; let mut ws = vec![]; let mut bad_nfkc = vec![];
    for c in (0..=0x10FFFFu32).filter_map(char::from_u32) {
        if c.is_control() { ctl.push((c as u32).to_string()); }
        if c.is_whitespace() { ws.push((c as u32).to_string()); }
        if !c.is_control() && std::iter::once(c).nfkc().any(|d| d.is_control()) { bad_nfkc.push(c as u32); }
    }
    if !bad_nfkc.is_empty() {
        sum.disagreement("black-box law violated on the real crate: nfkc_ctl (single chars)", json!({"chars": bad_nfkc}), "law holds", "law fails");
    }
    if let Some(d) = drv.as_mut() {
        let want = format!("ctl {} ws {}", ctl.join(","), ws.join(","));
        let got = d.ask("tables");
        if got != want { sum.disagreement("std char tables vs model stdIsControl/stdIsWhitespace", json!({"kind": "tables"}), &got, &want); }
        sum.notes.push(format!("model source shape: {}", d.ask("cfg")));
    }
    sum.branch("tables-exhaustive");
}

fn corpus() -> Vec<(String, usize)> {
    let mut v: Vec<(&str, usize)> = vec![
        ("e\u{1}\u{301}", 100), ("e\u{1}\u{301}", usize::MAX), ("a\u{301}\u{7F}\u{323}", 64), ("\u{1100}\u{8}\u{1161}", 64),
        ("Hello world", 6), ("ab\ncd", 3), ("ab \n cd", 4), ("\u{600} x", 3), ("ab\u{600} cd", 5), ("\u{600} \u{600} x", 6),
        (" Hello\tWorld \u{B} test\r\nnext", 128), ("a\u{301}bcd", 3), ("\u{1F1EE}\u{1F1F3}hello", 4), ("", 10), ("   \n\t ", 10), ("\u{1}\u{2}", 5),
        ("a  b", 10), ("a \n\n b", 10), ("a\r\n\r\nb", 10), ("\u{A8}abc", 10), ("x \u{A8}", 10), ("\u{FDFA}", 5), ("\u{FDFA}", 1000),
        ("\u{1F468}\u{200D}\u{1F469}\u{200D}\u{1F467}!", 5), ("\u{1F468}\u{200D}\u{1F469}\u{200D}\u{1F467}!", 18), ("x", 0), ("\u{E9}", 0), ("\u{E9}", 1),
        ("a\u{2028}b\u{2029}c", 10), ("a\u{85}b", 10), ("a\u{A0}\u{3000}b", 10), ("\u{FB01}\u{FF46}\u{2460}", 4), ("a\tb\t\tc", 4), ("\u{301}", 1), (" \u{301}", 5),
        ("a \u{301}b", 2), ("a\n\u{301}b", 2),
    ];
    v.dedup();
    v.into_iter().map(|(s, l)| (s.to_string(), l)).collect()
}

fn main() {
    let args = parse_args();
    let mut drv: Option<Driver> = if args.driver.as_os_str() == "none" { None } else { Some(Driver::spawn(&args.driver).expect("spawn driver")) };
    let mut sum = Summary::new("C33", &args,
        "random Unicode strings built from pools (ASCII, 22 space/line-break kinds incl. CR/LF/TAB/NBSP/ideographic, C0/C1 controls, \
         combining marks, precomposed and compatibility characters, Hangul jamo, ZWJ emoji / flags / keycaps, Prepend characters, \
         Indic, random scalars; controls planted between base and mark) with limits 0, 1, usize::MAX, and at / one off every \
         grapheme boundary of the untruncated text; each case: normalize_text vs model, property oracle, then \
         truncate_at_grapheme_boundary on input and output; plus sampled black-box laws and exhaustive char tables. \
         non-trivial = normalize_text returned Some / truncate had to cut; distinct = input+limit+result");
    sum.expect_branches(&["none", "truncated", "untruncated", "first-grapheme-exceeds-limit", "multi-char-grapheme-in-output",
        "newline-in-output", "nfkc-changes-input", "control-between-composable-pair", "cut-next-to-whitespace",
        "trunc-fits", "trunc-cut", "trunc-first-grapheme-exceeds", "laws-sampled", "tables-exhaustive"]);
    let known: Vec<String> = args.extra.get("known").map(|k| k.split(',').map(|s| s.to_string()).collect()).unwrap_or_default();
    let ctx = Ctx { known, shrink: true };

    if args.mode == "replay" {
        let case = load_replay(args.replay_file.as_ref().expect("replay file"));
        let input = case.get("input").filter(|i| i.is_object()).unwrap_or(&case);
        let to_s = |v: &Value| -> String { v.as_array().map(|a| a.iter().map(|x| char::from_u32(x.as_u64().unwrap() as u32).unwrap()).collect()).unwrap_or_default() };
        match input["kind"].as_str() {
            Some("tables") => { check_tables(&mut drv, &mut sum); sum.finish(&args); }
            Some("law") => {
                let (a, b) = (to_s(&input["s"]), to_s(&input["other"]));
                println!("law check on {} / {}", a.escape_unicode(), b.escape_unicode());
                let mut rng = Rng::new(args.seed);
                for _ in 0..200 { check_laws(&a, &b, &mut rng, &mut sum); if !sum.disagreements.is_empty() { break; } }
                sum.finish(&args);
            }
            _ => {}
        }
        let text: String = input["input"].as_array().expect("input code points").iter()
            .map(|v| char::from_u32(v.as_u64().unwrap() as u32).unwrap()).collect();
        let limit: usize = input["limit"].as_str().map(|s| s.parse().unwrap()).or(input["limit"].as_u64().map(|x| x as usize)).expect("limit");
        println!("input: {} limit {limit}", text.escape_unicode());
        if input["kind"].as_str() == Some("trunc") {
            println!("impl : {}", truncate_at_grapheme_boundary(&text, limit));
            if let Some(d) = drv.as_mut() { println!("model: {}", d.ask(&format!("trunc {limit} {} {}", cps(&text), lens(&text)))); }
            run_trunc_case(&text, limit, &mut drv, &mut sum);
        } else {
            let imp = run_impl(&text, limit);
            println!("impl : {}   {:?}", show_impl(&imp), imp.as_ref().ok().and_then(|o| o.as_ref()).map(|o| o.0.escape_unicode().to_string()));
            if let Some(d) = drv.as_mut() {
                println!("model (source shape: {}): {}", d.ask("cfg"), run_model(d, &text, limit, "norm"));
                println!("model, original arrangement: {}", run_model(d, &text, limit, "normorig"));
                println!("model, repaired arrangement: {}", run_model(d, &text, limit, "normfix"));
            }
            for (sig, what) in oracle_norm(&text, limit, &imp) { println!("oracle: {sig}: {what}"); }
            let ctx = Ctx { known: ctx.known.clone(), shrink: false };
            run_norm_case(&text, limit, &mut drv, &mut sum, &ctx);
        }
        sum.finish(&args);
    }

    check_tables(&mut drv, &mut sum);
    for (s, l) in corpus() {
        run_norm_case(&s, l, &mut drv, &mut sum, &ctx);
        run_trunc_case(&s, l, &mut drv, &mut sum);
    }
    let mut rng = Rng::new(args.seed);
    let n = if args.thorough { 300_000 } else { 30_000 };
    let mut prev = String::from("abc");
    for i in 0..n {
        let input = gen_input(&mut rng, args.thorough);
        let limit = gen_limit(&mut rng, &input);
        run_norm_case(&input, limit, &mut drv, &mut sum, &ctx);
        // truncate_at_grapheme_boundary on the raw input and on the normalised text
        let tl = match rng.below(4) { 0 => rng.usize(0, 4), 1 => input.len(), _ => { let b = boundaries(&input); let x = *rng.pick(&b); (x + rng.usize(0, 2)).saturating_sub(1) } };
        run_trunc_case(&input, tl, &mut drv, &mut sum);
        if let Some(n) = normalize_text(&input, usize::MAX) { run_trunc_case(&n.text, limit, &mut drv, &mut sum); }
        if i % 4 == 0 { check_laws(&input, &prev, &mut rng, &mut sum); }
        prev = input;
    }
    sum.model_requests = drv.as_ref().map_or(0, |d| d.requests);
    sum.finish(&args);
}
