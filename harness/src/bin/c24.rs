//! C24 — the capacity limit is never exceeded by committed payloads.
//! impl: real `Memvid` (apply_ticket sets the capacity); model: drv_c24 (the shared Lean Core model, which
//! contains the exact capacity check since ed05539); oracle (independent of the model, on the implementation's own
//! observations): (1) no operation moves the end of the payload region — max(cached_payload_end, end of every
//! stored frame payload), absolute — beyond capacity_limit() (it may stay where it was); (2) a put / update
//! answered CapacityExceeded leaves the observation of the handle unchanged; (3) stats().capacity_bytes is the limit;
//! (4) admission: an ACKNOWLEDGED put / update-with-payload fits, i.e. where the next commit will append
//! (max(payload end, data_end)) + the stored bytes of everything acknowledged since the last commit + its own
//! stored bytes (whole payload, or every chunk) <= capacity_limit() — the oracle keeps its own byte count.
use memvid_core::verif_hooks;
use mvh::hist::*;

/// end of the payload region relative to the data start: the cached end and every stored payload
fn region_end(o: &Obs) -> u64 {
    o.frames.iter().filter(|f| f.len > 0).map(|f| f.off + f.len).fold(o.payload_end, u64::max)
}
fn abs_end(o: &Obs) -> u64 { WAL_OFFSET + o.wal_size + region_end(o) }

fn stored_len(bytes: &[u8], level: i32) -> u64 {
    verif_hooks::prepare_canonical_payload(bytes, level).map(|x| x.0).unwrap_or(bytes.len()) as u64
}
/// bytes the commit will append for this payload: the whole stored payload, or one stored payload per chunk
/// (a non-UTF-8 document whose extracted text is chunked keeps its own payload as well)
fn appended_bytes(bytes: &[u8], chunks: &Option<Vec<String>>, level: i32) -> u64 {
    match chunks {
        None => stored_len(bytes, level),
        Some(cs) => cs.iter().map(|c| stored_len(c.as_bytes(), 3)).sum::<u64>()
            + if std::str::from_utf8(bytes).is_ok() { 0 } else { stored_len(bytes, level) },
    }
}

/// the part of the observation a rejected put must not touch under any reading of the property
fn contents(o: &Obs) -> String {
    format!("fc={} nf={} pi={} pend={} seq={} ws={} pe={} de={} ft={} cap={} q={:?} cards={:?} | {}",
        o.frame_count, o.next_frame_id, o.pending_inserts, o.pending_records, o.seq, o.wal_size, o.payload_end, o.data_end,
        o.footer, o.capacity, o.queue, o.cards, o.frames.iter().map(|f| f.line()).collect::<Vec<_>>().join(";"))
}

fn main() {
    let args = mvh::parse_args();
    let mut prof = GenProfile::standard(args.thorough);
    // capacities just above the current payload end (the shared generator aims tickets at payload_end + 0..3000 /
    // + 0..200000), puts with and without intervening commits, chunked and whole payloads; crashes and embeddings
    // are rare in generated histories (their known findings are reproduced by the fixed corpus every run)
    prof.w_ticket = 10; prof.w_put = 46; prof.w_update = 9; prof.w_delete = 4; prof.w_commit = 11; prof.w_reopen = 5;
    prof.w_crash = 0; prof.w_readonly = 1; prof.w_batch = 1; prof.w_skip = 2; prof.w_finalize = 1; prof.w_vacuum = 1; prof.w_doctor = 1;
    prof.emb_percent = 6; prof.wrong_dim_percent = 0; prof.instant_index_percent = 10;
    prof.n_short = if args.thorough { 150 } else { 26 };
    prof.short_len = (8, 40);
    prof.n_long = if args.thorough { 3 } else { 0 };
    prof.corpus = corpus();
    let cfg = FamilyConfig {
        property: "C24",
        rule: "operation histories on a real .mv2 file and on the Lean Core model, full \
               observation compared after every op; tickets set the capacity just above the current payload end (+0..3000, \
               +0..200000) or far above it; puts (binary / text, whole and chunked, 0..9000 bytes, a few > 64 KiB) with and \
               without intervening commits, updates with and without payload, deletes, reopen, skip-index commits, vacuum, \
               doctor; fixed corpus first (pending-bytes witness, chunked, reopen, sequence at the exact limit, and the three \
               known-finding witnesses); oracle after every op: end of payload region (cached end and frame offsets) never \
               grows beyond capacity_limit() (excluded: commits of inserts that were pending when a ticket LOWERED the capacity), \
               a CapacityExceeded answer leaves the observation unchanged; non-trivial = at \
               least two acknowledged mutations and a commit point; distinct = op/answer trace",
        expect_branches: vec!["reject-capacity", "capacity-reject-while-pending", "tight-accept", "tight-commit", "tight-chunked-accept",
                              "chunked-put", "op-commit", "op-reopen", "op-ticket", "update-payload", "update-reuse", "corpus"],
    };
    // WAL growth (bytes) since the handle was last clean (no pending inserts): the region was shifted by that
    // much after the pending bytes were admitted
    let mut shift_since_clean: u64 = 0;
    // a ticket lowered the capacity while inserts were pending (they were admitted under the larger grant):
    // generator precondition of the property, such a commit is outside what a put-time check can guarantee
    let mut lowered_while_pending = false;
    // the oracle's own count of stored bytes acknowledged since the last commit
    let mut admitted: u64 = 0;
    let mut oracle = move |v: &mut StepView| -> Option<(String, String)> {
        let (a, b) = (v.after, v.before);
        if v.index == 0 { shift_since_clean = 0; lowered_while_pending = false; admitted = 0; }
        if matches!(v.op, Op::Ticket { .. }) && v.ack.is_ok() && a.capacity < b.capacity && b.pending_inserts > 0 { lowered_while_pending = true; }
        let grew_now = a.wal_size > b.wal_size;
        let shift = shift_since_clean + a.wal_size.saturating_sub(b.wal_size);
        let tight = |o: &Obs| o.capacity.saturating_sub(abs_end(o)) < 250_000;
        // coverage tags
        if matches!(v.op, Op::Put(_) | Op::Update(_)) {
            if v.ack.is_ok() && tight(b) {
                v.world.branches.push("tight-accept".into());
                if a.next_frame_id > b.next_frame_id + 1 { v.world.branches.push("tight-chunked-accept".into()); }
            }
            if let Ack::Err(k, _) = v.ack { if k == "capacity" && b.pending_inserts > 0 { v.world.branches.push("capacity-reject-while-pending".into()); } }
        }
        if region_end(a) > region_end(b) && tight(a) { v.world.branches.push("tight-commit".into()); }
        // (1) growth never beyond the limit
        let mut res: Option<(String, String)> = None;
        if abs_end(a) > a.capacity && abs_end(a) > abs_end(b) && lowered_while_pending {
            v.world.branches.push("excluded-ticket-lowered-capacity-while-pending".into());
        } else if abs_end(a) > a.capacity && abs_end(a) > abs_end(b) {
            let what = format!("payload region ended at byte {} (data start {} + {}) before the op and ends at byte {} (data start {} + {}) after it; capacity_limit() = {}",
                abs_end(b), WAL_OFFSET + b.wal_size, region_end(b), abs_end(a), WAL_OFFSET + a.wal_size, region_end(a), a.capacity);
            // the excess is explained by the WAL growth alone: without the shift the region would end inside the limit
            // (or the region did not grow at all relative to the data start: the whole move is the WAL shift of this op)
            let sig = if shift > 0 && (abs_end(a) - shift <= a.capacity || (grew_now && region_end(a) <= region_end(b))) { "wal-growth-moves-payload-region-past-capacity" }
                else if matches!(v.op, Op::Crash) && b.pending_inserts > 0 { "crash-replay-appends-payloads-after-index-region" }
                else { "payload-region-grows-beyond-capacity" };
            res = Some((sig.into(), what));
        }
        // (2) a put / update answered CapacityExceeded leaves the memory unchanged
        if res.is_none() {
            if let (Op::Put(_) | Op::Update(_), Ack::Err(k, d)) = (v.op, v.ack) {
                if k == "capacity" {
                    if contents(a) != contents(b) {
                        res = Some(("capacity-rejected-put-changed-memory".into(), format!("{d}; before: {} after: {}", b.head(), a.head())));
                    } else if a.line() != b.line() {
                        let embedded = match v.op { Op::Put(p) => p.emb.is_some() || p.chunk_embs.as_ref().is_some_and(|c| !c.is_empty()), Op::Update(u) => u.emb.is_some() || b.vec_enabled, _ => false };
                        let sig = if embedded { "capacity-rejected-embedded-put-touches-vector-index" } else { "capacity-rejected-put-changed-memory" };
                        res = Some((sig.into(), format!("{d}; before: {} after: {}", b.head(), a.head())));
                    }
                }
            }
        }
        // (4) admission: an acknowledged put fits behind everything acknowledged before it
        let level = v.world.batch.map(|x| x.1).unwrap_or(3);
        let incoming: Option<u64> = match (v.op, v.ack.is_ok()) {
            (Op::Put(p), true) => { let bytes = p.payload.bytes(); let cs = verif_hooks::put_chunk_plan(&bytes, p.uri.as_deref()).unwrap_or(None); Some(appended_bytes(&bytes, &cs, level)) }
            (Op::Update(u), true) => u.payload.as_ref().map(|pl| { let bytes = pl.bytes(); let cs = v.world.mem().preview_chunks(&bytes); appended_bytes(&bytes, &cs, level) }),
            _ => None,
        };
        if let Some(inc) = incoming {
            let tail = WAL_OFFSET + b.wal_size + b.payload_end.max(b.data_end) + admitted;
            if res.is_none() && tail + inc > b.capacity {
                res = Some(("put-admitted-beyond-capacity".into(), format!("the put was acknowledged although the next commit appends at byte {} (data start {} + max(payload end {}, data_end {}) + {} bytes acknowledged since the last commit) and it stores {} bytes: {} > capacity_limit() = {}",
                    tail, WAL_OFFSET + b.wal_size, b.payload_end, b.data_end, admitted, inc, tail + inc, b.capacity)));
            }
            admitted += inc;
        }
        if a.pending_inserts == 0 { admitted = 0; }
        // (3) the limit the oracle uses is the one the public API reports
        if res.is_none() && v.index % 4 == 0 {
            if let Ok(st) = v.world.mem().stats() {
                if st.capacity_bytes != a.capacity { res = Some(("stats-capacity-differs".into(), format!("stats().capacity_bytes = {} but capacity_limit() = {}", st.capacity_bytes, a.capacity))); }
            }
        }
        shift_since_clean = if a.pending_inserts == 0 && !grew_now { 0 } else { shift };
        if a.pending_inserts == 0 { lowered_while_pending = false; }
        res
    };
    run_family(cfg, prof, &mut oracle);
}

fn corpus() -> Vec<(String, Vec<Op>)> {
    let put = |kind, len, seed, ts| Op::Put(PutSpec::simple(PayloadSpec::new(kind, len, seed), ts));
    let base = WAL_OFFSET + 65536;
    let ticket = |seq, cap| Op::Ticket { seq_no: seq, capacity: Some(cap), issuer: "verif".into() };
    let mut emb = PutSpec::simple(PayloadSpec::new(PayloadKind::Bin, 500, 9), 105);
    emb.emb = Some(EmbSpec { dim: 3, seed: 4 });
    vec![
        // the confirmed defect (repaired by fixes/C24.diff): pending bytes are not counted
        ("pending-bytes-ignored".into(), vec![ticket(2, base + 3000), put(PayloadKind::Bin, 2000, 1, 100), put(PayloadKind::Bin, 2000, 2, 101), Op::Commit]),
        // after a reopen the next commit appends at data_end = old footer: the index bytes join the payload region
        ("append-after-reopen".into(), vec![put(PayloadKind::Bin, 1000, 1, 100), Op::Commit, Op::Reopen, ticket(2, base + 1100), put(PayloadKind::Bin, 50, 2, 101), Op::Commit]),
        // chunked documents store one compressed payload per chunk (more than the prepared whole payload)
        ("chunked-under-tight-grants".into(), vec![ticket(2, base + 2250), put(PayloadKind::Ascii, 6000, 1, 100), Op::Commit,
            ticket(3, base + 6000), put(PayloadKind::Utf8, 5000, 2, 101), put(PayloadKind::Ascii, 2500, 3, 102), Op::Commit, Op::Reopen]),
        // exactly at the limit, then one byte over; update with payload while bytes are pending
        ("exact-limit".into(), vec![ticket(2, base + 3000), put(PayloadKind::Bin, 2000, 1, 100), put(PayloadKind::Bin, 1000, 2, 101), put(PayloadKind::Bin, 1, 3, 102), Op::Commit,
            put(PayloadKind::Empty, 0, 4, 103), Op::Update(UpdSpec { id: 0, tags: vec!["t".into()], ..Default::default() }),
            Op::Update(UpdSpec { id: 1, payload: Some(PayloadSpec::new(PayloadKind::Bin, 10, 5)), ..Default::default() }), Op::Commit, Op::Reopen]),
        ("commit-between".into(), vec![ticket(2, base + 3000), put(PayloadKind::Bin, 2000, 1, 100), Op::Commit, put(PayloadKind::Bin, 2000, 2, 101), put(PayloadKind::Bin, 900, 3, 102),
            put(PayloadKind::Bin, 200, 4, 103), Op::Commit, Op::Delete { id: 0 }, Op::Commit, put(PayloadKind::Bin, 150, 5, 104), Op::Commit]),
        // known findings (not repaired), reproduced every run
        ("kf-wal-growth".into(), vec![ticket(2, base + 100_000), put(PayloadKind::Rand, 90_000, 1, 100), Op::Commit]),
        ("kf-crash-replay".into(), vec![put(PayloadKind::Bin, 1000, 1, 100), Op::Commit, ticket(2, base + 1100), put(PayloadKind::Bin, 50, 2, 101), Op::Crash]),
        ("kf-embedded-reject".into(), vec![ticket(2, base + 100), Op::Put(emb)]),
    ]
}
