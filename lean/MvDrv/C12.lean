/- Driver for C12 (ACL decision + hit filter + entry-point order).
   Text travels as lowercase hex of its UTF-8 bytes ("-" = empty string); "~" = absent (None);
   lists are comma separated, "." = empty list; metadata = k:v,k:v (hex), "." = empty map.
   A caller context is five tokens: <present 0|1> <tenant|~> <subject|~> <roles> <groups>.
   requests:
     ns <s|~>                         → none | some <s>
     jstr <s>                         → none | some <s>            (serde_json::from_str::<String>)
     list <s|~>                       → err | ok <sorted distinct items>
     pmeta <meta>                     → err | ok <tenant> <public|restricted> <roles> <groups> <principals>
     nctx <ctx5>                      → none | some <tenant> <subject|~> <roles> <groups>
     eval <meta> <ctx5>               → allow | deny:cross-tenant | deny:missing-metadata | deny:restricted
     wsset                            → code points below U+3100 that `isWs` accepts (none above: `isWs_bound`)
     lowerset                         → n:m for the code points below U+3100 that `lowerChar` changes (none above: `lowerChar_spec`)
     reset                            → ok        (forget all frames)
     frame <id> <meta>                → ok        (frame id ↦ metadata)
     apply <audit|enforce> <ctx5> <ids>          → err <e> | ok <id:rank,…> <allowed> <denied> <cross> <missing>
     search <mode> <ctx5> <disabled|failed|early|engine> <ids>   → err <e> | ok <id:rank,…> <total> ctx=<ids>
     vec <mode> <ctx5> <disabled|failed|novec|conv> <ids>        → same
     adaptive <mode> <ctx5> <disabled|failed|novec|conv> <ids> <k|~>  → err <e> | ok <id:rank,…>
     ask <mode> <ctx5> <contextOnly 0|1> <failed|ranked> <ids> → err <e> | ok <id:rank,…> <total> ctx=<ids> cit=<index:id,…> frag=<rank:id,…>
   In the entry-point requests the incoming hits are the given frame ids with rank = position+1
   and body = position; `B` is the identity (the context is shown as the ids it is built from). -/
import MvModel.Acl
import MvModel.DrvUtil
open Mv Mv.Acl

def strOfHex (h : String) : Option Str :=
  match ofHex h with
  | some b => (String.fromUTF8? (ByteArray.mk b.toArray)).map String.toList
  | none => none

def hexOfStr (s : Str) : String := toHexW (String.ofList s).toUTF8.toList

def optStr (h : String) : Option (Option Str) :=
  if h == "~" then some none else (strOfHex h).map some

def strList (h : String) : Option (List Str) :=
  if h == "." then some [] else (h.splitOn ",").mapM strOfHex

def showOpt (o : Option Str) : String :=
  match o with
  | none => "~"
  | some s => hexOfStr s

/-- lexicographic order on code points = byte order of the UTF-8 encodings (Rust `String: Ord`) -/
def strLt : Str → Str → Bool
  | [], [] => false
  | [], _ :: _ => true
  | _ :: _, [] => false
  | a :: as, b :: bs => if a.toNat < b.toNat then true else if b.toNat < a.toNat then false else strLt as bs

def insertSorted (x : Str) : List Str → List Str
  | [] => [x]
  | y :: ys => if strLt x y then x :: y :: ys else if x = y then y :: ys else y :: insertSorted x ys

def sortDedup (l : List Str) : List Str := l.foldl (fun acc x => insertSorted x acc) []

def showSet (l : List Str) : String :=
  match sortDedup l with
  | [] => "."
  | xs => ",".intercalate (xs.map hexOfStr)

def parseMeta (h : String) : Option Acl.Meta :=
  if h == "." then some []
  else (h.splitOn ",").mapM (fun kv =>
    match kv.splitOn ":" with
    | [k, v] => match strOfHex k, strOfHex v with
      | some k, some v => some (k, v)
      | _, _ => none
    | _ => none)

def parseCtx (p t s r g : String) : Option (Option Ctx) :=
  match optStr t, optStr s, strList r, strList g with
  | some t, some s, some r, some g =>
    if p == "1" then some (some { tenant := t, subject := s, roles := r, groups := g })
    else if p == "0" then some none
    else none
  | _, _, _, _ => none

def parseMode (m : String) : Option Mode :=
  if m.toList = Mv.Gen.C12.MODE_AUDIT then some .audit
  else if m.toList = Mv.Gen.C12.MODE_ENFORCE then some .enforce
  else none

def idsToHits (ids : List Nat) : List Hit :=
  (ids.zipIdx).map (fun (id, i) => { frameId := id, rank := i + 1, body := i })

def parseIds (s : String) : Option (List Nat) :=
  if s == "." then some [] else (s.splitOn ",").mapM (·.toNat?)

def showHits (l : List Hit) : String :=
  if l.isEmpty then "." else ",".intercalate (l.map (fun h => s!"{h.frameId}:{h.rank}"))

def showIds (l : List Hit) : String :=
  if l.isEmpty then "." else ",".intercalate (l.map (fun h => toString h.frameId))

def showErr : Err → String
  | .contextRequired => "err context-required"
  | .tenantRequired => "err tenant-required"
  | .other => "err other"

def showDecision : Decision → String
  | .allow => "allow"
  | .denyCrossTenant => "deny:cross-tenant"
  | .denyMissing => "deny:missing-metadata"
  | .denyRestricted => "deny:restricted"

abbrev St := List (Nat × Acl.Meta)

def framesOf (st : St) : Frames := fun id =>
  match st.find? (fun p => p.1 == id) with
  | some p => some p.2
  | none => none

def showResp (r : Response (List Hit)) : String :=
  s!"ok {showHits r.hits} {r.totalHits} ctx={showIds r.context}"

def step (st : St) (ws : List String) : St × String :=
  match ws with
  | ["ns", v] => match optStr v with
    | some v => (st, match normalizeScalar v with
      | none => "none"
      | some s => s!"some {hexOfStr s}")
    | none => (st, "bad-op")
  | ["jstr", v] => match strOfHex v with
    | some v => (st, match parseJsonString v with
      | none => "none"
      | some s => s!"some {hexOfStr s}")
    | none => (st, "bad-op")
  | ["list", v] => match optStr v with
    | some v =>
      let m : Acl.Meta := match v with
        | some raw => [(['k'], raw)]
        | none => []
      (st, match parseAclList m ['k'] with
        | none => "err"
        | some l => s!"ok {showSet l}")
    | none => (st, "bad-op")
  | ["pmeta", m] => match parseMeta m with
    | some m => (st, match parseAclMetadata m with
      | none => "err"
      | some p =>
        let vis := match p.visibility with
          | .pub => "public"
          | .restricted => "restricted"
        s!"ok {hexOfStr p.tenant} {vis} {showSet p.roles} {showSet p.groups} {showSet p.principals}")
    | none => (st, "bad-op")
  | ["nctx", p, t, s, r, g] => match parseCtx p t s r g with
    | some c => (st, match normalizeCtx c with
      | none => "none"
      | some n => s!"some {hexOfStr n.tenant} {showOpt n.subject} {showSet n.roles} {showSet n.groups}")
    | none => (st, "bad-op")
  | ["eval", m, p, t, s, r, g] => match parseMeta m, parseCtx p t s r g with
    | some m, some c => (st, showDecision (evaluate m (normalizeCtx c)))
    | _, _ => (st, "bad-op")
  | ["wsset"] =>
    (st, ",".intercalate (((List.range 0x3100).filter (fun n => isWs (Char.ofNat n))).map toString))
  | ["lowerset"] =>
    (st, ",".intercalate (((List.range 0x3100).filter (fun n => lowerChar (Char.ofNat n) != Char.ofNat n)).map
      (fun n => s!"{n}:{(lowerChar (Char.ofNat n)).toNat}")))
  | ["reset"] => ([], "ok")
  | ["frame", id, m] => match id.toNat?, parseMeta m with
    | some id, some m => ((id, m) :: st.filter (fun p => p.1 != id), "ok")
    | _, _ => (st, "bad-op")
  | ["apply", mode, p, t, s, r, g, ids] => match parseMode mode, parseCtx p t s r g, parseIds ids with
    | some mode, some c, some ids => (st, match applyAcl (framesOf st) mode c (idsToHits ids) with
      | .error e => showErr e
      | .ok (hits, stt) => s!"ok {showHits hits} {stt.allowed} {stt.denied} {stt.crossTenant} {stt.missing}")
    | _, _, _ => (st, "bad-op")
  | ["search", mode, p, t, s, r, g, pre, ids] => match parseMode mode, parseCtx p t s r g, parseIds ids with
    | some mode, some c, some ids =>
      let hs := idsToHits ids
      let r0 : Response (List Hit) := { hits := hs, totalHits := hs.length, context := hs }
      let pre? : Option (PreSearch (List Hit)) :=
        if pre == "failed" then some .failed
        else if pre == "disabled" then some .disabled
        else if pre == "early" then some .early
        else if pre == "engine" then some (.engine r0) else none
      (st, match pre? with
        | none => "bad-op"
        | some pre => match search id (framesOf st) mode c pre with
          | .error e => showErr e
          | .ok r => showResp r)
    | _, _, _ => (st, "bad-op")
  | ["vec", mode, p, t, s, r, g, pre, ids] => match parseMode mode, parseCtx p t s r g, parseIds ids with
    | some mode, some c, some ids =>
      let pre? : Option PreVec :=
        if pre == "failed" then some .failed
        else if pre == "disabled" then some .disabled
        else if pre == "novec" then some .noVecHits
        else if pre == "conv" then some (.converted (idsToHits ids)) else none
      (st, match pre? with
        | none => "bad-op"
        | some pre => match vecSearch id (framesOf st) mode c pre with
          | .error e => showErr e
          | .ok r => showResp r)
    | _, _, _ => (st, "bad-op")
  | ["adaptive", mode, p, t, s, r, g, pre, ids, k] =>
    match parseMode mode, parseCtx p t s r g, parseIds ids with
    | some mode, some c, some ids =>
      let pre? : Option PreVec :=
        if pre == "failed" then some .failed
        else if pre == "disabled" then some .disabled
        else if pre == "novec" then some .noVecHits
        else if pre == "conv" then some (.converted (idsToHits ids)) else none
      let k? : Option (Option Nat) := if k == "~" then some none else k.toNat?.map some
      (st, match pre?, k? with
        | some pre, some k => match adaptive (κ := List Hit) id (framesOf st) mode c pre (fun _ => k) with
          | .error e => showErr e
          | .ok hits => s!"ok {showHits hits}"
        | _, _ => "bad-op")
    | _, _, _ => (st, "bad-op")
  | ["ask", mode, p, t, s, r, g, co, pre, ids] =>
    match parseMode mode, parseCtx p t s r g, parseIds ids with
    | some mode, some c, some ids =>
      let hs := idsToHits ids
      let pre? : Option (PreAsk (List Hit)) :=
        if pre == "failed" then some .failed
        else if pre == "ranked" then some (.ranked { hits := hs, totalHits := hs.length, context := hs }) else none
      (st, match pre? with
        | none => "bad-op"
        | some pre =>
          match ask (κ := List Hit) (α := Unit) id (fun _ _ => ()) (framesOf st) mode c (co == "1") pre () with
          | .error e => showErr e
          | .ok a =>
            let cit := if a.citations.isEmpty then "." else ",".intercalate (a.citations.map (fun c => s!"{c.index}:{c.frameId}"))
            let frag := if a.fragments.isEmpty then "." else ",".intercalate (a.fragments.map (fun f => s!"{f.rank}:{f.frameId}"))
            s!"{showResp a.retrieval} cit={cit} frag={frag}")
    | _, _, _ => (st, "bad-op")
  | _ => (st, "bad-op")

def main : IO Unit := runDriver ([] : St) step
