/-
  ReadPaths — what the read APIs of `Memvid` do with a frame id before they hand it to the caller
  (property C08), on top of the Core model.

  The engines themselves (Tantivy, the vector index scan) are black boxes: their ANSWER (a list of
  frame ids) is an input.  What is modelled is the loop every read path runs over that answer:

    searchHits        search/tantivy.rs try_tantivy_search, search/fallback.rs search_with_lex_fallback,
                      search_with_filters_only: a hit whose id is not in `toc.frames` is skipped; with
                      `statusTest` (the code since repo commit f3f305c = /verif/fixes/C10.diff) a hit whose frame is not Active
                      is skipped too.  (The later culls — query evaluation, snippet slices, top_k, cursor —
                      only REMOVE hits; the hit list the caller sees is a sub-list of this one.)
    vecHits           search/api.rs vec_search_with_embedding_acl (and search_adaptive, ask's vector
                      recall, which call it): out-of-range ids skipped, optional status test
    timelineEntries   timeline.rs build_timeline: the persisted time index plus active ExtractedImage
                      frames it does not list; without a time index every active non-chunk frame
    timelineIds       … sorted by (timestamp, id), entries of non-Active frames skipped (unbounded query:
                      no since/until/limit, which only remove entries)
    replayIds         search/api.rs get_replay_frame_ids (candidate filter of a time-travel search)
    codeSearchHits / codeVecHits / codeTimelineIds   the variant the CURRENT source tree has, selected by
                      the code-shape flags tools/gen/C08.py reads from the sources (Gen/C08.lean)
-/
import MvModel.Core
import MvModel.Gen.C08
namespace Mv.Core

/-- the id survives the loop of a lexical search path -/
def hitKept (statusTest : Bool) (frames : List Frame) (id : Nat) : Bool :=
  match frames[id]? with
  | some f => !statusTest || f.status == .active
  | none => false

/-- frame ids a lexical search path can report, given the engine's answer -/
def searchHits (statusTest : Bool) (frames : List Frame) (answer : List Nat) : List Nat :=
  answer.filter (hitKept statusTest frames)

/-- frame ids `vec_search_with_embedding_acl` can report, given the vector index's answer -/
def vecHits (statusTest : Bool) (frames : List Frame) (answer : List Nat) : List Nat :=
  answer.filter (hitKept statusTest frames)

/-- entries `build_timeline` starts from -/
def timelineEntries (m : Mem) : List (Int × Nat) :=
  match m.time with
  | some t =>
    t ++ (m.frames.filter (fun f => f.status == .active && f.role == .image && !(t.any (fun e => e.2 == f.id)))).map
      (fun f => (f.ts, f.id))
  | none => (m.frames.filter (fun f => f.status == .active && f.role != .chunk)).map (fun f => (f.ts, f.id))

/-- frame ids of `timeline(TimelineQuery { limit: ∞, since: None, until: None, reverse: false })` -/
def timelineIds (statusTest : Bool) (m : Mem) : List Nat :=
  ((sortBy timeLe (timelineEntries m)).filter (fun e => hitKept statusTest m.frames e.2)).map (·.2)

/-- the variants the current source tree has -/
def codeSearchHits (frames : List Frame) (answer : List Nat) : List Nat :=
  searchHits Mv.Gen.C08.TANTIVY_STATUS_TEST frames answer
def codeVecHits (frames : List Frame) (answer : List Nat) : List Nat :=
  vecHits Mv.Gen.C08.VEC_SEARCH_STATUS_TEST frames answer
def codeTimelineIds (m : Mem) : List Nat := timelineIds Mv.Gen.C08.TIMELINE_STATUS_TEST m

/-- `get_replay_frame_ids` (the candidate set of a time-travel search: `as_of_frame` / `as_of_ts`):
    Active frames with id ≤ the frame bound and timestamp ≤ the time bound -/
def replayIds (frames : List Frame) (asOfFrame : Option Nat) (asOfTs : Option Int) : List Nat :=
  (frames.filter (fun f => f.status == .active &&
      (match asOfFrame with | some c => decide (f.id ≤ c) | none => true) &&
      (match asOfTs with | some c => decide (f.ts ≤ c) | none => true))).map (·.id)

/-- ids of the frames the committed table marks Superseded or Deleted -/
def inactiveIds (frames : List Frame) : List Nat :=
  (frames.filter (fun f => f.status != .active)).map (·.id)

end Mv.Core
