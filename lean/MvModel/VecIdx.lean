/-
  VecIdx — what property C14 (vector index membership = active embedded frames) adds on top of the
  shared Core model.

  1. Crash recovery BEFORE the repair 5c6fd4b (fixes/C14.diff), kept for the counterexample theorem
       Mem.recoverWalPre        mutation.rs recover_wal without the statement
                                `if !delta.inserted_embeddings.is_empty() && !self.vec_enabled { self.vec_enabled = true; }`
                                (`Core.recoverWal` minus `enableVecForEmbs`)
       Mem.openFromPre / Mem.crashPre / stepPre / runPre / tracePre
                                `Core.openFrom` / `Core.crash` / `Core.step` / `run` / `trace` with that recovery
     A handle that dies before the first vector manifest reached the file replays the frames of its
     embedded puts and drops their vectors, because `open_locked` derives `vec_enabled` from the TOC on
     disk and `build_vec_artifact` returns nothing while vectors are disabled.  The shared Core model
     mirrors the repaired code; the C14 theorems speak about `Core.step` / `run` directly.  The driver
     uses `Core.crash` when the source has the repair (tools/gen/C14.py: RECOVER_ENABLES_VEC) and
     `crashPre` otherwise.

  2. The representations of `VecIndex` (src/vec.rs) for the two build configurations
       VecRepr                  enum VecIndex { Uncompressed, Hnsw }   (Compressed is never built by a commit)
       VecRepr.build            VecIndexBuilder::finish followed by VecIndex::decode: HNSW when the crate is
                                built with feature `vec` / `hnsw_bench` and there are >= HNSW_THRESHOLD documents
       VecRepr.entries          VecIndex::entries      (HNSW: nothing)
       VecRepr.remove           VecIndex::remove       (HNSW: no-op)
       VecRepr.docs             the documents `search` ranks (HNSW: every inserted vector)
       buildVecArtifact         search/builders.rs build_vec_artifact
       VSim / VSim.*            a vector index driven through puts, deletes and rebuilds (the part of
                                apply_records / rebuild_indexes that touches it) — compared with the real
                                handle by the harness's scale scenario in both configurations
     `Core.Mem.rebuildVec` is the `hnsw = false` instance (`rebuild_core` in MvProps/C14.lean).
-/
import MvModel.Core
import MvModel.Gen.C14
namespace Mv.Core

/-! ## 1. crash recovery before the repair -/

/-- `recover_wal` before 5c6fd4b: `Core.recoverWal` without `enableVecForEmbs` -/
def Mem.recoverWalPre (m1 : Mem) (ft : Nat) : Mem :=
  if m1.pending.isEmpty then m1.flushTantivy ft
  else
    match applyRecords m1 m1.pending true with
    | none => m1
    | some (ma, delta) =>
      ((if delta.nonEmpty then ma.rebuildIndexes delta.embs delta.inserted ft
        else ma.flushTantivy ft).persistSketch.bumpFooter ft).checkpoint

/-- `open_locked` with that recovery -/
def Mem.openFromPre (m : Mem) (ft : Nat) : Mem := m.openLoad.loadTracks.recoverWalPre ft

/-- the process dies (no `Drop`); the next open replays the WAL -/
def Mem.crashPre (m : Mem) (ft : Nat) : Mem × Out :=
  ({ m with queue := m.pQueue }.openFromPre ft, .ok)

/-- `Core.step` with the crash recovery of the unrepaired code -/
def stepPre (m : Mem) : Op → Mem × Out
  | .crash ft => m.crashPre ft
  | op => step m op

def runPre (m : Mem) : List Op → Mem
  | [] => m
  | op :: ops => runPre (stepPre m op).1 ops

def tracePre (m : Mem) : List Op → List (Op × Out)
  | [] => []
  | op :: ops => (op, (stepPre m op).2) :: tracePre (stepPre m op).1 ops

/-! ## 2. representations of the vector index -/

inductive VecRepr where
  | uncompressed (docs : List VecEnt)
  | hnsw (docs : List VecEnt)
deriving DecidableEq, Repr, Inhabited

/-- `VecIndexBuilder::finish` + `VecIndex::decode`; `hnsw` = built with feature `vec` or `hnsw_bench` -/
def VecRepr.build (hnsw : Bool) (docs : List VecEnt) : VecRepr :=
  if hnsw && decide (docs.length ≥ Mv.Gen.C14.HNSW_THRESHOLD) then .hnsw docs else .uncompressed docs

/-- `VecIndex::entries` -/
def VecRepr.entries : VecRepr → List VecEnt
  | .uncompressed d => d
  | .hnsw d => if Mv.Gen.C14.HNSW_ENTRIES_EMPTY then [] else d

/-- `VecIndex::remove` -/
def VecRepr.remove (id : Nat) : VecRepr → VecRepr
  | .uncompressed d => .uncompressed (d.filter (·.id != id))
  | .hnsw d => if Mv.Gen.C14.HNSW_REMOVE_NOOP then .hnsw d else .hnsw (d.filter (·.id != id))

/-- the documents `VecIndex::search` ranks -/
def VecRepr.docs : VecRepr → List VecEnt
  | .uncompressed d => d
  | .hnsw d => d

def VecRepr.kind : VecRepr → String
  | .uncompressed _ => "uncompressed"
  | .hnsw _ => "hnsw"

/-- `build_vec_artifact(new_docs)` for a handle with vectors enabled: the entries of the in-memory
    index that belong to active frames, then the new documents -/
def buildVecArtifact (hnsw : Bool) (active : Nat → Bool) (idx : Option VecRepr) (newDocs : List VecEnt) : VecRepr :=
  VecRepr.build hnsw (((idx.map VecRepr.entries).getD []).filter (fun e => active e.id) ++ newDocs)

/-- a vector index driven through embedded puts, deletes / supersedes and index rebuilds -/
structure VSim where
  hnsw : Bool := false
  idx : Option VecRepr := none
  /-- ids of frames that are no longer active -/
  inactive : List Nat := []
  /-- `delta.inserted_embeddings` of the next rebuild -/
  pend : List VecEnt := []
deriving Repr, Inhabited

/-- an embedded put that the next commit applies -/
def VSim.put (s : VSim) (e : VecEnt) : VSim := { s with pend := s.pend ++ [e] }

/-- a frame is deleted or superseded: `remove_frame_from_indexes` -/
def VSim.remove (s : VSim) (id : Nat) : VSim :=
  { s with inactive := s.inactive ++ [id], idx := s.idx.map (VecRepr.remove id) }

/-- `rebuild_indexes(delta.inserted_embeddings, …)` -/
def VSim.rebuild (s : VSim) : VSim :=
  { s with idx := some (buildVecArtifact s.hnsw (fun id => !s.inactive.contains id) s.idx s.pend), pend := [] }

/-- what a vector search can return -/
def VSim.searchable (s : VSim) : List VecEnt := (s.idx.map VecRepr.docs).getD []

end Mv.Core
