/-
  Capacity — the capacity check of `put_internal` (property C24), on top of the shared Core model.

  `MvModel/Core.lean` mirrors the code BEFORE the repair proposed in `/verif/fixes/C24.diff`: its
  `putTail` rejects a put only when `cached_payload_end + prepared.len()` exceeds the limit (the
  committed payload end; bytes that are pending in the WAL are ignored).  The repaired
  `put_internal` keeps that early test and adds a second, exact one immediately before the WAL
  appends (nothing of the handle has been touched between the two):

      incoming = entry.payload.len() + Σ chunk_entries[i].payload.len()      -- stored bytes of THIS put
      if entry.reuse_payload_from.is_none() || !chunk_entries.is_empty() {
          tail = max(cached_payload_end, data_end) + pending_payload_bytes
          if tail + incoming > capacity_limit → Err(CapacityExceeded)
      }
      … appends …;  pending_payload_bytes += incoming                         -- reset to 0 with every WAL checkpoint

  What each definition mirrors
  ----------------------------
    Entry.freshBytes / freshBytes / Mem.pendingBytes   the new field `pending_payload_bytes` (= stored bytes of the
                                                       pending Insert records without `reuse_payload_from`; the field is
                                                       reset exactly where the pending records are checkpointed)
    incomingBytes                                      `incoming_payload_bytes` of mutation.rs put_internal
    Mem.overCapacity                                   the exact check
    Mem.prePut                                         the handle at the moment of the check (`enable_vec` and the early
                                                       dimension note of an embedded put have already happened)
    Mem.putR / Mem.updateR / stepR / runR / traceR     put_internal / update_frame / the handle WITH the repair
-/
import MvModel.Core
namespace Mv.Core

/-- stored bytes the next commit appends at the data cursor for this record -/
def Entry.freshBytes : Entry → Nat
  | .insert e => if e.reuseFrom.isNone then e.len else 0
  | _ => 0

/-- the record makes the next commit place a payload (possibly empty) at the data cursor -/
def Entry.isFresh : Entry → Bool
  | .insert e => e.reuseFrom.isNone
  | _ => false

def freshBytes : List (Nat × Entry) → Nat
  | [] => 0
  | r :: rs => r.2.freshBytes + freshBytes rs

def hasFresh : List (Nat × Entry) → Bool
  | [] => false
  | r :: rs => r.2.isFresh || hasFresh rs

/-- `pending_payload_bytes` -/
def Mem.pendingBytes (m : Mem) : Nat := freshBytes m.pending

def chunkBytes : List ChunkArg → Nat
  | [] => 0
  | c :: cs => c.len + chunkBytes cs

/-- `incoming_payload_bytes`: the parent entry's own stored payload (nothing when the payload of an
    existing frame is reused) plus every chunk entry's payload -/
def incomingBytes (a : PutArgs) (reuse : Option Nat) : Nat :=
  (if reuse.isNone then a.len else 0) + chunkBytes a.chunks

/-- the put makes the next commit append payloads: `reuse_payload_from.is_none() || !chunk_entries.is_empty()` -/
def appendsPayload (a : PutArgs) (reuse : Option Nat) : Bool := reuse.isNone || !a.chunks.isEmpty

/-- where the payload region will end once everything pending and this put are committed -/
def Mem.projectedEnd (m : Mem) (a : PutArgs) (reuse : Option Nat) : Nat :=
  m.base + max m.payloadEnd m.dataEnd + m.pendingBytes + incomingBytes a reuse

/-- the exact capacity check (not evaluated for a put that appends nothing: a payload-less update
    without chunks) -/
def Mem.overCapacity (m : Mem) (a : PutArgs) (reuse : Option Nat) : Bool :=
  appendsPayload a reuse && decide (m.projectedEnd a reuse > m.capacityLimit)

/-- the handle when `put_internal` reaches the capacity checks -/
def Mem.prePut (m : Mem) (a : PutArgs) : Mem :=
  match embDims a with
  | d :: _ => m.enableVec.noteDim d
  | [] => m

/-- `put_internal` with the repair: every earlier rejection as before; otherwise the exact check -/
def Mem.putCoreR (m : Mem) (a : PutArgs) (supersedes reuse : Option Nat) (t : Trace) : Mem × Out :=
  let r := m.putCore a supersedes reuse t
  if !r.2.isAck then r
  else if m.overCapacity a reuse then (m.prePut a, .err "capacity")
  else r

def Mem.putR (m : Mem) (a : PutArgs) (t : Trace) : Mem × Out := m.putCoreR a none none t

/-- `reuse_frame` of `update_frame`: the old payload is reused when no new one is given -/
def updReuse (u : UpdArgs) (id : Nat) : Option Nat := if u.payload.isNone then some id else none

/-- `update_frame` with the repair -/
def Mem.updateR (m : Mem) (id : Nat) (u : UpdArgs) (t : Trace) : Mem × Out :=
  let r := m.update id u t
  if !r.2.isAck then r else
  match m.frames[id]? with
  | none => r
  | some old =>
    let a := inheritArgs old u (m.carriedEmb id u.emb)
    if m.loadVec.overCapacity a (updReuse u id) then (m.loadVec.prePut a, .err "capacity") else r

/-- one operation on the repaired handle -/
def stepR (m : Mem) : Op → Mem × Out
  | .put a t => m.putR a t
  | .update id u t => m.updateR id u t
  | op => step m op

def runR (m : Mem) : List Op → Mem
  | [] => m
  | op :: ops => runR (stepR m op).1 ops

def traceR (m : Mem) : List Op → List (Op × Out)
  | [] => []
  | op :: ops => (op, (stepR m op).2) :: traceR (stepR m op).1 ops

/-- absolute end of the payload region (`cached_payload_end`) -/
def Mem.absEnd (m : Mem) : Nat := m.base + m.payloadEnd

end Mv.Core
