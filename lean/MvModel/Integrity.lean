/-
  C20 — the read path of a `.mv2` file as a decision procedure over the file bytes, with every
  integrity check the code performs and — as important — the ones it does NOT perform although a
  checksum is stored.

  Mirrors (memvid `/repo/src`):
    memvid/lifecycle.rs   open_locked, open_read_only_snapshot, read_toc, verify_toc_prefix, recover_toc,
                          ensure_non_overlapping_frames, compute_data_end, load_memories_track,
                          load_logic_mesh, load_sketch_track, load_tail_snapshot
    memvid/search/builders.rs  load_vec_index_from_manifest / load_lex_index_from_manifest (failures swallowed)
    memvid/search/api.rs  init_tantivy + materialize_tantivy_segments (failure → empty engine;
                          out-of-bounds segment → align_footer_with_catalog rewrites TOC + footer)
    memvid/mutation.rs    recover_wal (pending = seq > header.wal_sequence), align_footer_with_catalog
    io/wal.rs             scan_records (record hash over the payload only)
    io/header.rs          HeaderCodec::decode (no checksum)              → MvModel/Header.lean
    footer.rs             find_last_valid_footer                          → MvModel/Footer.lean (C31)
    memvid/frame.rs       validate_frame_bounds, read_frame_payload_bytes, frame_canonical_bytes,
                          document_chunk_payloads
    memvid/maintenance.rs verify(deep)

  The file is ONE byte string; regions (header, WAL, payloads, index segments, TOC, footer) are the
  ranges the header and the TOC designate.  Black boxes are fields of `Codecs` (hash, bincode TOC
  decoder incl. its `verify_checksum` verdict, zstd, the index segment decoders, the WAL entry decoder,
  the legacy trailer scan).  `Checks` says which optional comparisons the source performs; the
  driver fills it from MvModel/Gen/C20.lean (regenerated from the source on every run).
-/
import MvModel.Bytes
import MvModel.Footer
import MvModel.Header
import MvModel.Gen.C20
namespace Mv.Integrity
open Mv

def MAX_INDEX_BYTES : Nat := Mv.Gen.C20.MAX_INDEX_BYTES
def MAX_FRAME_BYTES : Nat := Mv.Gen.C20.MAX_FRAME_BYTES
def HEADER_SIZE : Nat := Mv.Header.HEADER_SIZE
def FOOTER_SIZE : Nat := Mv.Footer.FOOTER_SIZE
def WAL_HDR : Nat := 48

/-- error families of the read path (one per check family) -/
inductive Err
  | io            -- read past the end of the file
  | header        -- HeaderCodec::decode rejected the header
  | toc           -- InvalidToc / Decode: footer, length, hash, prefix, bincode, recovery exhausted, overlap
  | tocChecksum   -- ChecksumMismatch { context: "toc" }
  | wal           -- WalCorruption
  | walEntry      -- a pending WAL record does not decode (replay)
  | frame         -- InvalidFrame: bounds, zstd, canonical length, chunk manifest
  | frameChecksum -- ChecksumMismatch { context: "frame payload" }   (repaired code only)
  | segChecksum   -- "memories track / logic mesh checksum mismatch"
  | seg           -- a segment decode error that is propagated
deriving DecidableEq, Repr

def Err.name : Err → String
  | .io => "io" | .header => "header" | .toc => "toc" | .tocChecksum => "tocChecksum" | .wal => "wal"
  | .walEntry => "walEntry" | .frame => "frame" | .frameChecksum => "frameChecksum"
  | .segChecksum => "segChecksum" | .seg => "seg"

/-- what the read path uses of a `Frame` -/
structure MFrame where
  off : Nat
  len : Nat
  checksum : Bytes
  zstd : Bool
  canonLen : Option Nat
  active : Bool
  /-- `role == Document && chunk_manifest.is_some()`: number of chunks the manifest lists -/
  manifest : Option Nat
  isChunk : Bool
  parent : Option Nat
  chunkIndex : Option Nat
  /-- fingerprint of every other field (uri, title, timestamp, search_text, tags, …) -/
  fmeta : Bytes
deriving DecidableEq, Repr

inductive SegKind | time | lex | vec | memories | mesh | sketch
deriving DecidableEq, Repr

structure MSeg where
  kind : SegKind
  off : Nat
  len : Nat
  checksum : Bytes
deriving DecidableEq, Repr

/-- the decoded TOC, as far as the read path looks into it -/
structure MToc where
  frames : List MFrame
  segs : List MSeg
  /-- verdict of `Toc::verify_checksum` (hash of the canonical re-encoding with a zeroed field
      against the stored `toc_checksum`) -/
  checksumOk : Bool
  /-- fingerprint of every other field -/
  rest : Bytes
deriving DecidableEq, Repr

/-- which optional comparisons the source performs (MvModel/Gen/C20.lean) -/
structure Checks where
  payload : Bool          -- read_frame_payload_bytes compares frame.checksum
  verifyPayload : Bool    -- verify(deep) reads every active payload
  verifySegments : Bool   -- verify(deep) compares every segment checksum
  memories : Bool
  mesh : Bool
  sketch : Bool
  vec : Bool
  lex : Bool
  time : Bool
deriving DecidableEq, Repr

/-- the tree as generated from the source -/
def Checks.ofSource : Checks :=
  { payload := Mv.Gen.C20.PAYLOAD_COMPARED, verifyPayload := Mv.Gen.C20.VERIFY_PAYLOAD_PASS,
    verifySegments := Mv.Gen.C20.VERIFY_SEGMENT_PASS, memories := Mv.Gen.C20.MEMORIES_COMPARED,
    mesh := Mv.Gen.C20.MESH_COMPARED, sketch := Mv.Gen.C20.SKETCH_COMPARED, vec := Mv.Gen.C20.VEC_COMPARED,
    lex := Mv.Gen.C20.LEX_COMPARED, time := Mv.Gen.C20.TIME_COMPARED }

/-- the tree with /verif/fixes/C20.diff applied -/
def Checks.repaired : Checks :=
  { payload := true, verifyPayload := true, verifySegments := true, memories := true, mesh := true,
    sketch := false, vec := false, lex := false, time := false }

/-- the tree before the repair -/
def Checks.unrepaired : Checks :=
  { Checks.repaired with payload := false, verifyPayload := false, verifySegments := false }

def Checks.compared (k : Checks) : SegKind → Bool
  | .time => k.time | .lex => k.lex | .vec => k.vec | .memories => k.memories | .mesh => k.mesh
  | .sketch => k.sketch

/-- a decode failure of the segment is swallowed (the index silently becomes empty/absent) -/
def SegKind.swallowed : SegKind → Bool
  | .lex | .vec => true
  | _ => false

/-- black boxes -/
structure Codecs where
  H : Bytes → Bytes
  /-- `find_last_valid_footer` (C31: equals `Footer.findLast H`) -/
  findFooter : Bytes → Option Footer.FooterSlice
  /-- `Toc::decode` + `Toc::verify_checksum` verdict -/
  decodeToc : Bytes → Option MToc
  unzstd : Bytes → Option Bytes
  /-- decoder of an index segment to its observable content; `none` = it does not decode -/
  view : SegKind → Bytes → Option Bytes
  /-- `decode_wal_entry`: `none` = error, `some true` = frame insert, `some false` = tombstone / lex batch -/
  walEntry : Bytes → Option Bool
  /-- `scan_range_for_toc` over the two ranges of `recover_toc` (pre-footer file layout) -/
  legacyToc : Bytes → Nat → Option (MToc × Nat)

/-! ### header -/

/-- `HeaderCodec::read`: `read_exact` of 4096 bytes, then `decode` -/
def readHeader (file : Bytes) : Except Err Header.Header :=
  if file.length < HEADER_SIZE then .error .io
  else match Header.decode (file.take HEADER_SIZE) with
    | .ok h => .ok h
    | .error _ => .error .header

/-! ### TOC -/

/-- `verify_toc_prefix` -/
def verifyTocPrefix (b : Bytes) : Bool :=
  if b.length < 24 then false
  else
    let version := leVal (slice b 0 8)
    let segments := leVal (slice b 8 8)
    let frames := leVal (slice b 16 8)
    if version > Mv.Gen.C20.MAX_TOC_VERSION then false
    else if segments > Mv.Gen.C20.MAX_SEGMENTS then false
    else if frames > Mv.Gen.C20.MAX_FRAMES then false
    else decide (min (2^64 - 1) (min (2^64 - 1) (segments * Mv.Gen.C20.MIN_SEGMENT_META_BYTES)
                  + min (2^64 - 1) (frames * Mv.Gen.C20.MIN_FRAME_BYTES)) ≤ b.length)

/-- `read_toc(file, header)`: the region `[footer_offset, EOF)` must be TOC ++ footer, the footer must
    decode, carry the TOC length and the hash of the TOC bytes -/
def readToc (C : Codecs) (file : Bytes) (fo : Nat) : Except Err MToc :=
  let len := file.length
  if len < fo then .error .toc
  else if len - fo > MAX_INDEX_BYTES then .error .toc
  else if len - fo < FOOTER_SIZE then .error .toc
  else
    let buf := file.drop fo
    let footerStart := buf.length - FOOTER_SIZE
    match Footer.decode (buf.drop footerStart) with
    | none => .error .toc
    | some f =>
      let tocBytes := buf.take footerStart
      if tocBytes.length ≠ f.tocLen then .error .toc
      else if C.H tocBytes ≠ f.tocHash then .error .toc
      else if !verifyTocPrefix tocBytes then .error .toc
      else match C.decodeToc tocBytes with
        | none => .error .toc
        | some t => .ok t

/-- `recover_toc(file, Some(hint))` → the TOC, its offset, and whether a footer hash vouches for it -/
def recoverToc (C : Codecs) (file : Bytes) (hint : Nat) : Except Err (MToc × Nat × Bool) :=
  let stage1 : Option (MToc × Nat × Bool) :=
    match C.findFooter file with
    | some s => (C.decodeToc s.tocBytes).map (fun t => (t, s.tocOffset, true))
    | none => none
  match stage1 with
  | some r => .ok r
  | none =>
    let len := file.length
    let start := min hint len
    let stage2 : Option (MToc × Nat × Bool) :=
      if len - start ≥ FOOTER_SIZE ∧ len - FOOTER_SIZE > start then
        let tb := slice file start (len - FOOTER_SIZE - start)
        if verifyTocPrefix tb then (C.decodeToc tb).map (fun t => (t, hint, false)) else none
      else none
    match stage2 with
    | some r => .ok r
    | none =>
      match C.legacyToc file hint with
      | some (t, off) => .ok (t, off, false)
      | none => .error .toc

/-- `ensure_non_overlapping_frames`: active frames with a payload, sorted by offset, must not overlap
    and must end inside the file -/
def nonOverlapping (frames : List MFrame) (fileLen : Nat) : Bool :=
  let fs := (frames.filter (fun f => f.active && decide (f.len > 0))).mergeSort (fun a b => decide (a.off ≤ b.off))
  let rec go : List MFrame → Nat → Bool
    | [], _ => true
    | f :: rest, prevEnd =>
      if f.off + f.len ≥ 2^64 then false
      else if f.off + f.len > fileLen then false
      else if f.off < prevEnd then false
      else go rest (f.off + f.len)
  go fs 0

/-! ### WAL -/

structure Rec where
  seq : Nat
  payload : Bytes
deriving DecidableEq, Repr

/-- `scan_records(file, offset, size)`: from the region start to the first zero header; the record
    hash covers the payload only (not the sequence number, not the reserved bytes) -/
def walScanFrom (H : Bytes → Bytes) (file : Bytes) (off size : Nat) : Nat → Nat → List Rec → Except Err (List Rec)
  | 0, _, acc => .ok acc.reverse
  | fuel+1, cursor, acc =>
    if cursor + WAL_HDR ≤ size then
      if off + cursor + WAL_HDR > file.length then .error .io
      else
        let sequence := leVal (slice file (off + cursor) 8)
        let length := leVal (slice file (off + cursor + 8) 4)
        let checksum := slice file (off + cursor + 16) 32
        if sequence = 0 ∧ length = 0 then .ok acc.reverse
        else if length = 0 ∨ cursor + WAL_HDR + length > size then .error .wal
        else if off + cursor + WAL_HDR + length > file.length then .error .io
        else
          let payload := slice file (off + cursor + WAL_HDR) length
          if H payload ≠ checksum then .error .wal
          else walScanFrom H file off size fuel (cursor + WAL_HDR + length) ({ seq := sequence, payload := payload } :: acc)
    else .ok acc.reverse

def walScan (H : Bytes → Bytes) (file : Bytes) (h : Header.Header) : Except Err (List Rec) :=
  walScanFrom H file h.walOffset h.walSize (file.length + 1) 0 []

/-- `records_after(header.wal_sequence)` -/
def pending (h : Header.Header) (rs : List Rec) : List Rec := rs.filter (fun r => r.seq > h.walSequence)

/-! ### index segments -/

def readRange (file : Bytes) (off len : Nat) : Option Bytes :=
  if off + len > file.length ∨ len > MAX_INDEX_BYTES ∨ off + len ≥ 2^64 then none else some (slice file off len)

/-- state of one loaded index -/
inductive Loaded
  | absent                -- no manifest / empty manifest
  | fallback              -- bytes unreadable or undecodable, failure swallowed: empty index
  | ok (v : Bytes)
deriving DecidableEq, Repr

/-- the bytes of the segments are at hand: compare (when the loader does), then decode -/
def loadParts (C : Codecs) (k : Checks) (kind : SegKind) (parts : List (MSeg × Bytes)) : Except Err Loaded :=
  if k.compared kind ∧ parts.any (fun p => C.H p.2 ≠ p.1.checksum) then
    (if kind.swallowed then .ok .fallback else .error .segChecksum)
  else match C.view kind (parts.flatMap (·.2)) with
    | some v => .ok (.ok v)
    | none => if kind.swallowed then .ok .fallback else .error .seg

/-- load one segment kind the way its loader does.  All manifests of the kind are read and handed
    to the decoder together (the Tantivy directory consists of several embedded files). -/
def loadKind (C : Codecs) (k : Checks) (file : Bytes) (t : MToc) (kind : SegKind) : Except Err Loaded :=
  let segs := t.segs.filter (fun s => s.kind = kind ∧ s.len > 0)
  if segs.isEmpty then .ok .absent
  else match segs.mapM (fun s => (readRange file s.off s.len).map (fun b => (s, b))) with
    | none => if kind.swallowed then .ok .fallback else .error .io
    | some parts => loadParts C k kind parts

/-- `materialize_tantivy_segments`: a Tantivy segment that ends past the file or past the TOC offset
    makes `align_footer_with_catalog` move the footer to the end of the catalog and REWRITE the TOC
    and the footer with fresh checksums (when the catalog end lies beyond the current TOC offset) -/
def realigns (t : MToc) (fileLen fo : Nat) : Bool :=
  let lex := t.segs.filter (fun s => s.kind = .lex ∧ s.len > 0)
  let catalogEnd := ((t.segs.filter (fun s => (s.kind = .lex ∨ s.kind = .vec ∨ s.kind = .time) ∧ s.len > 0)).map
                      (fun s => s.off + s.len)).foldl max 0
  lex.any (fun s => decide (s.off + s.len > fileLen ∨ s.off + s.len > fo)) && decide (catalogEnd > fo)

/-! ### the open handle -/

structure Handle where
  file : Bytes
  hdr : Header.Header
  toc : MToc
  dataEnd : Nat
  /-- frames appended by the WAL replay of a writable open -/
  replayed : Nat
  lex : Loaded
  vec : Loaded
  memories : Loaded
  mesh : Loaded
  sketch : Loaded
  /-- the TOC in use was never vouched for by a footer hash or by its own checksum -/
  laundered : Bool
deriving DecidableEq, Repr

/-- `compute_data_end` -/
def computeDataEnd (t : MToc) (h : Header.Header) : Nat :=
  let a := max (h.walOffset + h.walSize) h.footerOffset
  let b := ((t.frames.filter (fun f => f.active && decide (f.len > 0))).map (fun f => f.off + f.len)).foldl max a
  (t.segs.map (fun s => s.off + s.len)).foldl max b

/-- first stage of `open_locked`: header, then the TOC through `read_toc`, and through `recover_toc`
    when that fails (the header's `footer_offset` is then replaced by the recovered offset).
    The flag says whether a footer hash vouches for the TOC bytes. -/
def rwToc (C : Codecs) (file : Bytes) : Except Err (Header.Header × MToc × Bool) :=
  match readHeader file with
  | .error e => .error e
  | .ok hdr0 =>
    match readToc C file hdr0.footerOffset with
    | .ok t => .ok (hdr0, t, true)
    | .error _ =>
      match recoverToc C file hdr0.footerOffset with
      | .ok (t, off, v) => .ok ({ hdr0 with footerOffset := off }, t, v)
      | .error e => .error e

/-- the deferred `if checksum_result.is_err() { self.toc.verify_checksum()? }` at the end of
    `open_locked`: it looks at the TOC the handle holds THEN — rewritten with a fresh checksum when
    `align_footer_with_catalog` ran or when WAL records were replayed -/
def finalTocOk (toc : MToc) (realigned pendEmpty : Bool) : Bool :=
  toc.checksumOk || realigned || !pendEmpty

/-- the indexes loaded at open, in the order lex, vec, memories, mesh, sketch -/
structure Indexes where
  lex : Loaded
  vec : Loaded
  memories : Loaded
  mesh : Loaded
  sketch : Loaded
deriving DecidableEq, Repr

def loadAll (C : Codecs) (k : Checks) (file : Bytes) (toc : MToc) : Except Err Indexes :=
  match loadKind C k file toc .lex, loadKind C k file toc .vec, loadKind C k file toc .memories,
        loadKind C k file toc .mesh, loadKind C k file toc .sketch with
  | .ok lex, .ok vec, .ok memories, .ok mesh, .ok sketch =>
    .ok { lex := lex, vec := vec, memories := memories, mesh := mesh, sketch := sketch }
  | .error e, _, _, _, _ => .error e
  | _, .error e, _, _, _ => .error e
  | _, _, .error e, _, _ => .error e
  | _, _, _, .error e, _ => .error e
  | _, _, _, _, .error e => .error e

/-- `Memvid::open` (`open_locked`) -/
def openRW (C : Codecs) (k : Checks) (file : Bytes) : Except Err Handle :=
  match rwToc C file with
  | .error e => .error e
  | .ok (hdr, toc, vouched) =>
    if !nonOverlapping toc.frames file.length then .error .toc else
    match walScan C.H file hdr with
    | .error e => .error e
    | .ok recs =>
      -- recover_wal: pending records are decoded and applied; the TOC is rewritten afterwards
      if ((pending hdr recs).map (fun r => C.walEntry r.payload)).any (·.isNone) then .error .walEntry else
      -- init_tantivy: every failure is swallowed; an out-of-bounds segment rewrites TOC + footer
      if !finalTocOk toc (realigns toc file.length hdr.footerOffset) (pending hdr recs).isEmpty then .error .tocChecksum else
      match loadAll C k file toc with
      | .error e => .error e
      | .ok ix =>
        .ok { file := file, hdr := hdr, toc := toc, dataEnd := computeDataEnd toc hdr,
              replayed := (((pending hdr recs).map (fun r => C.walEntry r.payload)).filter (· = some true)).length,
              lex := ix.lex, vec := ix.vec, memories := ix.memories, mesh := ix.mesh, sketch := ix.sketch,
              laundered := (!vouched || !toc.checksumOk) }

/-- the TOC a read-only open uses: the one in front of the last valid footer, and it must pass its
    own checksum (`load_tail_snapshot`) -/
def roToc (C : Codecs) (file : Bytes) : Except Err (Footer.FooterSlice × MToc) :=
  match C.findFooter file with
  | none => .error .toc
  | some s =>
    match C.decodeToc s.tocBytes with
    | none => .error .toc
    | some t => if t.checksumOk then .ok (s, t) else .error .tocChecksum

/-- `Memvid::open_read_only` (`open_read_only_snapshot`): the TOC comes from the last valid footer
    only (`load_tail_snapshot`), the header's `footer_offset` / `toc_checksum` are ignored, the WAL is
    scanned but never replayed -/
def openRO (C : Codecs) (k : Checks) (file : Bytes) : Except Err Handle :=
  match roToc C file with
  | .error e => .error e
  | .ok (s, toc) =>
    match readHeader file with
    | .error e => .error e
    | .ok hdr0 =>
      match walScan C.H file { hdr0 with footerOffset := s.footerOffset } with
      | .error e => .error e
      | .ok _ =>
        match loadAll C k file toc with
        | .error e => .error e
        | .ok ix =>
          .ok { file := file, hdr := { hdr0 with footerOffset := s.footerOffset }, toc := toc,
                dataEnd := s.footerOffset, replayed := 0,
                lex := ix.lex, vec := ix.vec, memories := ix.memories, mesh := ix.mesh, sketch := ix.sketch,
                laundered := false }

/-! ### reads -/

/-- `validate_frame_bounds` -/
def boundsOk (h : Handle) (f : MFrame) : Bool :=
  if f.len = 0 then true
  else if f.len > MAX_FRAME_BYTES then false
  else if f.off < h.hdr.walOffset + h.hdr.walSize then false
  else if f.off + f.len ≥ 2^64 then false
  else if f.off + f.len > h.dataEnd then false
  else if f.off + f.len > h.file.length then false
  else true

/-- `read_frame_payload_bytes` -/
def readRaw (C : Codecs) (k : Checks) (h : Handle) (f : MFrame) : Except Err Bytes :=
  if !boundsOk h f then .error .frame
  else
    let raw := slice h.file f.off f.len
    if k.payload ∧ raw ≠ [] ∧ C.H raw ≠ f.checksum then .error .frameChecksum else .ok raw

/-- raw bytes → canonical bytes: zstd decode, canonical length check -/
def decodeCanonical (C : Codecs) (f : MFrame) (raw : Bytes) : Except Err Bytes :=
  match (if f.zstd then C.unzstd raw else some raw) with
  | none => .error .frame
  | some d =>
    match f.canonLen with
    | some n => if d.length ≠ n then .error .frame else .ok d
    | none => .ok d

def readOne (C : Codecs) (k : Checks) (h : Handle) (f : MFrame) : Except Err Bytes :=
  match readRaw C k h f with
  | .error e => .error e
  | .ok raw => decodeCanonical C f raw

/-- `document_chunk_frames`: active chunk children of `parent`, by (chunk_index, id) -/
def children (t : MToc) (parent : Nat) : List MFrame :=
  let idx := (List.range t.frames.length).zip t.frames
  let cs := idx.filter (fun p => p.2.active && p.2.isChunk && decide (p.2.parent = some parent))
  let key := fun (p : Nat × MFrame) => p.2.chunkIndex.getD (2^32 - 1)
  (cs.mergeSort (fun a b => decide (key a < key b ∨ (key a = key b ∧ a.1 ≤ b.1)))).map (·.2)

def concatAll : List (Except Err Bytes) → Except Err Bytes
  | [] => .ok []
  | .error e :: _ => .error e
  | .ok b :: rest => match concatAll rest with
    | .error e => .error e
    | .ok bs => .ok (b ++ bs)

/-- `frame_canonical_payload(id)` -/
def framePayload (C : Codecs) (k : Checks) (h : Handle) (id : Nat) : Except Err Bytes :=
  match h.toc.frames[id]? with
  | none => .error .frame
  | some f =>
    match f.manifest with
    | some n =>
      let cs := children h.toc id
      if cs.isEmpty then .error .frame
      else if cs.length ≠ n then .error .frame
      else concatAll (cs.map (readOne C k h))
    | none => readOne C k h f

/-- the time index is read by `timeline()`, not at open; a decode error is propagated -/
def timeIndex (C : Codecs) (k : Checks) (h : Handle) : Except Err Loaded :=
  loadKind C k h.file h.toc .time

/-- every read of the handle, as the caller sees it -/
structure Obs where
  count : Nat
  metas : List Bytes
  rest : Bytes
  payloads : List (Except Err Bytes)
  time : Except Err Loaded
  lex : Loaded
  vec : Loaded
  memories : Loaded
  mesh : Loaded
  sketch : Loaded

def readAll (C : Codecs) (k : Checks) (h : Handle) : Obs :=
  { count := h.toc.frames.length + h.replayed,
    metas := h.toc.frames.map (·.fmeta),
    rest := h.toc.rest,
    payloads := (List.range h.toc.frames.length).map (framePayload C k h),
    time := timeIndex C k h,
    lex := h.lex, vec := h.vec, memories := h.memories, mesh := h.mesh, sketch := h.sketch }

/-! ### verify(deep) -/

inductive Verdict | passed | failed
deriving DecidableEq, Repr

/-- `Memvid::verify(path, deep = true)`: read-only open, then the checks; a failed open is an error.
    Checks of the code before the repair: time index decodes, (legacy) lex and vec indexes "decode"
    (failures are swallowed by the loaders, so these two never fail), no pending WAL record, frame
    count.  The repair adds the payload pass and the segment checksum pass. -/
def timeOk (C : Codecs) (k : Checks) (h : Handle) : Bool :=
  match timeIndex C k h with
  | .ok _ => true
  | .error _ => false

def walOk (C : Codecs) (file : Bytes) (h : Handle) : Bool :=
  match walScan C.H file h.hdr with
  | .ok rs => (pending h.hdr rs).isEmpty
  | .error _ => false

/-- the payload pass of the repaired `verify(deep)`: `read_frame_payload_bytes` of every active frame -/
def payloadOk (C : Codecs) (k : Checks) (h : Handle) : Bool :=
  (h.toc.frames.filter (fun f => f.active && decide (f.len > 0))).all (fun f => (readRaw C k h f).toOption.isSome)

/-- the segment pass of the repaired `verify(deep)`: every embedded segment hashes to its manifest's checksum -/
def segOk (C : Codecs) (file : Bytes) (h : Handle) : Bool :=
  (h.toc.segs.filter (fun s => decide (s.len > 0))).all (fun s =>
    match readRange file s.off s.len with
    | some b => decide (C.H b = s.checksum)
    | none => false)

def verifyChecks (C : Codecs) (k : Checks) (file : Bytes) (h : Handle) : Verdict :=
  if timeOk C k h && walOk C file h && (!k.verifyPayload || payloadOk C k h) && (!k.verifySegments || segOk C file h)
  then .passed else .failed

def verify (C : Codecs) (k : Checks) (file : Bytes) : Except Err Verdict :=
  match openRO C k file with
  | .error e => .error e
  | .ok h => .ok (verifyChecks C k file h)

end Mv.Integrity
