//! C34 — chunk planning partitions the document text.
//! impl: memvid_core::verif_hooks::{plan_text_chunks, plan_naive_chunks, build_chunk_manifest,
//!       choose_chunk_boundary, slice_text_range, chunk_constants} (cfg(memvid_verif) wrappers around
//!       src/memvid/chunks.rs) + public normalize_text / detect_structure;
//! model: drv_c34 (`manifest`, `choose`, `slice`, `naive`, `plan`, `structok`, `wslist`, `terms`, `consts`);
//! oracle: the partition property restated over the implementation's outputs (naive path) and the
//!       line-coverage / non-empty clause over the structural chunker's output (validation only).
use memvid_core::verif_hooks as vh;
use memvid_core::{Memvid, detect_structure, normalize_text};
use mvh::*;

type PlanData = Option<(Vec<(usize, usize)>, Vec<String>)>;

fn hext(s: &str) -> String { hexw(s.as_bytes()) }

fn show_ranges(rs: &[(usize, usize)]) -> String {
    if rs.is_empty() { "-".into() } else { rs.iter().map(|(s, e)| format!("{s}-{e}")).collect::<Vec<_>>().join(",") }
}
fn show_chunks(cs: &[String]) -> String {
    if cs.is_empty() { "-".into() } else { cs.iter().map(|c| hext(c)).collect::<Vec<_>>().join(",") }
}
fn show_plan(p: &PlanData) -> String {
    match p {
        None => "none".into(),
        Some((rs, cs)) => format!("some {} {}", show_ranges(rs), show_chunks(cs)),
    }
}
fn nchars(s: &str) -> usize { s.chars().count() }
fn sub_chars(s: &str, a: usize, b: usize) -> String {
    if a >= b { String::new() } else { s.chars().skip(a).take(b - a).collect() }
}

// ---------------------------------------------------------------------------------------
// property oracle, naive path: ranges partition 0..n, chunks are the slices, concat = text
fn partition_oracle(text: &str, ranges: &[(usize, usize)], chunks: Option<&[String]>) -> Option<(&'static str, String)> {
    let n = nchars(text);
    if ranges.is_empty() { return Some(("no-ranges", "manifest has no ranges".into())); }
    if ranges[0].0 != 0 { return Some(("first-range-not-at-zero", format!("first range starts at {}", ranges[0].0))); }
    if ranges[ranges.len() - 1].1 != n {
        return Some(("last-range-not-at-end", format!("last range ends at {} but the text has {} chars", ranges[ranges.len() - 1].1, n)));
    }
    for (i, (s, e)) in ranges.iter().enumerate() {
        if s >= e { return Some(("empty-range", format!("range {i} = {s}..{e} is empty"))); }
        if i + 1 < ranges.len() && *e != ranges[i + 1].0 {
            return Some(("ranges-not-contiguous", format!("range {i} ends at {e}, range {} starts at {}", i + 1, ranges[i + 1].0)));
        }
    }
    if let Some(cs) = chunks {
        if cs.len() != ranges.len() { return Some(("chunk-count-differs", format!("{} chunks for {} ranges", cs.len(), ranges.len()))); }
        for (i, c) in cs.iter().enumerate() {
            if c.is_empty() { return Some(("empty-chunk", format!("chunk {i} is empty"))); }
            if *c != sub_chars(text, ranges[i].0, ranges[i].1) {
                return Some(("chunk-is-not-its-range", format!("chunk {i} differs from chars {}..{} of the text", ranges[i].0, ranges[i].1)));
            }
        }
        if cs.concat() != text { return Some(("chunks-do-not-concatenate-to-text", "concat(chunks) != normalized text".into())); }
    }
    None
}

// ---------------------------------------------------------------------------------------
// structural clause (validation only): no chunk empty; every non-blank line (trimmed) of the
// normalized text is a substring of some chunk.  Failures are classified by what is missing.
fn skeleton(s: &str) -> String { s.chars().filter(|c| c.is_alphanumeric()).collect() }

struct StructVerdict { sig: &'static str, what: String, line_idx: usize }

fn structural_oracle(text: &str, chunks: &[String]) -> Vec<StructVerdict> {
    let mut out = Vec::new();
    for (i, c) in chunks.iter().enumerate() {
        if c.is_empty() {
            out.push(StructVerdict { sig: "structural-empty-chunk", what: format!("chunk {i} is empty"), line_idx: i });
            return out;
        }
    }
    let skels: Vec<String> = chunks.iter().map(|c| skeleton(c)).collect();
    let all_skel: String = skels.concat();
    for (i, line) in text.split('\n').enumerate() {
        let t = line.trim();
        if t.is_empty() { continue; }
        if chunks.iter().any(|c| c.contains(t)) { continue; }
        // alphanumeric content of the line without a leading list number ("12. item" is re-numbered by design)
        let body = {
            let digits = t.chars().take_while(|c| c.is_ascii_digit()).count();
            if digits > 0 && t[digits..].starts_with(". ") { &t[digits + 2..] } else { t }
        };
        let sk = skeleton(body);
        // horizontal rule (`---`, `***`, `___`) or table separator row (`|---|:---:|`)
        let is_rule = t.chars().count() >= 3 && (t.chars().all(|c| c == '-') || t.chars().all(|c| c == '*') || t.chars().all(|c| c == '_'));
        let is_table_sep = t.starts_with('|') && t.contains('-') && t.chars().all(|c| matches!(c, '|' | '-' | ':' | ' '));
        let squeeze = |x: &str| -> String { x.chars().filter(|c| !c.is_whitespace()).collect() };
        let tq = squeeze(t);
        let (sig, what) = if chunks.iter().any(|c| squeeze(c).contains(&tq)) {
            ("structural-line-reformatted", format!("line {i} {t:?} appears only with different spacing"))
        } else if sk.is_empty() && (is_rule || is_table_sep) {
            ("structural-markup-only-line-not-in-any-chunk", format!("line {i} {t:?} (horizontal rule / table separator row, no alphanumeric content) is in no chunk"))
        } else if sk.is_empty() {
            ("structural-line-content-lost", format!("line {i} {t:?} is in no chunk in any form"))
        } else if skels.iter().any(|s| s.contains(&sk)) {
            ("structural-line-reformatted", format!("line {i} {t:?} appears only re-formatted (same alphanumeric content, different spacing/markup)"))
        } else if all_skel.contains(&sk) {
            ("structural-line-split-across-chunks", format!("line {i} {t:?} appears only split across chunk borders"))
        } else {
            ("structural-line-content-lost", format!("line {i} {t:?}: its alphanumeric content is in no chunk"))
        };
        out.push(StructVerdict { sig, what, line_idx: i });
    }
    out
}

// ---------------------------------------------------------------------------------------
// generators
const LETTERS: &[char] = &['a', 'b', 'c', 'd', 'e', 'f', 'g', 'h', 'i', 'k', 'l', 'm', 'n', 'o', 'r', 's', 't', 'u', 'w', 'x', 'y', 'z',
    'A', 'Z', 'Q', '0', '1', '7', '9', '-', '_', '\'', '"', '(', ')', ',', ';', ':', '/', '%', '$', '#', '|', '`', '*', '>', '+', '='];
const WIDE_LETTERS: &[char] = &['é', 'ß', 'ø', 'Ω', 'ж', '漢', '字', 'あ', '한', '😀', '𝒳', '\u{301}', '\u{200b}', '\u{feff}', '\u{2060}',
    '\u{180e}', '\u{1c}', '\u{1f}', '\u{7f}', '\u{1}', '\0', '。', '!', '?', '․', '…', '¡', '¿', '\u{ad}', '\u{e000}', '\u{10ffff}'];
const WS: &[char] = &[' ', ' ', ' ', ' ', '\t', '\r', '\u{b}', '\u{c}', '\u{85}', '\u{a0}', '\u{1680}', '\u{2000}', '\u{2003}', '\u{200a}',
    '\u{2028}', '\u{2029}', '\u{202f}', '\u{205f}', '\u{3000}'];
const TERMS: &[char] = &['.', '.', '.', '!', '?'];

fn letter(rng: &mut Rng, wide: bool) -> char {
    if wide && rng.chance(1, 4) { *rng.pick(WIDE_LETTERS) } else { *rng.pick(LETTERS) }
}
fn space(rng: &mut Rng, wide: bool) -> char {
    if wide && rng.chance(1, 3) { *rng.pick(WS) } else { ' ' }
}

/// prose: words, sentence ends, line ends, whitespace runs; `long_word` = chance (in 1000) that a
/// word is 40..(maxw) letters long
fn prose(rng: &mut Rng, len: usize, wide: bool, long_word: u64, maxw: usize, p_nl: u64) -> String {
    let mut v: Vec<char> = Vec::with_capacity(len + 16);
    while v.len() < len {
        let wl = if rng.below(1000) < long_word { rng.usize(40, maxw) } else { rng.usize(1, 11) };
        for _ in 0..wl { v.push(letter(rng, wide)); }
        match rng.below(100) {
            0..=11 => { v.push(*rng.pick(TERMS)); if rng.chance(4, 5) { v.push(space(rng, wide)); } }
            12..=13 => { v.push(*rng.pick(TERMS)); v.push('\n'); }
            x if x < 14 + p_nl => v.push('\n'),
            30..=33 => { for _ in 0..rng.usize(2, 6) { v.push(space(rng, wide)); } }
            34 => { v.push(','); v.push(' '); }
            _ => v.push(space(rng, wide)),
        }
    }
    v.truncate(len);
    v.into_iter().collect()
}

/// a text of `len` chars for chunk size `cc`, made of one filler letter with boundary characters
/// planted around the positions the boundary chooser looks at (target, target±1, window edges)
fn planted(rng: &mut Rng, len: usize, cc: usize, wide: bool) -> String {
    let slack = (cc / 5).max(32);
    let mut v: Vec<char> = (0..len).map(|_| if rng.chance(1, 50) { letter(rng, wide) } else { 'a' }).collect();
    let specials: &[char] = if wide { &['\n', '.', '!', '?', ' ', '\u{2003}', '\u{a0}', '\t', '\u{200b}', '。'] } else { &['\n', '.', '!', '?', ' ', '\t'] };
    let offs: [i64; 12] = [-2, -1, 0, 1, 2, slack as i64 - 2, slack as i64 - 1, slack as i64, slack as i64 + 1, -(cc as i64), 1 - cc as i64, -(cc as i64) - 1];
    let mut k = 1usize;
    while k * cc < len + cc {
        let n = rng.below(4);
        for _ in 0..n {
            let p = (k * cc) as i64 + *rng.pick(&offs) + if rng.chance(1, 5) { rng.i64(-40, 40) } else { 0 };
            if p >= 0 && (p as usize) < len { v[p as usize] = *rng.pick(specials); }
        }
        k += 1;
    }
    // a few more anywhere
    for _ in 0..rng.below(4) { if len > 0 { let p = rng.usize(0, len - 1); v[p] = *rng.pick(specials); } }
    v.into_iter().collect()
}

fn gen_text(rng: &mut Rng, len: usize, cc: usize, wide: bool) -> String {
    match rng.below(10) {
        0 => (0..len).map(|_| letter(rng, wide)).collect(),                         // one long word
        1 | 2 | 3 => planted(rng, len, cc, wide),
        4 => (0..len).map(|_| if rng.chance(1, 2) { space(rng, true) } else { letter(rng, wide) }).collect(), // whitespace heavy
        5 => prose(rng, len, wide, 120, (cc * 2).max(41), 6),
        6 => (0..len).map(|_| *rng.pick(&['.', '\n', ' ', 'a', '!', 'b', '?', '\t'])).collect(),
        _ => prose(rng, len, wide, 15, (cc + cc / 2).max(41), 6),
    }
}

// ---------------------------------------------------------------------------------------
// raw documents for the plan_text_chunks stream
fn words(rng: &mut Rng, n: usize) -> String {
    (0..n).map(|_| { let l = rng.usize(2, 9); (0..l).map(|_| *rng.pick(&LETTERS[..22])).collect::<String>() }).collect::<Vec<_>>().join(" ")
}
fn paragraph(rng: &mut Rng, target: usize) -> String {
    let mut s = String::new();
    while s.len() < target {
        let n = rng.usize(3, 14);
        s.push_str(&words(rng, n));
        s.push(*rng.pick(TERMS));
        s.push(if rng.chance(1, 9) { '\n' } else { ' ' });
    }
    s.trim_end().to_string()
}
fn table(rng: &mut Rng) -> String {
    let cols = rng.usize(2, 5);
    let rows = if rng.chance(1, 3) { rng.usize(20, 70) } else { rng.usize(1, 8) };
    let tight = rng.chance(1, 4);
    let row = |rng: &mut Rng, cells: Vec<String>| -> String {
        if tight { format!("|{}|", cells.join("|")) } else { let _ = rng; format!("| {} |", cells.join(" | ")) }
    };
    let mut out = Vec::new();
    let hdr: Vec<String> = (0..cols).map(|_| words(rng, 1)).collect();
    out.push(row(rng, hdr));
    let sep: Vec<String> = (0..cols).map(|_| match rng.below(4) { 0 => "---".to_string(), 1 => ":---:".to_string(), 2 => "------".to_string(), _ => "---".to_string() }).collect();
    out.push(if tight { format!("|{}|", sep.join("|")) } else { format!("| {} |", sep.join(" | ")) });
    for _ in 0..rows {
        let cells: Vec<String> = (0..cols).map(|_| if rng.chance(1, 10) { String::from("") } else { let n = rng.usize(1, 3); words(rng, n) }).collect();
        out.push(row(rng, cells));
    }
    out.join("\n")
}
fn code_block(rng: &mut Rng) -> String {
    let lang = *rng.pick(&["", "rust", "python", "js"]);
    let lines = if rng.chance(1, 3) { rng.usize(30, 90) } else { rng.usize(1, 12) };
    let mut out = vec![format!("```{lang}")];
    for _ in 0..lines {
        out.push(match rng.below(6) {
            0 => format!("fn {}() {{", words(rng, 1)),
            1 => "}".to_string(),
            2 => format!("    let {} = {};", words(rng, 1), rng.below(100)),
            3 => format!("def {}(x):", words(rng, 1)),
            4 => String::new(),
            _ => format!("    {}({});", words(rng, 1), words(rng, 1)),
        });
    }
    if !rng.chance(1, 12) { out.push("```".to_string()); }
    out.join("\n")
}
fn list(rng: &mut Rng) -> String {
    let n = rng.usize(1, 8);
    let kind = rng.below(4);
    (0..n).map(|i| { let w = { let k = rng.usize(1, 7); words(rng, k) }; match kind { 0 => format!("- {w}"), 1 => format!("* {w}"), 2 => format!("+ {w}"), _ => format!("{}. {w}", i + 1) } }).collect::<Vec<_>>().join("\n")
}
fn document(rng: &mut Rng, approx: usize, structured: bool) -> String {
    let mut parts: Vec<String> = Vec::new();
    let mut total = 0;
    while total < approx {
        let p = match rng.below(if structured { 17 } else { 9 }) {
            0 => match rng.below(5) {
                0 => format!("{} {} ##", "#".repeat(rng.usize(1, 4)), words(rng, 2)),
                1 => format!("{} {}", "#".repeat(rng.usize(5, 8)), words(rng, 2)),
                _ => format!("{} {}", "#".repeat(rng.usize(1, 4)), words(rng, 3)),
            },
            14 => match rng.below(4) {
                // structure-looking lines that are not a complete structure
                0 => format!("| {} |", words(rng, 3)),
                1 => format!("```{}", *rng.pick(&["", "js", "rust"])),
                2 => format!("| {} | {} |\n{}", words(rng, 1), words(rng, 1), paragraph(rng, 50)),
                _ => format!("{}\n| {} |\n{}", paragraph(rng, 40), words(rng, 2), paragraph(rng, 40)),
            },
            15 => { // ordered list with gaps / odd starts
                let mut k = rng.usize(0, 40);
                (0..rng.usize(1, 6)).map(|_| { k += rng.usize(1, 3); format!("{k}. {}", words(rng, 3)) }).collect::<Vec<_>>().join("\n")
            }
            16 => { // ragged table
                let mut t = vec![format!("| {} | {} | {} |", words(rng, 1), words(rng, 1), words(rng, 1)), "|---|---|---|".to_string()];
                for _ in 0..rng.usize(1, 30) {
                    let n = rng.usize(1, 5);
                    t.push(format!("| {} |", (0..n).map(|_| words(rng, 1)).collect::<Vec<_>>().join(" | ")));
                }
                t.join("\n")
            }
            1 => list(rng),
            2 => (*rng.pick(&["---", "***", "___", "-----"])).to_string(),
            3 => format!("> {}", paragraph(rng, 60)),
            4..=8 => { let t = rng.usize(40, 700); paragraph(rng, t) }
            9..=11 => table(rng),
            _ => code_block(rng),
        };
        total += p.len() + 2;
        parts.push(p);
    }
    let sep = if rng.chance(1, 6) { "\r\n\r\n" } else if rng.chance(1, 6) { "\n" } else { "\n\n" };
    parts.join(sep)
}

/// a horizontal rule is a chunk break and appears in no chunk (by design)
const WITNESS_RULE_DROPPED: &str = "Intro paragraph.\n\n***\n\n| a | b |\n|---|---|\n| 1 | 2 |\n\n";
/// list markers are normalised to `- ` (by design)
const WITNESS_LIST_REFORMATTED: &str = "* item one\n* item two\n\n| a | b |\n|---|---|\n| 1 | 2 |\n\n";
/// a table-row-looking line that is not part of a table is silently dropped by detect_structure (defect)
const WITNESS_LINE_LOST: &str = "| this line is lost |\n\nSome text.\n\n| a | b |\n|---|---|\n| 1 | 2 |\n\n";

// ---------------------------------------------------------------------------------------
// cases
#[derive(Clone, Debug)]
enum Case {
    Manifest { text: String, cc: usize },
    Choose { text: String, start: usize, target: usize, slack: usize },
    Naive { text: String },
    Plan { raw: String },
}

impl Case {
    fn to_json(&self) -> Value {
        match self {
            Case::Manifest { text, cc } => json!({"kind": "manifest", "text": hext(text), "cc": cc}),
            Case::Choose { text, start, target, slack } => json!({"kind": "choose", "text": hext(text), "start": start, "target": target, "slack": slack}),
            Case::Naive { text } => json!({"kind": "naive", "text": hext(text)}),
            Case::Plan { raw } => json!({"kind": "plan", "raw": hext(raw)}),
        }
    }
    fn from_json(v: &Value) -> Option<Case> {
        // texts: hex of the UTF-8 bytes under <k>, or the plain string under <k>_text
        let txt = |k: &str| -> Option<String> {
            if let Some(plain) = v[format!("{k}_text").as_str()].as_str() { return Some(plain.to_string()); }
            String::from_utf8(unhexw(v[k].as_str()?)?).ok()
        };
        let num = |k: &str| -> Option<usize> { v[k].as_u64().map(|x| x as usize) };
        match v["kind"].as_str()? {
            "manifest" => Some(Case::Manifest { text: txt("text")?, cc: num("cc")? }),
            "choose" => Some(Case::Choose { text: txt("text")?, start: num("start")?, target: num("target")?, slack: num("slack")? }),
            "naive" => Some(Case::Naive { text: txt("text")? }),
            "plan" => Some(Case::Plan { raw: txt("raw")? }),
            _ => None,
        }
    }
}

struct Ctx { drv: Option<Driver>, known: Vec<String>, verbose: bool, min_chars: usize, dflt: usize, mem: Option<Memvid> }

impl Ctx {
    fn ask(&mut self, line: &str) -> Option<String> { self.drv.as_mut().map(|d| d.ask(line)) }
}

fn boundary_branches(text: &str, ranges: &[(usize, usize)], cc: usize, sum: &mut Summary) {
    let chars: Vec<char> = text.chars().collect();
    let n = chars.len();
    for (s, e) in ranges {
        let target = (s + cc).min(n);
        if *e == n && target >= n { sum.branch("boundary-final"); continue; }
        if *e == 0 || *e > n { continue; }
        let prev = chars[e - 1];
        let dir = if *e > target { "forward" } else if *e < target { "backward" } else { "at-target" };
        if prev == '\n' { sum.branch(&format!("boundary-newline-{dir}")); }
        else if matches!(prev, '.' | '!' | '?') { sum.branch(&format!("boundary-sentence-{dir}")); }
        else if prev.is_whitespace() { sum.branch(&format!("boundary-whitespace-{dir}")); }
        else { sum.branch(&format!("boundary-hard-cut-{dir}")); }
    }
}

fn run_case(case: &Case, cx: &mut Ctx, sum: &mut Summary) {
    match case {
        Case::Manifest { text, cc } => {
            let t = text.clone(); let c = *cc;
            let imp = match guarded(move || vh::build_chunk_manifest(&t, c)) {
                Ok(r) => r,
                Err(p) => { sum.oracle_violation("panic-in-build-chunk-manifest", &p, case.to_json()); return; }
            };
            let imp_s = match &imp { None => "none".to_string(), Some(rs) => format!("some {}", show_ranges(rs)) };
            if cx.verbose { println!("impl : {imp_s}"); }
            if let Some(m) = cx.ask(&format!("manifest {} {}", cc, hext(text))) {
                if cx.verbose { println!("model: {m}"); }
                if m != imp_s { sum.disagreement("build_chunk_manifest vs model manifest", case.to_json(), &m, &imp_s); }
            }
            let n = nchars(text);
            match &imp {
                None => {
                    sum.branch("manifest-none");
                    if *cc > 0 && n > *cc {
                        sum.oracle_violation("no-manifest-for-long-text", &format!("{n} chars > chunk size {cc} but no manifest"), case.to_json());
                    }
                }
                Some(rs) => {
                    sum.branch("manifest-some");
                    if rs.len() == 1 { sum.branch("manifest-single-range"); }
                    boundary_branches(text, rs, *cc, sum);
                    // slices through the real slice_text_range
                    let chunks: Vec<String> = rs.iter().map(|(s, e)| vh::slice_text_range(text, *s, *e)).collect();
                    if let Some((sig, what)) = partition_oracle(text, rs, Some(&chunks)) {
                        sum.oracle_violation(sig, &what, case.to_json());
                    }
                    let slack = (cc / 5).max(32);
                    if let Some((s, e)) = rs.iter().find(|(s, e)| e - s > cc + slack) {
                        sum.oracle_violation("range-longer-than-chunk-plus-slack", &format!("range {s}..{e} with chunk size {cc}"), case.to_json());
                    }
                }
            }
            let canon = format!("M|{}|{}|{}", cc, b3short(text.as_bytes()), imp_s);
            sum.case(&canon, imp.is_some(), || json!({"kind": "manifest", "chars": n, "chunk_chars": cc, "impl": imp_s.chars().take(200).collect::<String>()}));
        }
        Case::Choose { text, start, target, slack } => {
            let (t, s, tg, sl) = (text.clone(), *start, *target, *slack);
            let imp = match guarded(move || vh::choose_chunk_boundary(&t, s, tg, sl)) {
                Ok(r) => r,
                Err(p) => {
                    // only calls with start < target <= total are made by build_chunk_manifest
                    if *start < *target && *target <= nchars(text) {
                        sum.oracle_violation("panic-in-choose-chunk-boundary", &p, case.to_json());
                    } else { sum.branch("choose-panic-outside-precondition"); }
                    return;
                }
            };
            if cx.verbose { println!("impl : {imp}"); }
            if let Some(m) = cx.ask(&format!("choose {} {} {} {}", start, target, slack, hext(text))) {
                if cx.verbose { println!("model: {m}"); }
                if m != imp.to_string() { sum.disagreement("choose_chunk_boundary vs model choose", case.to_json(), &m, &imp.to_string()); }
            }
            let n = nchars(text);
            let pre = *start < *target && *target <= n;
            if pre {
                sum.branch("choose-in-precondition");
                if !(imp > *start && imp <= n && imp <= target + slack) {
                    sum.oracle_violation("boundary-outside-window", &format!("boundary {imp} for start {start} target {target} slack {slack} total {n}"), case.to_json());
                }
                if imp > *target { sum.branch("choose-forward"); } else if imp < *target { sum.branch("choose-backward"); } else { sum.branch("choose-at-target"); }
            } else { sum.branch("choose-outside-precondition"); }
            let canon = format!("C|{start}|{target}|{slack}|{}|{imp}", b3short(text.as_bytes()));
            sum.case(&canon, pre, || json!({"kind": "choose", "chars": n, "start": start, "target": target, "slack": slack, "impl": imp}));
        }
        Case::Naive { text } => {
            let t = text.clone();
            let imp: PlanData = match guarded(move || vh::plan_naive_chunks(&t)) {
                Ok(r) => r,
                Err(p) => { sum.oracle_violation("panic-in-plan-naive-chunks", &p, case.to_json()); return; }
            };
            let imp_s = show_plan(&imp);
            if cx.verbose { println!("impl : {}", imp_s.chars().take(400).collect::<String>()); }
            if let Some(m) = cx.ask(&format!("naive {}", hext(text))) {
                if cx.verbose { println!("model: {}", m.chars().take(400).collect::<String>()); }
                if m != imp_s { sum.disagreement("plan_naive_chunks vs model naive", case.to_json(), &m, &imp_s); }
            }
            let n = nchars(text);
            match &imp {
                None => {
                    sum.branch("naive-none");
                    if n > cx.dflt && n < cx.min_chars { sum.branch("naive-none-between-chunk-and-threshold"); }
                    if n >= cx.min_chars {
                        sum.oracle_violation("no-plan-above-threshold", &format!("{n} chars >= threshold but plan_naive_chunks returned None"), case.to_json());
                    }
                }
                Some((rs, cs)) => {
                    sum.branch("naive-some");
                    boundary_branches(text, rs, cx.dflt, sum);
                    if let Some((sig, what)) = partition_oracle(text, rs, Some(cs)) { sum.oracle_violation(sig, &what, case.to_json()); }
                    if rs.len() < 2 { sum.oracle_violation("single-chunk-plan", "plan with fewer than two chunks", case.to_json()); }
                }
            }
            let canon = format!("N|{}|{}", b3short(text.as_bytes()), b3short(imp_s.as_bytes()));
            sum.case(&canon, imp.is_some(), || json!({"kind": "naive", "chars": n, "ranges": imp.as_ref().map(|p| show_ranges(&p.0))}));
        }
        Case::Plan { raw } => {
            let r = raw.clone();
            let imp: PlanData = match guarded(move || vh::plan_text_chunks(&r)) {
                Ok(r) => r,
                Err(p) => { sum.oracle_violation("panic-in-plan-text-chunks", &p, case.to_json()); return; }
            };
            if let Some(mem) = &cx.mem {
                let public = mem.preview_chunks(raw.as_bytes());
                if public != imp.as_ref().map(|p| p.1.clone()) {
                    sum.disagreement("Memvid::preview_chunks vs verif_hooks::plan_text_chunks", case.to_json(),
                        &format!("{:?}", imp.as_ref().map(|p| p.1.len())), &format!("{:?}", public.as_ref().map(|c| c.len())));
                }
                sum.branch("preview-chunks-compared");
            }
            let Some(norm) = normalize_text(raw, usize::MAX).map(|n| n.text) else {
                sum.branch("plan-normalize-none");
                if imp.is_some() { sum.oracle_violation("plan-for-unnormalizable-text", "normalize_text is None but a plan exists", case.to_json()); }
                sum.case(&format!("P|{}|unnormalizable", b3short(raw.as_bytes())), false, || json!({}));
                return;
            };
            let n = nchars(&norm);
            let hs = detect_structure(&norm).has_structure();
            if n + 1 == cx.min_chars { sum.branch("plan-len-threshold-minus-1"); }
            if n == cx.min_chars { sum.branch("plan-len-threshold"); }
            if n == cx.min_chars + 1 { sum.branch("plan-len-threshold-plus-1"); }
            if cx.verbose {
                if let Some((rs, cs)) = &imp {
                    for (i, c) in cs.iter().enumerate() { println!("chunk {i} {:?}: {:?}", rs.get(i), c); }
                }
                println!("normalized chars: {n}  has_structure: {hs}");
                println!("impl : {}", show_plan(&imp).chars().take(400).collect::<String>());
            }
            if let Some(m) = cx.ask(&format!("plan {} {}", if hs { 1 } else { 0 }, hext(&norm))) {
                if cx.verbose { println!("model: {}", m.chars().take(400).collect::<String>()); }
                if !hs {
                    let imp_s = show_plan(&imp);
                    if m != imp_s { sum.disagreement("plan_text_chunks (unstructured) vs model plan", case.to_json(), &m, &imp_s); }
                } else if m == "none" && imp.is_some() {
                    sum.disagreement("plan_text_chunks (structured) below threshold", case.to_json(), &m, "some …");
                } else if m != "none" && m != "structural" {
                    sum.disagreement("plan_text_chunks (structured): model did not delegate", case.to_json(), &m, "structural");
                }
            }
            if n < cx.min_chars {
                sum.branch("plan-below-threshold");
                if imp.is_some() { sum.oracle_violation("plan-below-threshold", &format!("{n} chars < threshold but a plan exists"), case.to_json()); }
            } else if !hs {
                sum.branch("plan-unstructured");
                match &imp {
                    None => sum.oracle_violation("no-plan-above-threshold", &format!("unstructured, {n} chars >= threshold, but no plan"), case.to_json()),
                    Some((rs, cs)) => {
                        boundary_branches(&norm, rs, cx.dflt, sum);
                        if let Some((sig, what)) = partition_oracle(&norm, rs, Some(cs)) { sum.oracle_violation(sig, &what, case.to_json()); }
                    }
                }
            } else {
                match &imp {
                    None => sum.branch("plan-structured-none"),
                    Some((rs, cs)) => {
                        sum.branch("plan-structured-some");
                        if rs.len() != cs.len() { sum.oracle_violation("chunk-count-differs", "structured plan: ranges and chunks differ in number", case.to_json()); }
                        let verdicts = structural_oracle(&norm, cs);
                        // the same clause as an executable Lean predicate, on the implementation's output
                        if let Some(m) = cx.ask(&format!("structok {} {}", hext(&norm), show_chunks(cs))) {
                            let expect = match verdicts.first() {
                                None => "ok".to_string(),
                                Some(v) if v.sig == "structural-empty-chunk" => format!("empty-chunk {}", v.line_idx),
                                Some(v) => format!("missing-line {}", v.line_idx),
                            };
                            if cx.verbose { println!("lean structural predicate: {m}; rust oracle: {expect}"); }
                            if m != expect { sum.disagreement("structural clause: Lean predicate vs Rust oracle", case.to_json(), &m, &expect); }
                        }
                        if verdicts.is_empty() { sum.branch("structural-clause-holds"); }
                        let mut seen: Vec<&str> = Vec::new();
                        for v in &verdicts {
                            if seen.contains(&v.sig) { continue; }
                            seen.push(v.sig);
                            if cx.verbose {
                                println!("structural clause fails: {}: {}", v.sig, v.what);
                                let lines: Vec<&str> = norm.split('\n').collect();
                                for k in v.line_idx.saturating_sub(3)..(v.line_idx + 4).min(lines.len()) { println!("   line {k}: {:?}", lines[k]); }
                            }
                            if cx.known.iter().any(|k| k == v.sig) { sum.known_finding(v.sig, &v.what, case.to_json()); }
                            else { sum.oracle_violation(v.sig, &v.what, case.to_json()); }
                        }
                    }
                }
            }
            let canon = format!("P|{}|{}", b3short(norm.as_bytes()), b3short(show_plan(&imp).as_bytes()));
            sum.case(&canon, n >= cx.min_chars, || json!({"kind": "plan", "normalized_chars": n, "has_structure": hs,
                "chunks": imp.as_ref().map(|p| p.1.len()), "ranges": imp.as_ref().map(|p| show_ranges(&p.0))}));
        }
    }
}

/// cut/pad a raw document so that its normalized form has (about) `want` characters
fn fit_to(raw: &str, want: usize) -> String {
    let Some(norm) = normalize_text(raw, usize::MAX).map(|n| n.text) else { return raw.to_string() };
    let n = nchars(&norm);
    if n >= want { norm.chars().take(want).collect() } else { format!("{norm}{}", "x".repeat(want - n)) }
}

fn predicate_tables(cx: &mut Ctx, sum: &mut Summary) {
    // is_whitespace over all of Unicode against the model's table; constants; sentence terminals
    let Some(ws) = cx.ask("wslist") else { return };
    let rust_ws: Vec<String> = (0..=0x10FFFFu32).filter_map(char::from_u32).filter(|c| c.is_whitespace()).map(|c| (c as u32).to_string()).collect();
    if ws != rust_ws.join(",") {
        sum.disagreement("char::is_whitespace vs model WHITE_SPACE table", json!({"kind": "wslist"}), &ws, &rust_ws.join(","));
    }
    let (d, m) = vh::chunk_constants();
    let consts = cx.ask("consts").unwrap_or_default();
    if !consts.starts_with(&format!("{d} {m} ")) {
        sum.disagreement("chunk constants", json!({"kind": "consts"}), &consts, &format!("{d} {m} …"));
    }
    sum.branch("predicate-tables-compared");
}

fn main() {
    let args = parse_args();
    let drv = if args.driver.as_os_str() == "none" { None } else { Some(Driver::spawn(&args.driver).expect("spawn driver")) };
    let known: Vec<String> = args.extra.get("known").map(|s| s.split(',').map(|x| x.to_string()).collect()).unwrap_or_default();
    let (dflt, min_chars) = vh::chunk_constants();
    // one real Memvid handle: the public entry `Memvid::preview_chunks` must agree with the hook
    let tmp = tempfile::tempdir().expect("tempdir");
    let mem = Memvid::create(tmp.path().join("c34.mv2")).ok();
    let mut cx = Ctx { drv, known, verbose: false, min_chars, dflt, mem };
    let mut sum = Summary::new("C34", &args,
        "five streams + fixed corpus: (M) build_chunk_manifest on texts of 0..700 chars (1500 thorough) with chunk sizes 0..260 and 1200 (texts to 4000/9000) — prose, single long words, \
         boundary characters planted at target/window edges, whitespace-heavy, full-Unicode letters/whitespace/near-miss characters; \
         (C) choose_chunk_boundary with random start/target/slack incl. calls outside the loop's precondition; \
         (E) choose_chunk_boundary exhaustively for every text over {a . \\n space} of length <= 4 (6 thorough), every start < target <= len, slack 0..3; \
         (N) plan_naive_chunks on texts of 1190..6500 chars (12000 thorough), dense around 1200, 1440 and 2400; \
         (P) plan_text_chunks (and Memvid::preview_chunks) on raw documents (paragraphs, headings, lists, rules, quotes, tables incl. ragged, code fences incl. unclosed, lone table-row lines, CRLF) \
         of ~1500..7000 chars (15000 thorough), 40% cut to normalized length threshold-3..+3; \
         non-trivial = a manifest/plan was produced (M,N), call inside the precondition (C,E), normalized length >= threshold (P); distinct = blake3(input)+result");
    sum.expect_branches(&["manifest-some", "manifest-none", "manifest-single-range", "boundary-final",
        "boundary-newline-forward", "boundary-newline-backward", "boundary-sentence-forward", "boundary-sentence-backward",
        "boundary-whitespace-forward", "boundary-whitespace-backward", "boundary-hard-cut-at-target",
        "choose-forward", "choose-backward", "choose-at-target", "choose-outside-precondition",
        "naive-some", "naive-none", "naive-none-between-chunk-and-threshold",
        "plan-below-threshold", "plan-unstructured", "plan-structured-some",
        "plan-len-threshold-minus-1", "plan-len-threshold", "plan-len-threshold-plus-1", "predicate-tables-compared",
        "exhaustive-small-scope-done", "structural-clause-holds", "preview-chunks-compared"]);

    if args.mode == "replay" {
        let case = load_replay(args.replay_file.as_ref().expect("replay file"));
        let input = case.get("input").unwrap_or(&case);
        cx.verbose = true;
        if input["kind"] == "wslist" || input["kind"] == "consts" {
            predicate_tables(&mut cx, &mut sum);
        } else {
            let c = Case::from_json(input).expect("replay case");
            run_case(&c, &mut cx, &mut sum);
        }
        sum.finish(&args);
    }

    predicate_tables(&mut cx, &mut sum);
    let mut rng = Rng::new(args.seed);
    let th = args.thorough;

    // ---- fixed corpus
    let mut corpus: Vec<Case> = vec![
        Case::Manifest { text: String::new(), cc: 4 },
        Case::Manifest { text: "abcd".into(), cc: 4 },
        Case::Manifest { text: "abcde".into(), cc: 4 },
        Case::Manifest { text: "abcde".into(), cc: 0 },
        Case::Manifest { text: "ab. cd ef\ngh ijklmnop qrstu vw! xyzabcdefghijklmnopqrstuvwxyzabcdefghijklmnopq yes".into(), cc: 4 },
        Case::Manifest { text: "a".repeat(100), cc: 7 },
        Case::Manifest { text: format!("{}.{}\n{}", "a".repeat(10), "b".repeat(30), "c".repeat(50)), cc: 20 },
        Case::Manifest { text: format!("{}\u{2003}{}", "a".repeat(45), "b".repeat(50)), cc: 40 },
        Case::Manifest { text: format!("{}\u{200b}{}", "a".repeat(45), "b".repeat(50)), cc: 40 },
        Case::Naive { text: "a".repeat(1200) },
        Case::Naive { text: "a".repeat(1201) },
        Case::Naive { text: format!("{}\n", "a".repeat(1439)) },
        Case::Naive { text: format!("{}\n", "a".repeat(1440)) },
        Case::Naive { text: "a".repeat(2399) },
        Case::Naive { text: "a".repeat(2400) },
        Case::Naive { text: "Lorem ipsum dolor sit amet. ".repeat(200) },
        Case::Plan { raw: "a".repeat(2399) },
        Case::Plan { raw: "a".repeat(2400) },
        Case::Plan { raw: "a".repeat(2401) },
        Case::Plan { raw: "Lorem ipsum dolor sit amet. ".repeat(200) },
        Case::Plan { raw: "   \n\t ".into() },
        Case::Plan { raw: "# Small Report\n\nIntroduction paragraph.\n\n| Item | Price |\n|------|-------|\n| Apple | $1 |\n| Orange | $2 |\n\nConclusion.\n".repeat(50) },
    ];
    {
        let mut t = String::from("# Report\n\nThis is an introduction.\n\n| Name | Department | Salary | Start Date |\n|------|------------|--------|------------|\n");
        for i in 1..=100 { t.push_str(&format!("| Employee {} | Dept {} | ${} | 2024-{:02}-01 |\n", i, (i % 5) + 1, 50000 + i * 1000, (i % 12) + 1)); }
        t.push_str("\n\nThis is the conclusion.\n");
        corpus.push(Case::Plan { raw: t });
        corpus.push(Case::Plan { raw: "# Code Example\n\nHere is some code:\n\n```python\ndef process_data(items):\n    result = []\n    for item in items:\n        result.append(item)\n    return result\n```\n\nMore explanation here. ".repeat(20) });
    }
    // witnesses of the structural clause's failure classes (see known_findings.jsonl / fixes/C34.diff)
    for w in [WITNESS_RULE_DROPPED, WITNESS_LIST_REFORMATTED, WITNESS_LINE_LOST] {
        corpus.push(Case::Plan { raw: format!("{w}{}", "Lorem ipsum dolor sit amet. ".repeat(90)) });
    }
    for c in &corpus { run_case(c, &mut cx, &mut sum); }

    // ---- (M) manifest stream
    let n_m = if th { 30000 } else { 5000 };
    let ccs: &[usize] = &[1, 2, 3, 4, 5, 7, 8, 10, 16, 20, 31, 32, 33, 40, 50, 64, 100, 159, 160, 161, 165, 170, 200];
    for i in 0..n_m {
        let wide = rng.chance(1, 3);
        let (cc, len) = if i % 40 == 39 {
            (1200, match rng.below(4) { 0 => rng.usize(1195, 1205), 1 => rng.usize(1430, 1450), _ => rng.usize(1201, if th { 9000 } else { 4000 }) })
        } else {
            let cc = if rng.chance(1, 12) { rng.usize(0, 260) } else { *rng.pick(ccs) };
            let len = match rng.below(8) {
                0 => rng.usize(0, cc + 2),
                1 => rng.usize(cc.saturating_sub(2), cc + 3),
                2 => cc + (cc / 5).max(32) + rng.usize(0, 3),
                _ => rng.usize(cc, (cc * 6 + 80).min(if th { 1500 } else { 700 })),
            };
            (cc, len)
        };
        let text = gen_text(&mut rng, len, cc.max(1), wide);
        run_case(&Case::Manifest { text, cc }, &mut cx, &mut sum);
    }

    // ---- (C) choose stream
    let n_c = if th { 20000 } else { 3000 };
    for _ in 0..n_c {
        let wide = rng.chance(1, 3);
        let len = rng.usize(0, 300);
        let cc = rng.usize(1, 80);
        let text = gen_text(&mut rng, len, cc, wide);
        let (start, target, slack) = if rng.chance(1, 6) {
            (rng.usize(0, len + 3), rng.usize(0, len + 3), rng.usize(0, 50))          // anything
        } else {
            let start = rng.usize(0, len);
            let target = (start + cc).min(len);
            (start, target, if rng.chance(1, 3) { rng.usize(0, 40) } else { 32 })
        };
        run_case(&Case::Choose { text, start, target, slack }, &mut cx, &mut sum);
    }

    // ---- (E) exhaustive small scope: every text over {a . \n space} up to a length, every
    //      start < target <= len, slack 0..3, plus the manifest for chunk sizes 1..3 is covered by (M)
    {
        let alpha = ['a', '.', '\n', ' '];
        let maxlen = if th { 6 } else { 4 };
        let mut texts: Vec<String> = vec![String::new()];
        let mut frontier = texts.clone();
        for _ in 0..maxlen {
            let mut next = Vec::new();
            for t in &frontier { for c in alpha { let mut u = t.clone(); u.push(c); next.push(u); } }
            texts.extend(next.iter().cloned());
            frontier = next;
        }
        for text in &texts {
            let n = text.len();
            for start in 0..n { for target in start + 1..=n { for slack in 0..4 {
                run_case(&Case::Choose { text: text.clone(), start, target, slack }, &mut cx, &mut sum);
            } } }
        }
        sum.branch("exhaustive-small-scope-done");
    }

    // ---- (N) naive stream
    let n_n = if th { 3000 } else { 500 };
    for _ in 0..n_n {
        let wide = rng.chance(1, 3);
        let len = match rng.below(10) {
            0 => rng.usize(1190, 1210),
            1 => rng.usize(1201, 1445),
            2 => rng.usize(1436, 1445),
            3 => rng.usize(2395, 2405),
            4 => rng.usize(2630, 2650),
            _ => rng.usize(1201, if th { 12000 } else { 6500 }),
        };
        let text = gen_text(&mut rng, len, 1200, wide);
        run_case(&Case::Naive { text }, &mut cx, &mut sum);
    }

    // ---- (P) plan_text_chunks stream
    let n_p = if th { 4000 } else { 700 };
    for i in 0..n_p {
        let structured = i % 2 == 1;
        let approx = match rng.below(6) { 0 => rng.usize(1500, 2600), 1 => rng.usize(2400, 3000), _ => rng.usize(2400, if th { 15000 } else { 7000 }) };
        let mut raw = if !structured && rng.chance(1, 3) {
            let wide = rng.chance(1, 2);
            gen_text(&mut rng, approx, 1200, wide)
        } else { document(&mut rng, approx, structured) };
        if rng.chance(2, 5) {
            let want = (min_chars as i64 + rng.i64(-3, 3)) as usize;
            raw = fit_to(&raw, want);
        }
        run_case(&Case::Plan { raw }, &mut cx, &mut sum);
    }

    sum.model_requests = cx.drv.as_ref().map(|d| d.requests).unwrap_or(0);
    sum.finish(&args);
}
