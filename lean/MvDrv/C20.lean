/- Driver for C20 (corruption is detected, never served silently).

   requests
     load <hex file> <facts…>                     → ok <len> <footerOffset|none>
         the ORIGINAL committed file and the black-box facts about it
     case <src|fix|cur> <mut> <facts…>             → pred <k=v …>
         mut   = none | xor:<off>:<mask> | zero:<off>:<len> | trunc:<n>
         facts (about the MUTATED file; computed by the harness with memvid's own codecs):
           toc@<off>+<len>=err|same|<TOC>           Toc::decode of that range (+ verify_checksum verdict)
           uz@<off>+<len>=err|<hex>                 zstd decode of that range
           view:<kind>@<off>+<len>,<off>+<len>…=err|<hex fingerprint>   index decoder on those ranges
           we@<off>+<len>=ins|other|err             decode_wal_entry of that range
           lexro=fallback / lexrw=fallback          the handle's Tantivy engine came up empty
           footer=<off>|none                        find_last_valid_footer (cross-check of the model's finder)
           legacy@<off>=same|<TOC>                  scan_range_for_toc recognises a pre-footer TOC image there
         answer: one status per observation group, for the read-only and the writable open:
           same | err | diff | any      (`any` = decided by a black box the model does not contain)
         plus `verify=passed|failed|err`, `tags=<mechanisms>` (checks NOT performed that this
         corruption passes through) and `xfooter=ok|MISMATCH`.
   <TOC> = <checksumOk 0|1>;<rest hex>;<frame>|<frame>…;<seg>|<seg>…      (`-` for an empty list)
   <frame> = off,len,chk,zstd,canon,active,manifest,chunk,parent,chunkIndex,meta   (`-` = none)
   <seg>   = kind,off,len,chk
-/
import MvModel.Integrity
import MvModel.Blake3
import MvModel.DrvUtil
open Mv Mv.Integrity

/-! ### parsing -/

def optNat (s : String) : Option (Option Nat) := if s == "-" then some none else s.toNat?.map some

def parseFrame (s : String) : Option MFrame :=
  match s.splitOn "," with
  | [off, len, chk, z, canon, act, man, chunk, parent, ci, fm] => do
    let off ← off.toNat?
    let len ← len.toNat?
    let chk ← ofHex chk
    let canon ← optNat canon
    let man ← optNat man
    let parent ← optNat parent
    let ci ← optNat ci
    let fm ← ofHex fm
    pure { off, len, checksum := chk, zstd := z == "1", canonLen := canon, active := act == "1", manifest := man,
           isChunk := chunk == "1", parent, chunkIndex := ci, fmeta := fm }
  | _ => none

def parseKind : String → Option SegKind
  | "time" => some .time | "lex" => some .lex | "vec" => some .vec | "memories" => some .memories
  | "mesh" => some .mesh | "sketch" => some .sketch | _ => none

def parseSeg (s : String) : Option MSeg :=
  match s.splitOn "," with
  | [k, off, len, chk] => do
    let k ← parseKind k
    let off ← off.toNat?
    let len ← len.toNat?
    let chk ← ofHex chk
    pure { kind := k, off, len, checksum := chk }
  | _ => none

def parseList {α} (f : String → Option α) (s : String) : Option (List α) :=
  if s == "-" then some [] else (s.splitOn "|").mapM f

def parseToc (s : String) : Option MToc :=
  match s.splitOn ";" with
  | [ok, rest, fs, ss] => do
    let rest ← ofHex rest
    let fs ← parseList parseFrame fs
    let ss ← parseList parseSeg ss
    pure { frames := fs, segs := ss, checksumOk := ok == "1", rest }
  | _ => none

def parseRange (s : String) : Option (Nat × Nat) :=
  match s.splitOn "+" with
  | [a, b] => do pure (← a.toNat?, ← b.toNat?)
  | _ => none

/-! ### facts → black boxes -/

structure Facts where
  /-- TOC candidates: (range, `none` = does not decode, `some none` = decodes to the original) -/
  tocs : List ((Nat × Nat) × Option (Option MToc)) := []
  uz : List ((Nat × Nat) × Option Bytes) := []
  views : List (SegKind × List (Nat × Nat) × Option Bytes) := []
  wes : List ((Nat × Nat) × Option Bool) := []
  lexro : Bool := false
  lexrw : Bool := false
  footer : Option (Option Nat) := none
  /-- `scan_range_for_toc` found a pre-footer style TOC image at this offset -/
  legacy : Option (Nat × Option (Option MToc)) := none
  bad : List String := []

def addFact (f : Facts) (tok : String) : Facts :=
  match tok.splitOn "=" with
  | [k, v] =>
    if k == "lexro" then { f with lexro := v == "fallback" }
    else if k == "lexrw" then { f with lexrw := v == "fallback" }
    else if k == "footer" then { f with footer := some v.toNat? }
    else match k.splitOn "@" with
      | ["toc", r] => match parseRange r with
        | some r =>
          if v == "err" then { f with tocs := (r, none) :: f.tocs }
          else if v == "same" then { f with tocs := (r, some none) :: f.tocs }
          else match parseToc v with
            | some t => { f with tocs := (r, some (some t)) :: f.tocs }
            | none => { f with bad := tok :: f.bad }
        | none => { f with bad := tok :: f.bad }
      | ["legacy", o] => match o.toNat? with
        | some o =>
          if v == "same" then { f with legacy := some (o, some none) }
          else match parseToc v with
            | some t => { f with legacy := some (o, some (some t)) }
            | none => { f with bad := tok :: f.bad }
        | none => { f with bad := tok :: f.bad }
      | ["uz", r] => match parseRange r with
        | some r => if v == "err" then { f with uz := (r, none) :: f.uz }
                    else match ofHex v with
                      | some b => { f with uz := (r, some b) :: f.uz }
                      | none => { f with bad := tok :: f.bad }
        | none => { f with bad := tok :: f.bad }
      | ["we", r] => match parseRange r with
        | some r => { f with wes := (r, if v == "ins" then some true else if v == "other" then some false else none) :: f.wes }
        | none => { f with bad := tok :: f.bad }
      | [vk, rs] =>
        match vk.splitOn ":" with
        | ["view", kind] => match parseKind kind, (rs.splitOn ",").mapM parseRange with
          | some kd, some rl => if v == "err" then { f with views := (kd, rl, none) :: f.views }
                               else match ofHex v with
                                 | some b => { f with views := (kd, rl, some b) :: f.views }
                                 | none => { f with bad := tok :: f.bad }
          | _, _ => { f with bad := tok :: f.bad }
        | _ => { f with bad := tok :: f.bad }
      | _ => { f with bad := tok :: f.bad }
  | _ => { f with bad := tok :: f.bad }

/-- marker for "the harness did not supply this black-box answer" -/
def MISSING : Bytes := [0x4D, 0x49, 0x53, 0x53]

structure St where
  orig : Bytes := []
  origToc : Option MToc := none
  base : Facts := {}
  /-- (range, content, blake3) of every hashed range of the original -/
  hcache : List ((Nat × Nat) × Bytes × Bytes) := []

/-- driver-side finder: enumerate the occurrences of the footer magic in one pass, test the
    specification `Footer.ValidAt` from the highest (C31: `findLast` = the highest valid offset) -/
def magicPositions (b : Bytes) : List Nat :=
  let rec go (l : Bytes) (i : Nat) (acc : List Nat) : List Nat :=
    match l with
    | [] => acc
    | x :: rest =>
      if x == 0x4D && rest.take 7 == [0x56, 0x32, 0x46, 0x4F, 0x4F, 0x54, 0x21] then go rest (i+1) (i :: acc)
      else go rest (i+1) acc
  go b 0 []

def fastFind (H : Bytes → Bytes) (b : Bytes) : Option Footer.FooterSlice :=
  ((magicPositions b).find? (fun p => decide (Footer.ValidAt H b p))).map (Footer.sliceAt b)

def hashWith (cache : List (Bytes × Bytes)) (b : Bytes) : Bytes :=
  match cache.find? (fun e => e.1.length == b.length && e.1 == b) with
  | some e => e.2
  | none => Blake3.hash b

/-- look a byte string up among ranges of a file -/
def findRange {α} (file : Bytes) (l : List ((Nat × Nat) × α)) (b : Bytes) : Option α :=
  (l.find? (fun e => e.1.2 == b.length && slice file e.1.1 e.1.2 == b)).map (·.2)

def findView (file : Bytes) (l : List (SegKind × List (Nat × Nat) × Option Bytes)) (kind : SegKind) (b : Bytes) :
    Option (Option Bytes) :=
  (l.find? (fun e => e.1 == kind && (e.2.1.flatMap (fun r => slice file r.1 r.2)) == b)).map (·.2.2)

/-- facts of the case are about `file`, the base facts (given at `load`) about the original -/
def mkCodecs (st : St) (file : Bytes) (fx : Facts) (hc : List (Bytes × Bytes)) (lexFallback : Bool) : Codecs :=
  let H := hashWith hc
  { H := H
    findFooter := fastFind H
    decodeToc := fun b =>
      match (findRange file fx.tocs b).orElse (fun _ => findRange st.orig st.base.tocs b) with
      | some none => none
      | some (some none) => st.origToc
      | some (some (some t)) => some t
      | none => some { frames := [], segs := [], checksumOk := false, rest := MISSING }
    unzstd := fun b =>
      match (findRange file fx.uz b).orElse (fun _ => findRange st.orig st.base.uz b) with
      | some r => r
      | none => some MISSING
    view := fun kind b =>
      if kind == .lex && lexFallback then none
      else match (findView file fx.views kind b).orElse (fun _ => findView st.orig st.base.views kind b) with
        | some r => r
        | none => if kind == .lex then some b else some MISSING
    walEntry := fun b =>
      match (findRange file fx.wes b).orElse (fun _ => findRange st.orig st.base.wes b) with
      | some r => r
      | none => some true
    legacyToc := fun _ _ =>
      match fx.legacy with
      | some (o, some none) => st.origToc.map (fun t => (t, o))
      | some (o, some (some t)) => some (t, o)
      | _ => none }

/-! ### comparison of the two handles -/

def stOf {α} [BEq α] (o n : Except Err α) : String :=
  match o, n with
  | _, .error _ => "err"
  | .ok a, .ok b => if a == b then "same" else "diff"
  | .error _, .ok _ => "diff"

instance : BEq Loaded := ⟨fun a b => decide (a = b)⟩

def usesMissing (h : Handle) : Bool :=
  h.toc.rest == MISSING || [h.lex, h.vec, h.memories, h.mesh, h.sketch].any (· == .ok MISSING)

/-- statuses of one open (prefix `p`) against the original's handle -/
def compareHandles (C0 C1 : Codecs) (k : Checks) (p : String) (h0 : Handle) (r1 : Except Err Handle) :
    List String × List String :=
  match r1 with
  | .error e => ([s!"{p}.open=err:{e.name}"], [])
  | .ok h1 =>
    let o0 := readAll C0 k h0
    let o1 := readAll C1 k h1
    let n := h0.toc.frames.length
    let metaSt := (List.range n).map fun i =>
      if o1.metas[i]? == o0.metas[i]? then "same" else "diff"
    let payPairs := (List.range n).map fun i =>
      match o0.payloads[i]?, o1.payloads[i]? with
      | some a, some b => stOf a b
      | _, _ => "diff"
    let paySt := payPairs
    let metasSame := metaSt.all (· == "same") && o1.rest == o0.rest
    let paysSame := paySt.all (· == "same")
    let countSame := o1.count == o0.count
    -- after a WAL replay the TOC, the indexes and the memories track have been rebuilt: nothing else is predicted
    let rp := h1.replayed > 0
    let anyIf := fun (l : List String) => if rp then l.map (fun _ => "any") else l
    let paySt := anyIf paySt
    let metaSt := anyIf metaSt
    let clean := metasSame && paysSame && countSame
    let timeSt := match o1.time with
      | .error _ => if rp then "any" else "err"
      | .ok t1 => if (match o0.time with | .ok t0 => t0 == t1 | .error _ => false) && clean then "same" else "any"
    let searchSt := if clean && o1.lex == o0.lex && o1.sketch == o0.sketch then "same" else "any"
    let vecSt := if o1.vec == o0.vec && countSame then "same" else "any"
    let embSt := if o1.vec == o0.vec && countSame then "same"
                 else if o1.vec == .fallback && o0.vec != .fallback && !rp then "diff" else "any"
    let cardsSt := if o1.memories == o0.memories && countSame then "same" else "any"
    let textSt := (List.range n).map fun i =>
      if metaSt[i]? == some "same" && paySt[i]? == some "same" then "same" else "any"
    let tags : List String :=
      (if h1.replayed > 0 then ["wal-replay"] else []) ++
      (if (match o0.time, o1.time with | .ok a, .ok b => a != b | _, _ => false) && !k.time then ["time-unchecked"] else []) ++
      (if o1.vec != o0.vec && !k.vec then ["vec-unchecked"] else []) ++
      (if o1.sketch != o0.sketch && !k.sketch then ["sketch-unchecked"] else []) ++
      (if o1.lex != o0.lex && !k.lex then ["lex-unchecked"] else []) ++
      -- checksum compared (since fix 444fffb) but `init_tantivy` swallows the failure: empty index
      (if o1.lex != o0.lex && k.lex && o1.lex == .fallback then ["lex-swallowed"] else []) ++
      (if h1.laundered && h1.toc != h0.toc then ["toc-laundered"] else []) ++
      (if paySt.any (· == "err") then ["search-swallows-read-errors"] else []) ++
      (if paySt.any (· == "diff") then ["payload-unchecked"] else []) ++
      (if usesMissing h1 then ["MISSING-FACT"] else [])
    ([s!"{p}.open=ok", s!"{p}.count={if countSame then "same" else "diff"}",
      s!"{p}.meta={",".intercalate metaSt}", s!"{p}.payload={",".intercalate paySt}",
      s!"{p}.text={",".intercalate textSt}", s!"{p}.timeline={timeSt}", s!"{p}.search={searchSt}",
      s!"{p}.vsearch={vecSt}", s!"{p}.emb={embSt}", s!"{p}.cards={cardsSt}"], tags)

def applyMut (file : Bytes) (m : String) : Option Bytes :=
  match m.splitOn ":" with
  | ["none"] => some file
  | ["xor", o, k] => do
    let o ← o.toNat?
    let k ← k.toNat?
    let x ← file[o]?
    pure (file.take o ++ [x ^^^ UInt8.ofNat k] ++ file.drop (o + 1))
  | ["zero", o, l] => do
    let o ← o.toNat?
    let l ← l.toNat?
    let l := min l (file.length - o)
    pure (file.take o ++ zeros l ++ file.drop (o + l))
  | ["trunc", n] => do pure (file.take (← n.toNat?))
  | _ => none

def mutRange (m : String) : Nat × Nat :=
  match m.splitOn ":" with
  | ["xor", o, _] => (o.toNat?.getD 0, 1)
  | ["zero", o, l] => (o.toNat?.getD 0, l.toNat?.getD 0)
  | ["trunc", n] => (n.toNat?.getD 0, 1000000000000)
  | _ => (0, 0)

def checksOf : String → Checks
  | "fix" => Checks.repaired
  | "cur" => Checks.unrepaired
  | _ => Checks.ofSource

def runCase (st : St) (mode m : String) (toks : List String) : String :=
  let k := checksOf mode
  match applyMut st.orig m with
  | none => "bad-op"
  | some file =>
    let fx := toks.foldl addFact {}
    if !fx.bad.isEmpty then s!"bad-fact {fx.bad.head!.take 60}" else
    -- hashes: cached ranges untouched by the mutation keep their hash, touched ones are recomputed once
    let (mo, ml) := mutRange m
    let hc0 := st.hcache.map (fun e => (e.2.1, e.2.2))
    let hc1 := st.hcache.map fun e =>
      let (o, l) := e.1
      if o + l ≤ mo || mo + ml ≤ o then (e.2.1, e.2.2)
      else let b := slice file o l; (b, Blake3.hash b)
    let C0ro := mkCodecs st st.orig {} hc0 false
    let C1ro := mkCodecs st file fx hc1 fx.lexro
    let C1rw := mkCodecs st file fx hc1 fx.lexrw
    match openRO C0ro k st.orig, openRW C0ro k st.orig with
    | .ok h0ro, .ok h0rw =>
      let (a, ta) := compareHandles C0ro C1ro k "ro" h0ro (openRO C1ro k file)
      let (b, tb) := compareHandles C0ro C1rw k "rw" h0rw (openRW C1rw k file)
      let v := match verify C1ro k file with
        | .ok .passed => "passed" | .ok .failed => "failed" | .error e => s!"err:{e.name}"
      let xf := match fx.footer with
        | none => "ok"
        | some f => if (C1ro.findFooter file).map (fun (s : Footer.FooterSlice) => s.footerOffset) == f then "ok" else "MISMATCH"
      let tags := (ta ++ tb).eraseDups
      s!"pred {" ".intercalate (a ++ b)} verify={v} tags={if tags.isEmpty then "-" else ",".intercalate tags} xfooter={xf}"
    | .error e, _ => s!"orig-ro-does-not-open {e.name}"
    | _, .error e => s!"orig-rw-does-not-open {e.name}"

def step (st : St) (ws : List String) : St × String :=
  match ws with
  | "load" :: h :: toks =>
    match ofHex h with
    | none => (st, "bad-op")
    | some file =>
      let fx := toks.foldl addFact {}
      if !fx.bad.isEmpty then (st, s!"bad-fact {fx.bad.head!.take 60}") else
      let origToc := fx.tocs.findSome? (fun e => match e.2 with | some (some t) => some t | _ => none)
      -- hash cache: TOC range, every frame payload, every segment, every WAL record payload
      let tocR := (fx.tocs.map (·.1)).take 1
      let frameR := match origToc with
        | some t => (t.frames.filter (·.len > 0)).map (fun f => (f.off, f.len)) ++ (t.segs.filter (·.len > 0)).map (fun s => (s.off, s.len))
        | none => []
      let walR := fx.wes.map (·.1)
      let ranges := (tocR ++ frameR ++ walR).eraseDups
      let hcache := ranges.map fun r => let b := slice file r.1 r.2; (r, b, Blake3.hash b)
      let st' : St := { orig := file, origToc := origToc, base := fx, hcache := hcache }
      let C := mkCodecs st' file {} (hcache.map (fun e => (e.2.1, e.2.2))) false
      (st', s!"ok {file.length} {match C.findFooter file with | some s => toString s.footerOffset | none => "none"}")
  | "case" :: mode :: m :: toks => (st, runCase st mode m toks)
  | _ => (st, "bad-op")

def main : IO Unit := runDriver ({} : St) step
