/- Driver for C24: the Core model's line protocol (see MvModel/CoreDrv.lean for the requests); since
   ed05539 the shared model contains the exact capacity check the C24 theorems are about. -/
import MvModel.CoreDrv
def main : IO Unit := Mv.Core.coreMain
