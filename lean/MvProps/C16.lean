/-
  C16 — Search pagination partitions the result stream.
  Model: MvModel/Page.lean (the assembly loop of try_tantivy_search + parse_cursor).
-/
import MvModel.Page
namespace Mv.Page

/-- flat step: the loop body with `break` turned into a no-op (the state is absorbing) -/
def step (offset k : Nat) (st : St) (x : Doc × (Nat × Nat)) : St :=
  if st.2 < offset then (st.1, st.2 + 1)
  else if st.1.length = k then st
  else match clip x.1 x.2 with
    | none => (st.1, st.2 + 1)
    | some h => (st.1 ++ [h], st.2 + 1)

theorem step_done (offset k : Nat) (st : St) (x) (h1 : st.1.length = k) (h2 : st.2 ≥ offset) :
    step offset k st x = st := by
  unfold step
  have : ¬ st.2 < offset := by omega
  simp [this, h1]

theorem foldl_done (offset k : Nat) (l : List (Doc × (Nat × Nat))) (st : St)
    (h1 : st.1.length = k) (h2 : st.2 ≥ offset) : l.foldl (step offset k) st = st := by
  induction l with
  | nil => rfl
  | cons x xs ih => simp only [List.foldl_cons, step_done offset k st x h1 h2, ih]

theorem innerLoop_eq (d : Doc) (offset k : Nat) (sl : List (Nat × Nat)) (st : St) :
    innerLoop d offset k sl st = (sl.map (fun s => (d, s))).foldl (step offset k) st := by
  induction sl generalizing st with
  | nil => rfl
  | cons s rest ih =>
    obtain ⟨hits, produced⟩ := st
    simp only [innerLoop, List.map_cons, List.foldl_cons]
    by_cases h1 : produced < offset
    · simp only [h1, if_true, step, ih]
    · simp only [h1, if_false]
      by_cases h2 : hits.length = k
      · simp only [h2, if_true]
        have hs : step offset k (hits, produced) (d, s) = (hits, produced) :=
          step_done offset k _ _ h2 (by simp; omega)
        rw [hs, foldl_done offset k _ _ h2 (by simp; omega)]
      · simp only [h2, if_false, step, h1]
        cases hc : clip d s with
        | none => simp [ih]
        | some h => simp [ih]

theorem outerLoop_eq (offset k : Nat) (ev : List Doc) (st : St) :
    outerLoop offset k ev st = (flat ev).foldl (step offset k) st := by
  induction ev generalizing st with
  | nil => rfl
  | cons d ds ih =>
    obtain ⟨hits, produced⟩ := st
    simp only [outerLoop, flat, List.flatMap_cons, List.foldl_append]
    by_cases hb : hits.length = k ∧ produced ≥ offset
    · simp only [hb, and_self, if_true]
      have e1 := foldl_done offset k (d.slices.map fun s => (d, s)) (hits, produced) hb.1 hb.2
      rw [e1]
      exact (foldl_done offset k _ (hits, produced) hb.1 hb.2).symm
    · simp only [hb, if_false, innerLoop_eq, ih, flat]

/-- hits taken with remaining capacity `c`, and how many stream elements were consumed -/
def takeHits : Nat → List (Doc × (Nat × Nat)) → List Hit × Nat
  | _, [] => ([], 0)
  | c, x :: xs =>
    if c = 0 then ([], 0)
    else match clip x.1 x.2 with
      | none => ((takeHits c xs).1, (takeHits c xs).2 + 1)
      | some h => (h :: (takeHits (c - 1) xs).1, (takeHits (c - 1) xs).2 + 1)

theorem phase2 (offset k : Nat) (l : List (Doc × (Nat × Nat))) (hits : List Hit) (p : Nat)
    (hp : p ≥ offset) (hk : hits.length ≤ k) :
    l.foldl (step offset k) (hits, p) =
      (hits ++ (takeHits (k - hits.length) l).1, p + (takeHits (k - hits.length) l).2) := by
  induction l generalizing hits p with
  | nil => simp [takeHits]
  | cons x xs ih =>
    simp only [List.foldl_cons]
    have h1 : ¬ p < offset := by omega
    by_cases h2 : hits.length = k
    · have hs : step offset k (hits, p) x = (hits, p) := step_done offset k _ _ h2 hp
      rw [hs, ih hits p hp hk]
      have : k - hits.length = 0 := by omega
      simp [this, takeHits]
      cases xs <;> simp [takeHits]
    · have hc : k - hits.length ≠ 0 := by omega
      cases hcl : clip x.1 x.2 with
      | none =>
        have hs : step offset k (hits, p) x = (hits, p + 1) := by
          simp [step, h1, h2, hcl]
        rw [hs, ih hits (p + 1) (by omega) hk]
        simp [takeHits, hc, hcl]; omega
      | some h =>
        have hs : step offset k (hits, p) x = (hits ++ [h], p + 1) := by
          simp [step, h1, h2, hcl]
        rw [hs, ih (hits ++ [h]) (p + 1) (by omega) (by simp; omega)]
        have hl : (hits ++ [h]).length = hits.length + 1 := by simp
        have : k - (hits ++ [h]).length = k - hits.length - 1 := by omega
        rw [this]
        simp [takeHits, hc, hcl]; omega

theorem phase1 (offset k : Nat) (l : List (Doc × (Nat × Nat))) (hits : List Hit) (p : Nat)
    (hp : p ≤ offset) (hl : offset - p ≤ l.length) :
    l.foldl (step offset k) (hits, p) = (l.drop (offset - p)).foldl (step offset k) (hits, offset) := by
  induction l generalizing p with
  | nil =>
    have : p = offset := by simp at hl; omega
    simp [this]
  | cons x xs ih =>
    by_cases h : p < offset
    · simp only [List.foldl_cons, step, h, if_true]
      rw [ih (p + 1) (by omega) (by simp at hl; omega)]
      have : offset - p = (offset - (p + 1)) + 1 := by omega
      rw [this, List.drop_succ_cons]
    · have : p = offset := by omega
      subst this
      simp

theorem flat_length (ev : List Doc) : (flat ev).length = totalSlices ev := by
  induction ev with
  | nil => rfl
  | cons d ds ih => simp [flat, totalSlices, List.flatMap_cons] at *

/-- closed form of one page -/
theorem page_closed (ev : List Doc) (offset topK : Nat) (ho : offset ≤ totalSlices ev) :
    page ev offset topK =
      { hits := (takeHits (max topK 1) ((flat ev).drop offset)).1,
        totalHits := totalSlices ev,
        nextCursor := if offset + (takeHits (max topK 1) ((flat ev).drop offset)).2 < totalSlices ev
                      then some (offset + (takeHits (max topK 1) ((flat ev).drop offset)).2) else none } := by
  unfold page
  simp only [outerLoop_eq]
  have h1 := phase1 offset (max topK 1) (flat ev) [] 0 (by omega) (by rw [flat_length]; simpa using ho)
  simp only [Nat.sub_zero] at h1
  rw [h1, phase2 offset (max topK 1) _ [] offset (by omega) (by simp)]
  simp

theorem takeHits_facts (c : Nat) (l : List (Doc × (Nat × Nat))) :
    (takeHits c l).2 ≤ l.length ∧ (takeHits c l).1.length ≤ c ∧
    l.filterMap (fun x => clip x.1 x.2) =
      (takeHits c l).1 ++ (l.drop (takeHits c l).2).filterMap (fun x => clip x.1 x.2) ∧
    (c ≥ 1 → l ≠ [] → (takeHits c l).2 ≥ 1) := by
  induction l generalizing c with
  | nil => simp [takeHits]
  | cons x xs ih =>
    by_cases hc : c = 0
    · simp [takeHits, hc]
    · cases hcl : clip x.1 x.2 with
      | none =>
        obtain ⟨a, b, e, _⟩ := ih c
        refine ⟨by simp [takeHits, hc, hcl]; omega, by simp [takeHits, hc, hcl]; exact b, ?_, ?_⟩
        · simp only [takeHits, hc, hcl, if_false, List.drop_succ_cons]
          simp only [List.filterMap_cons, hcl]
          exact e
        · intro _ _; simp [takeHits, hc, hcl]
      | some h =>
        obtain ⟨a, b, e, _⟩ := ih (c - 1)
        refine ⟨by simp [takeHits, hc, hcl]; omega, by simp [takeHits, hc, hcl]; omega, ?_, ?_⟩
        · simp only [takeHits, hc, hcl, if_false, List.drop_succ_cons]
          simp only [List.filterMap_cons, hcl, List.cons_append]
          rw [← e]
        · intro _ _; simp [takeHits, hc, hcl]

/-- following the cursors from `offset` yields exactly the remaining valid hits, page by page -/
theorem follow_concat (ev : List Doc) (topK : Nat) (fuel offset : Nat)
    (ho : offset ≤ totalSlices ev) (hf : totalSlices ev - offset < fuel) :
    (follow ev topK fuel offset).flatMap (·.hits) =
      ((flat ev).drop offset).filterMap (fun x => clip x.1 x.2) := by
  induction fuel generalizing offset with
  | zero => omega
  | succ fuel ih =>
    unfold follow
    rw [page_closed ev offset topK ho]
    obtain ⟨a, b, e, g⟩ := takeHits_facts (max topK 1) ((flat ev).drop offset)
    have hlen : ((flat ev).drop offset).length = totalSlices ev - offset := by
      simp [flat_length]
    by_cases hlt : offset + (takeHits (max topK 1) ((flat ev).drop offset)).2 < totalSlices ev
    · simp only [hlt, if_true]
      have hne : (flat ev).drop offset ≠ [] := by
        intro h; rw [h] at hlen; simp at hlen; omega
      have hpos := g (by omega) hne
      simp only [List.flatMap_cons]
      rw [ih _ (by omega) (by omega), e, List.drop_drop]
    · simp only [hlt, if_false, List.flatMap_cons, List.flatMap_nil, List.append_nil]
      have hall : (takeHits (max topK 1) ((flat ev).drop offset)).2 = ((flat ev).drop offset).length := by
        omega
      rw [e, hall, List.drop_length]
      simp

theorem follow_total (ev : List Doc) (topK : Nat) (fuel offset : Nat) :
    ∀ p ∈ follow ev topK fuel offset, p.totalHits = totalSlices ev := by
  induction fuel generalizing offset with
  | zero => intro p hp; simp [follow] at hp
  | succ fuel ih =>
    intro p hp
    unfold follow at hp
    dsimp only at hp
    split at hp
    · simp at hp; subst hp; simp [page]
    · simp at hp
      rcases hp with hp | hp
      · subst hp; simp [page]
      · exact ih _ p hp

/-- **C16_fixed_concat** — for a fixed evaluated list, the pages obtained by following
    `next_cursor` from the first page concatenate to exactly the stream of valid hits
    (frame, range), in order: nothing repeated, nothing skipped. -/
theorem C16_fixed_concat (ev : List Doc) (topK : Nat) :
    (allPages ev topK).flatMap (·.hits) = allHits ev := by
  unfold allPages allHits
  have := follow_concat ev topK (totalSlices ev + 1) 0 (by omega) (by omega)
  simpa using this

/-- **C16_fixed_total** — `total_hits` is the same on every page (fixed evaluated list). -/
theorem C16_fixed_total (ev : List Doc) (topK : Nat) :
    ∀ p ∈ allPages ev topK, p.totalHits = totalSlices ev :=
  follow_total ev topK _ 0

/-- **C16_page_size** — a page never holds more than `max top_k 1` hits. -/
theorem C16_page_size (ev : List Doc) (offset topK : Nat) (ho : offset ≤ totalSlices ev) :
    (page ev offset topK).hits.length ≤ max topK 1 := by
  rw [page_closed ev offset topK ho]
  exact (takeHits_facts _ _).2.1

theorem takeHits_all (c : Nat) (l : List (Doc × (Nat × Nat)))
    (h : (l.filterMap (fun x => clip x.1 x.2)).length ≤ c) :
    (takeHits c l).1 = l.filterMap (fun x => clip x.1 x.2) := by
  induction l generalizing c with
  | nil => simp [takeHits]
  | cons x xs ih =>
    cases hcl : clip x.1 x.2 with
    | none =>
      simp only [List.filterMap_cons, hcl] at h ⊢
      by_cases hc : c = 0
      · subst hc
        have : xs.filterMap (fun x => clip x.1 x.2) = [] := by
          cases hh : xs.filterMap (fun x => clip x.1 x.2) with
          | nil => rfl
          | cons _ _ => rw [hh] at h; simp at h
        simp [takeHits, this]
      · simp [takeHits, hc, hcl, ih c h]
    | some hh =>
      simp only [List.filterMap_cons, hcl, List.length_cons] at h ⊢
      have hc : c ≠ 0 := by omega
      simp [takeHits, hc, hcl, ih (c - 1) (by omega)]

/-- **C16_big_request** — one request whose `top_k` can hold every hit returns the whole stream;
    with `C16_fixed_concat`: small pages concatenate to what the big request returns. -/
theorem C16_big_request (ev : List Doc) (topK : Nat) (h : (allHits ev).length ≤ max topK 1) :
    (page ev 0 topK).hits = allHits ev := by
  rw [page_closed ev 0 topK (by omega)]
  simp only [List.drop_zero]
  exact takeHits_all _ _ h

/-! ### The statement as the property words it: the evaluated list itself depends on the request.

`max_snippets_per_doc = max top_k 1`: a request with page size `k` cuts every document's slice
list to its first `k` slices before the loop runs.  -/

/-- documents with all the slices an unbounded request would produce -/
def evaluatedFor (docs : List Doc) (topK : Nat) : List Doc :=
  docs.map (fun d => { d with slices := d.slices.take (maxSnippetsPerDoc topK) })

/-- follow cursors when every request recomputes its evaluated list with its own `top_k` -/
def followReq (docs : List Doc) (topK : Nat) : Nat → Nat → List Page
  | 0, _ => []
  | fuel+1, offset =>
    let p := page (evaluatedFor docs topK) offset topK
    match p.nextCursor with
    | none => [p]
    | some c => p :: followReq docs topK fuel c

/-- the property's first sentence, literally: pages of size `k` concatenate to what one request
    with a `top_k` large enough for everything returns -/
def C16_full : Prop :=
  ∀ (docs : List Doc) (k big : Nat), (allHits docs).length ≤ big →
    (followReq docs k (totalSlices docs + 1) 0).flatMap (·.hits) =
      (page (evaluatedFor docs big) 0 big).hits

def witnessDocs : List Doc :=
  [{ frame := 0, chunkStart := 0, chunkLen := 300, slices := [(0, 40), (100, 140), (200, 240)] }]

/-- **C16_counterexample** — with the per-request slice budget the literal statement fails:
    one document with three slices, page size 1 returns one hit in total, `top_k = 50` three. -/
theorem C16_counterexample : ¬ C16_full := by
  intro h
  have := h witnessDocs 1 50 (by decide)
  revert this
  decide

/-- **C16_full_partial** — the literal statement holds whenever no document has more slices than
    the page size (then the per-request budget changes nothing). -/
theorem evaluatedFor_id (docs : List Doc) (k : Nat) (h : ∀ d ∈ docs, d.slices.length ≤ max k 1) :
    evaluatedFor docs k = docs := by
  unfold evaluatedFor maxSnippetsPerDoc
  induction docs with
  | nil => rfl
  | cons d ds ih =>
    have hd := h d (by simp)
    simp only [List.map_cons, List.take_of_length_le hd]
    rw [ih (fun x hx => h x (by simp [hx]))]

theorem followReq_eq (docs : List Doc) (k fuel offset : Nat) :
    followReq docs k fuel offset = follow (evaluatedFor docs k) k fuel offset := by
  induction fuel generalizing offset with
  | zero => rfl
  | succ fuel ih =>
    unfold followReq follow
    dsimp only
    split <;> simp_all

theorem C16_full_partial (docs : List Doc) (k big : Nat)
    (hk : ∀ d ∈ docs, d.slices.length ≤ max k 1) (hbig : ∀ d ∈ docs, d.slices.length ≤ max big 1)
    (hb : (allHits docs).length ≤ big) :
    (followReq docs k (totalSlices docs + 1) 0).flatMap (·.hits) =
      (page (evaluatedFor docs big) 0 big).hits := by
  rw [followReq_eq, evaluatedFor_id docs k hk, evaluatedFor_id docs big hbig]
  have := C16_fixed_concat docs k
  unfold allPages at this
  rw [this, C16_big_request docs big (by omega)]

/-- non-vacuity: two documents, five slices (one clipped empty), page size 2 -/
def exDocs : List Doc :=
  [{ frame := 3, chunkStart := 10, chunkLen := 50, slices := [(0, 20), (30, 80), (60, 70)] },
   { frame := 1, chunkStart := 0, chunkLen := 100, slices := [(5, 25), (40, 90)] }]

example : (allPages exDocs 2).map (fun p => (p.hits.map (fun h => (h.frame, h.gstart, h.gend)), p.totalHits, p.nextCursor))
    = [([(3, 10, 30), (3, 40, 60)], 5, some 2), ([(1, 5, 25), (1, 40, 90)], 5, none)] := by decide

end Mv.Page
