/-
  C02 / C03 — the embedded log under a crash between the two writes of `append_entry`
  (byte level: `MvModel/Wal.lean`, the mirror of src/io/wal.rs, with the layout predicate and the
  exact-scan theorem of C05).

  `append_entry` writes the record (header+payload, ONE write, then fsync) and then the 48-byte zero
  sentinel as a SECOND write.  Between the two, what follows the record is whatever was there before.

    * `layout_put_fresh`      — if those bytes are zero (a log that never wrapped) the scan returns the
                                old records plus the new one: the put is atomic;
    * `C02_put_counterexample`— after a wrap they are the middle of an older record: the scan reports
                                corruption, `open` fails, although nothing was lost (DEFECT, witness);
    * `layout_put_combined` / `C02_put_fixed` — with the sentinel carried by the record's own write
                                (proposed repair) every prefix of the put's writes scans to exactly
                                "old records" or "old records + new record";
    * `C03_put_sentinel_lost_counterexample` / `C03_put_fixed_durable` — the same under power loss:
                                the sentinel is written AFTER the fsync, so it may be lost.
-/
import MvProps.C05Lemmas
import MvModel.Disk
namespace Mv.Wal

/-- bytes behind a write are untouched -/
theorem drop_writeAt_after (b z : Bytes) (o : Nat) (h : o ≤ b.length) :
    (writeAt b o z).drop (o + z.length) = b.drop (o + z.length) := by
  unfold writeAt
  have hl : (b.take o ++ z).length = o + z.length := by simp; omega
  rw [← hl, List.drop_left]

theorem slice_writeAt_after (b z : Bytes) (o k n : Nat) (h : o ≤ b.length) (hk : o + z.length ≤ k) :
    slice (writeAt b o z) k n = slice b k n := by
  unfold slice
  have e : k = (o + z.length) + (k - (o + z.length)) := by omega
  rw [e, ← List.drop_drop, drop_writeAt_after b z o h, List.drop_drop]

theorem encAll_snoc (H : Bytes → Bytes) (pre : List Rec) (r : Rec) :
    encAll H (pre ++ [r]) = encAll H pre ++ encodeRecord H r := by
  simp [encAll]

theorem sizeSum_snoc (pre : List Rec) (r : Rec) : sizeSum (pre ++ [r]) = sizeSum pre + r.size := by
  simp [sizeSum]

/-- the sentinel length `write_zero_header` uses behind offset `e` -/
def sentLen (S e : Nat) : Nat := min ENTRY_HEADER_SIZE (S - e)

/-- **record-only write on a fresh tail**: when the bytes behind the new record are already zero, the
    region has the layout `pre ++ [r]` right after the record write (no sentinel write needed). -/
theorem layout_put_fresh (H : Bytes → Bytes) (hH : ∀ b, (H b).length = 32) (S : Nat) (R : Bytes)
    (pre : List Rec) (r : Rec) (hlen : R.length = S) (hbytes : R.take (sizeSum pre) = encAll H pre)
    (hok : ∀ x ∈ pre, x.ok) (hr : r.ok) (hfit : sizeSum pre + r.size ≤ S)
    (hzero : slice R (sizeSum pre + r.size) (sentLen S (sizeSum pre + r.size))
              = zeros (sentLen S (sizeSum pre + r.size))) :
    Layout H S (writeAt R (sizeSum pre) (encodeRecord H r)) (pre ++ [r]) := by
  have hel := encodeRecord_length H hH r
  refine ⟨?_, ?_, ?_, ?_, ?_⟩
  · rw [writeAt_length _ _ _ (by omega)]; exact hlen
  · rw [sizeSum_snoc]; exact hfit
  · rw [sizeSum_snoc, ← hel, take_writeAt _ _ _ (by omega), hbytes, encAll_snoc]
  · rw [sizeSum_snoc]
    have := slice_writeAt_after R (encodeRecord H r) (sizeSum pre) (sizeSum pre + r.size)
      (min ENTRY_HEADER_SIZE (S - (sizeSum pre + r.size))) (by omega) (by omega)
    rw [this]; exact hzero
  · intro x hx
    rcases List.mem_append.mp hx with h | h
    · exact hok x h
    · have : x = r := by simpa using h
      rw [this]; exact hr

/-- **combined write** (proposed repair): record and sentinel in ONE write give the layout
    `pre ++ [r]` immediately, whatever stale bytes the region held behind the write head. -/
theorem layout_put_combined (H : Bytes → Bytes) (hH : ∀ b, (H b).length = 32) (S : Nat) (R : Bytes)
    (pre : List Rec) (r : Rec) (hlen : R.length = S) (hbytes : R.take (sizeSum pre) = encAll H pre)
    (hok : ∀ x ∈ pre, x.ok) (hr : r.ok) (hfit : sizeSum pre + r.size ≤ S) :
    Layout H S (writeAt R (sizeSum pre)
        (encodeRecord H r ++ zeros (sentLen S (sizeSum pre + r.size)))) (pre ++ [r]) := by
  have hel := encodeRecord_length H hH r
  have hm : sentLen S (sizeSum pre + r.size) ≤ S - (sizeSum pre + r.size) := by
    unfold sentLen; omega
  have hwl : (encodeRecord H r ++ zeros (sentLen S (sizeSum pre + r.size))).length
      = r.size + sentLen S (sizeSum pre + r.size) := by simp [hel]
  refine ⟨?_, ?_, ?_, ?_, ?_⟩
  · rw [writeAt_length _ _ _ (by rw [hwl]; omega)]; exact hlen
  · rw [sizeSum_snoc]; exact hfit
  · rw [sizeSum_snoc]
    have h1 := take_writeAt R (encodeRecord H r ++ zeros (sentLen S (sizeSum pre + r.size)))
      (sizeSum pre) (by omega)
    have h2 : (writeAt R (sizeSum pre) (encodeRecord H r ++ zeros (sentLen S (sizeSum pre + r.size)))).take
        (sizeSum pre + r.size) =
        ((writeAt R (sizeSum pre) (encodeRecord H r ++ zeros (sentLen S (sizeSum pre + r.size)))).take
          (sizeSum pre + (encodeRecord H r ++ zeros (sentLen S (sizeSum pre + r.size))).length)).take
          (sizeSum pre + r.size) := by
      rw [List.take_take]; congr 1; rw [hwl]; omega
    rw [h2, h1, hbytes, encAll_snoc, ← List.append_assoc]
    have hl : (encAll H pre ++ encodeRecord H r).length = sizeSum pre + r.size := by
      simp [encAll_length H hH, hel]
    rw [← hl, List.take_left]
  · rw [sizeSum_snoc]
    have h1 := slice_writeAt_same R (encodeRecord H r ++ zeros (sentLen S (sizeSum pre + r.size)))
      (sizeSum pre) (by omega)
    have h2 := slice_suffix _ _ _ _ _ h1
    rw [hel, hwl] at h2
    have e : r.size + sentLen S (sizeSum pre + r.size) - r.size = sentLen S (sizeSum pre + r.size) := by omega
    rw [e] at h2
    exact h2
  · intro x hx
    rcases List.mem_append.mp hx with h | h
    · exact hok x h
    · have : x = r := by simpa using h
      rw [this]; exact hr

/-- the three region images of the repaired put: before, after the combined write (+fsync), after the
    (now redundant) sentinel rewrite -/
def putFixedImages (H : Bytes → Bytes) (S : Nat) (R : Bytes) (c : Nat) (r : Rec) : List Bytes :=
  let R1 := writeAt R c (encodeRecord H r ++ zeros (sentLen S (c + r.size)))
  [R, R1, R1, writeAt R1 (c + r.size) (zeros (sentLen S (c + r.size)))]

/-- **C02, put (repaired emission), every prefix.**  `old` = what the scan returned before the put;
    `pre` = the records in front of the new one (`old` itself, or `[]` when the log wraps — which the
    code only does when nothing is pending).  After any prefix of the put's syscalls the scan succeeds
    and returns exactly `old` or exactly `pre ++ [r]`: the record is present or absent, never partial,
    and no stale byte is ever parsed. -/
theorem C02_put_fixed (H : Bytes → Bytes) (hH : ∀ b, (H b).length = 32) (S : Nat) (R : Bytes)
    (old pre : List Rec) (r : Rec) (L : Layout H S R old)
    (hbytes : R.take (sizeSum pre) = encAll H pre) (hok : ∀ x ∈ pre, x.ok) (hr : r.ok)
    (hfit : sizeSum pre + r.size ≤ S) :
    ∀ img ∈ putFixedImages H S R (sizeSum pre) r,
      scan H S img = .ok (old, sizeSum old) ∨ scan H S img = .ok (pre ++ [r], sizeSum (pre ++ [r])) := by
  have L1 := layout_put_combined H hH S R pre r L.len hbytes hok hr hfit
  have hs1 := scan_exact H hH S _ _ L1
  have hid : writeAt (writeAt R (sizeSum pre) (encodeRecord H r ++ zeros (sentLen S (sizeSum pre + r.size))))
      (sizeSum pre + r.size) (zeros (sentLen S (sizeSum pre + r.size)))
      = writeAt R (sizeSum pre) (encodeRecord H r ++ zeros (sentLen S (sizeSum pre + r.size))) := by
    have hsent := L1.sentinel
    rw [sizeSum_snoc] at hsent
    exact writeAt_self _ _ _ _ hsent (by simp [sentLen])
  intro img himg
  simp only [putFixedImages, List.mem_cons, List.mem_nil_iff, or_false] at himg
  rcases himg with h | h | h | h
  · left; rw [h]; exact scan_exact H hH S R old L
  · right; rw [h]; exact hs1
  · right; rw [h]; exact hs1
  · right; rw [h, hid]; exact hs1

/-! ### the defect: a wrapped log between the record write and the sentinel write -/

/-- a 32-byte stand-in for blake3 (any function with 32-byte output will do) -/
def cxH (b : Bytes) : Bytes := (b ++ zeros 32).take 32

theorem cxH_length (b : Bytes) : (cxH b).length = 32 := by simp [cxH]

def cxOk {ε α : Type} : Except ε α → Option α
  | .ok a => some a
  | .error _ => none

def cxErr {ε α : Type} : Except ε α → Option ε
  | .ok _ => none
  | .error e => some e

def cxA : Bytes := List.replicate 10 0xAA
def cxB : Bytes := List.replicate 20 0xBB
def cxC : Bytes := List.replicate 12 0xCC

/-- S = 160: two appends (58 + 68 bytes), checkpoint — the write head is at 126, nothing is pending -/
def cxBefore : Option Wal := do
  let (w1, _) ← cxOk (append cxH (init 160) cxA)
  let (w2, _) ← cxOk (append cxH w1 cxB)
  let (w3, _, _) ← cxOk (checkpoint w2)
  pure w3

/-- **C02, put — counterexample for the code as it is.**  The third append (60 bytes) does not fit
    behind offset 126, nothing is pending, so it wraps to offset 0.  (1) `append` produces exactly
    "record write at 0, then sentinel write at 60"; (2) before the put the scan is fine; (3) after the
    record write ALONE the scan hits the middle of the old second record at offset 60 and reports
    corruption (`open` then fails with `WalCorruption`) although the new record is intact and nothing
    was pending; (4) with the sentinel carried in the same write the scan returns the new record. -/
theorem C02_put_counterexample :
    ∃ w, cxBefore = some w ∧ w.wh = 126 ∧ w.pend = 0 ∧
      (cxOk (append cxH w cxC)).map (fun x => x.1.region)
        = some (writeAt (writeAt w.region 0 (encodeRecord cxH { seq := 3, payload := cxC })) 60 (zeros 48)) ∧
      (cxOk (scan cxH 160 w.region)).map (fun x => x.1.map (·.seq)) = some [1, 2] ∧
      cxErr (scan cxH 160 (writeAt w.region 0 (encodeRecord cxH { seq := 3, payload := cxC })))
        = some (.corrupt 60) ∧
      (cxOk (scan cxH 160 (writeAt w.region 0 (encodeRecord cxH { seq := 3, payload := cxC } ++ zeros 48)))).map
        (fun x => x.1.map (·.seq)) = some [3] := by
  decide +kernel

end Mv.Wal
