#!/usr/bin/env python3
"""C10: shape and literals of the post-engine part of Memvid::search.

  src/memvid/search/tantivy.rs  try_tantivy_search:
      let snippet_window = request.snippet_chars.max(80);
      let max_snippets_per_doc = request.top_k.max(1);
      let effective_top_k = request.top_k.max(1);
      first loop: is a frame whose status is not Active skipped?        -> TANTIVY_SKIPS_INACTIVE
  src/memvid/search/fallback.rs  search_with_filters_only:
      let snippet_limit = request.snippet_chars.max(80);
      is a frame whose status is not Active skipped?                     -> FILTERS_SKIPS_INACTIVE
      are request.uri / request.scope applied (uri_matches / starts_with)? -> FILTERS_URI_SCOPE
  The three booleans are `false` on the tree as found and `true` with /verif/fixes/C10.diff.
"""
from common import *


def fn_body(src, name):
    m = re.search(r"\bfn\s+" + re.escape(name) + r"\b", src)
    if not m:
        raise TranslateError(f"fn {name} not found")
    i = src.find("{", m.end())
    depth, j = 0, i
    while j < len(src):
        if src[j] == "{":
            depth += 1
        elif src[j] == "}":
            depth -= 1
            if depth == 0:
                return src[i:j + 1]
        j += 1
    raise TranslateError(f"fn {name}: unbalanced braces")


def one_int(body, pattern, what):
    ms = re.findall(pattern, body)
    if len(set(ms)) != 1:
        raise TranslateError(f"{what}: expected one value, got {ms}")
    return int(ms[0])


STATUS_SKIP = r"{var}\.status\s*!=\s*(?:crate::types::)?FrameStatus::Active\s*\{{\s*continue\s*;\s*\}}"


def lean_bool(b):
    return "true" if b else "false"


def run():
    tv = strip_comments(read("src/memvid/search/tantivy.rs"))
    fb = strip_comments(read("src/memvid/search/fallback.rs"))
    tbody = fn_body(tv, "try_tantivy_search")
    fbody = fn_body(fb, "search_with_filters_only")
    window = one_int(tbody, r"let\s+snippet_window\s*=\s*request\.snippet_chars\.max\((\d+)\)\s*;", "snippet_window")
    limit = one_int(fbody, r"let\s+snippet_limit\s*=\s*request\.snippet_chars\.max\((\d+)\)\s*;", "snippet_limit")
    maxs = one_int(tbody, r"let\s+max_snippets_per_doc\s*=\s*request\.top_k\.max\((\d+)\)\s*;", "max_snippets_per_doc")
    topk = one_int(tbody, r"let\s+effective_top_k\s*=\s*request\.top_k\.max\((\d+)\)\s*;", "effective_top_k (tantivy)")
    topk2 = one_int(fbody, r"let\s+effective_top_k\s*=\s*request\.top_k\.max\((\d+)\)\s*;", "effective_top_k (filters only)")
    if topk != topk2 or maxs != topk:
        raise TranslateError(f"top_k floors differ: {topk} {topk2} {maxs}")
    # the post-filter the soundness theorem rests on must be there
    for pat, what in [(r"if\s*!\s*parsed\.evaluate\(&ctx\)\s*\{", "parsed.evaluate post-filter (tantivy)"),
                      (r"uri_matches\(frame_meta\.uri\.as_deref\(\)\s*,\s*uri_expected\)", "uri filter (tantivy)"),
                      (r"uri\.starts_with\(scope\)", "scope filter (tantivy)"),
                      (r"rank:\s*hits\.len\(\)\s*\+\s*1", "rank = hits.len() + 1 (tantivy)")]:
        if not re.search(pat, tbody):
            raise TranslateError(f"{what} not found in try_tantivy_search")
    for pat, what in [(r"if\s*!\s*parsed\.evaluate\(&ctx\)\s*\{", "parsed.evaluate filter (filters only)"),
                      (r"rank:\s*hits\.len\(\)\s*\+\s*1", "rank = hits.len() + 1 (filters only)")]:
        if not re.search(pat, fbody):
            raise TranslateError(f"{what} not found in search_with_filters_only")
    t_skip = bool(re.search(STATUS_SKIP.format(var="frame_meta"), tbody))
    f_skip = bool(re.search(STATUS_SKIP.format(var="frame"), fbody))
    f_uri = bool(re.search(r"uri_matches\(frame\.uri\.as_deref\(\)\s*,\s*uri_expected\)", fbody)) and \
        bool(re.search(r"uri\.starts_with\(scope\)", fbody))
    body = (f"def MIN_SNIPPET_WINDOW : Nat := {window}\n"
            f"def MIN_SNIPPET_LIMIT : Nat := {limit}\n"
            f"def TOP_K_FLOOR : Nat := {topk}\n"
            f"def TANTIVY_SKIPS_INACTIVE : Bool := {lean_bool(t_skip)}\n"
            f"def FILTERS_SKIPS_INACTIVE : Bool := {lean_bool(f_skip)}\n"
            f"def FILTERS_URI_SCOPE : Bool := {lean_bool(f_uri)}\n")
    return emit("C10", body)


main(run)
