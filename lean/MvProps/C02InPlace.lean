/-
  C02 — the in-place paths are NOT atomic under process crash: counterexample theorems on the
  symbolic `recover` model (toy instances of the protocols of `MvModel/Emit.lean`; the same prefixes
  are reproduced on the real code by the recorder, see known_findings.jsonl).

  `C02_inplace_full P` is the atomicity statement for a protocol instance: after every prefix the
  reopened memory shows what it showed before the step or what it shows after the complete step.
-/
import MvModel.Crash
import MvModel.Emit
namespace Mv.Crash
open Mv.Disk Mv.Emit

/-- atomicity of one in-place step `ws` on image `img` -/
def AtomicStep (env : Env) (g : Geo) (img : List Cell) (ws : List (Sys Cell)) : Prop :=
  ∀ k, (recover env g (applyAll img (ws.take k))).logical = (recover env g img).logical ∨
       (recover env g (applyAll img (ws.take k))).logical = (recover env g (applyAll img ws)).logical

def ug : Geo := { hdrSize := 2, footSize := 2, recHdr := 1, zeroProbe := 1 }

/-! ### `grow_wal_region` / `ensure_wal_capacity`: log region 6 → 12, three payloads of 3 cells -/

def genv : Env := fun i =>
  if i = 1 then some (.hdr { footerOff := 17, walSize := 6, walSeq := 0 })
  else if i = 2 then some (.hdr { footerOff := 23, walSize := 12, walSeq := 0 })
  else if i = 30 then some (.toc { len := 3, frames := [{ off := 8, len := 3, sum := 10, status := 0 },
      { off := 11, len := 3, sum := 11, status := 0 }, { off := 14, len := 3, sum := 12, status := 0 }], segs := [] })
  else if i = 31 then some (.foot 30 3)
  else if i = 32 then some (.toc { len := 3, frames := [{ off := 14, len := 3, sum := 10, status := 0 },
      { off := 17, len := 3, sum := 11, status := 0 }, { off := 20, len := 3, sum := 12, status := 0 }], segs := [] })
  else if i = 33 then some (.foot 32 3)
  else none

def gimg : List Cell :=
  objCells 1 2 ++ zeroCells 6 ++ objCells 10 3 ++ objCells 11 3 ++ objCells 12 3 ++ objCells 30 3 ++ objCells 31 2

/-- the shift moves the whole tail `[8,22)` up by 6 in one chunk, zero-fills `[8,14)`, rewrites
    TOC/footer at 23, persists the header (instance of `Emit.growProto`) -/
def gws : List (Sys Cell) :=
  growProto 0 22 6 8 [(8, slice gimg 8 14)] [zeroCells 6] 23 (objCells 32 3) (objCells 33 2) (objCells 2 2)

/-- before and after the complete step all three frames are readable -/
example : (recover genv ug gimg).logical = some [⟨0, 10, true⟩, ⟨0, 11, true⟩, ⟨0, 12, true⟩] := by decide
example : (recover genv ug (applyAll gimg gws)).logical = some [⟨0, 10, true⟩, ⟨0, 11, true⟩, ⟨0, 12, true⟩] := by decide

/-- **crash right after the shift write** (prefix 2): the header still describes the old geometry,
    the only valid footer is the moved copy whose TOC lists the OLD offsets, and the moved data has
    overwritten the third payload — frame 2 is unreadable; after the zero-fill (prefix 3) all are. -/
theorem C02_grow_counterexample :
    (recover genv ug (applyAll gimg (gws.take 2))).logical = some [⟨0, 10, true⟩, ⟨0, 11, true⟩, ⟨0, 12, false⟩] ∧
    (recover genv ug (applyAll gimg (gws.take 3))).logical = some [⟨0, 10, false⟩, ⟨0, 11, false⟩, ⟨0, 12, false⟩] ∧
    ¬ AtomicStep genv ug gimg gws := by
  refine ⟨by decide, by decide, ?_⟩
  intro h
  have := h 2
  revert this
  decide

/-! ### `vacuum`: a deleted 2-cell payload in front of an active 3-cell payload -/

def venv : Env := fun i =>
  if i = 1 then some (.hdr { footerOff := 13, walSize := 6, walSeq := 0 })
  else if i = 2 then some (.hdr { footerOff := 11, walSize := 6, walSeq := 0 })
  else if i = 30 then some (.toc { len := 3, frames := [{ off := 8, len := 2, sum := 10, status := 2 },
      { off := 10, len := 3, sum := 11, status := 0 }], segs := [] })
  else if i = 31 then some (.foot 30 3)
  else if i = 32 then some (.toc { len := 3, frames := [{ off := 0, len := 0, sum := 10, status := 2 },
      { off := 8, len := 3, sum := 11, status := 0 }], segs := [] })
  else if i = 33 then some (.foot 32 3)
  else none

def vimg : List Cell :=
  objCells 1 2 ++ zeroCells 6 ++ objCells 10 2 ++ objCells 11 3 ++ objCells 30 3 ++ objCells 31 2

def vws : List (Sys Cell) :=
  vacuumProto 0 [(8, objCells 11 3)] 11 [] 11 (objCells 32 3) (objCells 33 2) (objCells 2 2)

example : (recover venv ug vimg).logical = some [⟨2, 10, true⟩, ⟨0, 11, true⟩] := by decide
example : (recover venv ug (applyAll vimg vws)).logical = some [⟨2, 10, true⟩, ⟨0, 11, true⟩] := by decide

/-- **crash after the first compacting write** (prefix 1): the active payload was copied over the
    start of its own old location while the TOC still lists the old offset — the frame is
    unreadable; one syscall later (the truncation, prefix 2) the only TOC is gone and `open` fails. -/
theorem C02_vacuum_counterexample :
    (recover venv ug (applyAll vimg (vws.take 1))).logical = some [⟨2, 10, true⟩, ⟨0, 11, false⟩] ∧
    recover venv ug (applyAll vimg (vws.take 2)) = .fail .toc ∧
    ¬ AtomicStep venv ug vimg vws := by
  refine ⟨by decide, by decide, ?_⟩
  intro h
  have := h 1
  revert this
  decide

/-! ### `finalize_indexes` (= `rebuild_indexes` in place) and `commit_skip_indexes` -/

def fenv : Env := fun i =>
  if i = 1 then some (.hdr { footerOff := 10, walSize := 6, walSeq := 0 })
  else if i = 2 then some (.hdr { footerOff := 11, walSize := 6, walSeq := 0 })
  else if i = 3 then some (.hdr { footerOff := 12, walSize := 6, walSeq := 1 })
  else if i = 5 then some (.wrec 1 3 (.insert { sum := 20, len := 2 }))
  else if i = 30 then some (.toc { len := 3, frames := [{ off := 8, len := 2, sum := 10, status := 0 }], segs := [] })
  else if i = 31 then some (.foot 30 3)
  else if i = 32 then some (.toc { len := 3, frames := [{ off := 8, len := 2, sum := 10, status := 0 }], segs := [] })
  else if i = 33 then some (.foot 32 3)
  else if i = 34 then some (.toc { len := 4, frames := [{ off := 8, len := 2, sum := 10, status := 0 },
      { off := 10, len := 2, sum := 20, status := 0 }], segs := [] })
  else if i = 35 then some (.foot 34 4)
  else none

/-- committed file, nothing pending -/
def fimg : List Cell :=
  objCells 1 2 ++ zeroCells 6 ++ objCells 10 2 ++ objCells 30 3 ++ objCells 31 2

/-- `finalize_indexes`: truncate to the footer offset, one 1-cell segment, TOC+footer behind it, header -/
def fws : List (Sys Cell) :=
  finalizeProto 0 10 [(10, objCells 40 1)] 11 (objCells 32 3) (objCells 33 2) (objCells 2 2)

/-- **the first syscall of `finalize_indexes` removes the only TOC** (prefixes 1 and 2: `open` fails;
    from the TOC write on the legacy tail scan finds the new TOC) -/
theorem C02_finalize_counterexample :
    (recover fenv ug fimg).logical = some [⟨0, 10, true⟩] ∧
    (recover fenv ug (applyAll fimg fws)).logical = some [⟨0, 10, true⟩] ∧
    recover fenv ug (applyAll fimg (fws.take 1)) = .fail .toc ∧
    recover fenv ug (applyAll fimg (fws.take 2)) = .fail .toc ∧
    ¬ AtomicStep fenv ug fimg fws := by
  refine ⟨by decide, by decide, by decide, by decide, ?_⟩
  intro h
  have := h 1
  revert this
  decide

/-- the same committed file with one pending record (seq 1) in the log -/
def simg : List Cell :=
  objCells 1 2 ++ objCells 5 3 ++ zeroCells 3 ++ objCells 10 2 ++ objCells 30 3 ++ objCells 31 2

/-- `commit_skip_indexes`: payload at `data_end` (= the old TOC's offset), TOC+footer at 12, header -/
def sws : List (Sys Cell) :=
  skipIndexProto 0 5 (zeroCells 1) [(10, objCells 20 2)] 12 (objCells 34 4) (objCells 35 2) (objCells 3 2)

/-- **`commit_skip_indexes`**: prefix 2 (payload written over the TOC) — `open` fails; prefix 6
    (new TOC and footer in place at a NEW offset, header not yet rewritten) — the header pointer is
    stale, the footer scan finds the new TOC, the old checkpoint makes recovery replay the record
    again: three frames instead of two. -/
theorem C02_skip_indexes_counterexample :
    (recover fenv ug simg).logical = some [⟨0, 10, true⟩, ⟨0, 20, true⟩] ∧
    (recover fenv ug (applyAll simg sws)).logical = some [⟨0, 10, true⟩, ⟨0, 20, true⟩] ∧
    recover fenv ug (applyAll simg (sws.take 2)) = .fail .toc ∧
    (recover fenv ug (applyAll simg (sws.take 6))).logical = some [⟨0, 10, true⟩, ⟨0, 20, true⟩, ⟨0, 20, true⟩] ∧
    ¬ AtomicStep fenv ug simg sws := by
  refine ⟨by decide, by decide, by decide, by decide, ?_⟩
  intro h
  have := h 2
  revert this
  decide

end Mv.Crash
