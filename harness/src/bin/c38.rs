//! C38 — SIMD distance equals the scalar definition.
//! impl: memvid_core::simd::{l2_distance_squared_simd, l2_distance_simd} (feature `simd` on, the default)
//! model: drv_c38 (lane structure over exact rationals)
//! oracle: f64 reference / exact recomputation, exact symmetry, exact self-distance zero, and the
//!         scalar definition (the cfg(not(feature="simd")) code path) recomputed here in f32.
//!
//! Streams (one `run_case` handles all; what applies is decided from the inputs themselves):
//!  * exact: small dyadic values such that every intermediate of the lane structure is exactly
//!    representable in f32 (verified by error-free recomputation) -> implementation, model and the
//!    scalar definition must agree to the bit (sqrt compared when the sum is a perfect square);
//!  * arbitrary finite floats: relative error vs f64 and vs the model's exact rational within the
//!    a-priori rounding bound (len/8 + 20) * 2^-24, symmetry and self-zero exact;
//!  * extremes / non-finite: no panic, symmetry, sign, overflow only when the true value overflows.
use memvid_core::simd::{l2_distance_simd, l2_distance_squared_simd};
use mvh::*;

fn vhex(v: &[f32]) -> String {
    if v.is_empty() { return "-".into(); }
    v.iter().map(|x| format!("{:08x}", x.to_bits())).collect()
}
fn unvhex(s: &str) -> Vec<f32> {
    if s == "-" { return vec![]; }
    (0..s.len() / 8).map(|i| f32::from_bits(u32::from_str_radix(&s[i * 8..i * 8 + 8], 16).unwrap())).collect()
}

/// decimal string of m * 2^k
fn dec_mul_pow2(m: u64, k: u32) -> String {
    let mut d: Vec<u8> = m.to_string().bytes().rev().map(|c| c - b'0').collect();
    for _ in 0..k {
        let mut carry = 0u8;
        for x in d.iter_mut() {
            let v = *x * 2 + carry;
            *x = v % 10;
            carry = v / 10;
        }
        if carry > 0 { d.push(carry); }
    }
    d.iter().rev().map(|x| (x + b'0') as char).collect()
}

/// exact value of a finite f32 as "<num> <den>" in lowest terms (the driver's format)
fn rat_of(x: f32) -> String {
    let bits = x.to_bits();
    let neg = bits >> 31 == 1;
    let e = ((bits >> 23) & 0xff) as i32;
    let m = (bits & 0x7f_ffff) as u64;
    let (mut mant, mut exp) = if e == 0 { (m, -149) } else { ((1u64 << 23) + m, e - 150) };
    if mant == 0 { return "0 1".into(); }
    while mant % 2 == 0 && exp < 0 { mant /= 2; exp += 1; }
    let (num, den) = if exp >= 0 { (dec_mul_pow2(mant, exp as u32), "1".to_string()) }
                     else { (mant.to_string(), dec_mul_pow2(1, (-exp) as u32)) };
    format!("{}{} {}", if neg { "-" } else { "" }, num, den)
}

// --------------------------------------------------------------------------------------------
// error-free recomputation: Some(v) iff every intermediate along the given order is exact in f32
fn fits(v: f64) -> Option<f64> {
    let f = v as f32;
    if f.is_finite() && (f as f64) == v { Some(v) } else { None }
}
fn ex_add(a: f64, b: f64) -> Option<f64> {
    let s = a + b;
    let bb = s - a;
    let err = (a - (s - bb)) + (b - bb);
    if err != 0.0 || !s.is_finite() { return None; }
    fits(s)
}
fn ex_sqdiff(x: f32, y: f32) -> Option<f64> {
    let d = ex_add(x as f64, -(y as f64))?;
    fits(d * d) // product of two f32-representable values is exact in f64
}
/// the lane order of the accelerated kernel
fn exact_lanes(a: &[f32], b: &[f32]) -> Option<f64> {
    let n = a.len();
    let chunks = n / 8;
    let mut lanes = [0.0f64; 8];
    for i in 0..chunks {
        for k in 0..8 {
            lanes[k] = ex_add(lanes[k], ex_sqdiff(a[i * 8 + k], b[i * 8 + k])?)?;
        }
    }
    let mut total = -0.0f64;
    for k in 0..8 { total = ex_add(total, lanes[k])?; }
    for i in chunks * 8..n { total = ex_add(total, ex_sqdiff(a[i], b[i])?)?; }
    Some(total)
}
/// the scalar order
fn exact_scalar(a: &[f32], b: &[f32]) -> Option<f64> {
    let mut total = -0.0f64;
    for i in 0..a.len() { total = ex_add(total, ex_sqdiff(a[i], b[i])?)?; }
    Some(total)
}
/// the scalar definition exactly as written under cfg(not(feature = "simd")) in src/simd.rs
fn scalar_def(a: &[f32], b: &[f32]) -> f32 {
    a.iter().zip(b.iter()).map(|(x, y)| { let diff = x - y; diff * diff }).sum()
}
fn ref64(a: &[f32], b: &[f32]) -> f64 {
    a.iter().zip(b.iter()).map(|(x, y)| { let d = *x as f64 - *y as f64; d * d }).sum()
}

const U: f64 = 1.0 / 16777216.0; // 2^-24

fn same_value_bits(x: f32, y: f32) -> bool {
    x.to_bits() == y.to_bits() || (x == 0.0 && y == 0.0)
}

/// IEEE identities assumed by theorems C38_symm / C38_self_zero, sampled on the inputs
fn check_ieee_laws(a: &[f32], b: &[f32], sum: &mut Summary) {
    let mut bad: Option<String> = None;
    for (x, y) in a.iter().zip(b.iter()).take(16) {
        let (x, y) = (*x, *y);
        if !x.is_finite() || !y.is_finite() { continue; }
        if x.to_bits() != y.to_bits() && (x - y).to_bits() != (-(y - x)).to_bits() { bad = Some(format!("sub_anti {x:e} {y:e}")); }
        let d = y - x;
        if ((-d) * (-d)).to_bits() != (d * d).to_bits() { bad = Some(format!("neg_mul_neg {x:e} {y:e}")); }
        if (x - x).to_bits() != 0 { bad = Some(format!("sub_self {x:e}")); }
    }
    let z = std::hint::black_box(0.0f32);
    let nz = std::hint::black_box(-0.0f32);
    if (z * z).to_bits() != 0 || (z + z).to_bits() != 0 || (nz + z).to_bits() != 0 || z.sqrt().to_bits() != 0 {
        bad = Some("zero laws".into());
    }
    let empty: [f32; 0] = [];
    if empty.iter().sum::<f32>().to_bits() != nz.to_bits() { sum.branch("sum-init-is-not-negative-zero"); }
    if let Some(w) = bad {
        sum.oracle_violation("ieee-law-assumed-by-theorem-fails", &w, json!({"a": vhex(a), "b": vhex(b)}));
    }
}

fn run_case(a: &[f32], b: &[f32], drv: &mut Driver, use_model: bool, sum: &mut Summary, verbose: bool) {
    let case = json!({"a": vhex(a), "b": vhex(b)});
    let (ha, hb) = (vhex(a), vhex(b));
    let av = a.to_vec(); let bv = b.to_vec();
    let r_sq = guarded(move || l2_distance_squared_simd(&av, &bv));
    let av = a.to_vec(); let bv = b.to_vec();
    let r_d = guarded(move || l2_distance_simd(&av, &bv));
    let n = a.len();
    let finite = a.iter().chain(b.iter()).all(|x| x.is_finite());
    let mut canon = format!("{ha}|{hb}|");
    if verbose { println!("impl : sq={:?} dist={:?}", r_sq.as_ref().map(|x| format!("{:e} ({:08x})", x, x.to_bits())), r_d.as_ref().map(|x| format!("{:e} ({:08x})", x, x.to_bits()))); }

    // ---- unequal lengths: outside the property; model = debug_assert panic
    if a.len() != b.len() {
        sum.branch("len-mismatch");
        let imp = if r_sq.is_err() && r_d.is_err() { "panic".to_string() } else { format!("value {:?} {:?}", r_sq, r_d) };
        if use_model && finite {
            let m = drv.ask(&format!("sq {ha} {hb}"));
            if verbose { println!("model: {m}"); }
            if m != imp { sum.disagreement("length mismatch: debug_assert panic expected", case.clone(), &m, &imp); }
        }
        canon.push_str(&imp);
        sum.case(&canon, false, || json!({}));
        return;
    }
    let (sq, d) = match (r_sq, r_d) {
        (Ok(s), Ok(d)) => (s, d),
        (s, d) => {
            sum.oracle_violation("panic-on-equal-length-vectors", &format!("{s:?} {d:?}"), case);
            sum.case(&canon, false, || json!({}));
            return;
        }
    };
    canon.push_str(&format!("{:08x}", sq.to_bits()));
    sum.branch(&format!("len-mod8-{}", n % 8));
    sum.branch(match n / 8 { 0 => "chunks-0", 1 => "chunks-1", _ => "chunks-many" });

    // ---- symmetry and self-distance (exact, all inputs)
    let (sq_ba, d_ba) = (l2_distance_squared_simd(b, a), l2_distance_simd(b, a));
    if finite {
        if sq.to_bits() != sq_ba.to_bits() || d.to_bits() != d_ba.to_bits() {
            sum.oracle_violation("not-symmetric", &format!("d2(a,b)={:08x} d2(b,a)={:08x} d(a,b)={:08x} d(b,a)={:08x}", sq.to_bits(), sq_ba.to_bits(), d.to_bits(), d_ba.to_bits()), case.clone());
        }
        for v in [a, b] {
            let (s0, d0) = (l2_distance_squared_simd(v, v), l2_distance_simd(v, v));
            if s0.to_bits() != 0 || d0.to_bits() != 0 {
                sum.oracle_violation("self-distance-not-zero", &format!("d2(v,v)={:08x} d(v,v)={:08x}", s0.to_bits(), d0.to_bits()), json!({"a": vhex(v), "b": vhex(v)}));
            }
        }
        if a.iter().zip(b.iter()).all(|(x, y)| x.to_bits() == y.to_bits()) { sum.branch("equal-vectors"); }
        if sq.is_nan() || d.is_nan() || sq.is_sign_negative() || d.is_sign_negative() {
            sum.oracle_violation("negative-or-nan-distance-for-finite-input", &format!("sq={sq:e} d={d:e}"), case.clone());
        }
        check_ieee_laws(a, b, sum);
    } else {
        sum.branch("nonfinite-input");
        if sq.is_nan() != sq_ba.is_nan() || (!sq.is_nan() && sq.to_bits() != sq_ba.to_bits()) {
            sum.oracle_violation("not-symmetric", &format!("non-finite input: {:08x} vs {:08x}", sq.to_bits(), sq_ba.to_bits()), case.clone());
        }
        if use_model {
            let m = drv.ask(&format!("sq {ha} {hb}"));
            if m != "nonfinite" { sum.disagreement("non-finite input must be refused by the exact model", case.clone(), &m, "nonfinite"); }
        }
        sum.case(&canon, false, || json!({}));
        return;
    }

    // ---- d = sqrt(d2), correctly rounded
    if d.to_bits() != sq.sqrt().to_bits() {
        sum.oracle_violation("distance-is-not-sqrt-of-squared-distance", &format!("d={:08x} sqrt(d2)={:08x}", d.to_bits(), sq.sqrt().to_bits()), case.clone());
    }

    let r64 = ref64(a, b);
    let scal = scalar_def(a, b);
    let bound_simd = (n / 8 + 20) as f64 * U;
    let bound_scal = (n + 20) as f64 * U;
    let abs_slack = (n + 1) as f64 * 2f64.powi(-149);
    let ex = exact_lanes(a, b);
    let ex_s = exact_scalar(a, b);
    if a.iter().chain(b.iter()).any(|x| x.is_subnormal()) { sum.branch("subnormal-input"); }

    // ---- exact stream
    if let Some(e) = ex {
        sum.branch("exact");
        if sq as f64 != e {
            sum.oracle_violation("exact-case-differs-from-exact-sum", &format!("impl {:e} exact {:e}", sq, e), case.clone());
        }
        if ex_s.is_some() {
            sum.branch("exact-scalar-too");
            if !same_value_bits(sq, scal) {
                sum.oracle_violation("simd-differs-from-scalar-definition-on-exact-input", &format!("simd {:08x} scalar {:08x}", sq.to_bits(), scal.to_bits()), case.clone());
            }
        }
        if use_model {
            let m = drv.ask(&format!("sq {ha} {hb}"));
            let imp = format!("sq {}", rat_of(sq));
            if verbose { println!("model: {m}\nimpl : {imp}"); }
            if m != imp { sum.disagreement("l2_distance_squared_simd vs model (exact input)", case.clone(), &m, &imp); }
            let ms = drv.ask(&format!("scalar {ha} {hb}"));
            if ms != m { sum.disagreement("model: scalar definition differs from lane structure", case.clone(), &ms, &m); }
            let md = drv.ask(&format!("dist {ha} {hb}"));
            if verbose { println!("model: {md}"); }
            if md.ends_with(" exact") {
                sum.branch("exact-perfect-square");
                let impd = format!("dist {} exact", rat_of(d));
                if md != impd { sum.disagreement("l2_distance_simd vs model (perfect square)", case.clone(), &md, &impd); }
            }
        }
    } else {
        sum.branch("inexact");
    }

    // ---- rounding bound vs f64 reference (all finite inputs)
    let max = f32::MAX as f64;
    if sq.is_infinite() {
        sum.branch("overflow-inf");
        if r64 < max * 0.99 {
            sum.oracle_violation("overflow-without-cause", &format!("impl inf, f64 reference {r64:e}"), case.clone());
        }
    } else if r64 > max * 1.01 {
        sum.oracle_violation("missing-overflow", &format!("impl {sq:e}, f64 reference {r64:e}"), case.clone());
    } else {
        let err = (sq as f64 - r64).abs();
        if err > r64 * bound_simd * 1.0001 + abs_slack {
            sum.oracle_violation("rounding-error-above-bound", &format!("n={n} impl {:e} f64 {:e} rel {:e} bound {:e}", sq, r64, err / r64, bound_simd), case.clone());
        }
        if scal.is_finite() {
            let err_s = (sq as f64 - scal as f64).abs();
            if err_s > r64 * (bound_simd + bound_scal) * 1.0001 + 2.0 * abs_slack {
                sum.oracle_violation("simd-differs-from-scalar-definition-beyond-rounding", &format!("n={n} simd {:e} scalar {:e}", sq, scal), case.clone());
            }
        }
        // sqrt: relative error halves, one more rounding
        let rd = r64.sqrt();
        if r64 > 1e-30 && (d as f64 - rd).abs() > rd * (bound_simd / 2.0 + 2.0 * U) * 1.0001 {
            sum.oracle_violation("distance-rounding-error-above-bound", &format!("n={n} impl {:e} f64 {:e}", d, rd), case.clone());
        }
        if use_model && ex.is_none() && r64 > 1e-30 {
            let m = drv.ask(&format!("err {:08x} {ha} {hb}", sq.to_bits()));
            if verbose { println!("model: {m} (bound {})", n / 8 + 20); }
            let ok = m.strip_prefix("ulps ").and_then(|s| s.parse::<u64>().ok()).map(|u| u <= (n / 8 + 20) as u64).unwrap_or(false);
            if !ok { sum.disagreement("impl squared distance vs model's exact rational: beyond rounding bound", case.clone(), &m, &format!("{:08x}", sq.to_bits())); }
            let m = drv.ask(&format!("derr {:08x} {ha} {hb}", d.to_bits()));
            let ok = m.strip_prefix("ulps ").and_then(|s| s.parse::<u64>().ok()).map(|u| u <= (n / 8 + 24) as u64).unwrap_or(false);
            if !ok { sum.disagreement("impl distance vs model's exact rational: beyond rounding bound", case.clone(), &m, &format!("{:08x}", d.to_bits())); }
        }
    }
    let nontrivial = n >= 1;
    sum.case(&canon, nontrivial, || json!({"len": n, "a_head": a.iter().take(4).collect::<Vec<_>>(), "b_head": b.iter().take(4).collect::<Vec<_>>(), "impl_sq": sq, "impl_dist": d, "exact": ex.is_some()}));
}

// --------------------------------------------------------------------------------------------
// generators
fn gen_len(rng: &mut Rng, thorough: bool) -> usize {
    match rng.below(20) {
        0 => *rng.pick(&[0usize, 1, 7, 8, 9, 15, 16, 17, 24, 63, 64, 65, 100]),
        1 if thorough => *rng.pick(&[383usize, 384, 385, 768, 1000, 1536, 1537]),
        2 if thorough => rng.usize(100, 1200),
        _ => rng.usize(0, 100),
    }
}

/// small dyadics: m * 2^-s, |m| <= 2^mb
fn gen_exact(rng: &mut Rng, n: usize) -> (Vec<f32>, Vec<f32>) {
    let s = rng.below(12) as i32;
    let mb = *rng.pick(&[1i64, 3, 7, 15, 64, 128, 128, 300, 4096]);
    let scale = 2f32.powi(-s);
    let style = rng.below(5);
    let mut a = Vec::with_capacity(n);
    let mut b = Vec::with_capacity(n);
    // sparse perfect-square patterns: difference vector made of a few Pythagorean tuples
    const TUPLES: [&[i64]; 6] = [&[3, 4], &[1, 2, 2], &[2, 3, 6], &[1, 4, 8], &[2, 6, 9], &[5, 12]];
    let mut planted: Vec<i64> = vec![0; n];
    if style == 0 && n > 0 {
        let t = TUPLES[rng.below(6) as usize];
        let k = rng.i64(1, 5);
        let mut pos: Vec<usize> = (0..n).collect();
        rng.shuffle(&mut pos);
        for (i, v) in t.iter().enumerate() { if i < n { planted[pos[i]] = v * k * if rng.bool() { 1 } else { -1 }; } }
    }
    for i in 0..n {
        let x = rng.i64(-mb, mb);
        let y = match style {
            0 => x - planted[i],
            1 => x,                                   // equal vectors
            2 => if rng.chance(1, 4) { x } else { rng.i64(-mb, mb) },
            _ => rng.i64(-mb, mb),
        };
        a.push(x as f32 * scale);
        b.push(y as f32 * scale);
    }
    (a, b)
}

fn rand_unit(rng: &mut Rng) -> f64 { (rng.u64() >> 11) as f64 / (1u64 << 53) as f64 }

fn gen_arbitrary(rng: &mut Rng, n: usize) -> (Vec<f32>, Vec<f32>) {
    let style = rng.below(7);
    let mut a: Vec<f32> = Vec::with_capacity(n);
    let mut b: Vec<f32> = Vec::with_capacity(n);
    for _ in 0..n {
        let (x, y): (f32, f32) = match style {
            0 => ((rand_unit(rng) * 2.0 - 1.0) as f32, (rand_unit(rng) * 2.0 - 1.0) as f32),
            1 => { let x = (rand_unit(rng) * 2.0 - 1.0) as f32; (x, x + ((rand_unit(rng) - 0.5) * 1e-3) as f32) }
            2 => {
                let k = rng.i64(-30, 30) as i32;
                let f = |r: &mut Rng| ((1.0 + rand_unit(r)) * 2f64.powi(k + r.i64(-2, 2) as i32)) as f32 * if r.bool() { 1.0 } else { -1.0 };
                (f(rng), f(rng))
            }
            3 => { let x = (rand_unit(rng) * 2.0 - 1.0) as f32; (x, x) }
            4 => ((rand_unit(rng) * 1e18) as f32, -(rand_unit(rng) * 1e18) as f32),        // near overflow of the sum
            5 => ((rand_unit(rng) * 255.0).round() as f32 / 255.0, (rand_unit(rng) * 255.0).round() as f32 / 255.0),
            _ => (f32::from_bits((rng.u64() as u32) & 0x7fff_ffff).min(1e15) * if rng.bool() { 1.0 } else { -1.0 },
                  f32::from_bits((rng.u64() as u32) & 0x7fff_ffff).min(1e15)),
        };
        a.push(x); b.push(y);
    }
    if style == 0 && rng.bool() {
        // unit-normalised like real embeddings
        for v in [&mut a, &mut b] {
            let norm = v.iter().map(|x| (*x as f64) * (*x as f64)).sum::<f64>().sqrt();
            if norm > 0.0 { for x in v.iter_mut() { *x = (*x as f64 / norm) as f32; } }
        }
    }
    // NaNs from `min` on NaN patterns are impossible (min returns the non-NaN operand); infinities are capped
    (a, b)
}

fn gen_extreme(rng: &mut Rng, n: usize) -> (Vec<f32>, Vec<f32>) {
    let pool = [0.0f32, -0.0, f32::MIN_POSITIVE, -f32::MIN_POSITIVE, f32::from_bits(1), f32::from_bits(0x8000_0001),
                f32::MAX, f32::MIN, 1.8446743e19, -1.8446743e19, 1.0, -1.0, f32::EPSILON, 16777216.0, 16777217.0,
                f32::INFINITY, f32::NEG_INFINITY, f32::NAN];
    let allow_nonfinite = rng.chance(1, 4);
    let lim = if allow_nonfinite { pool.len() } else { pool.len() - 3 };
    let f = |r: &mut Rng| -> f32 {
        if r.bool() { pool[r.below(lim as u64) as usize] } else {
            let x = f32::from_bits(r.u64() as u32);
            if x.is_finite() || allow_nonfinite { x } else { 0.0 }
        }
    };
    let a: Vec<f32> = (0..n).map(|_| f(rng)).collect();
    let b: Vec<f32> = if rng.chance(1, 5) { a.clone() } else { (0..n).map(|_| f(rng)).collect() };
    (a, b)
}

fn main() {
    let args = parse_args();
    let use_model = args.driver.to_str() != Some("none");
    let mut drv = Driver::spawn(if use_model { &args.driver } else { std::path::Path::new("cat") }).expect("spawn driver");
    let mut sum = Summary::new("C38", &args,
        "pairs of f32 vectors, lengths 0..100 (all residues mod 8; thorough also 383..1537): (1) small dyadics whose \
         lane-order intermediates are all exact in f32 (checked by error-free recomputation) incl. planted perfect squares, \
         (2) arbitrary finite floats (uniform, normalised, near-equal, 2^-30..2^30, near-overflow, random bit patterns), \
         (3) extremes/non-finite, (4) unequal lengths; non-trivial = equal lengths >= 1, finite; distinct = input bits + result bits");
    sum.expect_branches(&["len-mod8-0", "len-mod8-1", "len-mod8-2", "len-mod8-3", "len-mod8-4", "len-mod8-5", "len-mod8-6", "len-mod8-7",
        "chunks-0", "chunks-1", "chunks-many", "exact", "exact-scalar-too", "exact-perfect-square", "inexact", "equal-vectors",
        "overflow-inf", "nonfinite-input", "len-mismatch", "subnormal-input"]);
    sum.notes.push("feature `simd` cannot be switched off for one harness binary (shared Cargo.toml, feature unification); the \
        scalar definition (the cfg(not(simd)) code, copied verbatim into the harness as scalar_def) is compared instead".into());
    if args.mode == "replay" {
        let case = load_replay(args.replay_file.as_ref().expect("replay file"));
        let input = case.get("input").unwrap_or(&case);
        let a = unvhex(input["a"].as_str().unwrap());
        let b = unvhex(input["b"].as_str().unwrap());
        println!("a = {a:?}\nb = {b:?}");
        println!("scalar definition (f32) = {:e}; f64 reference = {:e}; exact(lane order) = {:?}", scalar_def(&a, &b), ref64(&a, &b), exact_lanes(&a, &b));
        run_case(&a, &b, &mut drv, use_model, &mut sum, true);
        sum.finish(&args);
    }
    let mut rng = Rng::new(args.seed);
    // fixed corpus
    let mut corpus: Vec<(Vec<f32>, Vec<f32>)> = vec![
        (vec![], vec![]),
        (vec![0.0, 0.0, 0.0], vec![3.0, 4.0, 0.0]),
        (vec![0.0, 0.0], vec![3.0, 4.0]),
        ((0..384).map(|i| i as f32 * 0.01).collect(), (0..384).map(|i| (i + 1) as f32 * 0.01).collect()),
        (vec![1.0], vec![]), (vec![], vec![1.0]), (vec![1.0; 9], vec![1.0; 8]), (vec![1.0; 8], vec![1.0; 9]), (vec![1.0; 16], vec![1.0; 7]),
        (vec![f32::MAX; 3], vec![f32::MIN; 3]),
        (vec![-0.0; 11], vec![0.0; 11]),
        (vec![f32::NAN; 9], vec![0.0; 9]),
        (vec![f32::INFINITY; 9], vec![f32::INFINITY; 9]),
    ];
    for n in 0..=33usize {
        // position-sensitive: element i contributes 2^i-ish distinct weights (exact while small)
        corpus.push(((0..n).map(|i| (i + 1) as f32).collect(), vec![0.0; n]));
        // a single differing coordinate at every position of a 3-chunk + remainder vector
        if n < 27 { let mut v = vec![0.5f32; 27]; v[n] = 3.5; corpus.push((v, vec![0.5; 27])); }
    }
    for (a, b) in &corpus { run_case(a, b, &mut drv, use_model, &mut sum, false); }
    let (n_exact, n_arb, n_ext) = if args.thorough { (60000, 60000, 20000) } else { (8000, 8000, 2500) };
    for _ in 0..n_exact {
        let n = gen_len(&mut rng, args.thorough);
        let (a, b) = gen_exact(&mut rng, n);
        run_case(&a, &b, &mut drv, use_model, &mut sum, false);
    }
    for _ in 0..n_arb {
        let n = gen_len(&mut rng, args.thorough);
        let (a, b) = gen_arbitrary(&mut rng, n);
        run_case(&a, &b, &mut drv, use_model, &mut sum, false);
    }
    for _ in 0..n_ext {
        let n = gen_len(&mut rng, args.thorough);
        let (a, b) = gen_extreme(&mut rng, n);
        run_case(&a, &b, &mut drv, use_model, &mut sum, false);
    }
    for _ in 0..50 {
        let (n, m) = (rng.usize(0, 40), rng.usize(0, 40));
        let (a, _) = gen_exact(&mut rng, n);
        let (b, _) = gen_exact(&mut rng, m);
        run_case(&a, &b, &mut drv, use_model, &mut sum, false);
    }
    sum.model_requests = drv.requests;
    sum.finish(&args);
}
