//! C28 — persisted indexes answer exactly like the in-memory ones.
//!
//! impl  : real `Memvid` on a tempdir file (history ops through the Core family's `mvh::hist::World`).
//!         At every CHECK point of a history: commit, then ONE query battery (lexical search, vector
//!         search, timeline) is evaluated on
//!           live  — the handle that made the commit,
//!           doc   — a copy of the file after `Memvid::doctor` with index rebuilds, opened,
//!           ro    — `open_read_only` of the file,
//!           rw    — `Memvid::open` of the file (the history goes on with this handle).
//!         At every PROBE point (puts with `instant_index` not yet committed): lexical queries on the
//!         live handle as it is.
//! model : drv_c28 (MvModel/Persist.lean): the bytes `rebuild_indexes` writes for the time index and the
//!         vector index (compared with the bytes the TOC manifests point to), what the readers make of
//!         those bytes, timeline / vector search answers from the decoded indexes, the sketch track's
//!         write + read (what `persist_sketch_track` + `load_sketch_track` do to the in-memory track) and
//!         the sketch pre-filter's candidate set before and after that round trip.
//! oracle: (independent of the model) canonical result of every battery query on live == doc == ro == rw;
//!         every hit of a PROBE query names a committed frame whose own text contains the query words.
use memvid_core::types::{QuerySketch, SketchTrack};
use memvid_core::verif_hooks;
use memvid_core::{AclEnforcementMode, DoctorOptions, Memvid, SearchRequest, TimelineQuery};
use mvh::hist::*;
use mvh::*;
use serde::{Deserialize, Serialize};
use std::collections::{BTreeMap, BTreeSet};
use std::io::{Read, Seek, SeekFrom};
use std::num::NonZeroU64;
use std::panic::AssertUnwindSafe;
use std::path::Path;

// ---------------------------------------------------------------------------------------
// histories

#[derive(Clone, Debug, PartialEq, Serialize, Deserialize)]
enum Act {
    /// one API call on the live handle
    Op(Op),
    /// lexical queries on the live handle as it is (meant for: after instant-index puts, before commit)
    Probe { seed: u64 },
    /// commit, battery on live / doctored copy / read-only / reopened
    Check { rt: bool, rl: bool, rv: bool, seed: u64 },
}

// ---------------------------------------------------------------------------------------
// query battery

#[derive(Clone, Debug, Serialize)]
struct LexQ { query: String, top_k: usize, snippet: usize, uri: Option<String>, scope: Option<String>, cursor: Option<String>, no_sketch: bool,
              as_of_frame: Option<u64>, as_of_ts: Option<i64> }
#[derive(Clone, Debug, Serialize)]
struct VecQ { q: Vec<f32>, k: usize }
#[derive(Clone, Debug, Serialize)]
struct TlQ { limit: u64, since: Option<i64>, until: Option<i64>, reverse: bool }

#[derive(Clone, Debug, Serialize)]
enum Q { Lex(LexQ), Vec(VecQ), Tl(TlQ) }

impl Q {
    fn kind(&self) -> &'static str { match self { Q::Lex(_) => "lex", Q::Vec(_) => "vec", Q::Tl(_) => "timeline" } }
}

/// canonical answer of one query: `main` is what the property compares, `ids` the frame ids in answer order,
/// `scores` the f32 bit patterns that came with them
#[derive(Clone, Debug, PartialEq)]
struct Ans { main: String, ids: Vec<u64>, scores: Vec<u32>, aux: String }

fn run_lex(mem: &mut Memvid, q: &LexQ) -> Ans {
    let req = SearchRequest {
        query: q.query.clone(), top_k: q.top_k, snippet_chars: q.snippet, uri: q.uri.clone(), scope: q.scope.clone(),
        cursor: q.cursor.clone(), as_of_frame: q.as_of_frame, as_of_ts: q.as_of_ts, no_sketch: q.no_sketch,
        acl_context: None, acl_enforcement_mode: AclEnforcementMode::Audit,
    };
    match guarded(AssertUnwindSafe(|| mem.search(req))) {
        Ok(Ok(r)) => {
            let hits: Vec<String> = r.hits.iter().map(|h| format!("{}@{}:{}-{}:m{}:{}:{}:{}", h.rank, h.frame_id, h.range.0, h.range.1, h.matches,
                b3short(h.text.as_bytes()), h.uri, h.chunk_range.map(|c| format!("{}-{}", c.0, c.1)).unwrap_or_else(|| "-".into()))).collect();
            Ans {
                main: format!("ok engine={:?} total={} next={} stale={} hits=[{}]", r.engine, r.total_hits, r.next_cursor.clone().unwrap_or_else(|| "-".into()),
                    r.stale_index_skips, hits.join(" ")),
                ids: r.hits.iter().map(|h| h.frame_id).collect(),
                scores: r.hits.iter().map(|h| h.score.map(f32::to_bits).unwrap_or(0)).collect(), aux: String::new(),
            }
        }
        Ok(Err(e)) => Ans { main: format!("err {e}"), ids: vec![], scores: vec![], aux: String::new() },
        Err(p) => Ans { main: format!("panic {p}"), ids: vec![], scores: vec![], aux: String::new() },
    }
}

fn run_vec(mem: &mut Memvid, q: &VecQ) -> Ans {
    match guarded(AssertUnwindSafe(|| mem.search_vec(&q.q, q.k))) {
        Ok(Ok(hits)) => Ans {
            main: format!("ok [{}]", hits.iter().map(|h| format!("{}:{:08x}", h.frame_id, h.distance.to_bits())).collect::<Vec<_>>().join(" ")),
            ids: hits.iter().map(|h| h.frame_id).collect(), scores: hits.iter().map(|h| h.distance.to_bits()).collect(), aux: String::new(),
        },
        Ok(Err(e)) => Ans { main: format!("err {}", map_err(&e).0), ids: vec![], scores: vec![], aux: String::new() },
        Err(p) => Ans { main: format!("panic {p}"), ids: vec![], scores: vec![], aux: String::new() },
    }
}

fn run_tl(mem: &mut Memvid, q: &TlQ) -> Ans {
    let tq = TimelineQuery { limit: NonZeroU64::new(q.limit), since: q.since, until: q.until, reverse: q.reverse };
    match guarded(AssertUnwindSafe(|| mem.timeline(tq))) {
        Ok(Ok(es)) => Ans {
            main: format!("ok [{}]", es.iter().map(|e| format!("{}:{}:{}:{}:{}", e.timestamp, e.frame_id, b3short(e.preview.as_bytes()),
                e.uri.clone().unwrap_or_else(|| "-".into()), e.child_frames.iter().map(|c| c.to_string()).collect::<Vec<_>>().join("+"))).collect::<Vec<_>>().join(" ")),
            ids: es.iter().map(|e| e.frame_id).collect(), scores: vec![],
            aux: if es.is_empty() { "ok -".into() } else { format!("ok {}", es.iter().map(|e| format!("{}:{}", e.timestamp, e.frame_id)).collect::<Vec<_>>().join(",")) },
        },
        Ok(Err(e)) => Ans { main: format!("err {e}"), ids: vec![], scores: vec![], aux: String::new() },
        Err(p) => Ans { main: format!("panic {p}"), ids: vec![], scores: vec![], aux: String::new() },
    }
}

fn run_q(mem: &mut Memvid, q: &Q) -> Ans {
    match q { Q::Lex(l) => run_lex(mem, l), Q::Vec(v) => run_vec(mem, v), Q::Tl(t) => run_tl(mem, t) }
}

/// words (ASCII letters, >= 4 chars, lower case) of a text, in order of first occurrence
fn words_of(text: &str, max: usize) -> Vec<String> {
    let mut out: Vec<String> = vec![];
    for w in text.split(|c: char| !c.is_ascii_alphanumeric()) {
        if w.len() >= 4 && w.chars().all(|c| c.is_ascii_alphabetic()) {
            let l = w.to_ascii_lowercase();
            if !out.contains(&l) { out.push(l); if out.len() >= max { break; } }
        }
    }
    out
}

const VOCAB: &[&str] = &["alpha", "bravo", "charlie", "delta", "foxtrot", "hotel", "memory", "frame", "ledger", "orbit", "quartz", "river",
    "signal", "tundra", "vector", "willow", "xenon", "paris", "berlin", "manager", "alice", "works"];

/// the battery of one check point: a function of the seed and of the committed state only
fn battery(rng: &mut Rng, obs: &Obs, vec_dim: Option<usize>, vec_samples: &[Vec<f32>], thorough: bool) -> Vec<Q> {
    let mut qs: Vec<Q> = vec![];
    // ---- lexical
    let mut pool: Vec<String> = vec![];
    let active: Vec<&FrameObs> = obs.frames.iter().filter(|f| f.active()).collect();
    for _ in 0..6 {
        if active.is_empty() { break; }
        let f = *rng.pick(&active);
        if let Some(t) = &f.search_text { let ws = words_of(t, 40); if !ws.is_empty() { pool.push(rng.pick(&ws).clone()); } }
    }
    while pool.len() < 4 { pool.push((*rng.pick(VOCAB)).to_string()); }
    let word = |rng: &mut Rng| -> String { if rng.chance(3, 4) { rng.pick(&pool).clone() } else { (*rng.pick(VOCAB)).to_string() } };
    let base = |query: String| LexQ { query, top_k: 10, snippet: 80, uri: None, scope: None, cursor: None, no_sketch: false, as_of_frame: None, as_of_ts: None };
    let n_lex = if thorough { 12 } else { 8 };
    for i in 0..n_lex {
        let mut q = match i % 8 {
            0 | 1 => base(word(rng)),
            2 => { let mut b = base(word(rng)); b.no_sketch = true; b }
            3 => base(format!("{} {}", word(rng), word(rng))),
            4 => base(format!("{} OR {}", word(rng), word(rng))),
            5 => { let mut b = base(word(rng)); b.top_k = rng.usize(1, 3); if rng.bool() { b.cursor = Some(rng.usize(1, 3).to_string()); } b }
            6 => {
                // field terms: tag / track / uri, alone or with a word
                let tags: Vec<String> = active.iter().flat_map(|f| f.tags.iter().cloned()).collect();
                let t = if tags.is_empty() { "news".to_string() } else { rng.pick(&tags).clone() };
                if rng.bool() { base(format!("tag:{t}")) } else { base(format!("tag:{t} {}", word(rng))) }
            }
            _ => {
                let mut b = base(word(rng));
                match rng.below(4) {
                    0 => { let us: Vec<String> = active.iter().filter_map(|f| f.uri.clone()).collect(); if !us.is_empty() { b.uri = Some(rng.pick(&us).clone()); } }
                    1 => b.scope = Some("mv2://".to_string() + *rng.pick(&["news", "note", "doc", "frames"])),
                    2 => b.as_of_frame = Some(rng.below(obs.frame_count.max(1))),
                    _ => { if let Some(f) = active.first() { b.as_of_ts = Some(f.ts + rng.i64(-100, 500)); } }
                }
                b
            }
        };
        if rng.chance(1, 6) { q.no_sketch = true; }
        if rng.chance(1, 8) { q.snippet = *rng.pick(&[0usize, 20, 200]); }
        if rng.chance(1, 8) { q.top_k = *rng.pick(&[0usize, 1, 2, 50]); }
        qs.push(Q::Lex(q));
    }
    qs.push(Q::Lex(base("zzzqqqabsentword".into())));
    // the whole text of up to two short frames (a query close to a frame's own sketch: the sketch
    // pre-filter then yields candidates and really narrows the engine's search)
    let mut shorts: Vec<String> = active.iter().filter_map(|f| f.search_text.clone())
        .filter(|t| t.len() <= 24 && !words_of(t, 3).is_empty() && t.chars().all(|c| c.is_ascii_alphanumeric() || c == ' ')).collect();
    shorts.sort(); shorts.dedup();
    for _ in 0..2 { if !shorts.is_empty() { let t = rng.pick(&shorts).clone(); qs.push(Q::Lex(base(t))); } }
    // "self queries": all sketch tokens of one frame's index text — the query's SimHash equals the frame's,
    // so the sketch pre-filter yields candidates and really narrows the engine's search
    for _ in 0..2 {
        if active.is_empty() { break; }
        let f = *rng.pick(&active);
        if let Some(t) = &f.search_text {
            let toks = memvid_core::types::tokenize_for_sketch(t);
            if !toks.is_empty() && toks.len() <= 80 && toks.iter().all(|w| w.chars().all(|c| c.is_ascii_alphanumeric())) {
                let mut b = base(toks.join(" ")); b.top_k = 50; qs.push(Q::Lex(b));
            }
        }
    }
    // ---- vector
    let dim = vec_dim.unwrap_or(3);
    let mk = |rng: &mut Rng, d: usize| -> Vec<f32> { (0..d).map(|_| (rng.below(2001) as f32 - 1000.0) / 256.0).collect() };
    if !vec_samples.is_empty() { qs.push(Q::Vec(VecQ { q: rng.pick(vec_samples).clone(), k: rng.usize(1, 4) })); }
    qs.push(Q::Vec(VecQ { q: mk(rng, dim), k: *rng.pick(&[1usize, 3, 100]) }));
    qs.push(Q::Vec(VecQ { q: mk(rng, dim), k: 1000 }));
    qs.push(Q::Vec(VecQ { q: mk(rng, dim + 1), k: 5 }));
    if rng.chance(1, 3) { qs.push(Q::Vec(VecQ { q: vec![], k: 5 })); }
    // ---- timeline
    let tss: Vec<i64> = active.iter().map(|f| f.ts).collect();
    let pick_ts = |rng: &mut Rng| -> i64 { if tss.is_empty() { 0 } else { *rng.pick(&tss) + rng.i64(-1, 1) } };
    qs.push(Q::Tl(TlQ { limit: 0, since: None, until: None, reverse: false }));
    qs.push(Q::Tl(TlQ { limit: rng.range(1, 4), since: None, until: None, reverse: true }));
    let (a, b) = (pick_ts(rng), pick_ts(rng));
    qs.push(Q::Tl(TlQ { limit: 0, since: Some(a.min(b)), until: Some(a.max(b)), reverse: rng.bool() }));
    qs.push(Q::Tl(TlQ { limit: rng.range(1, 3), since: if rng.bool() { Some(pick_ts(rng)) } else { None }, until: if rng.bool() { Some(pick_ts(rng)) } else { None }, reverse: rng.bool() }));
    qs
}

// ---------------------------------------------------------------------------------------
// index side data of a handle / of the file

#[derive(Clone, Debug, PartialEq)]
struct SkEnt { id: u64, simhash: u64, filter: Vec<u8>, tops: Vec<u32>, wsum: u16, flags: u16, len_hint: u16 }

fn sketch_entries(t: &SketchTrack) -> Vec<SkEnt> {
    t.iter().map(|e| SkEnt { id: e.frame_id, simhash: e.simhash, filter: e.term_filter.clone(), tops: e.top_terms.clone(),
        wsum: e.term_weight_sum, flags: e.flags.bits(), len_hint: e.length_hint }).collect()
}

/// the decision of `QuerySketch::score_entry` (its two rejections), independently of `find_candidates`
fn sketch_passes(q: &QuerySketch, e: &SkEnt) -> bool {
    let overlap = e.filter.iter().zip(q.term_filter.iter()).any(|(a, b)| a & b != 0);
    overlap && (e.simhash ^ q.simhash).count_ones() <= 32
}

#[derive(Clone, Debug, Default)]
struct Side {
    /// (frame id, f32 bit patterns) in index order; None = no in-memory index after `search_vec` ran
    vec_docs: Option<Vec<(u64, Vec<u32>)>>,
    vec_enabled: bool,
    vec_manifest: Option<(u64, u32, u64)>,
    sketch: Vec<SkEnt>,
    sketch_real: Vec<memvid_core::types::SketchEntry>,
    sketch_variant: String,
    lex_docs: Option<u64>,
    frames: Vec<(u64, i64, char, char)>,
}

fn side_of(mem: &mut Memvid) -> Side {
    let st = verif_hooks::verif_state(mem);
    let ix = verif_hooks::verif_index_state(mem);
    let vec_docs = if st.vec_index_kind == "none" { None } else {
        Some(st.vec_entries.iter().map(|(id, _)| {
            let e = mem.frame_embedding(*id).ok().flatten().unwrap_or_default();
            (*id, e.iter().map(|x| x.to_bits()).collect())
        }).collect())
    };
    let frames = verif_hooks::verif_frames(mem).iter().map(|f| (f.id, f.timestamp,
        match f.role { memvid_core::FrameRole::Document => 'd', memvid_core::FrameRole::DocumentChunk => 'c', memvid_core::FrameRole::ExtractedImage => 'i' },
        match f.status { memvid_core::FrameStatus::Active => 'a', memvid_core::FrameStatus::Superseded => 's', memvid_core::FrameStatus::Deleted => 'd' })).collect();
    Side { vec_docs, vec_enabled: st.vec_enabled, vec_manifest: ix.vec_manifest, sketch: sketch_entries(mem.sketches()), sketch_real: mem.sketches().iter().cloned().collect(),
           sketch_variant: match mem.sketches().variant { memvid_core::types::SketchVariant::Small => "small", memvid_core::types::SketchVariant::Medium => "medium", memvid_core::types::SketchVariant::Large => "large" }.to_string(),
           lex_docs: ix.lex_num_docs, frames }
}

#[derive(Clone, Debug, Default)]
struct FileImg { time: Option<Vec<u8>>, vec: Option<Vec<u8>>, sketch: Option<Vec<u8>>, lex_segments: usize, err: Option<String> }

fn read_at(f: &mut std::fs::File, off: u64, len: u64) -> Option<Vec<u8>> {
    let mut buf = vec![0u8; len as usize];
    f.seek(SeekFrom::Start(off)).ok()?;
    f.read_exact(&mut buf).ok()?;
    Some(buf)
}

/// the index bytes the committed TOC of the file points to
fn file_img(path: &Path) -> FileImg {
    let mut img = FileImg::default();
    let mut f = match std::fs::File::open(path) { Ok(f) => f, Err(e) => { img.err = Some(e.to_string()); return img; } };
    let mut hb = [0u8; 4096];
    if f.read_exact(&mut hb).is_err() { img.err = Some("short header".into()); return img; }
    let header = match memvid_core::io::header::HeaderCodec::decode(&hb) { Ok(h) => h, Err(e) => { img.err = Some(e.to_string()); return img; } };
    let toc = match verif_hooks::read_toc(&mut f, &header) { Ok(t) => t, Err(e) => { img.err = Some(e.to_string()); return img; } };
    if let Some(m) = &toc.time_index { img.time = read_at(&mut f, m.bytes_offset, m.bytes_length); }
    if let Some(m) = &toc.indexes.vec { img.vec = if m.bytes_length == 0 { Some(vec![]) } else { read_at(&mut f, m.bytes_offset, m.bytes_length) }; }
    if let Some(m) = &toc.sketch_track { img.sketch = read_at(&mut f, m.bytes_offset, m.bytes_length); }
    img.lex_segments = toc.segment_catalog.tantivy_segments.len();
    img
}

// ---------------------------------------------------------------------------------------
// running a history

#[derive(Default)]
struct Outcome {
    acts: Vec<Act>,
    trace: Vec<String>,
    /// (signature, what, model predicted it)
    oracle: Option<(String, String, bool)>,
    disagree: Option<(String, String, String)>,
    dead: Option<String>,
    branches: Vec<String>,
    queries: u64,
    checks: u64,
    cases: Vec<(String, bool)>,
    /// frame ids some earlier check point saw WITH an entry in the committing handle's sketch track
    ever_sketched: BTreeSet<u64>,
}

struct Ctx<'a> { drv: Option<&'a mut Driver>, thorough: bool, verbose: bool, no_rv: bool }

fn hexs(b: &[u8]) -> String { hexw(b) }

fn frames_wire(fr: &[(u64, i64, char, char)]) -> String {
    if fr.is_empty() { "-".into() } else { fr.iter().map(|(id, ts, r, s)| format!("{id}:{ts}:{r}:{s}")).collect::<Vec<_>>().join(",") }
}
fn docs_wire(d: &Option<Vec<(u64, Vec<u32>)>>) -> String {
    match d {
        None => "none".into(),
        Some(v) if v.is_empty() => "empty".into(),
        Some(v) => v.iter().map(|(id, e)| format!("{id}:{}", if e.is_empty() { "-".to_string() } else { e.iter().map(|x| format!("{x:08x}")).collect::<String>() })).collect::<Vec<_>>().join(";"),
    }
}
fn sketch_wire(s: &[SkEnt]) -> String {
    if s.is_empty() { "-".into() } else {
        s.iter().map(|e| format!("{}:{}:{}:{}:{}:{}:{}", e.id, e.simhash, hexs(&e.filter),
            if e.tops.is_empty() { "-".to_string() } else { e.tops.iter().map(|t| t.to_string()).collect::<Vec<_>>().join(",") }, e.wsum, e.flags, e.len_hint)).collect::<Vec<_>>().join(";")
    }
}
fn ids_wire(v: &[u64]) -> String { if v.is_empty() { "-".into() } else { v.iter().map(|x| x.to_string()).collect::<Vec<_>>().join(",") } }
fn bits_wire(v: &[f32]) -> String { if v.is_empty() { "-".into() } else { v.iter().map(|x| format!("{:08x}", x.to_bits())).collect() } }

fn tie_canon(ids: &[u64], dist: &[u32]) -> Vec<Vec<u64>> {
    // groups of equal f32 distance, ids sorted inside a group
    let mut out: Vec<Vec<u64>> = vec![];
    let mut i = 0;
    while i < ids.len() {
        let mut j = i;
        while j < ids.len() && dist[j] == dist[i] { j += 1; }
        let mut g = ids[i..j].to_vec(); g.sort_unstable(); out.push(g);
        i = j;
    }
    out
}

fn open_rw(path: &Path) -> Result<Memvid, String> {
    match guarded(AssertUnwindSafe(|| Memvid::open(path))) { Ok(Ok(m)) => Ok(m), Ok(Err(e)) => Err(e.to_string()), Err(p) => Err(format!("panic: {p}")) }
}

fn probe_queries(rng: &mut Rng, obs: &Obs, pending_texts: &[String]) -> Vec<LexQ> {
    let mut pool: Vec<String> = vec![];
    for t in pending_texts { for w in words_of(t, 30) { if !pool.contains(&w) { pool.push(w); } } }
    for f in obs.frames.iter().rev().take(6) { if let Some(t) = &f.search_text { for w in words_of(t, 8) { if !pool.contains(&w) { pool.push(w); } } } }
    for w in VOCAB.iter().take(6) { pool.push(w.to_string()); }
    let mut qs = vec![];
    for i in 0..6 {
        let w1 = rng.pick(&pool).clone();
        let query = match i % 3 { 0 | 1 => w1, _ => format!("{} {}", w1, rng.pick(&pool)) };
        qs.push(LexQ { query, top_k: *rng.pick(&[1usize, 5, 20]), snippet: 80, uri: None, scope: None, cursor: None, no_sketch: rng.bool(), as_of_frame: None, as_of_ts: None });
    }
    qs
}

/// the frame's own text contains every word of the (word / "w1 w2") query — independent of the query evaluator
fn frame_contains(mem: &mut Memvid, id: u64, query: &str) -> Result<bool, String> {
    let frames = verif_hooks::verif_frames(mem);
    let Some(f) = frames.get(id as usize) else { return Err(format!("hit names frame {id} which is not a committed frame")); };
    let mut text = f.search_text.clone().unwrap_or_default().to_ascii_lowercase();
    if let Ok(t) = mem.frame_text_by_id(id) { text.push('\n'); text.push_str(&t.to_ascii_lowercase()); }
    if let Ok((_, _, t)) = verif_hooks::resolve_chunk_context(mem, f) { text.push('\n'); text.push_str(&t.to_ascii_lowercase()); }
    Ok(query.split_whitespace().all(|w| text.contains(&w.to_ascii_lowercase())))
}

fn run_history(acts: &[Act], ctx: &mut Ctx) -> Outcome {
    let mut out = Outcome::default();
    let mut world = match World::create() { Ok(w) => w, Err(e) => { out.dead = Some(e); return out; } };
    let mut pending_texts: Vec<String> = vec![];
    let mut instant_pending = false;
    for (i, act) in acts.iter().enumerate() {
        out.acts.push(act.clone());
        match act {
            Act::Op(op) => {
                let before_frames = world.reference.frames.len();
                let step = match guarded(AssertUnwindSafe(|| world.exec(op))) {
                    Ok(s) => s,
                    Err(p) => { out.dead = Some(format!("act {i} {}: panic in implementation: {p}", op.name())); return out; }
                };
                if let Ack::Err(k, d) = &step.ack { if k == "dead" { out.dead = Some(format!("act {i} {}: {d}", op.name())); return out; } }
                out.branches.push(format!("op-{}", op.name()));
                out.trace.push(format!("{} -> {}", op.name(), step.ack.line()));
                if ctx.verbose { println!("--- act {i}: {:?}\n    -> {}  frames={} pending={} dirty={}", op, step.ack.line(), step.obs.frame_count, step.obs.pending_inserts, step.obs.dirty); }
                match op {
                    Op::Put(p) if step.ack.is_ok() => {
                        if step.obs.dirty {
                            if let Ok(t) = String::from_utf8(p.payload.bytes()) { pending_texts.push(t); }
                            if p.instant_index { instant_pending = true; out.branches.push("instant-index-put-pending".into()); }
                        } else { pending_texts.clear(); instant_pending = false; }
                        if p.emb.is_some() { out.branches.push("put-with-embedding".into()); }
                        if world.reference.frames.len() > before_frames + 1 { out.branches.push("chunked-put".into()); }
                    }
                    Op::Delete { .. } if step.ack.is_ok() => out.branches.push("delete-acked".into()),
                    Op::Update(_) if step.ack.is_ok() => out.branches.push("update-acked".into()),
                    _ => {}
                }
                if !step.obs.dirty { pending_texts.clear(); instant_pending = false; }
            }
            Act::Probe { seed } => {
                let mut rng = Rng::new(*seed);
                let obs = world.observe();
                let qs = probe_queries(&mut rng, &obs, &pending_texts);
                if instant_pending { out.branches.push("probe-with-instant-index-pending".into()); }
                for q in qs {
                    let ans = run_lex(world.mem(), &q);
                    out.queries += 1;
                    if instant_pending {
                        // what the engine itself answers (documents of uncommitted puts are indexed under their WAL sequence number)
                        if let Some(Ok(raw)) = verif_hooks::tantivy_search_documents(world.mem(), &q.query, None, None, None, 50) {
                            if raw.iter().any(|(id, _)| *id < obs.frame_count && !ans.ids.contains(id)) { out.branches.push("probe-engine-hit-culled-by-post-filter".into()); }
                            if raw.iter().any(|(id, _)| *id >= obs.frame_count) { out.branches.push("probe-engine-hit-with-stale-id".into()); }
                        }
                    }
                    out.cases.push((format!("probe|{}|{}", q.query, ans.main), !ans.ids.is_empty()));
                    if ctx.verbose { println!("--- act {i}: probe {:?} k={} ns={} -> {}", q.query, q.top_k, q.no_sketch, ans.main); }
                    if !ans.ids.is_empty() && instant_pending { out.branches.push("probe-hit-while-instant-pending".into()); }
                    if ans.main.starts_with("panic") {
                        out.oracle = Some(("search-panics".into(), format!("act {i}: search({:?}) before commit: {}", q.query, ans.main), false));
                        return out;
                    }
                    for id in &ans.ids {
                        match frame_contains(world.mem(), *id, &q.query) {
                            Ok(true) => {}
                            Ok(false) => {
                                out.oracle = Some(("uncommitted-search-returns-frame-without-query".into(),
                                    format!("act {i}: search({:?}) between put and commit returned frame {id}, whose text does not contain the query words", q.query), false));
                                return out;
                            }
                            Err(e) => {
                                out.oracle = Some(("uncommitted-search-returns-unknown-frame".into(), format!("act {i}: search({:?}) between put and commit: {e}", q.query), false));
                                return out;
                            }
                        }
                    }
                }
            }
            Act::Check { rt, rl, rv, seed } => {
                if let Some(f) = check(&mut world, ctx, &mut out, i, *rt, *rl, *rv, *seed) {
                    match f {
                        Fail::Oracle(s, w, m) => out.oracle = Some((s, w, m)),
                        Fail::Disagree(w, m, im) => out.disagree = Some((w, m, im)),
                        Fail::Dead(d) => out.dead = Some(d),
                    }
                    return out;
                }
                pending_texts.clear(); instant_pending = false;
            }
        }
    }
    out
}

enum Fail { Oracle(String, String, bool), Disagree(String, String, String), Dead(String) }

fn check(world: &mut World, ctx: &mut Ctx, out: &mut Outcome, i: usize, rt: bool, rl: bool, rv: bool, seed: u64) -> Option<Fail> {
    let timing = std::env::var("C28_TIMING").is_ok();
    let t0 = std::time::Instant::now();
    let rv = rv && !ctx.no_rv;
    // 1. commit
    let step = match guarded(AssertUnwindSafe(|| world.exec(&Op::Commit))) { Ok(s) => s, Err(p) => return Some(Fail::Dead(format!("act {i} check: commit panicked: {p}"))) };
    if let Ack::Err(k, d) = &step.ack { return Some(Fail::Dead(format!("act {i} check: commit failed: {k} {d}"))); }
    let obs = step.obs;
    out.checks += 1;
    out.branches.push("check".into());
    // 2. battery from the committed state
    let mut rng = Rng::new(seed);
    let live_side0 = side_of(world.mem());
    let samples: Vec<Vec<f32>> = live_side0.vec_docs.as_ref().map(|d| d.iter().map(|(_, e)| e.iter().map(|b| f32::from_bits(*b)).collect()).collect()).unwrap_or_default();
    let dim = samples.first().map(|s: &Vec<f32>| s.len()).or(live_side0.vec_manifest.map(|m| m.1 as usize).filter(|d| *d > 0));
    let qs = battery(&mut rng, &obs, dim, &samples, ctx.thorough);
    if timing { eprintln!("  [t] commit+battery-gen {:?}", t0.elapsed()); }
    // 3. live
    let live: Vec<Ans> = qs.iter().map(|q| run_q(world.mem(), q)).collect();
    let live_side = side_of(world.mem());
    let img = file_img(&world.path);
    if let Some(e) = &img.err { return Some(Fail::Dead(format!("act {i} check: cannot read the committed TOC: {e}"))); }
    if timing { eprintln!("  [t] live done {:?}", t0.elapsed()); }
    // 4. doctored copy
    let copy = world.dir.path().join("doctored.mv2");
    let _ = std::fs::remove_file(&copy);
    if let Err(e) = std::fs::copy(&world.path, &copy) { return Some(Fail::Dead(format!("copy: {e}"))); }
    let opts = DoctorOptions { rebuild_time_index: rt, rebuild_lex_index: rl, rebuild_vec_index: rv, vacuum: false, dry_run: false, quiet: true };
    let c2 = copy.clone();
    let rep = guarded(move || Memvid::doctor(&c2, opts));
    let doc_status = match &rep { Ok(Ok(r)) => format!("{:?}", r.status), Ok(Err(e)) => format!("error: {e}"), Err(p) => format!("panic: {p}") };
    let (doc, doc_side): (Vec<Ans>, Side) = match open_rw(&copy) {
        Ok(mut m) => { let a = qs.iter().map(|q| run_q(&mut m, q)).collect(); let s = side_of(&mut m); (a, s) }
        Err(e) => return Some(Fail::Oracle("doctored-copy-does-not-open".into(), format!("act {i}: after doctor(rt={rt},rl={rl},rv={rv}) [{doc_status}] the copy does not open: {e}"), false)),
    };
    let doc_img = file_img(&copy);
    let _ = std::fs::remove_file(&copy);
    if timing { eprintln!("  [t] doctor done {:?}", t0.elapsed()); }
    // 5. read-only
    world.mem = None;
    let (ro, ro_side): (Vec<Ans>, Side) = match guarded(AssertUnwindSafe(|| Memvid::open_read_only(&world.path))) {
        Ok(Ok(mut m)) => { let a = qs.iter().map(|q| run_q(&mut m, q)).collect(); let s = side_of(&mut m); (a, s) }
        Ok(Err(e)) => return Some(Fail::Oracle("read-only-open-fails".into(), format!("act {i}: open_read_only after commit: {e}"), false)),
        Err(p) => return Some(Fail::Oracle("read-only-open-fails".into(), format!("act {i}: open_read_only after commit panicked: {p}"), false)),
    };
    if timing { eprintln!("  [t] ro done {:?}", t0.elapsed()); }
    // 6. reopen read-write; the history goes on with this handle
    match open_rw(&world.path) {
        Ok(m) => { world.mem = Some(m); world.batch = None; }
        Err(e) => return Some(Fail::Oracle("reopen-fails".into(), format!("act {i}: Memvid::open after commit: {e}"), false)),
    }
    let rw: Vec<Ans> = qs.iter().map(|q| run_q(world.mem(), q)).collect();
    let rw_side = side_of(world.mem());
    out.queries += 4 * qs.len() as u64;
    if let Some(docs) = &live_side.vec_docs {
        let inactive: Vec<u64> = docs.iter().map(|d| d.0).filter(|id| live_side.frames.get(*id as usize).map(|f| f.3 != 'a').unwrap_or(true)).collect();
        if !inactive.is_empty() { out.branches.push("vec-index-entry-of-inactive-frame".into()); }
    }
    if timing { eprintln!("  [t] rw done {:?} ({} queries)", t0.elapsed(), qs.len()); }

    // ------------------------------------------------------------------ model correspondence
    let mut predicted: Vec<bool> = vec![false; qs.len()];
    // (a disagreement is reported only when the property oracle below has nothing to say about this check point)
    let model_fail: Option<Fail> = match ctx.drv.as_deref_mut() {
        Some(d) => model_check(d, out, i, &qs, &live, &rw, &live_side, &img, &rw_side, &doc_side, &doc_img, rv, &mut predicted),
        None => None,
    };

    // ------------------------------------------------------------------ property oracle
    // the engines hold the same number of documents (a necessary condition of E4, checked before any query is compared)
    for (name, oside) in [("reopen", &rw_side), ("read-only", &ro_side), ("doctor-rebuild", &doc_side)] {
        if oside.lex_docs != live_side.lex_docs {
            return Some(Fail::Oracle(format!("lexical-index-document-count-differs-after-{name}"),
                format!("act {i}: the committing handle's engine holds {:?} documents, the engine after {name} {:?}", live_side.lex_docs, oside.lex_docs), false));
        }
    }
    for (k, q) in qs.iter().enumerate() {
        let nontrivial = !live[k].ids.is_empty();
        out.cases.push((format!("{}|{}|{}", q.kind(), serde_json::to_string(q).unwrap_or_default(), live[k].main), nontrivial));
        if nontrivial { out.branches.push(format!("{}-nonempty", q.kind())); }
        if ctx.verbose { println!("--- act {i}: check q{k} {}\n      live {}\n      doc  {}\n      ro   {}\n      rw   {}", serde_json::to_string(q).unwrap_or_default(), live[k].main, doc[k].main, ro[k].main, rw[k].main); }
        for (name, other, oside) in [("reopen", &rw[k], &rw_side), ("read-only", &ro[k], &ro_side), ("doctor-rebuild", &doc[k], &doc_side)] {
            if other.main == live[k].main { continue; }
            // classify
            let what_tail = format!("query {} : live handle `{}` vs {name} `{}`", serde_json::to_string(q).unwrap_or_default(), cut(&live[k].main, 400), cut(&other.main, 400));
            match q {
                Q::Tl(_) => return Some(Fail::Oracle(format!("timeline-differs-after-{name}"), format!("act {i}: {what_tail}"), false)),
                Q::Vec(_) => {
                    // doctor(rebuild_vec_index) on a memory WITHOUT vectors switches them on by request: a
                    // configuration change, not an index rebuild (search_vec then answers [] instead of VecNotEnabled)
                    if name == "doctor-rebuild" && rv && !live_side.vec_enabled && live[k].main.contains("Vector_index_is_not_enabled") && other.main == "ok []" {
                        out.branches.push("doctor-rv-enables-vec-on-vectorless-memory".into());
                        continue;
                    }
                    let sig = if name == "doctor-rebuild" && rv && oside.vec_docs.as_ref().map(|d| d.is_empty()).unwrap_or(true) && live_side.vec_docs.as_ref().map(|d| !d.is_empty()).unwrap_or(false) {
                        "doctor-rebuild-vec-empties-index".to_string()
                    } else { format!("vec-search-differs-after-{name}") };
                    return Some(Fail::Oracle(sig, format!("act {i}: {what_tail}"), false));
                }
                Q::Lex(l) => {
                    // does the sketch pre-filter decide differently on the two handles?
                    let qsk = QuerySketch::from_query(&l.query, memvid_core::types::SketchVariant::Small);
                    let cand = |s: &Side| -> BTreeSet<u64> { s.sketch.iter().filter(|e| sketch_passes(&qsk, e)).map(|e| e.id).collect() };
                    let (ca, cb) = (cand(&live_side), cand(oside));
                    let same_multiset = { let mut a = live[k].ids.clone(); let mut b = other.ids.clone(); a.sort_unstable(); b.sort_unstable(); a == b };
                    if !l.no_sketch && ca != cb {
                        let ids_live: Vec<u64> = live_side.sketch.iter().map(|e| e.id).collect();
                        let ids_oth: Vec<u64> = oside.sketch.iter().map(|e| e.id).collect();
                        // the recorded finding is about frames that NEVER had a sketch (skip-index commits, insert_sketch,
                        // blank text).  A frame that an earlier check point saw with a sketch and that has none now LOST it:
                        // no recorded cause does that (seed C28-1 dropped the sketch of deleted / superseded frames, which
                        // the renumbering on load then turns into wrong candidates) — reported as a violation of its own
                        let lost: Vec<u64> = out.ever_sketched.iter().copied().filter(|id| !ids_live.contains(id)).collect();
                        if !lost.is_empty() {
                            return Some(Fail::Oracle(format!("lexical-results-differ-after-{name}-sketch-entry-dropped"),
                                format!("act {i}: frames {lost:?} had a sketch-track entry at an earlier commit and have none now; the persisted track stores no frame ids, so after {name} the entries are numbered {:?} (live: {:?}); pre-filter candidates {:?} vs {:?}; {what_tail}", ids_oth, ids_live, ca, cb),
                                false));
                        }
                        return Some(Fail::Oracle("lexical-results-differ-after-reopen-via-sketch-track".into(),
                            format!("act {i}: sketch track frame ids {:?} on the live handle, {:?} after {name}; pre-filter candidates {:?} vs {:?}; {what_tail}", ids_live, ids_oth, ca, cb),
                            predicted[k]));
                    }
                    if same_multiset && !live[k].ids.is_empty() {
                        return Some(Fail::Oracle(format!("lexical-order-differs-after-{name}"), format!("act {i}: same hits in another order / with other ranges; scores live {:?} vs {:?}; {what_tail}", live[k].scores, other.scores), false));
                    }
                    return Some(Fail::Oracle(format!("lexical-results-differ-after-{name}"), format!("act {i}: {what_tail}"), false));
                }
            }
        }
    }
    out.ever_sketched.extend(live_side.sketch.iter().map(|e| e.id));
    model_fail
}

fn cut(s: &str, n: usize) -> String { if s.len() <= n { s.to_string() } else { format!("{}…", s.chars().take(n).collect::<String>()) } }

fn manifest_wire(dim: Option<u32>, bytes: &Option<Vec<u8>>) -> String {
    match (dim, bytes) { (Some(d), Some(b)) => format!("{d}:{}", hexs(b)), _ => "none".into() }
}

/// everything the Lean model is asked at a check point
#[allow(clippy::too_many_arguments)]
fn model_check(d: &mut Driver, out: &mut Outcome, i: usize, qs: &[Q], live: &[Ans], rw: &[Ans], live_side: &Side, img: &FileImg, rw_side: &Side,
               doc_side: &Side, doc_img: &FileImg, rv: bool, predicted: &mut [bool]) -> Option<Fail> {
    let dis = |what: String, m: String, im: String| Some(Fail::Disagree(format!("act {i}: {what}"), m, im));
    let fw = frames_wire(&live_side.frames);
    // ---- time index: the bytes rebuild_indexes wrote (commit and doctor), and every timeline of the battery
    for (name, bytes) in [("commit", &img.time), ("doctor", &doc_img.time)] {
        if let Some(tb) = bytes {
            let m = d.ask(&format!("timeidx {fw}"));
            out.branches.push("model-timeidx".into());
            if m != hexs(tb) { return dis(format!("time index track written by {name}"), m, hexs(tb)); }
        }
    }
    let track = img.time.as_ref().map(|b| hexs(b)).unwrap_or_else(|| "none".into());
    for (k, q) in qs.iter().enumerate() {
        if let Q::Tl(t) = q {
            let args = format!("{} {} {} {}", t.limit, t.since.map(|x| x.to_string()).unwrap_or_else(|| "-".into()),
                t.until.map(|x| x.to_string()).unwrap_or_else(|| "-".into()), t.reverse as u8);
            let m = d.ask(&format!("timeline {fw} {track} {args}"));
            let im = if live[k].main.starts_with("ok") { live[k].aux.clone() } else { "err".to_string() };
            if m != im && !(m.starts_with("err") && im == "err") { return dis(format!("timeline {q:?} from the persisted track"), m, im); }
            let m2 = d.ask(&format!("timelinemem {fw} {args}"));
            if img.time.is_some() && m2 != im { return dis(format!("timeline {q:?} from the in-memory entries"), m2, im); }
            out.branches.push("model-timeline".into());
        }
    }
    // ---- vector index
    let man = manifest_wire(live_side.vec_manifest.map(|m| m.1), &img.vec);
    if let (Some(docs), Some(b)) = (&live_side.vec_docs, &img.vec) {
        if !b.is_empty() {
            let m = d.ask(&format!("vecenc {}", docs_wire(&Some(docs.clone()))));
            out.branches.push("model-vecenc".into());
            if m != hexs(b) { return dis("vector index bytes written by the commit".into(), m, hexs(b)); }
        }
    }
    {
        let m = d.ask(&format!("vecopen {man}"));
        let im = format!("{} {} {}", rw_side.vec_enabled as u8, rw_side.vec_manifest.map(|x| x.1.to_string()).unwrap_or_else(|| "-".into()), docs_wire(&rw_side.vec_docs));
        out.branches.push("model-vecopen".into());
        if m != im { return dis("vector index state of the reopened handle".into(), m, im); }
    }
    for (k, q) in qs.iter().enumerate() {
        if let Q::Vec(v) = q {
            let m = d.ask(&format!("vecsearch {man} {} {}", bits_wire(&v.q), v.k));
            let real = &rw[k];
            let ok = if real.main.starts_with("ok") {
                match m.strip_prefix("ok ") {
                    Some(ids) => {
                        let mids: Vec<u64> = if ids == "-" { vec![] } else { ids.split(',').filter_map(|x| x.parse().ok()).collect() };
                        // ties of the f32 distances: compare group-wise
                        mids.len() == real.ids.len() && tie_canon(&mids, &real.scores) == tie_canon(&real.ids, &real.scores)
                    }
                    None => false,
                }
            } else if real.main.starts_with("err dim-mismatch") { m.starts_with("err dim") }
            else if real.main.contains("Vector_index_is_not_enabled") { m == "err notenabled" }
            else { false };
            out.branches.push("model-vecsearch".into());
            if !ok { return dis(format!("search_vec {q:?} on the reopened handle (manifest {})", cut(&man, 80)), m, real.main.clone()); }
        }
    }
    {
        let active: Vec<u64> = live_side.frames.iter().filter(|f| f.3 == 'a').map(|f| f.0).collect();
        let m = d.ask(&format!("vecdoctor gen {} {} {man}", rv as u8, ids_wire(&active)));
        let im = manifest_wire(doc_side.vec_manifest.map(|x| x.1), &doc_img.vec);
        out.branches.push("model-vecdoctor".into());
        if m != im { return dis(format!("vector manifest after doctor (rebuild_vec_index={rv})"), m, im); }
    }
    // ---- sketch track: write + read, and the pre-filter decision before / after
    let sk = sketch_wire(&live_side.sketch);
    {
        let m = d.ask(&format!("sketchrt {} {sk}", live_side.sketch_variant));
        let im = format!("ok {} {} {}", rw_side.sketch_variant, rw_side.sketch.len(), sketch_wire(&rw_side.sketch));
        out.branches.push("model-sketchrt".into());
        if m != im { return dis("sketch track of the reopened handle".into(), m, im); }
    }
    for (k, q) in qs.iter().enumerate() {
        if let Q::Lex(l) = q {
            let variant = match live_side.sketch_variant.as_str() { "medium" => memvid_core::types::SketchVariant::Medium, "large" => memvid_core::types::SketchVariant::Large, _ => memvid_core::types::SketchVariant::Small };
            let qsk = QuerySketch::from_query(&l.query, variant);
            let m = d.ask(&format!("cands 32 {} {} {} {sk}", qsk.simhash, hexs(&qsk.term_filter), live_side.sketch_variant));
            let real = |s: &Side| -> Vec<u64> { s.sketch_real.iter().filter(|e| qsk.score_entry(e, 32).is_some()).map(|e| e.frame_id).collect() };
            let (rl_, rr) = (real(live_side), real(rw_side));
            let im = format!("{} {}", ids_wire(&rl_), ids_wire(&rr));
            out.branches.push("model-cands".into());
            if m != im { return dis(format!("sketch pre-filter candidates of {:?} (live, reopened)", l.query), m, im); }
            predicted[k] = rl_ != rr;
            if !rl_.is_empty() { out.branches.push("sketch-candidates-nonempty".into()); }
        }
    }
    None
}

// ---------------------------------------------------------------------------------------
// generator

fn gen_text_put(rng: &mut Rng, ts: &mut i64, n: &mut u64, dim: usize, instant_pct: u64) -> PutSpec {
    *n += 1;
    *ts += rng.i64(-3, 40);
    if rng.chance(1, 6) { *ts -= rng.i64(0, 3); } // timestamp collisions / inversions
    let r = rng.below(100);
    let (kind, len) = match r {
        0..=59 => (PayloadKind::Ascii, rng.usize(12, 400)),
        60..=69 => (PayloadKind::Utf8, rng.usize(10, 300)),
        70..=77 => (PayloadKind::Ascii, rng.usize(2400, 5200)),
        78..=84 => (PayloadKind::Bin, rng.usize(1, 40)),
        85..=89 => (PayloadKind::Table, rng.usize(200, 900)),
        90..=93 => (PayloadKind::Empty, 0),
        _ => (PayloadKind::Ascii, rng.usize(1, 11)),
    };
    let mut p = PutSpec::simple(PayloadSpec::new(kind, len, rng.u64()), *ts);
    let w = |rng: &mut Rng| (*rng.pick(&["news", "note", "doc", "mail", "wiki", "red", "blue"])).to_string();
    if rng.chance(1, 2) { p.uri = Some(format!("mv2://{}/{}-{}.txt", w(rng), w(rng), n)); }
    if rng.chance(1, 3) { p.tags = vec![w(rng)]; }
    if rng.chance(1, 4) { p.track = Some(w(rng)); }
    if rng.chance(1, 5) { p.labels = vec![w(rng)]; }
    if kind == PayloadKind::Bin && rng.chance(1, 3) { p.role = 2; }
    if rng.chance(45, 100) { p.emb = Some(EmbSpec { dim: if rng.chance(1, 25) { dim % 4 + 1 } else { dim }, seed: rng.u64() }); }
    p.instant_index = rng.chance(instant_pct, 100);
    p
}

fn gen_history(rng: &mut Rng, thorough: bool) -> Vec<Act> {
    let mut acts = vec![];
    let dim = rng.usize(1, 4);
    let mut ts = rng.i64(1_600_000_000, 1_700_000_000);
    let mut n = 0u64;
    let mut frames_est = 0u64;
    let rounds = if thorough { rng.usize(2, 5) } else { rng.usize(1, 2) };
    let instant_pct = *rng.pick(&[0u64, 0, 30, 60]);
    for _ in 0..rounds {
        let k = rng.usize(1, if thorough { 14 } else { 8 });
        for _ in 0..k {
            match rng.below(100) {
                0..=69 => { acts.push(Act::Op(Op::Put(gen_text_put(rng, &mut ts, &mut n, dim, instant_pct)))); frames_est += 1; if instant_pct > 0 && rng.chance(1, 3) { acts.push(Act::Probe { seed: rng.u64() }); } }
                70..=79 if frames_est > 0 => acts.push(Act::Op(Op::Delete { id: rng.below(frames_est) })),
                80..=89 if frames_est > 0 => {
                    let mut u = UpdSpec { id: rng.below(frames_est), ..Default::default() };
                    if rng.bool() { u.payload = Some(PayloadSpec::new(PayloadKind::Ascii, rng.usize(10, 300), rng.u64())); }
                    if rng.bool() { ts += 5; u.ts = Some(ts); }
                    if rng.chance(1, 3) { u.emb = Some(EmbSpec { dim, seed: rng.u64() }); }
                    if rng.chance(1, 3) { u.tags = vec!["news".into()]; }
                    acts.push(Act::Op(Op::Update(u))); frames_est += 1;
                }
                90..=92 => acts.push(Act::Op(Op::Commit)),
                93..=94 => acts.push(Act::Op(Op::Reopen)),
                95 => acts.push(Act::Op(if rng.bool() { Op::Crash } else { Op::Doctor { vacuum: false, rebuild_time: true, rebuild_lex: rng.bool(), rebuild_vec: false } })),
                96 => acts.push(Act::Op(if rng.bool() { Op::Vacuum } else if rng.bool() { Op::CommitSkip } else { Op::Commit })),
                97 => acts.push(Act::Probe { seed: rng.u64() }),
                _ => { acts.push(Act::Op(Op::Put(gen_text_put(rng, &mut ts, &mut n, dim, instant_pct)))); frames_est += 1; }
            }
        }
        let (rt, rl, rv) = match rng.below(6) { 0 => (true, false, false), 1 => (false, true, false), 2 => (true, true, false), 3 => (false, false, true), _ => (true, true, true) };
        acts.push(Act::Check { rt, rl, rv, seed: rng.u64() });
    }
    acts
}

fn put(kind: PayloadKind, len: usize, seed: u64, ts: i64) -> PutSpec { PutSpec::simple(PayloadSpec::new(kind, len, seed), ts) }
fn put_emb(kind: PayloadKind, len: usize, seed: u64, ts: i64, dim: usize) -> PutSpec { let mut p = put(kind, len, seed, ts); p.emb = Some(EmbSpec { dim, seed: seed + 77 }); p }

fn corpus(thorough: bool) -> Vec<(String, Vec<Act>)> {
    let chk = |seed| Act::Check { rt: true, rl: true, rv: false, seed };
    let c = vec![
        ("text-frames-with-embeddings".into(), vec![
            Act::Op(Op::Put(put_emb(PayloadKind::Ascii, 120, 1, 100, 3))), Act::Op(Op::Put(put_emb(PayloadKind::Ascii, 200, 2, 90, 3))),
            Act::Op(Op::Put(put_emb(PayloadKind::Utf8, 80, 3, 100, 3))), chk(11),
            Act::Op(Op::Delete { id: 1 }), Act::Op(Op::Put(put_emb(PayloadKind::Ascii, 60, 4, 95, 3))), chk(12)]),
        // commit_skip_indexes applies frame 0 without the engine attached: no sketch for it; frame 1 is
        // sketched by the next commit: track ids [1], read back as [0]
        ("skip-indexes-commit-leaves-sketch-gap".into(), vec![
            Act::Op(Op::Put(put(PayloadKind::Ascii, 40, 31, 100))), Act::Op(Op::CommitSkip),
            Act::Op(Op::Put(put(PayloadKind::Ascii, 60, 32, 101))), chk(16)]),
        ("put-and-update-in-one-batch".into(), vec![
            Act::Op(Op::Put(put_emb(PayloadKind::Ascii, 50, 41, 100, 2))), Act::Op(Op::Put(put_emb(PayloadKind::Ascii, 50, 42, 101, 2))),
            Act::Op(Op::Update(UpdSpec { id: 0, payload: Some(PayloadSpec::new(PayloadKind::Ascii, 30, 43)), ..Default::default() })),
            Act::Op(Op::Delete { id: 1 }), chk(18)]),
        ("instant-index-then-probe".into(), vec![
            Act::Op(Op::Put(put(PayloadKind::Ascii, 100, 8, 100))), Act::Op(Op::Commit),
            Act::Op(Op::Put({ let mut p = put(PayloadKind::Ascii, 140, 9, 101); p.instant_index = true; p })), Act::Probe { seed: 21 },
            Act::Op(Op::Put({ let mut p = put(PayloadKind::Ascii, 70, 10, 102); p.instant_index = true; p })), Act::Probe { seed: 22 }, chk(14)]),
        // doctor resets the WAL (sequence numbers restart at 0): the next instant-index puts are indexed under
        // sequence numbers that ARE ids of committed frames with other texts
        ("instant-index-after-doctor-wal-reset".into(), vec![
            Act::Op(Op::Put(put(PayloadKind::Ascii, 120, 51, 100))), Act::Op(Op::Put(put(PayloadKind::Ascii, 130, 52, 101))),
            Act::Op(Op::Put(put(PayloadKind::Ascii, 110, 53, 102))), Act::Op(Op::Put(put(PayloadKind::Ascii, 90, 54, 103))), Act::Op(Op::Commit),
            Act::Op(Op::Doctor { vacuum: false, rebuild_time: true, rebuild_lex: true, rebuild_vec: false }),
            Act::Op(Op::Put({ let mut p = put(PayloadKind::Ascii, 150, 55, 104); p.instant_index = true; p })), Act::Probe { seed: 23 },
            Act::Op(Op::Put({ let mut p = put(PayloadKind::Ascii, 140, 56, 105); p.instant_index = true; p })), Act::Probe { seed: 24 },
            Act::Op(Op::Put({ let mut p = put(PayloadKind::Ascii, 160, 57, 106); p.instant_index = true; p })), Act::Probe { seed: 25 }, chk(19)]),
        ("doctor-rebuilds-vec".into(), vec![
            Act::Op(Op::Put(put_emb(PayloadKind::Ascii, 100, 11, 100, 2))), Act::Op(Op::Put(put_emb(PayloadKind::Ascii, 100, 12, 101, 2))),
            Act::Check { rt: false, rl: false, rv: true, seed: 15 }]),
    ];
    let _ = thorough;
    c
}

// ---------------------------------------------------------------------------------------
// main

fn record(sum: &mut Summary, args: &Args, drv: &mut Option<Driver>, label: &str, out: Outcome, budget_s: u64) {
    for b in &out.branches { sum.branch(b); }
    for (canon, nt) in &out.cases { let c = canon.clone(); sum.case(canon, *nt, || json!({"label": label, "case": cut(&c, 300)})); }
    if let Some(d) = &out.dead {
        sum.oracle_violation("implementation-failed", d, json!({"acts": serde_json::to_value(&out.acts).unwrap()}));
        return;
    }
    if out.oracle.is_none() && out.disagree.is_none() { return; }
    let want_sig: Option<String> = out.oracle.as_ref().map(|o| o.0.clone());
    let t0 = std::time::Instant::now();
    let thorough = args.thorough;
    let no_rv = args.extra.get("rv").map(|s| s == "0").unwrap_or(false);
    let mut fails = |cand: &[Act]| -> bool {
        if t0.elapsed().as_secs() > budget_s { return false; }
        let mut ctx = Ctx { drv: drv.as_mut(), thorough, verbose: false, no_rv };
        let o = run_history(cand, &mut ctx);
        match &want_sig { Some(s) => o.oracle.as_ref().map(|x| &x.0) == Some(s), None => o.disagree.is_some() && o.oracle.is_none() }
    };
    let small = shrink_list(&out.acts, &mut fails);
    let mut ctx = Ctx { drv: drv.as_mut(), thorough, verbose: false, no_rv };
    let o2 = run_history(&small, &mut ctx);
    let case = json!({"acts": serde_json::to_value(&small).unwrap(), "label": label});
    let known: Vec<String> = args.extra.get("known").map(|s| s.split(',').map(|x| x.to_string()).collect()).unwrap_or_default();
    let (oracle_res, disagree_res) = if o2.oracle.is_some() || o2.disagree.is_some() { (o2.oracle, o2.disagree) } else { (out.oracle, out.disagree) };
    if let Some((sig, what, model_same)) = oracle_res {
        if model_same && known.iter().any(|k| *k == sig) { sum.known_finding(&sig, &what, case); } else { sum.oracle_violation(&sig, &what, case); }
    } else if let Some((what, m, im)) = disagree_res {
        sum.disagreement(&what, case, &cut(&m, 1500), &cut(&im, 1500));
    }
}

fn main() {
    let args = parse_args();
    let mut drv: Option<Driver> = if args.driver.as_os_str() == "none" { None } else { Some(Driver::spawn(&args.driver).expect("spawn driver")) };
    let mut sum = Summary::new("C28", &args,
        "histories of puts (text / binary / chunked, with and without embeddings, instant index), updates, deletes, commits, reopen, crash, vacuum; \
         at each check point: commit, then one battery (9-13 lexical searches incl. field terms, paging, time travel, sketch on/off; 4-5 vector searches; \
         4 timelines) on the live handle, a doctor-rebuilt copy, a read-only handle and a reopened handle — canonical answers must be equal; \
         at probe points (uncommitted instant-index puts): every lexical hit names a frame that contains the query words; \
         case = one query of one check/probe point, non-trivial = the live answer has at least one hit; distinct = query + live answer");
    sum.expect_branches(&["check", "lex-nonempty", "vec-nonempty", "timeline-nonempty", "probe-with-instant-index-pending", "probe-engine-hit-culled-by-post-filter", "delete-acked", "put-with-embedding", "chunked-put",
        "model-timeidx", "model-timeline", "model-vecenc", "model-vecopen", "model-vecsearch", "model-vecdoctor", "model-sketchrt", "model-cands", "sketch-candidates-nonempty"]);
    let no_rv = args.extra.get("rv").map(|s| s == "0").unwrap_or(false);
    if args.mode == "replay" {
        let case = load_replay(args.replay_file.as_ref().expect("replay file"));
        let input = case.get("input").unwrap_or(&case);
        let acts: Vec<Act> = serde_json::from_value(input["acts"].clone()).expect("acts in replay file");
        let mut ctx = Ctx { drv: drv.as_mut(), thorough: args.thorough, verbose: true, no_rv };
        let out = run_history(&acts, &mut ctx);
        if let Some((sig, what, m)) = &out.oracle { println!("ORACLE {sig} (model predicts it: {m}): {what}"); }
        if let Some((w, m, im)) = &out.disagree { println!("DISAGREE {w}\n  model: {}\n  impl : {}", cut(m, 600), cut(im, 600)); }
        if let Some(d) = &out.dead { println!("DEAD {d}"); }
        record(&mut sum, &args, &mut drv, "replay", out, 0);
        sum.model_requests = drv.as_ref().map(|d| d.requests).unwrap_or(0);
        sum.finish(&args);
    }
    let n_hist: usize = args.extra.get("nhist").and_then(|s| s.parse().ok()).unwrap_or(if args.thorough { 40 } else { 3 });
    let max_fail: usize = args.extra.get("maxfail").and_then(|s| s.parse().ok()).unwrap_or(3);
    let budget = args.extra.get("shrink").and_then(|s| s.parse().ok()).unwrap_or(if args.thorough { 90 } else { 40 });
    let only = args.extra.get("only").cloned();
    let verbose = args.extra.get("verbose").map(|s| s == "1").unwrap_or(false);
    for (label, acts) in corpus(args.thorough) {
        if let Some(o) = &only { if *o != label { continue; } }
        if sum.oracle_violations.len() + sum.disagreements.len() >= max_fail { break; }
        let mut ctx = Ctx { drv: drv.as_mut(), thorough: args.thorough, verbose, no_rv };
        let out = run_history(&acts, &mut ctx);
        sum.branch("corpus");
        record(&mut sum, &args, &mut drv, &label, out, budget);
    }
    let mut rng = Rng::new(args.seed);
    for k in 0..n_hist {
        if sum.oracle_violations.len() + sum.disagreements.len() >= max_fail { break; }
        let mut r = rng.fork();
        let acts = gen_history(&mut r, args.thorough);
        let mut ctx = Ctx { drv: drv.as_mut(), thorough: args.thorough, verbose: false, no_rv };
        let out = run_history(&acts, &mut ctx);
        record(&mut sum, &args, &mut drv, &format!("gen-{k}"), out, budget);
    }
    sum.model_requests = drv.as_ref().map(|d| d.requests).unwrap_or(0);
    let _: BTreeMap<u8, u8> = BTreeMap::new();
    sum.finish(&args);
}
