/-
  Model of `/repo/src/search/parser.rs` (lexer, recursive-descent parser, term cleaning) and of
  the evaluation half of `/repo/src/search/mod.rs` (`Expr::evaluate`, `collect_tokens`).

  Text is `List Char` (the Rust lexer works on `Vec<char>`).  Black boxes are the fields of
  `Tables`: Unicode `char::is_whitespace`, `char::is_alphanumeric`, the date parser
  (`OffsetDateTime::parse` RFC 3339, then `parse_ymd`) and the `regex` engine behind wildcard
  terms.  The two behaviours that differ between the current tree and the repaired tree
  (/verif/fixes/C32.diff) are fields of `Cfg`, filled in from the source by tools/gen/C32.py:
  the parser's nesting limit (`MAX_QUERY_DEPTH`, absent = unbounded recursion) and whether
  `scope:` compares the URI ignoring ASCII case.
-/
import MvModel.Gen.C32
namespace Mv.Query
open Mv.Gen.C32

abbrev Str := List Char

/-- the black boxes -/
structure Tables where
  /-- `char::is_whitespace` -/
  isWs : Char → Bool
  /-- `char::is_alphanumeric` -/
  isAlnum : Char → Bool
  /-- RFC 3339 or `parse_ymd` on an already trimmed, non-empty, non-`*` string -/
  parseDate : Str → Option Int
  /-- `WildcardPattern::new(raw).regex.is_match(haystack)` -/
  wildMatch : Str → Str → Bool

/-- what distinguishes the current tree from the repaired one -/
structure Cfg where
  /-- `MAX_QUERY_DEPTH` (none: the parser recurses without bound) -/
  limit : Option Nat
  /-- `FieldTerm::Scope` compares the URI prefix ignoring ASCII case -/
  scopeCI : Bool

/-- `char::to_ascii_lowercase` -/
def lowerChar (c : Char) : Char :=
  if 65 ≤ c.toNat ∧ c.toNat ≤ 90 then Char.ofNat (c.toNat + 32) else c

/-- `str::to_ascii_lowercase` -/
def lower (s : Str) : Str := s.map lowerChar

inductive Err
  | unterminatedQuote | badDateRange | unterminatedDateRange
  | expectedRParen | unexpectedToken | unexpectedEnd
  | unsupportedField | unexpectedDateField
  | tooDeep
  /-- the model's fuel ran out: never happens (`lex_total`, `parse_total`) -/
  | fuel
deriving DecidableEq, Repr

inductive Token
  | word (w : Str) | phrase (p : Str) | field (f v : Str) | dateRange (f s e : Str)
  | lparen | rparen | and | or | not
deriving DecidableEq, Repr

/-! ### Lexer -/

/-- the characters that end a bare word: whitespace, `(`, `)` -/
def isBreak (T : Tables) (c : Char) : Bool := T.isWs c || c == '(' || c == ')'

/-- advance to the first break character: `(scanned, rest)` -/
def scanWord (T : Tables) : Str → Str × Str
  | [] => ([], [])
  | c :: cs =>
    if isBreak T c then ([], c :: cs)
    else (c :: (scanWord T cs).1, (scanWord T cs).2)

/-- split at the first occurrence of `d`: text before it and text after it -/
def splitAtChar (d : Char) : Str → Option (Str × Str)
  | [] => none
  | c :: cs =>
    if c = d then some ([], cs)
    else match splitAtChar d cs with
      | none => none
      | some (a, b) => some (c :: a, b)

/-- `str::split_whitespace`, with the word under construction kept reversed in `cur` -/
def splitWsAux (T : Tables) : Str → Str → List Str
  | [], cur => if cur.isEmpty then [] else [cur.reverse]
  | c :: cs, cur =>
    if T.isWs c then
      (if cur.isEmpty then splitWsAux T cs [] else cur.reverse :: splitWsAux T cs [])
    else splitWsAux T cs (c :: cur)

def splitWs (T : Tables) (s : Str) : List Str := splitWsAux T s []

/-- the `match word.as_str()` at the end of `read_field_or_word` -/
def keywordOrWord (w : Str) : Token :=
  if KW_AND.contains w then .and
  else if KW_OR.contains w then .or
  else if KW_NOT.contains w then .not
  else .word w

/-- `Lexer::read_date_range`, entered after the `[` -/
def readDateRange (T : Tables) (field : Str) (rem : Str) : Except Err (Token × Str) :=
  match splitAtChar ']' rem with
  | none => .error .unterminatedDateRange
  | some (contents, rest) =>
    match splitWs T contents with
    | [a, m, b] => if lower m = lower RANGE_SEP then .ok (.dateRange field a b, rest) else .error .badDateRange
    | _ => .error .badDateRange

/-- `Lexer::read_field`: `field` is the lower-cased name, `rem` the input after the colon -/
def readField (T : Tables) (field : Str) (rem : Str) : Except Err (Token × Str) :=
  match rem with
  | [] => .ok (.field field [], [])
  | c :: rem' =>
    if c = '"' then
      match splitAtChar '"' rem' with
      | none => .error .unterminatedQuote
      | some (v, rest) => .ok (.field field v, rest)
    else if c = '[' ∧ field = DATE_FIELD then readDateRange T field rem'
    else .ok (.field field (scanWord T (c :: rem')).1, (scanWord T (c :: rem')).2)

/-- `Lexer::read_field_or_word` (called on a non-break, non-quote first character) -/
def readFieldOrWord (T : Tables) (cs : Str) : Except Err (Token × Str) :=
  match splitAtChar ':' (scanWord T cs).1 with
  | some (pfx, after) =>
    if KNOWN_FIELDS.contains (lower pfx) then readField T (lower pfx) (after ++ (scanWord T cs).2)
    else .ok (keywordOrWord (scanWord T cs).1, (scanWord T cs).2)
  | none => .ok (keywordOrWord (scanWord T cs).1, (scanWord T cs).2)

/-- one iteration of the `while let Some(ch) = self.peek()` loop of `tokenize` -/
def lexStep (T : Tables) : Str → Except Err (Option Token × Str)
  | [] => .ok (none, [])
  | c :: cs =>
    if T.isWs c then .ok (none, cs)
    else if c = '(' then .ok (some .lparen, cs)
    else if c = ')' then .ok (some .rparen, cs)
    else if c = '"' then
      match splitAtChar '"' cs with
      | none => .error .unterminatedQuote
      | some (v, rest) => .ok (some (.phrase v), rest)
    else match readFieldOrWord T (c :: cs) with
      | .error e => .error e
      | .ok (t, rest) => .ok (some t, rest)

def consOpt (t : Option Token) (ts : List Token) : List Token :=
  match t with
  | none => ts
  | some t => t :: ts

/-- `Lexer::tokenize`; the fuel bounds the number of loop iterations -/
def lexAux (T : Tables) : Nat → Str → Except Err (List Token)
  | 0, _ => .error .fuel
  | _ + 1, [] => .ok []
  | n + 1, c :: cs =>
    match lexStep T (c :: cs) with
    | .error e => .error e
    | .ok (t, rest) =>
      match lexAux T n rest with
      | .error e => .error e
      | .ok ts => .ok (consOpt t ts)

def lex (T : Tables) (s : Str) : Except Err (List Token) := lexAux T (s.length + 1) s

/-! ### AST and term construction -/

inductive FieldKind | uri | scope | track | tag | label
deriving DecidableEq, Repr

inductive Term
  | word (w : Str) | phrase (p : Str) | wildcard (raw : Str)
  | field (k : FieldKind) (v : Str)
  | date (s e : Option Int)
deriving DecidableEq, Repr

inductive Expr
  | or (l : List Expr) | and (l : List Expr) | not (e : Expr) | term (t : Term)

/-- `str::trim_end_matches(p)` -/
def trimEnd (p : Char → Bool) (s : Str) : Str := (s.reverse.dropWhile p).reverse
/-- `str::trim_matches(p)` -/
def trimBoth (p : Char → Bool) (s : Str) : Str := trimEnd p (s.dropWhile p)

/-- the punctuation predicate of `TextTerm::from_word` -/
def isJunk (T : Tables) (c : Char) : Bool := !T.isAlnum c && c != '*' && c != '?'

/-- `TextTerm::from_word` -/
def fromWord (T : Tables) (w : Str) : Term :=
  let trimmed := trimEnd (· == '?') (lower w)
  let cleaned := trimBoth (isJunk T) trimmed
  if cleaned.contains '*' || cleaned.contains '?' then .wildcard cleaned
  else if cleaned.isEmpty || !cleaned.any T.isAlnum then .word []
  else .word cleaned

/-- the variant names of `FieldTerm` that `from_pair` builds -/
def kindOfVariant (v : Str) : Option FieldKind :=
  if v = ['U','r','i'] then some .uri
  else if v = ['S','c','o','p','e'] then some .scope
  else if v = ['T','r','a','c','k'] then some .track
  else if v = ['T','a','g'] then some .tag
  else if v = ['L','a','b','e','l'] then some .label
  else none

def lookupField (f : Str) : List (Str × Str) → Option FieldKind
  | [] => none
  | (n, v) :: rest => if f = n then kindOfVariant v else lookupField f rest

/-- `FieldTerm::from_pair` -/
def fromPair (field value : Str) : Except Err Term :=
  match lookupField field PAIR_FIELDS with
  | some k => .ok (.field k (lower (trimBoth (· == '"') value)))
  | none => .error .unsupportedField

/-- `parse_date_value` -/
def parseDateValue (T : Tables) (v : Str) : Option Int :=
  let t := trimBoth (· == '"') v
  if t.isEmpty ∨ t = ['*'] then none else T.parseDate t

/-- `FieldTerm::from_date_range` -/
def fromDateRange (T : Tables) (field s e : Str) : Except Err Term :=
  if field ≠ DATE_FIELD then .error .unexpectedDateField
  else .ok (.date (parseDateValue T s) (parseDateValue T e))

/-- `Expr::Or(list).push(rhs)` / `Expr::Or(vec![expr, rhs])` -/
def pushOr (acc r : Expr) : Expr :=
  match acc with
  | .or l => .or (l ++ [r])
  | _ => .or [acc, r]

def pushAnd (acc r : Expr) : Expr :=
  match acc with
  | .and l => .and (l ++ [r])
  | _ => .and [acc, r]

/-! ### Parser

Every function takes the same three bookkeeping arguments: `cfg.limit` (nesting limit of the
repaired parser), fuel `n` (decreases at every call; `parse_total` shows `4·|tokens|+4` is always
enough, so it is a termination device only) and `dep`, the current nesting depth = number of
enclosing `(` and `NOT` — each such level costs at most four Rust stack frames
(`parse_expression → parse_term → parse_factor → parse_primary`), the loops are `while` loops. -/

abbrev PRes := Except Err (Expr × List Token)

/-- `Parser::enter_nested` of the repaired parser -/
def tooDeep (limit : Option Nat) (dep : Nat) : Bool :=
  match limit with
  | none => false
  | some l => decide (l ≤ dep)

/-- sequencing of two parser steps (`?` in the Rust code) -/
def bindP (x : PRes) (k : Expr → List Token → PRes) : PRes :=
  match x with
  | .error e => .error e
  | .ok (e, r) => k e r

/-- `self.consume(TokenKind::RParen, "expected ')' after expression")` after a parenthesised
    expression -/
def closeParen (e : Expr) (r : List Token) : PRes :=
  match r with
  | .rparen :: r' => .ok (e, r')
  | _ => .error .expectedRParen

/-- the `match self.advance()` of `parse_primary` (everything except `(`) -/
def parseAtom (T : Tables) (ts : List Token) : PRes :=
  match ts with
  | .word w :: r => .ok (.term (fromWord T w), r)
  | .phrase p :: r => .ok (.term (.phrase (lower p)), r)
  | .field f v :: r =>
    match fromPair f v with
    | .error e => .error e
    | .ok t => .ok (.term t, r)
  | .dateRange f s e :: r =>
    match fromDateRange T f s e with
    | .error e => .error e
    | .ok t => .ok (.term t, r)
  | [] => .error .unexpectedEnd
  | _ :: _ => .error .unexpectedToken

mutual
/-- `Parser::parse_expression` -/
def parseOr (T : Tables) (lim : Option Nat) : Nat → Nat → List Token → PRes
  | 0, _, _ => .error .fuel
  | n + 1, dep, ts => bindP (parseAnd T lim n dep ts) (fun e r => orLoop T lim n dep e r)
/-- the `while self.match_token(TokenKind::Or)` loop -/
def orLoop (T : Tables) (lim : Option Nat) : Nat → Nat → Expr → List Token → PRes
  | 0, _, _, _ => .error .fuel
  | n + 1, dep, acc, ts =>
    match ts with
    | .or :: r => bindP (parseAnd T lim n dep r) (fun e r' => orLoop T lim n dep (pushOr acc e) r')
    | _ => .ok (acc, ts)
/-- `Parser::parse_term` -/
def parseAnd (T : Tables) (lim : Option Nat) : Nat → Nat → List Token → PRes
  | 0, _, _ => .error .fuel
  | n + 1, dep, ts => bindP (parseNot T lim n dep ts) (fun e r => andLoop T lim n dep e r)
/-- the `loop` of `parse_term`: explicit AND, stop at OR / `)` / end, otherwise implicit AND -/
def andLoop (T : Tables) (lim : Option Nat) : Nat → Nat → Expr → List Token → PRes
  | 0, _, _, _ => .error .fuel
  | n + 1, dep, acc, ts =>
    match ts with
    | .and :: r => bindP (parseNot T lim n dep r) (fun e r' => andLoop T lim n dep (pushAnd acc e) r')
    | [] => .ok (acc, [])
    | .or :: r => .ok (acc, .or :: r)
    | .rparen :: r => .ok (acc, .rparen :: r)
    | t :: r => bindP (parseNot T lim n dep (t :: r)) (fun e r' => andLoop T lim n dep (pushAnd acc e) r')
/-- `Parser::parse_factor` -/
def parseNot (T : Tables) (lim : Option Nat) : Nat → Nat → List Token → PRes
  | 0, _, _ => .error .fuel
  | n + 1, dep, ts =>
    match ts with
    | .not :: r =>
      if tooDeep lim dep then .error .tooDeep
      else bindP (parseNot T lim n (dep + 1) r) (fun e r' => .ok (.not e, r'))
    | _ => parsePrimary T lim n dep ts
/-- `Parser::parse_primary` -/
def parsePrimary (T : Tables) (lim : Option Nat) : Nat → Nat → List Token → PRes
  | 0, _, _ => .error .fuel
  | n + 1, dep, ts =>
    match ts with
    | .lparen :: r =>
      if tooDeep lim dep then .error .tooDeep
      else bindP (parseOr T lim n (dep + 1) r) closeParen
    | _ => parseAtom T ts
end

/-- fuel that always suffices for a token list (`parse_total`) -/
def parseFuel (ts : List Token) : Nat := 4 * ts.length + 4

/-- `Parser::new(tokens).parse_expression()`: tokens left over after the expression are dropped,
    exactly as `parse_query` does -/
def parseTokens (T : Tables) (lim : Option Nat) (ts : List Token) : Except Err Expr :=
  match parseOr T lim (parseFuel ts) 0 ts with
  | .error e => .error e
  | .ok (e, _) => .ok e

/-- what `parse_expression` leaves unconsumed (dropped by `parse_query`) -/
def parseLeftover (T : Tables) (lim : Option Nat) (ts : List Token) : Except Err (List Token) :=
  match parseOr T lim (parseFuel ts) 0 ts with
  | .error e => .error e
  | .ok (_, r) => .ok r

/-- `parse_query` -/
def parse (T : Tables) (cfg : Cfg) (s : Str) : Except Err Expr :=
  match lex T s with
  | .error e => .error e
  | .ok ts => parseTokens T cfg.limit ts

/-! ### Evaluation -/

structure Doc where
  /-- `EvaluationContext::content_lower` -/
  content : Str
  uri : Option Str
  track : Option Str
  tags : List Str
  labels : List Str
  timestamp : Int
  contentDates : List Str

/-- `str::contains(needle)` -/
def containsSub : Str → Str → Bool
  | [], needle => needle.isEmpty
  | c :: cs, needle => needle.isPrefixOf (c :: cs) || containsSub cs needle

/-- `str::eq_ignore_ascii_case` -/
def eqIgnoreCase (a b : Str) : Bool := lower a == lower b

def optAny (o : Option Str) (p : Str → Bool) : Bool :=
  match o with
  | none => false
  | some x => p x

/-- `DateRange::contains` -/
def rangeContains (s e : Option Int) (ts : Int) : Bool :=
  (match s with | some a => decide (a ≤ ts) | none => true) &&
  (match e with | some b => decide (ts ≤ b) | none => true)

/-- `DateRange::matches` (default features: `temporal_track` off, so no anchor timestamp) -/
def dateMatches (T : Tables) (s e : Option Int) (d : Doc) : Bool :=
  if s.isNone ∧ e.isNone then true
  else (d.timestamp :: d.contentDates.filterMap (parseDateValue T)).any (rangeContains s e)

/-- `Term::evaluate` (`TextTerm::matches`, `FieldTerm::matches`) -/
def Term.eval (T : Tables) (cfg : Cfg) (d : Doc) : Term → Bool
  | .word w => containsSub d.content (lower w)
  | .phrase p => containsSub d.content (lower p)
  | .wildcard raw => T.wildMatch raw d.content
  | .field .uri v => optAny d.uri (fun u => eqIgnoreCase u v)
  | .field .scope v =>
    optAny d.uri (fun u => if cfg.scopeCI then (lower v).isPrefixOf (lower u) else v.isPrefixOf u)
  | .field .track v => optAny d.track (fun t => eqIgnoreCase t v)
  | .field .tag v => d.tags.any (fun t => eqIgnoreCase t v)
  | .field .label v => d.labels.any (fun t => eqIgnoreCase t v)
  | .date s e => dateMatches T s e d

mutual
/-- `Expr::evaluate` -/
def Expr.eval (T : Tables) (cfg : Cfg) (d : Doc) : Expr → Bool
  | .or l => evalAny T cfg d l
  | .and l => evalAll T cfg d l
  | .not e => !(Expr.eval T cfg d e)
  | .term t => t.eval T cfg d
def evalAny (T : Tables) (cfg : Cfg) (d : Doc) : List Expr → Bool
  | [] => false
  | e :: es => Expr.eval T cfg d e || evalAny T cfg d es
def evalAll (T : Tables) (cfg : Cfg) (d : Doc) : List Expr → Bool
  | [] => true
  | e :: es => Expr.eval T cfg d e && evalAll T cfg d es
end

/-- `WildcardPattern::seed` -/
def wildSeed (raw : Str) : Option Str :=
  let s := (raw.takeWhile (· != '*')).takeWhile (· != '?')
  if s.isEmpty then none else some s

mutual
/-- `Expr::collect_tokens` -/
def Expr.tokens : Expr → List Str
  | .or l => tokensList l
  | .and l => tokensList l
  | .not e => Expr.tokens e
  | .term (.word w) => [w]
  | .term (.phrase p) => [p]
  | .term (.wildcard raw) => (wildSeed raw).toList
  | .term _ => []
def tokensList : List Expr → List Str
  | [] => []
  | e :: es => Expr.tokens e ++ tokensList es
end

/-- `parse_query(q)?.evaluate(ctx)` -/
def queryMatches (T : Tables) (cfg : Cfg) (q : Str) (d : Doc) : Except Err Bool :=
  match parse T cfg q with
  | .error e => .error e
  | .ok e => .ok (e.eval T cfg d)

/-! ### Reference language (the specification side of C32)

A query AST as the user means it, the text it is written as, and its boolean meaning. -/

inductive Ast
  /-- bare word -/
  | word (w : Str)
  /-- `"quoted phrase"` -/
  | phrase (p : Str)
  /-- `field:value` (`quoted`: written `field:"value"`) -/
  | field (k : FieldKind) (quoted : Bool) (v : Str)
  /-- `date:[s TO e]` -/
  | date (s e : Str)
  | not (a : Ast)
  /-- `explicit`: written with the AND keyword, otherwise by juxtaposition -/
  | and (explicit : Bool) (a b : Ast)
  | or (a b : Ast)

def fieldName : FieldKind → Str
  | .uri => ['u','r','i'] | .scope => ['s','c','o','p','e'] | .track => ['t','r','a','c','k']
  | .tag => ['t','a','g'] | .label => ['l','a','b','e','l']

/-- reference meaning of a leaf -/
def leafRef (T : Tables) (d : Doc) : Ast → Bool
  | .word w => containsSub d.content (lower w)
  | .phrase p => containsSub d.content (lower p)
  | .field .uri _ v => optAny d.uri (fun u => lower u == lower v)
  | .field .scope _ v => optAny d.uri (fun u => (lower v).isPrefixOf (lower u))
  | .field .track _ v => optAny d.track (fun t => lower t == lower v)
  | .field .tag _ v => d.tags.any (fun t => lower t == lower v)
  | .field .label _ v => d.labels.any (fun t => lower t == lower v)
  | .date s e => dateMatches T (parseDateValue T s) (parseDateValue T e) d
  | _ => false

/-- reference boolean semantics -/
def evalRef (T : Tables) (d : Doc) : Ast → Bool
  | .not a => !(evalRef T d a)
  | .and _ a b => evalRef T d a && evalRef T d b
  | .or a b => evalRef T d a || evalRef T d b
  | a => leafRef T d a

/-- token form of a leaf -/
def leafToken : Ast → Token
  | .word w => .word w
  | .phrase p => .phrase p
  | .field k _ v => .field (fieldName k) v
  | .date s e => .dateRange DATE_FIELD s e
  | _ => .lparen

/-- The printer at token level.  `p` is the precedence of the context: 0 = operand of OR (or
    top level), 1 = operand of AND, 2 = operand of NOT.  Parentheses are inserted exactly where
    the construct binds weaker than its context; the right operand of a binary operator is
    printed one level tighter (the operators are left-associative in the parser). -/
def toks : Nat → Ast → List Token
  | p, .or a b =>
    let body := toks 0 a ++ [.or] ++ toks 1 b
    if p = 0 then body else [.lparen] ++ body ++ [.rparen]
  | p, .and ex a b =>
    let body := toks 1 a ++ (if ex then [.and] else []) ++ toks 2 b
    if p ≤ 1 then body else [.lparen] ++ body ++ [.rparen]
  | _, .not a => .not :: toks 2 a
  | _, a => [leafToken a]

/-- the text of one token -/
def renderToken : Token → Str
  | .word w => w
  | .phrase p => ['"'] ++ p ++ ['"']
  | .field f v => f ++ [':'] ++ v
  | .dateRange f s e => f ++ [':', '['] ++ s ++ [' '] ++ RANGE_SEP ++ [' '] ++ e ++ [']']
  | .lparen => ['(']
  | .rparen => [')']
  | .and => ['A','N','D']
  | .or => ['O','R']
  | .not => ['N','O','T']

/-- how a leaf is written (quoted field values differ from their token) -/
def leafText : Ast → Str
  | .field k true v => fieldName k ++ [':', '"'] ++ v ++ ['"']
  | a => renderToken (leafToken a)

/-- the printer at text level: like `toks`, tokens separated by one space -/
def printToks : Nat → Ast → List Str
  | p, .or a b =>
    let body := printToks 0 a ++ [['O','R']] ++ printToks 1 b
    if p = 0 then body else [['(']] ++ body ++ [[')']]
  | p, .and ex a b =>
    let body := printToks 1 a ++ (if ex then [['A','N','D']] else []) ++ printToks 2 b
    if p ≤ 1 then body else [['(']] ++ body ++ [[')']]
  | _, .not a => ['N','O','T'] :: printToks 2 a
  | _, a => [leafText a]

def joinSp : List Str → Str
  | [] => []
  | [t] => t
  | t :: ts => t ++ ' ' :: joinSp ts

/-- the query text of an AST -/
def print (a : Ast) : Str := joinSp (printToks 0 a)

/-- nesting depth (enclosing parentheses and NOTs) the printed form of `a` needs, when printed
    in a context of precedence `p` -/
def nest : Nat → Ast → Nat
  | p, .or a b => (if p = 0 then 0 else 1) + max (nest 0 a) (nest 1 b)
  | p, .and _ a b => (if p ≤ 1 then 0 else 1) + max (nest 1 a) (nest 2 b)
  | _, .not a => 1 + nest 2 a
  | _, _ => 0

/-- the nesting limit (if any) admits depth `k` -/
def Fits (lim : Option Nat) (k : Nat) : Prop :=
  match lim with
  | none => True
  | some l => k ≤ l

/-- A bare word the reference semantics speaks about: written as is it is ONE word token (no
    break character, not starting a quoted phrase, not a boolean keyword, not `knownfield:…`),
    it is not a wildcard pattern, and `from_word`'s punctuation trimming leaves it alone (its
    first and last characters are alphanumeric). -/
def WordOK (T : Tables) (w : Str) : Prop :=
  (∀ c ∈ w, isBreak T c = false ∧ c ≠ '*' ∧ c ≠ '?') ∧
  w.head? ≠ some '"' ∧
  keywordOrWord w = .word w ∧
  (∀ pfx after, splitAtChar ':' w = some (pfx, after) → KNOWN_FIELDS.contains (lower pfx) = false) ∧
  (∃ c, (lower w).head? = some c ∧ T.isAlnum c = true) ∧
  (∃ c, (lower w).getLast? = some c ∧ T.isAlnum c = true)

/-- a date bound as written inside `[… TO …]`: non-empty, no whitespace, no `]` -/
def BoundOK (T : Tables) (s : Str) : Prop := s ≠ [] ∧ ∀ c ∈ s, T.isWs c = false ∧ c ≠ ']'

/-- the ASTs `C32_semantics` ranges over (no wildcard terms: those go through the regex engine) -/
def Ast.WF (T : Tables) : Ast → Prop
  | .word w => WordOK T w
  | .phrase p => '"' ∉ p
  | .field _ q v => '"' ∉ v ∧ (q = false → ∀ c ∈ v, isBreak T c = false)
  | .date s e => BoundOK T s ∧ BoundOK T e
  | .not a => Ast.WF T a
  | .and _ a b => Ast.WF T a ∧ Ast.WF T b
  | .or a b => Ast.WF T a ∧ Ast.WF T b

/-- what the theorems need to know about `char::is_whitespace`: the space is whitespace and no
    visible ASCII character is -/
structure Tables.Sane (T : Tables) : Prop where
  ws_space : T.isWs ' ' = true
  ws_graphic : ∀ c : Char, 33 ≤ c.toNat → c.toNat ≤ 126 → T.isWs c = false

end Mv.Query
