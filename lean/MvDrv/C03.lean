/- Driver for C03 (crash-consistency family): the shared model driver of MvModel/CrashDrv.lean. -/
import MvModel.CrashDrv
def main : IO Unit := Mv.Crash.crashMain
