/- Driver for C05 (embedded WAL).  State: one Wal (none until `new`).
   new <S>              → ok
   append <hex>         → ok <seq> | err full|small|large|ro
   ckpt                 → ok <ckpos> <seq> | err ro
   pending              → recs <seq:len:b3short,...> | recs - | err corrupt <off>
   after <k>            → same
   stats                → <S> <pend> <appends> <seq>
   cursors              → <wh> <ckh> <ckseq>
   reopen <hdrSeq> <hdrCk> <ro 0|1> → ok | err corrupt <off>   (re-scan of the current region bytes)
   should               → true|false
   region               → <blake3 hex of the whole region>
   poke <off> <hex>     → ok          (overwrite region bytes: corruption / crash experiments) -/
import MvModel.Wal
import MvModel.Blake3
import MvModel.DrvUtil
open Mv Mv.Wal

def H := Blake3.hash

def showErr : WalErr → String
  | .tooLarge => "err large" | .tooSmall => "err small" | .full => "err full" | .readOnly => "err ro"
  | .corrupt off => s!"err corrupt {off}"

def showRecs (rs : List Rec) : String :=
  if rs.isEmpty then "recs -" else
  "recs " ++ ",".intercalate (rs.map fun r => s!"{r.seq}:{r.payload.length}:{(toHex (H r.payload)).take 16}")

def step (st : Option Wal) (ws : List String) : Option Wal × String :=
  match st, ws with
  | _, ["new", s] => match s.toNat? with
      | some S => (some (init S), "ok")
      | none => (st, "bad-op")
  | some w, ["append", h] => match ofHex h with
      | some p => match append H w p with
        | .ok (w', s) => (some w', s!"ok {s}")
        | .error e => (some w, showErr e)
      | none => (st, "bad-op")
  | some w, ["ckpt"] => match checkpoint w with
      | .ok (w', pos, s) => (some w', s!"ok {pos} {s}")
      | .error e => (some w, showErr e)
  | some w, ["pending"] => match pendingRecords H w with
      | .ok (w', rs) => (some w', showRecs rs)
      | .error e => (some w, showErr e)
  | some w, ["after", k] => match k.toNat? with
      | some k => match recordsAfter H w k with
        | .ok (w', rs) => (some w', showRecs rs)
        | .error e => (some w, showErr e)
      | none => (st, "bad-op")
  | some w, ["stats"] => (st, s!"{w.S} {w.pend} {w.appends} {w.seq}")
  | some w, ["cursors"] => (st, s!"{w.wh} {w.ckh} {w.ckseq}")
  | some w, ["reopen", a, b, r] => match a.toNat?, b.toNat? with
      | some hs, some hc => match openFromHeader H w.S w.region hs hc (r == "1") with
        | .ok w' => (some w', "ok")
        | .error e => (some w, showErr e)
      | _, _ => (st, "bad-op")
  | some w, ["should"] => (st, toString (shouldCheckpoint w))
  | some w, ["region"] => (st, toHex (H w.region))
  | some w, ["poke", o, h] => match o.toNat?, ofHex h with
      | some off, some b => (some { w with region := writeAt w.region off b }, "ok")
      | _, _ => (st, "bad-op")
  | _, _ => (st, "bad-op")

def main : IO Unit := runDriver (none : Option Wal) step
