/- Driver for C24: the Core model's line protocol (MvModel/CoreDrv.lean) where `put` and `update` run
   through the REPAIRED capacity check of MvModel/Capacity.lean (`putR` / `updateR`); every other request
   is the shared `drvStep`.  The two request parsers below are copies of the ones inside `drvStep`. -/
import MvModel.CoreDrv
import MvModel.Capacity
namespace Mv.Core

def parsePutArgs (kv : List (String × String)) (ts : Int) : PutArgs :=
  { ts := ts, uri := getS kv "uri", kind := getS kv "kind", track := getS kv "track",
    tags := getL kv "tags", labels := getL kv "labels", role := getRole kv,
    content := (getS kv "ct").getD "E", len := getN kv "len", plen := getN kv "plen",
    emb := getEmb kv "emb", chunks := getChunks kv "chunks", ii := getB kv "ii",
    st := getB kv "st" true, q := getB kv "q", nc := getN kv "nc", zstd := getB kv "z",
    cdims := (getL kv "cdims").filterMap (·.toNat?) }

def parseUpdArgs (kv : List (String × String)) : UpdArgs :=
  let pl : Option (String × Nat × Nat × List ChunkArg) :=
    if getB kv "pl" then some ((getS kv "ct").getD "E", getN kv "len", getN kv "plen", getChunks kv "chunks")
    else none
  { ts := getI kv "ts", uri := getS kv "uri", kind := getS kv "kind", track := getS kv "track",
    tags := getL kv "tags", labels := getL kv "labels", role := getRole kv, payload := pl,
    emb := getEmb kv "emb", ii := getB kv "ii", st := getB kv "st" true, q := getB kv "q",
    nc := getN kv "nc", zstd := getB kv "z" }

def drvStepR (m : Mem) (ws : List String) : Mem × String :=
  match ws with
  | "put" :: rest =>
    let kv := kvs rest
    match getI kv "ts" with
    | none => (m, "bad-op")
    | some ts =>
      let r := stepR m (.put (parsePutArgs kv ts) (getTrace m kv))
      (r.1.setWalSize (getN kv "ws" r.1.walSize), showOut r.2)
  | "update" :: rest =>
    let kv := kvs rest
    let r := stepR m (.update (getN kv "id") (parseUpdArgs kv) (getTrace m kv))
    (r.1.setWalSize (getN kv "ws" r.1.walSize), showOut r.2)
  | _ => drvStep m ws

end Mv.Core

def main : IO Unit := Mv.runDriver Mv.Core.Mem.create Mv.Core.drvStepR
