/-
  Model of `/repo/src/footer.rs`: the 56-byte commit footer codec and the backward scan
  `find_last_valid_footer`.  `H` is the hash (blake3 in the implementation; abstract here).
-/
import MvModel.Bytes
import MvModel.Gen.C31
namespace Mv.Footer

/-- `b"MV2FOOT!"`, regenerated from src/footer.rs on every run (tools/gen/C31.py) -/
def MAGIC : Bytes := Mv.Gen.C31.FOOTER_MAGIC
def FOOTER_SIZE : Nat := Mv.Gen.C31.FOOTER_SIZE

/-- the layout facts the model's literal offsets (8, 16, 48, first byte 0x4D) rely on;
    fails to elaborate if the source constants change -/
theorem layout_ok : MAGIC.length = 8 ∧ FOOTER_SIZE = 8 + 8 + 32 + 8 ∧ MAGIC.head? = some 0x4D := by decide
theorem FOOTER_SIZE_eq : FOOTER_SIZE = 56 := by decide
theorem MAGIC_eq : MAGIC = [0x4D, 0x56, 0x32, 0x46, 0x4F, 0x4F, 0x54, 0x21] := by decide

structure Footer where
  tocLen : Nat
  tocHash : Bytes
  generation : Nat
deriving Repr, DecidableEq

/-- `CommitFooter::encode` -/
def encode (f : Footer) : Bytes := MAGIC ++ u64le f.tocLen ++ f.tocHash ++ u64le f.generation

/-- `CommitFooter::decode` -/
def decode (b : Bytes) : Option Footer :=
  if b.length ≠ FOOTER_SIZE then none
  else if slice b 0 8 ≠ MAGIC then none
  else some { tocLen := leVal (slice b 8 8), tocHash := slice b 16 32, generation := leVal (slice b 48 8) }

structure FooterSlice where
  footerOffset : Nat
  tocOffset : Nat
  footer : Footer
  tocBytes : Bytes
deriving Repr, DecidableEq

/-- The `while let Some(pos) = memrchr(MAGIC[0], &bytes[..search_end])` loop, as structural
    recursion on `search_end`; `memrchr` is folded in: position `e` is examined when
    `search_end = e+1`, and skipped when the byte there is not `MAGIC[0]`. -/
def scanFrom (H : Bytes → Bytes) (bytes : Bytes) : Nat → Option FooterSlice
  | 0 => none
  | e+1 =>
    if bytes[e]? = some 0x4D then
      if e + FOOTER_SIZE > bytes.length then
        (if e = 0 then none else scanFrom H bytes e)
      else
        match decode (slice bytes e FOOTER_SIZE) with
        | some f =>
          if f.tocLen = 0 ∨ f.tocLen > e then scanFrom H bytes e
          else
            let tocOffset := e - f.tocLen
            let toc := slice bytes tocOffset f.tocLen
            if H toc ≠ f.tocHash then scanFrom H bytes e
            else some { footerOffset := e, tocOffset := tocOffset, footer := f, tocBytes := toc }
        | none => if e = 0 then none else scanFrom H bytes e
    else scanFrom H bytes e

/-- `find_last_valid_footer` -/
def findLast (H : Bytes → Bytes) (bytes : Bytes) : Option FooterSlice :=
  if bytes.length < FOOTER_SIZE then none else scanFrom H bytes bytes.length

/-- Specification: a valid commit footer starts at offset `p`. -/
def ValidAt (H : Bytes → Bytes) (bytes : Bytes) (p : Nat) : Prop :=
  p + FOOTER_SIZE ≤ bytes.length ∧
  slice bytes p 8 = MAGIC ∧
  0 < leVal (slice bytes (p + 8) 8) ∧
  leVal (slice bytes (p + 8) 8) ≤ p ∧
  H (slice bytes (p - leVal (slice bytes (p + 8) 8)) (leVal (slice bytes (p + 8) 8)))
    = slice bytes (p + 16) 32

instance (H : Bytes → Bytes) (bytes : Bytes) (p : Nat) : Decidable (ValidAt H bytes p) := by
  unfold ValidAt; infer_instance

/-- the slice the specification associates with a valid footer at `p` -/
def sliceAt (bytes : Bytes) (p : Nat) : FooterSlice :=
  let tl := leVal (slice bytes (p + 8) 8)
  { footerOffset := p, tocOffset := p - tl,
    footer := { tocLen := tl, tocHash := slice bytes (p + 16) 32, generation := leVal (slice bytes (p + 48) 8) },
    tocBytes := slice bytes (p - tl) tl }

/-- naive reference: try every offset from the top -/
def naiveFrom (H : Bytes → Bytes) (bytes : Bytes) : Nat → Option FooterSlice
  | 0 => none
  | e+1 => if ValidAt H bytes e then some (sliceAt bytes e) else naiveFrom H bytes e

def naiveScan (H : Bytes → Bytes) (bytes : Bytes) : Option FooterSlice := naiveFrom H bytes bytes.length

end Mv.Footer
