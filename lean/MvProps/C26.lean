/-
  C26 — derived data refers to the frame it was derived from.

  "Every memory card extracted during a put, every enrichment record, and every enrichment-queue entry
   created by a put refer to the frame id that document actually has once committed."

  Model: the shared Core state machine (MvModel/Core.lean) with the id `put_internal` attaches to
  derived data made a parameter (MvModel/Derived.lean): `IdPolicy.walSeq` = `parent_seq as FrameId`
  (the code as it was before the repair a8580e2), `IdPolicy.frameId` = `next_frame_id()` read before
  the WAL append (the repaired code; `stepG .frameId = step`, the shared Core model verbatim).
  Reference: `specRun` (MvModel/Spec.lean) — acknowledged puts/updates/deletes take effect in order,
  ids are positions.

  Results (all for arbitrary histories and arbitrary trace inputs: checkpoint points, WAL sizes,
  footer positions, stored lengths, number of cards the extractor produced, queue requests):
    * `C26_counterexample`   ¬ C26_full: under `walSeq` (the code before a8580e2) the second put of
                             `put; commit; put` files its card, record and queue entry under 3; its
                             document is frame 1.  (`C26_counterexample_first_put`: even the very first
                             put names 1 instead of 0.)
    * `C26_partial`          what IS true of the unrepaired code: derived data carries the WAL sequence
                             number the put returned.
    * `C26_derived_ids`      under `frameId`: the cards, the enrichment record and the queue entry an
                             acknowledged put/update creates carry exactly the id `specRun` assigns to
                             the document of that call, and nothing else is added or changed.
    * `C26_ids_keep_naming_the_document`  that id names the same document in every continuation of
                             the history (deletes, updates, vacuum, doctor, crash … included).
    * `C26_committed_frame`  once nothing is pending, the committed frame table holds that document
                             at that id.
    * `C26_code_policy`, `C26`  tie to the source: the translator found the `frameId` shape in put_internal,
                             so the model the driver runs against the implementation is the repaired one.
  MvProps/C26Closure.lean adds: only puts create derived data (`C26_only_puts_add`,
  `C26_put_adds_only_its_id`) and, for every history, every id held by derived data — in memory or
  persisted — is the id of a put's document (`C26_derived_name_documents`).
-/
import MvProps.C26Lemmas
namespace Mv.Core

/-- operations that run `put_internal`, with the trace inputs about derived data they carry:
    number of memory cards the extractor produced, and whether the frame was queued for enrichment -/
def Op.derives : Op → Option (Nat × Bool)
  | .put a _ => some (a.nc, a.q)
  | .update _ u _ => some (u.nc, u.q)
  | _ => none

/-- C26 for an id policy: in every history, what an acknowledged put / update derives from its document
    is filed under the id the reference run gives that document — `doc` is the frame `specRun` adds for
    the call, it sits at index `doc.id` of the reference state after the call, and the handle's derived
    data grows by exactly `nc` cards naming `doc.id`, one queue entry naming `doc.id` when queued, and
    (when there are cards) the enrichment record of `doc.id`. -/
def DerivedRefersToDocument (p : IdPolicy) : Prop :=
  ∀ (ops : List Op) (op : Op) (nc : Nat) (q : Bool), op.derives = some (nc, q) →
    (stepG p (runG p Mem.create ops) op).2.isAck = true →
    ∃ doc, specDocOf (specRun [] (traceG p Mem.create ops)) op = some doc ∧
      (specRun [] (traceG p Mem.create (ops ++ [op])))[doc.id]? = some doc ∧
      Adds (stepG p (runG p Mem.create ops) op).1 (runG p Mem.create ops) doc.id nc q

/-- the property for the code as it was (`parent_seq as FrameId`, before a8580e2) -/
def C26_full : Prop := DerivedRefersToDocument .walSeq

/-! ## The defect -/

/-- witness: a put that asks for instant index + enrichment and whose text yields one memory card -/
def wPut (ts : Int) (tok : String) : Op :=
  .put { ts := ts, content := tok, len := 40, plen := 40, ii := true, q := true, nc := 1 } {}

/-- `put; commit; put`: the commit's index record takes sequence number 2, so the second put has
    sequence number 3 — and its document is frame 1 -/
def witnessOps : List Op := [wPut 100 "aa", .commit 900]

theorem witness_cards :
    (stepG .walSeq (runG .walSeq Mem.create witnessOps) (wPut 101 "bb")).1.cards = [1, 3] ∧
    (stepG .walSeq (runG .walSeq Mem.create witnessOps) (wPut 101 "bb")).1.queue = [1, 3] ∧
    (stepG .walSeq (runG .walSeq Mem.create witnessOps) (wPut 101 "bb")).1.enrRecs = [1, 3] ∧
    (specRun [] (traceG .walSeq Mem.create (witnessOps ++ [wPut 101 "bb"]))).map (·.id) = [0, 1] := by
  decide

theorem C26_counterexample : ¬ C26_full := by
  intro h
  obtain ⟨doc, hdoc, _, hadds⟩ := h witnessOps (wPut 101 "bb") 1 true rfl (by decide)
  have hid : doc.id = 1 := by
    have : specDocOf (specRun [] (traceG .walSeq Mem.create witnessOps)) (wPut 101 "bb")
        = some (specDoc { ts := 101, content := "bb", len := 40, plen := 40, ii := true, q := true, nc := 1 } 1 none "bb") := by
      decide
    rw [this] at hdoc
    cases hdoc
    rfl
  have hc := hadds.cards
  rw [hid] at hc
  revert hc
  decide

/-- the very first put of a fresh memory is already wrong: sequence numbers start at 1, frame ids at 0 -/
theorem C26_counterexample_first_put :
    (stepG .walSeq Mem.create (wPut 100 "aa")).1.cards = [1] ∧ (stepG .walSeq Mem.create (wPut 100 "aa")).1.queue = [1] ∧
    (specRun [] (traceG .walSeq Mem.create [wPut 100 "aa"])).map (·.id) = [0] := by
  decide

/-- what is true of the code as it was: derived data carries the WAL sequence number of the put's
    parent record — the number the put returns -/
theorem C26_partial (m : Mem) (op : Op) (nc : Nat) (q : Bool) (hd : op.derives = some (nc, q))
    (hack : (stepG .walSeq m op).2.isAck = true) :
    (stepG .walSeq m op).2 = .seq (m.seq + 1) ∧ Adds (stepG .walSeq m op).1 m (m.seq + 1) nc q := by
  cases op with
  | put a t =>
    simp only [Op.derives, Option.some.injEq, Prod.mk.injEq] at hd
    obtain ⟨rfl, rfl⟩ := hd
    have hack' : (m.putCoreG .walSeq a none none t).2.isAck = true := hack
    exact ⟨putCoreG_out .walSeq m a none none t hack', putCoreG_derived .walSeq m a none none t hack'⟩
  | update id u t =>
    simp only [Op.derives, Option.some.injEq, Prod.mk.injEq] at hd
    obtain ⟨rfl, rfl⟩ := hd
    have hack' : (m.updateG .walSeq id u t).2.isAck = true := hack
    exact ⟨updateG_out .walSeq m id u t hack', (updateG_derived .walSeq m id u t hack').1⟩
  | _ => simp [Op.derives] at hd

/-! ## The repaired code -/

/-- MAIN THEOREM (fixes/C26.diff): every card / enrichment record / queue entry created by a put or an
    update carries the id `specRun` assigns to that document. -/
theorem C26_derived_ids : DerivedRefersToDocument .frameId := by
  intro ops op nc q hd hack
  obtain ⟨hI, hA⟩ := runG_refines .frameId Mem.create ops inv_create
  rw [abs_create] at hA
  -- the id the policy reads off the handle is the length of the reference state
  have hfid : IdPolicy.frameId.id (runG .frameId Mem.create ops) = (specRun [] (traceG .frameId Mem.create ops)).length := by
    rw [← hA, abs_length_next _ hI]; rfl
  -- the reference state after the call
  have hnext : specRun [] (traceG .frameId Mem.create (ops ++ [op]))
      = specStep (specRun [] (traceG .frameId Mem.create ops)) op := by
    rw [traceG_append, specRun_append]
    simp only [traceG, specRun, hack, if_true]
  cases op with
  | put a t =>
    simp only [Op.derives, Option.some.injEq, Prod.mk.injEq] at hd
    obtain ⟨rfl, rfl⟩ := hd
    refine ⟨_, rfl, ?_, ?_⟩
    · rw [hnext]; exact specStep_doc _ _ _ rfl
    · have h := putCoreG_derived .frameId (runG .frameId Mem.create ops) a none none t hack
      rw [hfid] at h
      exact h
  | update id u t =>
    simp only [Op.derives, Option.some.injEq, Prod.mk.injEq] at hd
    obtain ⟨rfl, rfl⟩ := hd
    obtain ⟨h, old, hold⟩ := updateG_derived .frameId (runG .frameId Mem.create ops) id u t hack
    obtain ⟨old', hS, _⟩ := abs_ident _ id old hold
    rw [hA] at hS
    have hdoc : specDocOf (specRun [] (traceG .frameId Mem.create ops)) (.update id u t)
        = some (specDoc (specInherit old' u) (specRun [] (traceG .frameId Mem.create ops)).length (some id) (specInherit old' u).content) := by
      simp only [specDocOf, hS, Option.map_some]
    refine ⟨_, hdoc, ?_, ?_⟩
    · rw [hnext]; exact specStep_doc _ _ _ hdoc
    · rw [hfid] at h
      exact h
  | _ => simp [Op.derives] at hd

/-- the same statement on the shared Core model itself (`step` / `run` / `trace`), which mirrors the
    repaired code: `stepG .frameId = step` -/
theorem C26_core_model (ops : List Op) (op : Op) (nc : Nat) (q : Bool) (hd : op.derives = some (nc, q))
    (hack : (step (run Mem.create ops) op).2.isAck = true) :
    ∃ doc, specDocOf (specRun [] (trace Mem.create ops)) op = some doc ∧
      (specRun [] (trace Mem.create (ops ++ [op])))[doc.id]? = some doc ∧
      Adds (step (run Mem.create ops) op).1 (run Mem.create ops) doc.id nc q := by
  have h := C26_derived_ids ops op nc q hd
  simp only [runG_frameId, traceG_frameId, stepG_frameId] at h
  exact h hack

/-- the id keeps naming that document: no continuation of the history (without re-creating the memory)
    changes the identity — id, timestamp, URI, kind, track, tags, labels, role, supersedes, chunk
    fields, content — of the frame at that id in the reference run -/
theorem C26_ids_keep_naming_the_document (p : IdPolicy) (ops rest : List Op) (op : Op) (doc : SFrame)
    (hdoc : (specRun [] (traceG p Mem.create (ops ++ [op])))[doc.id]? = some doc)
    (hrest : ∀ o ∈ rest, o ≠ Op.create) :
    ((specRun [] (traceG p Mem.create (ops ++ op :: rest)))[doc.id]?).map SFrame.ident = some doc.ident := by
  have hsplit : ops ++ op :: rest = (ops ++ [op]) ++ rest := by simp
  rw [hsplit, traceG_append, specRun_append]
  have hlt : doc.id < (specRun [] (traceG p Mem.create (ops ++ [op]))).length :=
    (List.getElem?_eq_some_iff.mp hdoc).1
  rw [specRun_ident _ _ (traceG_noCreate p _ rest hrest) doc.id hlt, hdoc]
  rfl

/-- once committed: when nothing is pending at the end of the history, the committed frame table holds
    that document at that id -/
theorem C26_committed_frame (p : IdPolicy) (ops rest : List Op) (op : Op) (doc : SFrame)
    (hdoc : (specRun [] (traceG p Mem.create (ops ++ [op])))[doc.id]? = some doc)
    (hrest : ∀ o ∈ rest, o ≠ Op.create)
    (hquiet : (runG p Mem.create (ops ++ op :: rest)).pending = []) :
    (((runG p Mem.create (ops ++ op :: rest)).frames)[doc.id]?).map (fun f => (view f).ident) = some doc.ident := by
  have hk := C26_ids_keep_naming_the_document p ops rest op doc hdoc hrest
  obtain ⟨_, hA⟩ := runG_refines p Mem.create (ops ++ op :: rest) inv_create
  rw [abs_create] at hA
  have habs : abs (runG p Mem.create (ops ++ op :: rest)) = (runG p Mem.create (ops ++ op :: rest)).frames.map view := by
    unfold Mv.Core.abs; rw [hquiet]; rfl
  rw [← hA, habs, List.getElem?_map, Option.map_map] at hk
  exact hk

/-! ## The code in /repo -/

/-- TIE to the source: the translator (tools/gen/C26.py, re-run by every check) found that `put_internal`
    reads `next_frame_id()` before the WAL append at all three derived-data sites.  On a tree without
    /verif/fixes/C26.diff the generated constant is `true` and this theorem does not check. -/
theorem C26_code_policy : codePolicy = .frameId := by decide

/-- C26 for the model the driver runs against the implementation -/
theorem C26 : DerivedRefersToDocument codePolicy := C26_code_policy ▸ C26_derived_ids

/-! ## Non-vacuity: concrete instances -/

/-- the witness history under the repaired policy: ids 0 and 1 -/
example :
    (stepG .frameId (runG .frameId Mem.create witnessOps) (wPut 101 "bb")).2.isAck = true ∧
    (stepG .frameId (runG .frameId Mem.create witnessOps) (wPut 101 "bb")).1.cards = [0, 1] ∧
    (stepG .frameId (runG .frameId Mem.create witnessOps) (wPut 101 "bb")).1.queue = [0, 1] ∧
    (stepG .frameId (runG .frameId Mem.create witnessOps) (wPut 101 "bb")).1.enrRecs = [0, 1] := by
  decide

/-- a chunked document between the two: the second document is frame 3 (after the first document's two
    chunks), and the hypotheses of `C26_committed_frame` hold for `rest = [commit]` -/
example :
    let chunked : Op := .put { ts := 100, content := "E", len := 0, plen := 5000, nc := 2, q := false,
                               chunks := [{ content := "c1", len := 9, emb := none }, { content := "c2", len := 9, emb := none }] } {}
    (stepG .frameId (runG .frameId Mem.create [chunked, .commit 900]) (wPut 101 "bb")).1.cards = [0, 0, 3] ∧
    (runG .frameId Mem.create ([chunked, .commit 900] ++ wPut 101 "bb" :: [.commit 1900])).pending = [] ∧
    ((runG .frameId Mem.create ([chunked, .commit 900] ++ wPut 101 "bb" :: [.commit 1900])).frames.map (·.id)) = [0, 1, 2, 3] := by
  decide

end Mv.Core
