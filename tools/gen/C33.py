#!/usr/bin/env python3
"""C33: the shape of normalize_text in src/text.rs.

Extracted on every run (the model `Mv.Text.normalizeSrc` is parameterised by them):
  MIN_LIMIT        n of `limit.max(n)`
  CHAR_MAP         the `if ch == 'a' { ch = 'b'; }` rewrites at the top of the cleaning loop, in order
  PREFILTER_KEEP   none  when the code normalises the raw input (`input.nfkc()`),
                   some [..] when control characters other than the listed ones are filtered out
                   before `.nfkc()` (the C33 repair)
  TRAIL_FIX        true when the truncation loop tracks `keep` and cuts `out` back to the last
                   grapheme that does not end in whitespace (the C33 repair)
Anything else (unknown pipeline shape) is a translator failure (exit 2)."""
from common import *

CH = {"\\n": "\\n", "\\r": "\\r", "\\t": "\\t", " ": " "}


def lean_char(lit):
    """Rust char literal body -> Lean char literal"""
    if lit in CH:
        return "'" + CH[lit] + "'"
    if len(lit) == 1 and lit.isprintable() and lit not in "'\\":
        return "'" + lit + "'"
    m = re.fullmatch(r"\\u\{([0-9a-fA-F]+)\}", lit)
    if m:
        return "(Char.ofNat 0x%s)" % m.group(1)
    raise TranslateError(f"unsupported char literal {lit!r}")


def fn_body(src, name):
    m = re.search(r"\bfn\s+" + re.escape(name) + r"\b", src)
    if not m:
        raise TranslateError(f"fn {name} not found")
    i = src.find("{", m.end())
    depth, j = 0, i
    while j < len(src):
        if src[j] == "{":
            depth += 1
        elif src[j] == "}":
            depth -= 1
            if depth == 0:
                return src[i:j + 1]
        j += 1
    raise TranslateError(f"fn {name}: unbalanced braces")


def run():
    body = fn_body(strip_comments(read("src/text.rs")), "normalize_text")
    flat = re.sub(r"\s+", " ", body)
    m = re.search(r"let limit = limit\.max\((\d+)\);", flat)
    if not m:
        raise TranslateError("`let limit = limit.max(N);` not found in normalize_text")
    min_limit = int(m.group(1))
    # the normalisation step
    if re.search(r"let normalised = input\.nfkc\(\)\.collect::<String>\(\);", flat):
        keep = None
    else:
        m = re.search(r"let normalised = input \.chars\(\) \.filter\(\|ch\| !ch\.is_control\(\) \|\| matches!\(ch, ([^)]*)\)\) "
                      r"\.nfkc\(\) \.collect::<String>\(\);", flat)
        if not m:
            raise TranslateError("normalisation step of normalize_text has an unknown shape")
        keep = [lean_char(x.strip()[1:-1]) for x in m.group(1).split("|")]
    # char rewrites at the top of the loop
    loop = flat[flat.find("for mut ch in normalised.chars()"):]
    if not loop:
        raise TranslateError("cleaning loop not found")
    head = loop[:loop.find("if ch.is_control()")]
    maps = re.findall(r"if ch == '((?:\\.|[^'\\])+)' \{ ch = '((?:\\.|[^'\\])+)'; \}", head)
    if not maps:
        raise TranslateError("char rewrites (`if ch == 'x' { ch = 'y'; }`) not found")
    if not re.search(r"if ch\.is_control\(\) && ch != '\\n' \{ continue; \}", loop):
        raise TranslateError("control-character skip not found")
    # truncation loop
    has_keep = bool(re.search(r"if !grapheme\.ends_with\(char::is_whitespace\) \{ keep = consumed; \}", flat))
    has_cut = bool(re.search(r"if truncated \{ out\.truncate\(keep\); \}", flat))
    if has_keep != has_cut:
        raise TranslateError("truncation loop: `keep` tracking and `out.truncate(keep)` do not go together")
    if not re.search(r"let next = consumed \+ grapheme\.len\(\); if next > limit \{ truncated = true; break; \}", flat):
        raise TranslateError("truncation loop has an unknown shape")
    out = f"def MIN_LIMIT : Nat := {min_limit}\n"
    out += "def CHAR_MAP : List (Char × Char) := [" + ", ".join(f"({lean_char(a)}, {lean_char(b)})" for a, b in maps) + "]\n"
    out += "def PREFILTER_KEEP : Option (List Char) := " + ("none" if keep is None else "some [" + ", ".join(keep) + "]") + "\n"
    out += f"def TRAIL_FIX : Bool := {'true' if has_keep else 'false'}\n"
    return emit("C33", out)


main(run)
