//! probe (temporary)
use memvid_core::verif_hooks as vh;
use memvid_core::{Memvid, PutOptions, SearchRequest};

fn req(q: &str, k: usize) -> SearchRequest {
    SearchRequest {
        query: q.to_string(), top_k: k, snippet_chars: 80, uri: None, scope: None, cursor: None,
        as_of_frame: None, as_of_ts: None, no_sketch: true,
        acl_context: None, acl_enforcement_mode: Default::default(),
    }
}

fn show(mem: &mut Memvid, q: &str) {
    match mem.search(req(q, 10)) {
        Ok(r) => {
            println!("  q={q:?} engine={:?} total={} stale={} hits={:?}", r.engine, r.total_hits, r.stale_index_skips,
                r.hits.iter().map(|h| (h.frame_id, h.rank, h.range, h.text.clone(), h.chunk_range)).collect::<Vec<_>>());
        }
        Err(e) => println!("  q={q:?} ERR {e}"),
    }
}

fn put(mem: &mut Memvid, text: &str, uri: &str, instant: bool, tags: &[&str]) -> u64 {
    let opts = PutOptions { uri: Some(uri.into()), search_text: Some(text.into()), timestamp: Some(1_700_000_000),
        tags: tags.iter().map(|s| s.to_string()).collect(),
        auto_tag: false, extract_dates: false, extract_triplets: false, instant_index: instant, ..Default::default() };
    mem.put_bytes_with_options(text.as_bytes(), opts).expect("put")
}

fn main() {
    let dir = tempfile::tempdir().unwrap();
    let path = dir.path().join("p.mv2");
    let mut mem = Memvid::create(&path).unwrap();
    mem.enable_lex().unwrap();
    for (i, t) in ["alpha one", "alpha two", "beta three"].iter().enumerate() {
        let opts = PutOptions { search_text: Some(t.to_string()), timestamp: Some(1_700_000_000), 
            auto_tag: false, extract_dates: false, extract_triplets: false, instant_index: true, ..Default::default() };
        println!("seq {:?}", mem.put_bytes_with_options(t.as_bytes(), opts));
    }
    // invalid utf8 payload, text mime
    let mut meta = memvid_core::DocMetadata::default();
    meta.mime = Some("text/plain".into());
    let opts = PutOptions { timestamp: Some(1_700_000_000), uri: Some("mv2://bin/x.txt".into()), metadata: Some(meta),
        auto_tag: false, extract_dates: false, extract_triplets: false, instant_index: false, ..Default::default() };
    println!("seq {:?}", mem.put_bytes_with_options(b"gamma \xff\xfe\xfd delta gamma", opts));
    mem.commit().unwrap();
    for f in vh::verif_frames(&mem) { println!("  frame {} status {:?} uri {:?} st {:?} role {:?} enc {:?}", f.id, f.status, f.uri, f.search_text, f.role, f.canonical_encoding); }
    show(&mut mem, "gamma");
    show(&mut mem, "uri:mv2://d0/x");
    let mut r = req("* scope:mv2://frames", 10);
    println!("{:?}", mem.search(r.clone()).map(|r| (r.engine, r.hits.iter().map(|h| (h.frame_id, h.uri.clone())).collect::<Vec<_>>())));
    r.uri = Some("mv2://frames/1".into());
    println!("with uri filter d1: {:?}", mem.search(r.clone()).map(|r| (r.engine, r.hits.iter().map(|h| (h.frame_id, h.uri.clone())).collect::<Vec<_>>())));
    r.uri = None; r.scope = Some("mv2://frames/2".into());
    println!("with scope filter d2: {:?}", mem.search(r.clone()).map(|r| (r.engine, r.hits.iter().map(|h| (h.frame_id, h.uri.clone())).collect::<Vec<_>>())));
}
