/-
  Model of `/repo/src/toc.rs`: `Toc::encode`, `Toc::decode` (current format, then the two legacy
  layouts, each followed by the trailing-bytes test), `Toc::verify_checksum`, over the generic bincode
  model (MvModel/Bincode.lean) at the schemas generated from the type definitions
  (MvModel/Gen/C30Toc.lean).  A TOC value is the `Value` tuple of its 16 fields.
-/
import MvModel.Bincode
import MvModel.Gen.C30
import MvModel.Gen.C30Toc
namespace Mv.Toc
open Mv.Bincode Mv.Gen.C30Toc

/-- `with_limit::<MAX_INDEX_BYTES>`: every read first claims its size against this budget.  In the
    serde path the claims are exactly the bytes consumed, in order, so a decode that succeeds
    structurally is refused iff it consumed more than the limit. -/
def LIMIT : Nat := Mv.Gen.C30.MAX_INDEX_BYTES

def decodeLim (ext : Nat → Bytes → Option Bytes) (s : Schema) (b : Bytes) : Option (Value × Bytes) :=
  match decode ext s b with
  | some (v, rest) => if b.length - rest.length ≤ LIMIT then some (v, rest) else none
  | none => none

inductive Err where
  | trailing      -- "unexpected trailing bytes"
  | trailingV2    -- "unexpected trailing bytes in V2 format"
  | trailingV1    -- "unexpected trailing bytes in V1 format"
  | decode        -- bincode error of the last attempt
deriving Repr, DecidableEq

def Err.name : Err → String
  | .trailing => "trailing" | .trailingV2 => "trailing_v2" | .trailingV1 => "trailing_v1" | .decode => "decode"

/-- build a field tuple: each target field is field `i` of `src` or a constant
    (the `From<Legacy…> for Toc` impls and the legacy literals of `verify_checksum`) -/
def remap (m : List (Nat ⊕ Value)) (src : Value) : Option Value :=
  (m.mapM fun (x : Nat ⊕ Value) =>
    match x with
    | Sum.inl i => (Value.toList src)[i]?
    | Sum.inr v => some v).map Value.ofList

/-- `Toc::encode` -/
def encodeToc (t : Value) : Bytes := encode tocSchema t

/-- `Toc::decode` -/
def decodeToc (ext : Nat → Bytes → Option Bytes) (b : Bytes) : Except Err Value :=
  match decodeLim ext tocSchema b with
  | some (v, rest) => if rest ≠ [] then .error .trailing else .ok v
  | none =>
    match decodeLim ext tocV2Schema b with
    | some (l, rest) =>
      if rest ≠ [] then .error .trailingV2
      else match remap fromV2 l with
        | some t => .ok t
        | none => .error .decode
    | none =>
      match decodeLim ext tocV1Schema b with
      | some (l, rest) =>
        if rest ≠ [] then .error .trailingV1
        else match remap fromV1 l with
          | some t => .ok t
          | none => .error .decode
      | none => .error .decode

/-- `Toc::decode_lenient` -/
def decodeLenient (ext : Nat → Bytes → Option Bytes) (b : Bytes) : Except Err Value :=
  match decodeLim ext tocSchema b with
  | some (v, _) => .ok v
  | none =>
    match decodeLim ext tocV2Schema b with
    | some (l, _) => (match remap fromV2 l with | some t => .ok t | none => .error .decode)
    | none =>
      match decodeLim ext tocV1Schema b with
      | some (l, _) => (match remap fromV1 l with | some t => .ok t | none => .error .decode)
      | none => .error .decode

def zeroChecksum (t : Value) : Value :=
  Value.ofList ((Value.toList t).set checksumIndex (.bytes (zeros 32)))

def storedChecksum (t : Value) : Option Value := (Value.toList t)[checksumIndex]?

def fieldsNone (idx : List Nat) (t : Value) : Bool :=
  idx.all fun i => decide ((Value.toList t)[i]? = some .none)

def legacyDigest (H : Bytes → Bytes) (m : List (Nat ⊕ Value)) (s : Schema) (t : Value) : Option Value :=
  (remap m t).map fun l => .bytes (H (encode s l))

/-- `Toc::verify_checksum` (`true` = `Ok(())`, `false` = `ChecksumMismatch`) -/
def verifyChecksum (H : Bytes → Bytes) (t : Value) : Bool :=
  if some (Value.bytes (H (encodeToc (zeroChecksum t)))) = storedChecksum t then true
  else if fieldsNone v2Guard t && decide (legacyDigest H toV2 tocV2Schema t = storedChecksum t) && (storedChecksum t).isSome then true
  else if fieldsNone v1Guard t && decide (legacyDigest H toV1 tocV1Schema t = storedChecksum t) && (storedChecksum t).isSome then true
  else false

end Mv.Toc
