//! C06 — frame identity is dense, ordered, predictable and stable.
//! impl: real `Memvid`; model: drv_c06 (Lean Core model); oracle: ids = positions, frame i = the i-th
//! acknowledged insert (chunks directly after their document), next_frame_id() = number of
//! acknowledged inserts, an assigned id keeps naming the same frame.
use mvh::hist::*;

fn main() {
    let args = mvh::parse_args();
    let mut prof = GenProfile::standard(args.thorough);
    // more identity-relevant traffic: chunked documents, updates, vacuum, doctor, reopen
    prof.w_update = 16; prof.w_vacuum = 4; prof.w_doctor = 2; prof.w_reopen = 7; prof.w_crash = 4;
    prof.corpus = corpus();
    let cfg = FamilyConfig {
        property: "C06",
        rule: "the C01 history generator with more updates / vacuum / doctor / reopen; after every op: ids equal positions, \
               frame i is what the i-th acknowledged insert predicts (document then its chunks), next_frame_id() equals the number \
               of acknowledged inserts, every id that existed before the op still names the same frame, frame_by_uri returns the \
               newest active version; non-trivial = at least two acknowledged mutations and a commit point; distinct = op/answer trace",
        expect_branches: vec!["auto-commit", "chunked-put", "update-reuse", "update-payload", "wal-replay-on-open", "drop-commit",
                              "op-vacuum", "op-doctor", "wal-grow"],
    };
    let mut oracle = |v: &mut StepView| oracle_c06(v);
    run_family(cfg, prof, &mut oracle);
}

fn corpus() -> Vec<(String, Vec<Op>)> {
    let put = |kind, len, seed, ts| Op::Put(PutSpec::simple(PayloadSpec::new(kind, len, seed), ts));
    vec![
        ("chunked-then-plain".into(), vec![put(PayloadKind::Ascii, 6000, 1, 100), put(PayloadKind::Bin, 9, 2, 101), Op::Commit,
            put(PayloadKind::Utf8, 3000, 3, 102), Op::Reopen, Op::Vacuum, Op::Doctor { vacuum: true, rebuild_time: true, rebuild_lex: true, rebuild_vec: true }]),
        ("update-allocates-new-id".into(), vec![put(PayloadKind::Ascii, 20, 4, 100), Op::Commit,
            Op::Update(UpdSpec { id: 0, payload: Some(PayloadSpec::new(PayloadKind::Ascii, 4000, 5)), ..Default::default() }),
            put(PayloadKind::Ascii, 10, 6, 103), Op::Crash, Op::Delete { id: 1 }, Op::Reopen]),
    ]
}
