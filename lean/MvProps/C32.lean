/-
  C32 — Query language is total and means what it says.  (work in progress: first skeleton)
-/
import MvModel.QueryLemmas
namespace Mv.Query

theorem C32_fuel_mono (T : Tables) (lim : Option Nat) (n : Nat) : Mono T lim n := mono T lim n

end Mv.Query
