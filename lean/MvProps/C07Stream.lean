/- C07, streaming reads: ANY interleaving of reads and seeks on any number of `BlobReader`s of one
   handle, mixed with arbitrary other uses of the shared file description, returns exactly what
   independent in-memory cursors over the stored payload bytes return.  (The file variant re-seeks
   to `start + pos` before every read; that is what makes it independent of the shared offset.) -/
import MvModel.BlobReader
namespace Mv.Blob

theorem slice_length (file : Bytes) (s l : Nat) (h : s + l ≤ file.length) : (slice file s l).length = l := by
  unfold slice
  simp only [List.length_take, List.length_drop]
  omega

theorem slice_drop_take (file : Bytes) (s l p n : Nat) :
    ((slice file s l).drop p).take n = (file.drop (s + p)).take (min n (l - p)) := by
  unfold slice
  rw [List.drop_take, List.take_take, List.drop_drop]

/-- one read of a file reader = one read of the cursor over its payload, whatever the shared offset is -/
theorem read_abs (w : World) (r : FileReader) (n : Nat) (hw : r.Wf w.file) :
    (r.read w n).1.file = w.file ∧ (r.read w n).2.1.abs w.file = ((r.abs w.file).read n).1 ∧
    (r.read w n).2.2 = ((r.abs w.file).read n).2 ∧ (r.read w n).2.1.Wf w.file := by
  obtain ⟨h1, h2⟩ := hw
  by_cases hrem : r.len - r.pos = 0
  · have hnil : ((slice w.file r.start r.len).drop r.pos).take n = [] := by
      rw [slice_drop_take]; simp [hrem]
    have e1 : r.read w n = (w, r, []) := by simp [FileReader.read, hrem]
    have e2 : (r.abs w.file).read n = (r.abs w.file, []) := by
      simp [MemReader.read, FileReader.abs, hnil]
    rw [e1, e2]
    exact ⟨rfl, rfl, rfl, h1, h2⟩
  · have hb : ((slice w.file r.start r.len).drop r.pos).take n
        = (w.file.drop (r.start + r.pos)).take (min (r.len - r.pos) n) := by
      rw [slice_drop_take, Nat.min_comm]
    have e1 : r.read w n =
        ({ file := w.file, off := r.start + r.pos + ((w.file.drop (r.start + r.pos)).take (min (r.len - r.pos) n)).length },
         { r with pos := r.pos + ((w.file.drop (r.start + r.pos)).take (min (r.len - r.pos) n)).length },
         (w.file.drop (r.start + r.pos)).take (min (r.len - r.pos) n)) := by
      simp [FileReader.read, hrem, World.readN]
    have e2 : (r.abs w.file).read n =
        ({ data := slice w.file r.start r.len,
           pos := r.pos + ((w.file.drop (r.start + r.pos)).take (min (r.len - r.pos) n)).length },
         (w.file.drop (r.start + r.pos)).take (min (r.len - r.pos) n)) := by
      simp only [MemReader.read, FileReader.abs, hb]
    rw [e1, e2]
    refine ⟨rfl, rfl, rfl, h1, ?_⟩
    simp only [List.length_take, List.length_drop]
    omega

/-- a read never depends on the shared offset -/
theorem read_offset_independent (file : Bytes) (o1 o2 : Nat) (r : FileReader) (n : Nat) :
    (r.read { file := file, off := o1 } n).2 = (r.read { file := file, off := o2 } n).2 := by
  simp only [FileReader.read, World.readN]
  split <;> rfl

theorem target_abs (file : Bytes) (r : FileReader) (wh : Whence) (h : r.start + r.len ≤ file.length) :
    (r.abs file).target wh = r.target wh := by
  cases wh with
  | start o => rfl
  | cur d => rfl
  | fromEnd d => simp only [MemReader.target, FileReader.target, FileReader.abs, slice_length file _ _ h]

theorem seek_abs (w : World) (r : FileReader) (wh : Whence) (hw : r.Wf w.file) :
    (r.seek w wh).1.file = w.file ∧ (r.seek w wh).2.1.abs w.file = ((r.abs w.file).seekBounded wh).1 ∧
    (r.seek w wh).2.2 = ((r.abs w.file).seekBounded wh).2 ∧ (r.seek w wh).2.1.Wf w.file := by
  obtain ⟨h1, h2⟩ := hw
  have hl : (r.abs w.file).data.length = r.len := slice_length _ _ _ h1
  unfold FileReader.seek MemReader.seekBounded
  rw [target_abs w.file r wh h1, hl]
  cases r.target wh with
  | error e => exact ⟨rfl, rfl, rfl, h1, h2⟩
  | ok a =>
    dsimp only
    by_cases ha : a > r.len
    · rw [if_pos ha, if_pos ha]; exact ⟨rfl, rfl, rfl, h1, h2⟩
    · rw [if_neg ha, if_neg ha]; exact ⟨rfl, rfl, rfl, h1, Nat.le_of_not_gt ha⟩

theorem wf_set (file : Bytes) (rs : List FileReader) (h : Nat) (r' : FileReader)
    (hall : ∀ r ∈ rs, r.Wf file) (hr : r'.Wf file) : ∀ r ∈ rs.set h r', r.Wf file := by
  intro r hmem
  rcases List.mem_or_eq_of_mem_set hmem with hm | he
  · exact hall r hm
  · exact he ▸ hr

/-- one step of the real system = one step of the independent cursors -/
theorem step_sim (s : Sys) (op : Op) (hw : s.Wf) :
    (s.step op).1.abs = (Ref.step s.abs op).1 ∧ (s.step op).2 = (Ref.step s.abs op).2 ∧ (s.step op).1.Wf := by
  cases op with
  | disturb o => exact ⟨rfl, rfl, hw⟩
  | read h n =>
    simp only [Sys.step, Ref.step, Sys.abs, List.getElem?_map]
    cases hr : s.rs[h]? with
    | none => exact ⟨rfl, rfl, hw⟩
    | some r =>
      have hmem : r ∈ s.rs := List.mem_of_getElem? hr
      obtain ⟨hf, ha, hb, hwf⟩ := read_abs s.w r n (hw r hmem)
      simp only [Option.map_some]
      refine ⟨?_, by rw [hb], ?_⟩
      · simp only [hf, List.map_set, ha]
      · intro x hx
        simp only at hx ⊢
        rw [hf]
        exact wf_set s.w.file s.rs h _ hw hwf x hx
  | seek h wh =>
    simp only [Sys.step, Ref.step, Sys.abs, List.getElem?_map]
    cases hr : s.rs[h]? with
    | none => exact ⟨rfl, rfl, hw⟩
    | some r =>
      have hmem : r ∈ s.rs := List.mem_of_getElem? hr
      obtain ⟨hf, ha, hb, hwf⟩ := seek_abs s.w r wh (hw r hmem)
      simp only [Option.map_some]
      refine ⟨?_, by rw [hb], ?_⟩
      · simp only [hf, List.map_set, ha]
      · intro x hx
        simp only at hx ⊢
        rw [hf]
        exact wf_set s.w.file s.rs h _ hw hwf x hx

/-- **C07_stream_refines** — for EVERY operation list (reads of any size and seeks on any of the
    readers, interleaved with arbitrary movements of the shared file offset by other accesses) the
    outputs are exactly those of independent cursors over the stored payload ranges. -/
theorem C07_stream_refines (s : Sys) (ops : List Op) (hw : s.Wf) :
    (s.run ops).2 = (Ref.run s.abs ops).2 ∧ (s.run ops).1.abs = (Ref.run s.abs ops).1 ∧ (s.run ops).1.Wf := by
  induction ops generalizing s with
  | nil => exact ⟨rfl, rfl, hw⟩
  | cons op ops ih =>
    obtain ⟨h1, h2, h3⟩ := step_sim s op hw
    obtain ⟨i1, i2, i3⟩ := ih (s.step op).1 h3
    simp only [Sys.run, Ref.run]
    rw [← h1, ← h2]
    exact ⟨by rw [i1], i2, i3⟩

/-- reading a cursor in pieces yields the data in order: the concatenation of consecutive reads of
    sizes `ns` from position `p` is the slice they cover -/
def MemReader.readAll (r : MemReader) : List Nat → MemReader × Bytes
  | [] => (r, [])
  | n :: ns => let (r1, b) := r.read n; let (r2, bs) := MemReader.readAll r1 ns; (r2, b ++ bs)

theorem readAll_eq (r : MemReader) (ns : List Nat) :
    (r.readAll ns).2 = (r.data.drop r.pos).take ns.sum ∧
    (r.readAll ns).1.data = r.data := by
  induction ns generalizing r with
  | nil => simp [MemReader.readAll]
  | cons n ns ih =>
    obtain ⟨i1, i2⟩ := ih (r.read n).1
    simp only [MemReader.readAll, List.sum_cons]
    refine ⟨?_, by rw [i2]; rfl⟩
    rw [i1]
    simp only [MemReader.read, List.length_take, List.length_drop]
    by_cases hn : n ≤ r.data.length - r.pos
    · rw [Nat.min_eq_left hn, ← List.drop_drop, List.take_add]
    · have hle : r.data.length - r.pos ≤ n := by omega
      rw [Nat.min_eq_right hle]
      have hd : r.data.drop (r.pos + (r.data.length - r.pos)) = [] := by
        apply List.drop_eq_nil_of_le; omega
      rw [hd]
      simp only [List.take_nil, List.append_nil]
      rw [List.take_of_length_le (by simp; omega), List.take_of_length_le (by simp; omega)]

/-- **C07_stream_complete** — a reader drained from position 0 by reads whose sizes add up to at
    least the payload length returns exactly the stored payload, however the reads are cut and
    whatever happens to the shared offset in between (by `C07_stream_refines`). -/
theorem C07_stream_complete (data : Bytes) (ns : List Nat) (h : data.length ≤ ns.sum) :
    (MemReader.readAll { data := data, pos := 0 } ns).2 = data := by
  rw [(readAll_eq _ ns).1]
  simp only [List.drop_zero]
  exact List.take_of_length_le h

/-- the regression: WITHOUT the re-seek (reads continue at the shared offset) a disturbance between
    two reads makes the second read return other bytes — kernel-checked witness -/
def FileReader.readNoSeek (w : World) (r : FileReader) (n : Nat) : World × FileReader × Bytes :=
  let remaining := r.len - r.pos
  if remaining = 0 then (w, r, [])
  else
    let (w2, b) := w.readN (min remaining n)
    (w2, { r with pos := r.pos + b.length }, b)

theorem C07_stream_noseek_counterexample :
    let file : Bytes := [10, 11, 12, 13, 14, 15]
    let r : FileReader := { start := 2, len := 4, pos := 0 }
    let w0 : World := { file := file, off := 2 }
    let a := r.readNoSeek w0 2
    let w1 : World := { a.1 with off := 0 }        -- another access moved the offset
    (a.2.1.readNoSeek w1 2).2.2 = [10, 11] ∧ (a.2.1.read w1 2).2.2 = [14, 15] := by
  decide

/-- non-vacuity: two readers over one file, interleaved, with a disturbance -/
example :
    let s : Sys := { w := { file := [1, 2, 3, 4, 5, 6, 7, 8], off := 0 },
                     rs := [{ start := 1, len := 3, pos := 0 }, { start := 4, len := 4, pos := 0 }] }
    s.Wf ∧ (s.run [.read 0 2, .read 1 3, .disturb 7, .read 0 5, .seek 1 (.fromEnd (-1)), .read 1 9]).2
      = [.bytes [2, 3], .bytes [5, 6, 7], .none, .bytes [4], .seeked (.ok 3), .bytes [8]] := by
  refine ⟨?_, by decide⟩
  intro r hr
  simp only [List.mem_cons, List.not_mem_nil, or_false] at hr
  rcases hr with h | h <;> subst h <;> exact ⟨by decide, by decide⟩

end Mv.Blob
