/- Driver for C40: the Core model's line protocol (see MvModel/CoreDrv.lean for the requests) with the
   bulk-ingestion operations as `/verif/fixes/C40.diff` repairs them (MvModel/Bulk.lean):
     skip                → Mem.commitSkipIndexesR
     finalize ft=<n>     → Mem.finalizeIndexesR
     lexn                → number of documents the lexical engine holds (`lexDocs.length`)
     lex                 → the engine's frame ids, sorted (`-` when empty)
     obs / head          → `Core.obs` / `Core.obsHead` with the sketch ids sorted (the harness prints the
                           real sketch track sorted; after the repaired `finalize_indexes` the track's
                           insertion order need not be ascending)
   every other request goes to `Mv.Core.drvStep` unchanged. -/
import MvModel.CoreDrv
import MvModel.Bulk
open Mv.Core

def c40Step (m : Mem) (ws : List String) : Mem × String :=
  match ws with
  | "skip" :: rest =>
    let kv := kvs rest
    let r := m.commitSkipIndexesR
    (r.1.setWalSize (getN kv "ws" r.1.walSize), showOut r.2)
  | "finalize" :: rest =>
    let kv := kvs rest
    let r := m.finalizeIndexesR (getN kv "ft")
    (r.1.setWalSize (getN kv "ws" r.1.walSize), showOut r.2)
  | ["lexn"] => (m, toString m.lexDocs.length)
  | ["lex"] => (m, showNats (sortBy natLe m.lexDocs))
  | ["obs"] => (m, obs { m with sketch := sortBy natLe m.sketch })
  | ["head"] => (m, obsHead { m with sketch := sortBy natLe m.sketch })
  | _ => drvStep m ws

def main : IO Unit := Mv.runDriver Mem.create c40Step
