/-
  C27, persistence: the card track and the logic mesh across commit / close / reopen / crash.
  `Store` (MvModel/Cards.lean) mirrors the code paths that write and read `toc.memories_track` and
  `toc.logic_mesh`.  The (de)serialisers are parameters; what is assumed about them is `EnvOk`.
-/
import MvModel.Cards
namespace Mv.Cards

variable {M B : Type}

/-- what the theorems assume about the black boxes.
    `canon` is what a serialise→deserialise round trip does to a mesh (`LogicMesh::serialize` sorts
    nodes and edges); for the card track the round trip is the identity. -/
structure EnvOk (env : Env M B) (canon : M → M) : Prop where
  cards_rt : ∀ tr, env.cardsCodec.de (env.cardsCodec.ser tr) = some tr
  mesh_rt : ∀ m, env.meshCodec.de (env.meshCodec.ser m) = some (canon m)
  canon_idem : ∀ m, canon (canon m) = canon m
  empty_new : ∀ m, env.meshIsEmpty m = true → m = env.meshNew
  new_empty : env.meshIsEmpty env.meshNew = true
  canon_new : canon env.meshNew = env.meshNew

/-- a track without cards is the empty track (true of everything `add_card` / `clear` produce) -/
def Good (tr : Track) : Prop := tr.cards = [] → tr = Track.empty

theorem good_empty : Good Track.empty := fun _ => rfl

theorem good_addCard (lower : Bytes → Bytes) (tr : Track) (c : Card) : Good (tr.addCard lower c).1 := by
  intro h
  simp [Track.addCard] at h

theorem load_persist_cards {env : Env M B} {canon : M → M} (ok : EnvOk env canon) (tr : Track)
    (hg : Good tr) : loadCards env (persistCards env tr) = some tr := by
  unfold persistCards
  split
  · rename_i h
    have : tr.cards = [] := List.eq_nil_of_length_eq_zero h
    simp [loadCards, hg this]
  · simp [loadCards, ok.cards_rt]

theorem load_persist_mesh {env : Env M B} {canon : M → M} (ok : EnvOk env canon) (m : M) :
    loadMesh env (persistMesh env m) = some (canon m) := by
  unfold persistMesh
  split
  · rename_i h
    have := ok.empty_new m h
    subst this
    simp [loadMesh, ok.canon_new]
  · simp [loadMesh, ok.mesh_rt]

/-- invariant of every state reachable from `create`: the TOC holds the persisted image of a
    durable pair `(dtr, dm)`; a clean state (`dirty = false`) is in sync with it -/
structure Inv (env : Env M B) (canon : M → M) (s : Store M B) (dtr : Track) (dm : M) : Prop where
  toc_cards : s.tocCards = persistCards env dtr
  toc_mesh : s.tocMesh = persistMesh env dm
  good_d : Good dtr
  good_m : Good s.mem
  pend : s.pending > 0 → s.dirty = true
  sync : s.dirty = false → s.mem = dtr ∧ canon s.mesh = canon dm

def InvE (env : Env M B) (canon : M → M) (s : Store M B) : Prop := ∃ dtr dm, Inv env canon s dtr dm

theorem inv_create (env : Env M B) (canon : M → M) (ok : EnvOk env canon) :
    Inv env canon (Store.create env) Track.empty env.meshNew := by
  refine ⟨?_, ?_, good_empty, good_empty, ?_, ?_⟩
  · simp [Store.create, persistCards, Track.empty]
  · simp [Store.create, persistMesh, ok.new_empty]
  · intro h; simp [Store.create] at h
  · intro _; exact ⟨rfl, rfl⟩

/-- repaired commit -/
theorem inv_commit {env : Env M B} {canon : M → M} {s : Store M B} {dtr : Track} {dm : M}
    (inv : Inv env canon s dtr dm) :
    (s.commit env).dirty = false ∧ (s.commit env).pending = 0 ∧
    (s.commit env).mem = s.mem ∧ (s.commit env).mesh = s.mesh ∧
    ∃ dtr' dm', Inv env canon (s.commit env) dtr' dm' ∧ (s.dirty = true → dtr' = s.mem ∧ dm' = s.mesh) := by
  unfold Store.commit Store.commitWith
  split
  · rename_i h
    obtain ⟨hp, hd⟩ := h
    refine ⟨hd, hp, rfl, rfl, dtr, dm, inv, ?_⟩
    intro h; rw [hd] at h; cases h
  · refine ⟨rfl, rfl, rfl, rfl, s.mem, s.mesh, ⟨?_, ?_, inv.good_m, inv.good_m, ?_, ?_⟩, fun _ => ⟨rfl, rfl⟩⟩
    · simp
    · simp
    · intro h; simp at h
    · intro _; exact ⟨rfl, rfl⟩

/-- uncommitted operations keep the durable pair -/
theorem inv_putCard {env : Env M B} {canon : M → M} {s : Store M B} {dtr : Track} {dm : M}
    (inv : Inv env canon s dtr dm) (c : Card) : Inv env canon (s.putCard env c).1 dtr dm := by
  refine ⟨inv.toc_cards, inv.toc_mesh, inv.good_d, good_addCard _ _ _, fun _ => rfl, ?_⟩
  intro h; simp [Store.putCard] at h

theorem inv_clearCards {env : Env M B} {canon : M → M} {s : Store M B} {dtr : Track} {dm : M}
    (inv : Inv env canon s dtr dm) : Inv env canon s.clearCards dtr dm := by
  refine ⟨inv.toc_cards, inv.toc_mesh, inv.good_d, good_empty, fun _ => rfl, ?_⟩
  intro h; simp [Store.clearCards] at h

theorem inv_updMesh {env : Env M B} {canon : M → M} {s : Store M B} {dtr : Track} {dm : M}
    (inv : Inv env canon s dtr dm) (f : M → M) : Inv env canon (s.updMesh f) dtr dm := by
  refine ⟨inv.toc_cards, inv.toc_mesh, inv.good_d, inv.good_m, fun _ => rfl, ?_⟩
  intro h; simp [Store.updMesh] at h

theorem inv_putFrame {env : Env M B} {canon : M → M} {s : Store M B} {dtr : Track} {dm : M}
    (inv : Inv env canon s dtr dm) : Inv env canon s.putFrame dtr dm := by
  refine ⟨inv.toc_cards, inv.toc_mesh, inv.good_d, inv.good_m, fun _ => rfl, ?_⟩
  intro h; simp [Store.putFrame] at h

/-- repaired open: the tracks are loaded before WAL recovery, so recovery re-persists them -/
theorem open_spec {env : Env M B} {canon : M → M} (ok : EnvOk env canon) (d : Disk B) (dtr : Track) (dm : M)
    (h1 : d.tocCards = persistCards env dtr) (h2 : d.tocMesh = persistMesh env dm) (hg : Good dtr) :
    ∃ s', openWith true env d = some s' ∧ s'.mem = dtr ∧ s'.mesh = canon dm ∧ InvE env canon s' := by
  have l1 : loadCards env d.tocCards = some dtr := by rw [h1]; exact load_persist_cards ok dtr hg
  have l2 : loadMesh env d.tocMesh = some (canon dm) := by rw [h2]; exact load_persist_mesh ok dm
  unfold openWith
  simp only [if_true, l1, l2]
  split
  · refine ⟨_, rfl, rfl, rfl, dtr, canon dm, ⟨rfl, rfl, hg, hg, ?_, ?_⟩⟩
    · intro h; simp at h
    · intro _; exact ⟨rfl, rfl⟩
  · refine ⟨_, rfl, rfl, rfl, dtr, dm, ⟨h1, h2, hg, hg, ?_, ?_⟩⟩
    · intro h; simp at h
    · intro _; exact ⟨rfl, ok.canon_idem dm⟩

theorem reopen_spec {env : Env M B} {canon : M → M} (ok : EnvOk env canon) {s : Store M B}
    (inv : InvE env canon s) :
    ∃ s', s.reopen env = some s' ∧ s'.mem = s.mem ∧ s'.mesh = canon s.mesh ∧ InvE env canon s' := by
  obtain ⟨dtr, dm, inv⟩ := inv
  unfold Store.reopen Store.reopenWith
  by_cases hd : s.dirty = true
  · simp only [hd, if_true]
    obtain ⟨_, _, hm, hme, dtr', dm', inv', hdm⟩ := inv_commit inv
    obtain ⟨e1, e2⟩ := hdm hd
    subst e1; subst e2
    obtain ⟨s', ho, a, b, c⟩ := open_spec ok (s.commit env).disk s.mem s.mesh inv'.toc_cards inv'.toc_mesh inv'.good_d
    exact ⟨s', ho, a, b, c⟩
  · have hd' : s.dirty = false := by simpa using hd
    simp only [hd', Bool.false_eq_true, if_false]
    obtain ⟨e1, e2⟩ := inv.sync hd'
    obtain ⟨s', ho, a, b, c⟩ := open_spec ok s.disk dtr dm inv.toc_cards inv.toc_mesh inv.good_d
    exact ⟨s', ho, by rw [a, e1], by rw [b, e2], c⟩

theorem crash_spec {env : Env M B} {canon : M → M} (ok : EnvOk env canon) {s : Store M B}
    {dtr : Track} {dm : M} (inv : Inv env canon s dtr dm) :
    ∃ s', s.crash env = some s' ∧ s'.mem = dtr ∧ s'.mesh = canon dm ∧ InvE env canon s' :=
  open_spec ok s.disk dtr dm inv.toc_cards inv.toc_mesh inv.good_d

/-- every operation keeps the invariant and none fails -/
theorem inv_step {env : Env M B} {canon : M → M} (ok : EnvOk env canon) {s : Store M B}
    (inv : InvE env canon s) (op : Op M) :
    ∃ s', stepWith false true env s op = some s' ∧ InvE env canon s' := by
  obtain ⟨dtr, dm, i⟩ := inv
  cases op with
  | put c => exact ⟨_, rfl, dtr, dm, inv_putCard i c⟩
  | clear => exact ⟨_, rfl, dtr, dm, inv_clearCards i⟩
  | mesh f => exact ⟨_, rfl, dtr, dm, inv_updMesh i f⟩
  | frame => exact ⟨_, rfl, dtr, dm, inv_putFrame i⟩
  | commit =>
    obtain ⟨_, _, _, _, dtr', dm', i', _⟩ := inv_commit i
    exact ⟨_, rfl, dtr', dm', i'⟩
  | reopen =>
    obtain ⟨s', h, _, _, i'⟩ := reopen_spec ok ⟨dtr, dm, i⟩
    exact ⟨s', h, i'⟩
  | crash =>
    obtain ⟨s', h, _, _, i'⟩ := crash_spec ok i
    exact ⟨s', h, i'⟩

theorem inv_run {env : Env M B} {canon : M → M} (ok : EnvOk env canon) (ops : List (Op M)) :
    ∀ {s : Store M B}, InvE env canon s → ∃ s', run env s ops = some s' ∧ InvE env canon s' := by
  induction ops with
  | nil => intro s inv; exact ⟨s, rfl, inv⟩
  | cons op ops ih =>
    intro s inv
    obtain ⟨s1, h1, i1⟩ := inv_step ok inv op
    obtain ⟨s2, h2, i2⟩ := ih i1
    refine ⟨s2, ?_, i2⟩
    unfold run runWith
    rw [h1]
    exact h2

/-- operations that only touch memory and the WAL -/
def Op.uncommitted : Op M → Prop
  | .put _ | .clear | .mesh _ | .frame => True
  | .commit | .reopen | .crash => False

theorem inv_run_uncommitted {env : Env M B} {canon : M → M} (ops : List (Op M))
    (hu : ∀ op ∈ ops, op.uncommitted) :
    ∀ {s : Store M B} {dtr : Track} {dm : M}, Inv env canon s dtr dm →
      ∃ s', run env s ops = some s' ∧ Inv env canon s' dtr dm := by
  induction ops with
  | nil => intro s dtr dm inv; exact ⟨s, rfl, inv⟩
  | cons op ops ih =>
    intro s dtr dm inv
    have hop := hu op List.mem_cons_self
    have hrest : ∀ o ∈ ops, o.uncommitted := fun o ho => hu o (List.mem_cons_of_mem _ ho)
    have step : ∃ s1, stepWith false true env s op = some s1 ∧ Inv env canon s1 dtr dm := by
      cases op with
      | put c => exact ⟨_, rfl, inv_putCard inv c⟩
      | clear => exact ⟨_, rfl, inv_clearCards inv⟩
      | mesh f => exact ⟨_, rfl, inv_updMesh inv f⟩
      | frame => exact ⟨_, rfl, inv_putFrame inv⟩
      | commit => exact hop.elim
      | reopen => exact hop.elim
      | crash => exact hop.elim
    obtain ⟨s1, h1, i1⟩ := step
    obtain ⟨s2, h2, i2⟩ := ih hrest i1
    refine ⟨s2, ?_, i2⟩
    unfold run runWith
    rw [h1]
    exact h2

end Mv.Cards
