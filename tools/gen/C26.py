#!/usr/bin/env python3
"""C26: which frame id put_internal attaches to the data it derives from a document — the temporary
instant-index frame, the enrichment-queue entry, the memory cards and their enrichment record.
Known shapes: `parent_seq as FrameId` (the WAL sequence number returned by append_wal_entry) and a
variable bound to `self.next_frame_id()` BEFORE the append of the parent record."""
from common import *


def run():
    raw = read("src/memvid/mutation.rs")
    i = raw.find("fn put_internal(")
    if i < 0:
        raise TranslateError("fn put_internal not found in src/memvid/mutation.rs")
    # line comments are removed naively (a `//` inside a string literal cuts that line short; none of the
    # statements looked for below contains one)
    body = re.sub(r"\s+", " ", re.sub(r"//[^\n]*", "", raw[i:]))
    app = re.search(r"let parent_seq = self\.append_wal_entry\(&parent_bytes\)\?;", body)
    if not app:
        raise TranslateError("put_internal: `let parent_seq = self.append_wal_entry(&parent_bytes)?;` not found")
    before, after = body[:app.start()], body[app.end():]
    sites = {
        "instant index": r"if options\.instant_index && self\.tantivy\.is_some\(\) \{ let frame_id = ([^;]+);",
        "enrichment queue": r"if needs_enrichment \{ let frame_id = ([^;]+); self\.toc\.enrichment_queue\.push\(frame_id\);",
        "memory cards": r"let extractor = TripletExtractor::default\(\); let frame_id = ([^;]+); let \(cards, _stats\) = extractor\.extract\( frame_id,",
    }
    kinds = {}
    for name, pat in sites.items():
        m = re.search(pat, after)
        if not m:
            raise TranslateError(f"put_internal: the {name} site (`let frame_id = …;`) was not found after the WAL append")
        expr = m.group(1).strip()
        if expr == "parent_seq as FrameId":
            kinds[name] = "seq"
        elif re.fullmatch(r"\w+", expr) and re.search(
                r"let " + re.escape(expr) + r"(?: ?: ?FrameId)? = self\.next_frame_id\(\);", before):
            kinds[name] = "fid"
        else:
            raise TranslateError(f"put_internal: the {name} site uses `{expr}`, which is neither `parent_seq as FrameId` "
                                 "nor a variable bound to `self.next_frame_id()` before the append")
    if not re.search(r"self\.memories_track\s*\.record_enrichment\(frame_id,", after):
        raise TranslateError("put_internal: record_enrichment(frame_id, …) not found")
    if len(set(kinds.values())) != 1:
        raise TranslateError(f"put_internal: the derived-data sites disagree about the id they use: {kinds}")
    seq = kinds["memory cards"] == "seq"
    out = ("/-- `put_internal` files instant-index frame, queue entry, memory cards and enrichment record under\n"
           "    `parent_seq as FrameId` (true) or under `next_frame_id()` read before the WAL append (false) -/\n"
           f"def DERIVED_ID_IS_WAL_SEQUENCE : Bool := {'true' if seq else 'false'}\n")
    return emit("C26", out)


main(run)
