/-
  Helper lemmas for C19 (directory model): set primitives, the staging temp, one `with_staging_lock`
  round leaves the directory as it was.
-/
import MvModel.Dir
namespace Mv.Dir
open Mv.Gen.C19

theorem mem_add {x y : Name} {d : List Name} : y ∈ add x d ↔ y = x ∨ y ∈ d := by
  unfold add
  split
  · constructor
    · intro h; exact Or.inr h
    · intro h; cases h with
      | inl h => subst h; assumption
      | inr h => exact h
  · simp

theorem mem_del {x y : Name} {d : List Name} : y ∈ del x d ↔ y ∈ d ∧ y ≠ x := by
  simp [del]

theorem add_of_mem {x : Name} {d : List Name} (h : x ∈ d) : add x d = d := by
  simp [add, h]

theorem add_of_not_mem {x : Name} {d : List Name} (h : x ∉ d) : add x d = x :: d := by
  simp [add, h]

theorem del_of_not_mem {x : Name} {d : List Name} (h : x ∉ d) : del x d = d := by
  unfold del
  rw [List.filter_eq_self]
  intro a ha
  have : a ≠ x := fun e => h (e ▸ ha)
  simp [this]

theorem del_cons_self {x : Name} {d : List Name} : del x (x :: d) = del x d := by
  simp [del]

theorem mktemp_fresh {d : List Name} {n : Name} {rs : List (List Char)} {t : Name}
    (h : mktemp d n rs = some t) : t ∉ d := by
  induction rs with
  | nil => simp [mktemp] at h
  | cons r rs ih =>
    unfold mktemp at h
    split at h
    · exact ih h
    · cases h; assumption

theorem mktemp_shape {d : List Name} {n : Name} {rs : List (List Char)} {t : Name}
    (h : mktemp d n rs = some t) : ∃ r ∈ rs, t = tmpName n r := by
  induction rs with
  | nil => simp [mktemp] at h
  | cons r rs ih =>
    unfold mktemp at h
    split at h
    · obtain ⟨r', hr', e⟩ := ih h
      exact ⟨r', List.mem_cons_of_mem _ hr', e⟩
    · cases h; exact ⟨r, List.mem_cons_self, rfl⟩

/-- creat temp + unlink temp -/
theorem apply_creat_unlink {d : List Name} {t : Name} (ht : t ∉ d) :
    applyAll d [.creat t, .unlink t] = d := by
  simp [applyAll, Eff.apply, add_of_not_mem ht, del_cons_self, del_of_not_mem ht]

/-- creat temp + rename temp over the (present) target -/
theorem apply_creat_rename {d : List Name} {t n : Name} (ht : t ∉ d) (hn : n ∈ d) :
    applyAll d [.creat t, .rename t n] = d := by
  simp [applyAll, Eff.apply, add_of_not_mem ht, del_cons_self, del_of_not_mem ht, add_of_mem hn]

/-- creat temp + rename temp over a target the caller has removed meanwhile: the target is back -/
theorem apply_creat_rename' {d : List Name} {t n : Name} (ht : t ∉ d) :
    applyAll d [.creat t, .rename t n] = add n d := by
  simp [applyAll, Eff.apply, add_of_not_mem ht, del_cons_self, del_of_not_mem ht]

/-- ONE `with_staging_lock` ROUND, whatever its exit (except an OS fault inside the final rename),
    leaves the directory exactly as it was -/
theorem runStage_preserves {d : List Name} {n : Name} {st : Stage} (hn : n ∈ d)
    (hf : st.isCommitFault = false) : applyAll d (runStage d n st).1 = d := by
  cases st with
  | early => simp [runStage, applyAll]
  | mid rs =>
    simp only [runStage]
    cases ht : mktemp d n rs with
    | none => simp [applyAll]
    | some t => exact apply_creat_unlink (mktemp_fresh ht)
  | commitFault rs => simp [Stage.isCommitFault] at hf
  | post rs =>
    simp only [runStage]
    cases ht : mktemp d n rs with
    | none => simp [applyAll]
    | some t => exact apply_creat_rename (mktemp_fresh ht) hn
  | ok rs =>
    simp only [runStage]
    cases ht : mktemp d n rs with
    | none => simp [applyAll]
    | some t => exact apply_creat_rename (mktemp_fresh ht) hn

/-- without knowing that the target is present: nothing but the target itself can appear -/
theorem mem_runStage {d : List Name} {n x : Name} {st : Stage} (hf : st.isCommitFault = false)
    (hx : x ∈ applyAll d (runStage d n st).1) : x ∈ d ∨ x = n := by
  cases st with
  | early => simp [runStage, applyAll] at hx; exact Or.inl hx
  | mid rs =>
    simp only [runStage] at hx
    cases ht : mktemp d n rs with
    | none => rw [ht] at hx; simp [applyAll] at hx; exact Or.inl hx
    | some t =>
      rw [ht] at hx
      have := apply_creat_unlink (mktemp_fresh ht)
      simp only [] at hx
      rw [this] at hx; exact Or.inl hx
  | commitFault rs => simp [Stage.isCommitFault] at hf
  | post rs =>
    simp only [runStage] at hx
    cases ht : mktemp d n rs with
    | none => rw [ht] at hx; simp [applyAll] at hx; exact Or.inl hx
    | some t =>
      rw [ht] at hx
      simp only [] at hx
      rw [apply_creat_rename' (mktemp_fresh ht), mem_add] at hx
      cases hx with
      | inl h => exact Or.inr h
      | inr h => exact Or.inl h
  | ok rs =>
    simp only [runStage] at hx
    cases ht : mktemp d n rs with
    | none => rw [ht] at hx; simp [applyAll] at hx; exact Or.inl hx
    | some t =>
      rw [ht] at hx
      simp only [] at hx
      rw [apply_creat_rename' (mktemp_fresh ht), mem_add] at hx
      cases hx with
      | inl h => exact Or.inr h
      | inr h => exact Or.inl h

theorem applyAll_append (d : List Name) (a b : List Eff) :
    applyAll d (a ++ b) = applyAll (applyAll d a) b := by
  simp [applyAll, List.foldl_append]

theorem runStages_preserves {d : List Name} {n : Name} (hn : n ∈ d) :
    ∀ {sts : List Stage}, (∀ st ∈ sts, st.isCommitFault = false) →
      applyAll d (runStages d n sts).1 = d := by
  intro sts
  induction sts with
  | nil => intro _; simp [runStages, applyAll]
  | cons st rest ih =>
    intro hf
    have h1 : applyAll d (runStage d n st).1 = d :=
      runStage_preserves hn (hf st List.mem_cons_self)
    have h2 := ih (fun s hs => hf s (List.mem_cons_of_mem _ hs))
    simp only [runStages]
    rw [applyAll_append, h1]
    exact h2

theorem mem_runStages {d : List Name} {n x : Name} :
    ∀ {sts : List Stage}, (∀ st ∈ sts, st.isCommitFault = false) →
      x ∈ applyAll d (runStages d n sts).1 → x ∈ d ∨ x = n := by
  intro sts
  induction sts generalizing d with
  | nil => intro _ hx; simp [runStages, applyAll] at hx; exact Or.inl hx
  | cons st rest ih =>
    intro hf hx
    simp only [runStages] at hx
    rw [applyAll_append] at hx
    have h2 := ih (d := applyAll d (runStage d n st).1)
      (fun s hs => hf s (List.mem_cons_of_mem _ hs)) hx
    cases h2 with
    | inr h => exact Or.inr h
    | inl h => exact mem_runStage (hf st List.mem_cons_self) h

theorem callStep_preserves {d : List Name} {n : Name} {c : Call} (hn : n ∈ d)
    (hf : ∀ st ∈ c.stages, st.isCommitFault = false) : applyAll d (callStep d n c).1 = d := by
  cases c with
  | mutate accepted ac st =>
    cases accepted <;> cases ac <;> simp [callStep, applyAll]
    exact runStage_preserves hn (hf st (by simp [Call.stages]))
  | commit work st =>
    cases work <;> simp [callStep, applyAll]
    exact runStage_preserves hn (hf st (by simp [Call.stages]))
  | vacuum work st =>
    cases work <;> simp [callStep, applyAll]
    exact runStage_preserves hn (hf st (by simp [Call.stages]))
  | inplace ok => simp [callStep, applyAll]
  | read ok => simp [callStep, applyAll]

theorem mem_callStep {d : List Name} {n x : Name} {c : Call}
    (hf : ∀ st ∈ c.stages, st.isCommitFault = false)
    (hx : x ∈ applyAll d (callStep d n c).1) : x ∈ d ∨ x = n := by
  cases c with
  | mutate accepted ac st =>
    cases accepted <;> cases ac <;> simp [callStep, applyAll] at hx <;> try exact Or.inl hx
    exact mem_runStage (hf st (by simp [Call.stages])) hx
  | commit work st =>
    cases work <;> simp [callStep, applyAll] at hx <;> try exact Or.inl hx
    exact mem_runStage (hf st (by simp [Call.stages])) hx
  | vacuum work st =>
    cases work <;> simp [callStep, applyAll] at hx <;> try exact Or.inl hx
    exact mem_runStage (hf st (by simp [Call.stages])) hx
  | inplace ok => simp [callStep, applyAll] at hx; exact Or.inl hx
  | read ok => simp [callStep, applyAll] at hx; exact Or.inl hx

end Mv.Dir
