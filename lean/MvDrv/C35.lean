/- Driver for C35 (snippet slices).
   requests:  slices <0|1> <hex text> <occ> <window> <max>   → panic | ok <slices>
                 first arg: 0 = code as found, 1 = with fixes/C35.diff
                 <occ>, <slices>: `-` (empty) or `s:e,s:e,...` (decimal)
              slicesc <0|1> <hex text> <occ> <window> <max>  → same, from the char-level transcription (SnippetChars.computeC)
              windows <0|1> <hex text> <occ> <window>        → per occurrence `ss:se` (after adjustment, before the
                                                               emptiness test) or `panic`, comma separated
              utf8 <hex bytes>                               → <0|1>   (SnippetChars.validUtf8b = the hypothesis ValidUtf8)
              boundary <hex text> <idx>                      → <0|1> <prev> <next>   (is_char_boundary, prev/next_char_boundary)
              advance <hex text> <start> <window>            → panic | <n>
-/
import MvModel.Snippet
import MvModel.SnippetChars
import MvModel.DrvUtil
open Mv Mv.Snippet

def parsePair (s : String) : Option (Nat × Nat) :=
  match s.splitOn ":" with
  | [a, b] => match a.toNat?, b.toNat? with
    | some a, some b => some (a, b)
    | _, _ => none
  | _ => none

def parsePairs (s : String) : Option (List (Nat × Nat)) :=
  if s == "-" then some [] else (s.splitOn ",").mapM parsePair

def showPairs (l : List (Nat × Nat)) : String :=
  if l.isEmpty then "-" else ",".intercalate (l.map fun (a, b) => s!"{a}:{b}")

def step (_ : Unit) (ws : List String) : Unit × String :=
  match ws with
  | ["slices", fx, h, occ, w, m] =>
    match ofHex h, parsePairs occ, w.toNat?, m.toNat? with
    | some c, some occ, some w, some m =>
      if fx != "0" && fx != "1" then ((), "bad-op") else
      match compute (fx == "1") c occ w m with
      | none => ((), "panic")
      | some r => ((), "ok " ++ showPairs r)
    | _, _, _, _ => ((), "bad-op")
  | ["slicesc", fx, h, occ, w, m] =>
    match ofHex h, parsePairs occ, w.toNat?, m.toNat? with
    | some c, some occ, some w, some m =>
      if fx != "0" && fx != "1" then ((), "bad-op") else
      match computeC (fx == "1") c occ w m with
      | none => ((), "panic")
      | some r => ((), "ok " ++ showPairs r)
    | _, _, _, _ => ((), "bad-op")
  | ["windows", fx, h, occ, w] =>
    match ofHex h, parsePairs occ, w.toNat? with
    | some c, some occ, some w =>
      let ws := occ.map fun (s, e) => match windowOf (fx == "1") c w s e with
        | none => "panic"
        | some (a, b) => s!"{a}:{b}"
      ((), if ws.isEmpty then "-" else ",".intercalate ws)
    | _, _, _ => ((), "bad-op")
  | ["utf8", h] =>
    match ofHex h with
    | some c => ((), if validUtf8b c then "1" else "0")
    | none => ((), "bad-op")
  | ["boundary", h, i] =>
    match ofHex h, i.toNat? with
    | some c, some i =>
      ((), s!"{if isCharBoundary c i then 1 else 0} {prevCharBoundary c i} {nextCharBoundary c i}")
    | _, _ => ((), "bad-op")
  | ["advance", h, s, w] =>
    match ofHex h, s.toNat?, w.toNat? with
    | some c, some s, some w =>
      match advanceBoundary c s w with
      | none => ((), "panic")
      | some n => ((), toString n)
    | _, _, _ => ((), "bad-op")
  | _ => ((), "bad-op")

def main : IO Unit := runDriver () step
