/-
  Core — the `Memvid` handle as a logical state machine (record level).
  FOUNDATION of the Core family: C01, C06 (this agent) and C07, C08, C14, C24, C26, C40, C42.

  What is modelled, and which Rust function each definition mirrors
  -----------------------------------------------------------------
    Frame / Ins / Entry          types::Frame (the fields the family talks about) / mutation.rs WalEntryData /
                                 WalEntry::{Frame(Insert), Frame(Tombstone), Lex}
    Mem                          lifecycle.rs `struct Memvid` (+ the parts of toc/header the family needs)
    Mem.create                   lifecycle.rs Memvid::create
    nextFrameId / frameCount     lifecycle.rs next_frame_id / frame_count
    capacityLimit / tierCap      mutation.rs capacity_limit / tier  (+ types::Tier::capacity_bytes)
    mutationAllowed              mutation.rs ensure_mutation_allowed
    markSuperseded / markDeleted mutation.rs mark_frame_superseded / mark_frame_deleted
    removeFromIndexes            mutation.rs remove_frame_from_indexes
    applyOne / applyLoop         mutation.rs apply_records (first pass, one WAL record at a time)
    secondPass                   mutation.rs apply_records (orphan DocumentChunk resolution)
    applyRecords                 mutation.rs apply_records (whole)
    rebuildIndexes               mutation.rs rebuild_indexes (+ search/builders.rs build_vec_artifact,
                                 search/api.rs rebuild_tantivy_engine, lib.rs flush_tantivy)
    flushTantivy                 lib.rs flush_tantivy_conditional(true) → update_embedded_lex_snapshot
    commitFromRecords            mutation.rs commit_from_records (inside with_staging_lock)
    commit                       mutation.rs commit / commit_with_options
    commitSkipIndexes            mutation.rs commit_skip_indexes(_inner)
    finalizeIndexes              mutation.rs finalize_indexes
    putCore / put / update / delete   mutation.rs put_internal / put_* / update_frame / delete_frame
    openFrom / reopen / crash    lifecycle.rs open_locked (+ recover_wal), lib.rs `impl Drop for Memvid`
    vacuum                       mutation.rs vacuum
    doctor                       doctor.rs Memvid::doctor as far as it touches frames and indexes
    beginBatch / endBatch        mutation.rs begin_batch / end_batch
    applyTicket                  ticket.rs apply_ticket
    canon                        frame.rs frame_canonical_bytes / document_chunk_payloads
    frameByUri                   frame.rs frame_by_uri
    obs                          the canonical observation (harness/src/hist.rs prints the same for the real handle)

  Conventions
  -----------
  * Everything that comes out of a black box is an opaque TOKEN (a `String` without spaces, commas,
    semicolons, colons, '+' or '|') supplied by the trace: content tokens (`E` = empty byte string,
    otherwise the first 16 hex digits of blake3 of the canonical bytes), embedding tokens, URIs, kinds,
    tracks, tags, labels.
  * Numbers that come out of zstd / bincode / Tantivy are TRACE INPUTS carried by the operation:
    stored payload lengths (`len`), the prepared length used by the capacity check (`plen`), the
    footer position after an index rebuild (`ft`, relative to the data start), the WAL region size after
    the operation (`ws`; growth is decided by the byte-level WAL of C05), whether the automatic
    checkpoint fired (`ac`; `wal.should_checkpoint()` is byte-level, property C05), the number of
    memory cards the triplet extractor produced (`nc`), whether the frame needs enrichment (`q`) and
    whether the put had non-blank search text (`st`).
  * Offsets (`off`, `payloadEnd`, `dataEnd`, `footer`) are RELATIVE to the data start
    `base = wal_offset + wal_size`, so that WAL growth (which shifts every byte after the WAL) does not
    change them.  Absolute values are `base + x`.
  * The model mirrors the code as it is, including the confirmed defects that belong to other
    properties: capacity check against the COMMITTED payload end (C24), (C26 repaired in a8580e2: cards / enrichment records /
    queue entries / instant index now carry `next_frame_id()` taken before the append), embeddings dropped by
    `commit_skip_indexes` (C40/C14).
-/
namespace Mv.Core

/-- stable insertion sort (structural, so that closed terms evaluate by `decide`) -/
def insertBy {α : Type} (le : α → α → Bool) (x : α) : List α → List α
  | [] => [x]
  | y :: ys => if le x y then x :: y :: ys else y :: insertBy le x ys

def sortBy {α : Type} (le : α → α → Bool) : List α → List α
  | [] => []
  | x :: xs => insertBy le x (sortBy le xs)

/-! ## Frames and WAL entries -/

inductive Status where
  | active | superseded | deleted
deriving DecidableEq, Repr, Inhabited

inductive Role where
  | document | chunk | image
deriving DecidableEq, Repr, Inhabited

/-- `types::Frame`, restricted to what the Core family observes. -/
structure Frame where
  id : Nat
  ts : Int
  uri : String
  kind : Option String
  track : Option String
  tags : List String
  labels : List String
  role : Role
  status : Status
  parent : Option Nat
  supersedes : Option Nat
  supersededBy : Option Nat
  chunkIndex : Option Nat
  chunkCount : Option Nat
  /-- `chunk_manifest`: `some n` = a manifest listing `n` chunks -/
  manifest : Option Nat
  /-- token of the canonical bytes of the frame's OWN stored payload (`E` when empty) -/
  content : String
  /-- `payload_offset − base` (meaningful only when `len ≠ 0`) -/
  off : Nat
  /-- `payload_length` (stored, possibly compressed) -/
  len : Nat
  /-- the frame has non-blank index text (trace input of the put that made it) -/
  idx : Bool := true
  /-- `canonical_encoding == Zstd` (UTF-8 payloads; an empty stored range then fails to decode) -/
  zstd : Bool := false
deriving DecidableEq, Repr, Inhabited

/-- an embedding as the model sees it: dimension and token -/
abbrev Emb := Nat × String

/-- `WalEntryData` with `op = Insert` -/
structure Ins where
  ts : Int
  uri : Option String
  kind : Option String
  track : Option String
  tags : List String
  labels : List String
  role : Role
  parentSeq : Option Nat
  chunkIndex : Option Nat
  chunkCount : Option Nat
  manifest : Option Nat
  supersedes : Option Nat
  reuseFrom : Option Nat
  content : String
  len : Nat
  emb : Option Emb
  /-- trace input: the entry has non-blank index text (search_text, or readable content) -/
  idx : Bool
  /-- `canonical_encoding == Zstd` -/
  zstd : Bool := false
deriving DecidableEq, Repr, Inhabited

inductive Entry where
  | insert (e : Ins)
  | tombstone (target : Nat)
  | lex
deriving DecidableEq, Repr, Inhabited

def Entry.isInsert : Entry → Bool
  | .insert _ => true
  | _ => false

/-- one in-memory vector index entry: frame id, dimension, embedding token -/
structure VecEnt where
  id : Nat
  dim : Nat
  tok : String
deriving DecidableEq, Repr, Inhabited

/-! ## The handle -/

structure Mem where
  /-- `toc.frames` -/
  frames : List Frame := []
  /-- pending WAL records `(sequence, entry)`, oldest first (`wal.pending_records()`) -/
  pending : List (Nat × Entry) := []
  /-- `wal.sequence`: the sequence number of the last appended record -/
  seq : Nat := 0
  /-- `pending_frame_inserts` -/
  pendingInserts : Nat := 0
  dirty : Bool := false
  /-- `header.wal_size`; `base = 4096 + walSize` -/
  walSize : Nat := 65536
  /-- `cached_payload_end − base` -/
  payloadEnd : Nat := 0
  /-- `data_end − base` -/
  dataEnd : Nat := 0
  /-- `header.footer_offset − base` -/
  footer : Nat := 0
  /-- `toc.ticket_ref.capacity_bytes` (0 = none); `empty_toc` starts with the free-tier ticket
      (issuer "free-tier", seq_no 1, capacity 50 MiB) -/
  ticketCap : Nat := 50 * 1024 * 1024
  ticketSeq : Int := 1
  /-- `toc.ticket_ref.issuer` is non-blank -/
  hasIssuer : Bool := true
  /-- `toc.ticket_ref.issuer == "free-tier"` -/
  freeTierIssuer : Bool := true
  vecEnabled : Bool := false
  /-- `toc.indexes.vec` exists -/
  vecManifest : Bool := false
  /-- `toc.indexes.vec.dimension` -/
  vecDim : Nat := 0
  /-- the in-memory `vec_index` (Uncompressed representation), insertion order -/
  vec : Option (List VecEnt) := none
  /-- what `load_vec_index_from_manifest` would load: the persisted artifact (`none` = no bytes) -/
  pVec : Option (List VecEnt) := none
  /-- `toc.indexes.vec` existence / dimension as last written to the file with the TOC -/
  pVecMan : Bool := false
  pVecDim : Nat := 0
  /-- `toc.time_index` and the entries it points to, sorted by `(ts, id)` -/
  time : Option (List (Int × Nat)) := none
  lexEnabled : Bool := true
  /-- `tantivy.is_some()` -/
  engine : Bool := true
  tantivyDirty : Bool := true
  /-- multiset of frame ids held by the Tantivy engine (`add_frame` ids; instant index adds the WAL
      sequence number) -/
  lexDocs : List Nat := []
  /-- `toc.segment_catalog.tantivy_segments` non-empty (decides the rebuild at open) -/
  tantivySegs : Bool := false
  /-- `sketch_track` frame ids -/
  sketch : List Nat := []
  pSketch : List Nat := []
  /-- `memories_track` cards: `source_frame_id` of each card, in card-id order -/
  cards : List Nat := []
  /-- frame ids with an enrichment record (`record_enrichment`) -/
  enrRecs : List Nat := []
  /-- what `load_memories_track` would load -/
  pCards : Option (List Nat × List Nat) := none
  /-- `toc.enrichment_queue` frame ids -/
  queue : List Nat := []
  /-- the queue as last written to the file with the TOC -/
  pQueue : List Nat := []
  /-- `batch_opts`: `some disable_auto_checkpoint` -/
  batch : Option Bool := none
deriving Repr, Inhabited

/-- `rewrite_toc_footer`: what lives only in the in-memory TOC reaches the file -/
def Mem.persistToc (m : Mem) : Mem :=
  { m with pQueue := m.queue, pVecMan := m.vecManifest, pVecDim := m.vecDim }

def WAL_OFFSET : Nat := 4096
def Mem.base (m : Mem) : Nat := WAL_OFFSET + m.walSize

/-- `Memvid::create` (default features: lex on, vec off).  `init_tantivy` on the fresh file finds no
    expected document count and rebuilds the (empty) engine, which leaves `tantivy_dirty = true`. -/
def Mem.create : Mem := {}

def Mem.nextFrameId (m : Mem) : Nat := m.frames.length + m.pendingInserts
def Mem.frameCount (m : Mem) : Nat := m.frames.length

def WAL_SIZE_MEDIUM : Nat := 4 * 1024 * 1024
def WAL_SIZE_LARGE : Nat := 16 * 1024 * 1024

/-- `tier().capacity_bytes()` -/
def Mem.tierCap (m : Mem) : Nat :=
  if m.walSize ≥ WAL_SIZE_LARGE then 10 * 1024 * 1024 * 1024
  else if m.walSize ≥ WAL_SIZE_MEDIUM then 2 * 1024 * 1024 * 1024
  else 50 * 1024 * 1024

def Mem.capacityLimit (m : Mem) : Nat := if m.ticketCap ≠ 0 then m.ticketCap else m.tierCap

/-- `ensure_mutation_allowed` (the handle is writable in every history the family generates) -/
def Mem.mutationAllowed (m : Mem) : Bool :=
  m.freeTierIssuer || m.walSize < WAL_SIZE_MEDIUM || m.hasIssuer

def isActive (frames : List Frame) (id : Nat) : Bool :=
  match frames[id]? with
  | some f => f.status == .active
  | none => false

/-! ## apply_records -/

def Frame.markSup (succ : Nat) (f : Frame) : Frame := { f with status := .superseded, supersededBy := some succ }
def Frame.markDel (f : Frame) : Frame := { f with status := .deleted, supersededBy := none }

/-- `mark_frame_superseded` (frames part); `none` = "supersede target missing" -/
def markSuperseded (frames : List Frame) (old succ : Nat) : Option (List Frame) :=
  if old < frames.length then some (frames.modify old (Frame.markSup succ)) else none

/-- `mark_frame_deleted` (frames part); `none` = "delete target missing" -/
def markDeleted (frames : List Frame) (target : Nat) : Option (List Frame) :=
  if target < frames.length then some (frames.modify target Frame.markDel) else none

/-- the mutable state of one `apply_records` call -/
structure ApSt where
  frames : List Frame
  /-- `data_cursor − base` -/
  cursor : Nat
  payloadEnd : Nat
  /-- `sequence_to_frame` (latest binding first) -/
  seqMap : List (Nat × Nat) := []
  /-- `delta.inserted_frames` -/
  inserted : List Nat := []
  /-- `delta.inserted_embeddings` -/
  embs : List VecEnt := []
  /-- `delta.inserted_time_entries.len()` -/
  timeN : Nat := 0
  /-- `delta.mutated_frames` -/
  mutated : Bool := false
  vec : Option (List VecEnt)
  /-- Tantivy attached during this call (`commit_skip_indexes` detaches it) -/
  engine : Bool
  lexDocs : List Nat
  tantivyDirty : Bool
  sketch : List Nat
deriving Repr, Inhabited

/-- `remove_frame_from_indexes` -/
def ApSt.removeFromIndexes (st : ApSt) (id : Nat) : ApSt :=
  { st with
    lexDocs := if st.engine then st.lexDocs.filter (· != id) else st.lexDocs
    tantivyDirty := if st.engine then true else st.tantivyDirty
    vec := st.vec.map (·.filter (·.id != id)) }

def isManifestDoc (f : Frame) : Bool := f.role == .document && f.manifest.isSome

/-- the in-batch fallback of `apply_records`: most recent frame inserted in this batch that is a
    Document with a chunk manifest -/
def fallbackParent (frames : List Frame) (inserted : List Nat) : Option Nat :=
  inserted.reverse.find? (fun cid => match frames[cid]? with
    | some c => isManifestDoc c
    | none => false)

/-- the frame an Insert entry produces (everything except status marking of the predecessor) -/
def mkFrame (id : Nat) (e : Ins) (content : String) (off len : Nat) (parent : Option Nat) (zstd : Bool) : Frame :=
  { id := id, ts := e.ts, uri := e.uri.getD s!"mv2://frames/{id}", kind := e.kind, track := e.track,
    tags := e.tags, labels := e.labels, role := e.role, status := .active, parent := parent,
    supersedes := e.supersedes, supersededBy := none, chunkIndex := e.chunkIndex,
    chunkCount := e.chunkCount, manifest := e.manifest, content := content, off := off, len := len,
    idx := e.idx, zstd := zstd }

/-- one record of the first pass of `apply_records` -/
def applyOne (st : ApSt) (r : Nat × Entry) : Option ApSt :=
  match r.2 with
  | .lex => some st
  | .tombstone target =>
    match markDeleted st.frames target with
    | none => none
    | some fs => some ({ st with frames := fs, mutated := true }.removeFromIndexes target)
  | .insert e =>
    let id := st.frames.length
    -- payload placement: reuse the source frame's bytes, or write at the cursor
    let placed : Option (String × Nat × Nat × Nat × Nat × Bool) :=
      match e.reuseFrom with
      | some src =>
        match st.frames[src]? with
        | none => none
        | some s => some (s.content, s.off, s.len, st.cursor, st.payloadEnd, s.zstd)
      | none => some (e.content, st.cursor, e.len, st.cursor + e.len, max st.payloadEnd (st.cursor + e.len), e.zstd)
    match placed with
    | none => none
    | some (content, off, len, cursor', pe', zstd) =>
      let parent : Option Nat :=
        match e.parentSeq with
        | none => none
        | some ps =>
          match st.seqMap.lookup ps with
          | some fid => some fid
          | none => if e.role == .chunk then fallbackParent st.frames st.inserted else none
      let frame := mkFrame id e content off len parent zstd
      let indexed := st.engine && e.idx
      let st1 : ApSt :=
        { st with
          cursor := cursor', payloadEnd := pe'
          lexDocs := if indexed then st.lexDocs ++ [id] else st.lexDocs
          tantivyDirty := if indexed then true else st.tantivyDirty
          sketch := if indexed then st.sketch ++ [id] else st.sketch
          embs := match e.emb with
            | some (d, t) => st.embs ++ [{ id := id, dim := d, tok := t }]
            | none => st.embs
          timeN := if e.role == .document then st.timeN + 1 else st.timeN }
      let marked : Option ApSt :=
        match e.supersedes with
        | none => some st1
        | some old =>
          match markSuperseded st1.frames old id with
          | none => none
          | some fs => some ({ st1 with frames := fs }.removeFromIndexes old)
      match marked with
      | none => none
      | some st2 =>
        some { st2 with
          frames := st2.frames ++ [frame]
          inserted := st2.inserted ++ [id]
          seqMap := (r.1, id) :: st2.seqMap }

/-- first pass over all records -/
def applyLoop : ApSt → List (Nat × Entry) → Option ApSt
  | st, [] => some st
  | st, r :: rs =>
    match applyOne st r with
    | none => none
    | some st' => applyLoop st' rs

/-- second pass: the parent of an orphan DocumentChunk = the most recent ACTIVE Document with a
    manifest among the frames before it (searched in the table as it is after the first pass) -/
def orphanParent (frames : List Frame) (fid : Nat) : Option Nat :=
  ((List.range fid).reverse).find? (fun cid => match frames[cid]? with
    | some c => isManifestDoc c && c.status == .active
    | none => false)

def secondPass (frames : List Frame) (inserted : List Nat) : List Frame :=
  let resolutions : List (Nat × Nat) := inserted.filterMap (fun fid =>
    match frames[fid]? with
    | some f => if f.role == .chunk && f.parent.isNone then (orphanParent frames fid).map (fun p => (fid, p)) else none
    | none => none)
  resolutions.foldl (fun fs (cp : Nat × Nat) => fs.modify cp.1 (fun f => { f with parent := some cp.2 })) frames

/-- `IngestionDelta` as the callers use it -/
structure Delta where
  inserted : List Nat
  embs : List VecEnt
  nonEmpty : Bool
deriving Repr, Inhabited

/-- `apply_records`; `engineAttached = false` is the `commit_skip_indexes` call.
    Returns the new handle and the delta, or `none` when the real function returns an error. -/
def applyRecords (m : Mem) (records : List (Nat × Entry)) (engineAttached : Bool) : Option (Mem × Delta) :=
  if records.isEmpty then some (m, { inserted := [], embs := [], nonEmpty := false }) else
  let st0 : ApSt :=
    { frames := m.frames, cursor := m.dataEnd, payloadEnd := m.payloadEnd, vec := m.vec,
      engine := engineAttached && m.engine, lexDocs := m.lexDocs, tantivyDirty := m.tantivyDirty,
      sketch := m.sketch }
  match applyLoop st0 records with
  | none => none
  | some st =>
    let frames := secondPass st.frames st.inserted
    some ({ m with
            frames := frames, payloadEnd := st.payloadEnd, dataEnd := max m.dataEnd st.cursor,
            vec := st.vec, lexDocs := st.lexDocs, tantivyDirty := st.tantivyDirty, sketch := st.sketch },
          { inserted := st.inserted, embs := st.embs,
            nonEmpty := !st.inserted.isEmpty || !st.embs.isEmpty || st.timeN != 0 || st.mutated })

/-! ## Index rebuild and commit -/

/-- `(ts, id)` order of the time index -/
def timeLe (a b : Int × Nat) : Bool := decide (a.1 < b.1) || (decide (a.1 = b.1) && decide (a.2 ≤ b.2))

def timeEntries (frames : List Frame) : List (Int × Nat) :=
  sortBy timeLe ((frames.filter (fun f => f.status == .active && f.role == .document)).map (fun f => (f.ts, f.id)))

/-- `flush_tantivy`: when the engine is dirty, commit it, embed a snapshot and append one `Lex`
    record to the WAL (the record stays pending until the next checkpoint); `ft` = footer after the embedded snapshot. -/
def Mem.flushTantivy (m : Mem) (ft : Nat) : Mem :=
  if !m.tantivyDirty then m else
  if m.engine then
    { m with tantivyDirty := false, seq := m.seq + 1, pending := m.pending ++ [(m.seq + 1, Entry.lex)],
             tantivySegs := true, footer := max m.footer ft }.persistToc
  else { m with tantivyDirty := false }

/-- `rebuild_tantivy_engine`: the engine is reset and every ACTIVE frame with index text is added -/
def fullLexRebuild (frames : List Frame) : List Nat :=
  (frames.filter (fun f => f.status == .active && f.idx)).map (·.id)

/-- the lexical part of `rebuild_indexes`: full rebuild when the engine is dirty (instant-index ids
    must be replaced) or absent or nothing was inserted, otherwise the inserted frames are added; the
    engine is then flushed (one `Lex` WAL record) -/
def Mem.rebuildLex (m1 : Mem) (inserted : List Nat) (ft : Nat) : Mem :=
  if m1.lexEnabled then
    let docs :=
      if m1.tantivyDirty then fullLexRebuild m1.frames
      else if m1.engine && !inserted.isEmpty then
        -- incremental path: the inserted frames that are active and have index text are added
        m1.lexDocs ++ inserted.filter (fun id => match m1.frames[id]? with
          | some f => f.status == .active && f.idx
          | none => false)
      else fullLexRebuild m1.frames
    { m1 with lexDocs := docs, engine := true, tantivyDirty := true }.flushTantivy ft
  else m1

/-- the vector part of `rebuild_indexes` (`build_vec_artifact`): surviving in-memory entries of
    active frames, then the new embeddings -/
def Mem.rebuildVec (m2 : Mem) (newEmbs : List VecEnt) : Mem :=
  if m2.vecEnabled then
    let surviving := (m2.vec.getD []).filter (fun e => isActive m2.frames e.id)
    let ents := surviving ++ newEmbs
    { m2 with vec := some ents, pVec := some ents, vecManifest := true,
              vecDim := match ents with | e :: _ => e.dim | [] => 0 }
  else { m2 with vec := none, vecManifest := false, pVec := none }

/-- `rebuild_indexes(new_vec_docs, inserted_frame_ids)`; `ft` = trace input: footer position
    (relative) after the rebuilt indexes were written. -/
def Mem.rebuildIndexes (m : Mem) (newEmbs : List VecEnt) (inserted : List Nat) (ft : Nat) : Mem :=
  if m.frames.isEmpty && !m.lexEnabled && !m.vecEnabled then m else
  let m1 : Mem := { m with dataEnd := m.payloadEnd, time := some (timeEntries m.frames) }
  let m3 := (m1.rebuildLex inserted ft).rebuildVec newEmbs
  -- memories track / sketch track are persisted with the rebuilt TOC
  { m3 with
    pCards := if m3.cards.isEmpty then none else some (m3.cards, m3.enrRecs)
    footer := max m3.footer ft }.persistToc

/-- `record_checkpoint` + the bookkeeping at the end of a commit -/
def Mem.checkpoint (m : Mem) : Mem :=
  { m with pending := [], pendingInserts := 0, dirty := false }.persistToc

/-- `commit_from_records`; `none` = the real function returned an error (nothing is changed: the
    staging copy is discarded).  `ft` = footer after the commit (trace input). -/
def Mem.commitFromRecords (m : Mem) (ft : Nat) : Option Mem :=
  match applyRecords m m.pending true with
  | none => none
  | some (m1, delta) =>
    let m2 :=
      if delta.nonEmpty then m1.rebuildIndexes delta.embs delta.inserted ft
      else
        let m1' := m1.flushTantivy ft
        -- `persist_memories_track` when no rebuild happened
        { m1' with pCards := if m1'.cards.isEmpty then m1'.pCards else some (m1'.cards, m1'.enrRecs)
                   footer := max m1'.footer ft }
    some { m2.checkpoint with pSketch := if m2.sketch.isEmpty then m2.pSketch else m2.sketch }

inductive Out where
  | ok
  | seq (n : Nat)
  | err (reason : String)
deriving DecidableEq, Repr, Inhabited

def Out.isAck : Out → Bool
  | .err _ => false
  | _ => true

/-- `commit()` -/
def Mem.commit (m : Mem) (ft : Nat) : Mem × Out :=
  if m.pending.isEmpty && !m.dirty && !m.tantivyDirty then (m, .ok) else
  match m.commitFromRecords ft with
  | some m' => (m', .ok)
  | none => (m, .err "commit-failed")

/-- `commit_skip_indexes_inner` (repair 7cd4b84): the batch's embeddings are folded into the in-memory
    vector index (surviving entries of active frames, then the new ones); nothing is written -/
def Mem.foldEmbs (m : Mem) (embs : List VecEnt) : Mem :=
  if embs.isEmpty || !m.vecEnabled then m
  else { m with vec := some ((m.vec.getD []).filter (fun e => isActive m.frames e.id) ++ embs) }

/-- the index manifests `commit_skip_indexes` clears -/
def Mem.clearIndexManifests (m : Mem) : Mem :=
  { m with tantivyDirty := false, footer := m.dataEnd, time := none, pVec := none, tantivySegs := false,
           pCards := none, pSketch := [] }

/-- `commit_skip_indexes()` -/
def Mem.commitSkipIndexes (m : Mem) : Mem × Out :=
  if m.pending.isEmpty && !m.dirty then (m, .ok) else
  match applyRecords m m.pending false with
  | none => ({ m with tantivyDirty := false }, .err "commit-failed")
  | some (m1, delta) => ((m1.foldEmbs delta.embs).clearIndexManifests.checkpoint, .ok)

/-- ids `finalize_indexes` generates a sketch for (repair 7cd4b84): active frames with index text and
    no entry yet, in frame order -/
def sketchGaps (frames : List Frame) (sketch : List Nat) : List Nat :=
  ((frames.filter (fun f => f.status == .active && f.idx)).map (·.id)).filter (fun id => !sketch.contains id)

/-- the sketch part of `finalize_indexes`: missing sketches are generated, the track is persisted -/
def Mem.fillSketches (m1 : Mem) : Mem :=
  { m1 with
    sketch := if m1.lexEnabled then m1.sketch ++ sketchGaps m1.frames m1.sketch else m1.sketch
    pSketch := if (if m1.lexEnabled then m1.sketch ++ sketchGaps m1.frames m1.sketch else m1.sketch).isEmpty
               then m1.pSketch else (if m1.lexEnabled then m1.sketch ++ sketchGaps m1.frames m1.sketch else m1.sketch) }

/-- `finalize_indexes()` -/
def Mem.finalizeIndexes (m : Mem) (ft : Nat) : Mem × Out :=
  ((m.rebuildIndexes [] [] ft).fillSketches, .ok)

/-! ## put / update / delete -/

/-- one chunk of a chunk plan as the trace supplies it -/
structure ChunkArg where
  content : String
  len : Nat
  emb : Option Emb
deriving DecidableEq, Repr, Inhabited

/-- trace inputs common to the mutating calls -/
structure Trace where
  /-- the automatic checkpoint fired at the end of the call -/
  ac : Bool := false
  /-- footer (relative) after the commit / rebuild, when one happened -/
  ft : Nat := 0
  /-- `header.wal_size` after the call -/
  ws : Nat := 65536
deriving DecidableEq, Repr, Inhabited

/-- arguments of `put_internal` after option processing -/
structure PutArgs where
  ts : Int
  uri : Option String := none
  kind : Option String := none
  track : Option String := none
  tags : List String := []
  labels : List String := []
  role : Role := .document
  /-- token and stored length of the parent entry's own payload (`E`, 0 for a chunked document) -/
  content : String
  len : Nat
  /-- `prepared.len()` used by the capacity check (0 for a payload-less update) -/
  plen : Nat
  emb : Option Emb := none
  /-- the chunk plan (empty = not chunked); a non-empty plan gives the parent a manifest -/
  chunks : List ChunkArg := []
  /-- `options.instant_index` -/
  ii : Bool := false
  /-- trace: non-blank search text -/
  st : Bool := true
  /-- trace: `needs_enrichment` (instant_index ∧ (enable_embedding ∨ skim extraction)) -/
  q : Bool := false
  /-- trace: number of memory cards the triplet extractor produced -/
  nc : Nat := 0
  /-- the parent payload is stored zstd-compressed (valid UTF-8 and compression level ≠ 0) -/
  zstd : Bool := false
  /-- dimensions of ALL chunk embeddings the caller passed (`put_with_chunk_embeddings`), whether or
      not a chunk exists for them: the dimension contract looks at every one -/
  cdims : List Nat := []
deriving DecidableEq, Repr, Inhabited

def embDims (a : PutArgs) : List Nat :=
  (match a.emb with | some (d, _) => if d = 0 then [] else [d] | none => []) ++
  a.cdims.filter (· ≠ 0)

/-- the parent entry of a put -/
def parentIns (a : PutArgs) (supersedes reuse : Option Nat) : Ins :=
  let n := a.chunks.length
  { ts := a.ts, uri := a.uri, kind := a.kind, track := a.track, tags := a.tags, labels := a.labels,
    role := a.role, parentSeq := none, chunkIndex := none,
    chunkCount := if n = 0 then none else some n,
    manifest := if n = 0 then none else some n,
    supersedes := supersedes, reuseFrom := reuse, content := a.content, len := a.len, emb := a.emb,
    idx := a.st, zstd := a.zstd }

/-- the entry of chunk number `i` (of `n`) -/
def chunkIns (a : PutArgs) (pseq n i : Nat) (c : ChunkArg) : Ins :=
  { ts := a.ts, uri := a.uri.map (fun u => s!"{u}#page-{i + 1}"), kind := a.kind, track := a.track,
    tags := a.tags, labels := a.labels, role := .chunk, parentSeq := some pseq,
    chunkIndex := some i, chunkCount := some n, manifest := none, supersedes := none,
    reuseFrom := none, content := c.content, len := c.len, emb := c.emb, idx := true, zstd := true }

/-- chunk records `i, i+1, …` with sequence numbers `pseq + 1 + i, …` -/
def chunkRecords (a : PutArgs) (pseq n : Nat) : List ChunkArg → Nat → List (Nat × Entry)
  | [], _ => []
  | c :: cs, i => (pseq + 1 + i, Entry.insert (chunkIns a pseq n i c)) :: chunkRecords a pseq n cs (i + 1)

/-- the WAL records one accepted `put_internal` appends: the parent entry then the chunk entries
    (`parent_sequence` = the parent's sequence number) -/
def putRecords (seq0 : Nat) (a : PutArgs) (supersedes reuse : Option Nat) : List (Nat × Entry) :=
  (seq0 + 1, Entry.insert (parentIns a supersedes reuse)) ::
  chunkRecords a (seq0 + 1) a.chunks.length a.chunks 0

/-- WAL growth / pre-sizing rewrites the TOC (and with it the enrichment queue) -/
def Mem.setWalSize (m : Mem) (ws : Nat) : Mem :=
  if ws = m.walSize then m else { m with walSize := ws }.persistToc

/-- the automatic checkpoint at the end of put/delete: `commit()?` -/
def Mem.autoCommit (m : Mem) (t : Trace) : Mem :=
  if t.ac then (m.commit t.ft).1 else m

/-- the WAL appends of an accepted put and the in-memory bookkeeping around them (instant index,
    enrichment queue) -/
def Mem.appendPut (m : Mem) (a : PutArgs) (supersedes reuse : Option Nat) : Mem :=
  let recs := putRecords m.seq a supersedes reuse
  -- `assigned_frame_id = next_frame_id()` before the append (repair a8580e2; the WAL sequence number
  -- was used before)
  let fid := m.nextFrameId
  let instant := a.ii && m.engine && a.st
  { m with
    pending := m.pending ++ recs
    seq := m.seq + recs.length
    pendingInserts := m.pendingInserts + recs.length
    dirty := true
    lexDocs := if instant then m.lexDocs ++ [fid] else m.lexDocs
    tantivyDirty := if instant then true else m.tantivyDirty
    queue := if a.q then m.queue ++ [fid] else m.queue }

/-- after the appends of put/delete: the WAL may have grown; the automatic checkpoint fires unless
    batch mode suppresses it -/
def Mem.afterAppend (m : Mem) (t : Trace) : Mem :=
  if m.batch == some true then m.setWalSize t.ws else (m.setWalSize t.ws).autoCommit t

/-- triplet extraction at the very end of a put: cards and the enrichment record carry the frame id
    the document receives (`fid`; before repair a8580e2: the WAL sequence number) -/
def Mem.addCards (m : Mem) (nc pseq : Nat) : Mem :=
  if nc = 0 then m else
  { m with cards := m.cards ++ List.replicate nc pseq
           enrRecs := if m.enrRecs.contains pseq then m.enrRecs else m.enrRecs ++ [pseq] }

/-- stored bytes the next commit appends at the data cursor for one pending record -/
def Entry.freshLen : Entry → Nat
  | .insert e => if e.reuseFrom.isNone then e.len else 0
  | _ => 0

/-- `pending_payload_bytes`: stored payload bytes of the pending Insert records (reset with every WAL
    checkpoint, i.e. exactly when `pending` is emptied) -/
def pendingPayloadBytes : List (Nat × Entry) → Nat
  | [] => 0
  | r :: rs => r.2.freshLen + pendingPayloadBytes rs

def chunkLenSum : List ChunkArg → Nat
  | [] => 0
  | c :: cs => c.len + chunkLenSum cs

/-- the exact capacity check of `put_internal` right before the WAL appends (repair ed05539):
    `max(cached_payload_end, data_end) + pending_payload_bytes + stored bytes of this put > limit`;
    skipped for a put that appends nothing (payload-less update without chunks) -/
def Mem.overCap (m : Mem) (a : PutArgs) (reuse : Option Nat) : Bool :=
  (reuse.isNone || !a.chunks.isEmpty) &&
  decide (m.base + max m.payloadEnd m.dataEnd + pendingPayloadBytes m.pending +
          ((if reuse.isNone then a.len else 0) + chunkLenSum a.chunks) > m.capacityLimit)

/-- second half of `put_internal`: the two capacity checks, WAL appends, instant index, enrichment
    queue, automatic checkpoint, triplet cards -/
def Mem.putTail (m : Mem) (a : PutArgs) (supersedes reuse : Option Nat) (t : Trace) : Mem × Out :=
  if m.base + m.payloadEnd + a.plen > m.capacityLimit then (m, .err "capacity") else
  if m.overCap a reuse then (m, .err "capacity") else
  ((((m.appendPut a supersedes reuse).afterAppend t).addCards a.nc m.nextFrameId), .seq (m.seq + 1))

/-- `enable_vec()` as `put_internal` calls it for the first embedded put (its effects survive a later
    rejection of that put) -/
def Mem.enableVec (m : Mem) : Mem :=
  if m.vecEnabled then m else { m with vecEnabled := true, dirty := true, vecManifest := true }

/-- "persist the dimension early": the manifest dimension is set when still 0 -/
def Mem.noteDim (m : Mem) (d : Nat) : Mem :=
  if m.vecManifest ∧ m.vecDim = 0 then { m with vecDim := d } else m

/-- `put_internal` (after the caller prepared the arguments): mutation gate and the vector
    dimension contract, then `putTail`. -/
def Mem.putCore (m : Mem) (a : PutArgs) (supersedes reuse : Option Nat) (t : Trace) : Mem × Out :=
  if !m.mutationAllowed then (m, .err "ticket-required") else
  match embDims a with
  | d :: rest =>
    if rest.any (· != d) then (m, .err "dim-mismatch") else
    if m.enableVec.vecDim ≠ 0 ∧ m.enableVec.vecDim ≠ d then (m.enableVec, .err "dim-mismatch") else
    (m.enableVec.noteDim d).putTail a supersedes reuse t
  | [] => m.putTail a supersedes reuse t

def Mem.put (m : Mem) (a : PutArgs) (t : Trace) : Mem × Out := m.putCore a none none t

/-- `frame_canonical_bytes` as a token: a Document with a manifest is the concatenation of its
    active child chunks in `(chunk_index, id)` order (`cat:t1+t2…`); `err` mirrors the error cases -/
def chunkKey (f : Frame) : Nat × Nat := (f.chunkIndex.getD 4294967295, f.id)
def chunkLe (a b : Frame) : Bool :=
  decide ((chunkKey a).1 < (chunkKey b).1) || (decide ((chunkKey a).1 = (chunkKey b).1) && decide ((chunkKey a).2 ≤ (chunkKey b).2))

/-- what reading the frame's own stored payload gives: after `vacuum` zeroed the payload pointer of
    an inactive frame the stored bytes are gone and the canonical-length check fails (`err`) -/
def ownContent (f : Frame) : String :=
  if f.len = 0 ∧ (f.content ≠ "E" ∨ f.zstd) then "err" else f.content

def canon (frames : List Frame) (f : Frame) : String :=
  if isManifestDoc f then
    let children := sortBy chunkLe (frames.filter (fun c => c.status == .active && c.role == .chunk && c.parent == some f.id))
    if children.isEmpty then "err"
    else if some children.length != f.manifest then "err"
    else if children.any (fun c => ownContent c == "err") then "err"
    else "cat:" ++ "+".intercalate (children.map (·.content))
  else ownContent f

/-- arguments of `update_frame`: `none` = not specified (inherit) -/
structure UpdArgs where
  ts : Option Int := none
  uri : Option String := none
  kind : Option String := none
  track : Option String := none
  tags : List String := []
  labels : List String := []
  role : Role := .document
  /-- `some (content, len, plen, chunks)` = new payload; `none` = reuse the old payload -/
  payload : Option (String × Nat × Nat × List ChunkArg) := none
  emb : Option Emb := none
  ii : Bool := false
  st : Bool := true
  q : Bool := false
  nc : Nat := 0
  zstd : Bool := false
deriving DecidableEq, Repr, Inhabited

/-- option inheritance of `update_frame` -/
def inheritArgs (old : Frame) (u : UpdArgs) (emb : Option Emb) : PutArgs :=
  { ts := u.ts.getD old.ts
    uri := match u.uri with | some x => some x | none => some old.uri
    kind := match u.kind with | some x => some x | none => old.kind
    track := match u.track with | some x => some x | none => old.track
    tags := if u.tags.isEmpty then old.tags else u.tags
    labels := if u.labels.isEmpty then old.labels else u.labels
    role := u.role
    content := match u.payload with | some p => p.1 | none => old.content
    len := match u.payload with | some p => p.2.1 | none => 0
    plen := match u.payload with | some p => p.2.2.1 | none => 0
    emb := emb
    chunks := match u.payload with | some p => p.2.2.2 | none => []
    ii := u.ii, st := u.st, q := u.q, nc := u.nc, zstd := u.zstd }

/-- `frame_embedding(id)` as `update_frame` uses it when no explicit embedding is given
    (`ensure_vec_index` loads the persisted artifact when no index is in memory) -/
def Mem.carriedEmb (m : Mem) (id : Nat) (explicit : Option Emb) : Option Emb :=
  match explicit with
  | some e => some e
  | none =>
    if m.vecEnabled then
      let idxv := match m.vec with | some v => some v | none => m.pVec
      match (idxv.getD []).find? (·.id == id) with
      | some e => some (e.dim, e.tok)
      | none => none
    else none

/-- side effect of `ensure_vec_index`: the persisted vector index becomes the in-memory one -/
def Mem.loadVec (m : Mem) : Mem :=
  if m.vecEnabled && m.vec.isNone then { m with vec := m.pVec } else m

/-- `update_frame` -/
def Mem.update (m : Mem) (id : Nat) (u : UpdArgs) (t : Trace) : Mem × Out :=
  if !m.mutationAllowed then (m, .err "ticket-required") else
  match m.frames[id]? with
  | none => (m, .err "not-found")
  | some old =>
    if old.status != .active then (m, .err "inactive") else
    -- a payload-less update reads the old canonical bytes for processing
    if u.payload.isNone && canon m.frames old == "err" then (m.loadVec, .err "canon-error") else
    m.loadVec.putCore (inheritArgs old u (m.carriedEmb id u.emb)) (some id)
      (if u.payload.isNone then some id else none) t

/-- `delete_frame` -/
def Mem.delete (m : Mem) (id : Nat) (t : Trace) : Mem × Out :=
  match m.frames[id]? with
  | none => (m, .err "not-found")
  | some f =>
    if f.status != .active then (m, .err "inactive") else
    let m1 : Mem :=
      { m with pending := m.pending ++ [(m.seq + 1, .tombstone id)], seq := m.seq + 1, dirty := true }
    (m1.afterAppend t, .seq (m.seq + 1))

/-! ## drop / open / crash -/

/-- `compute_payload_region_end` (relative) -/
def payloadRegionEnd (frames : List Frame) : Nat :=
  frames.foldl (fun acc f => if f.len ≠ 0 then max acc (f.off + f.len) else acc) 0

/-- `compute_data_end` (relative): footer and the ends of active payloads -/
def computeDataEnd (frames : List Frame) (footer : Nat) : Nat :=
  frames.foldl (fun acc f => if f.status == .active && f.len > 0 then max acc (f.off + f.len) else acc) footer

/-- `impl Drop for Memvid`: commit when dirty, result ignored -/
def Mem.dropHandle (m : Mem) (ft : Nat) : Mem :=
  if m.dirty then (m.commit ft).1 else m

/-- first half of `open_locked`: header/TOC are read, in-memory-only state is rebuilt from what was
    persisted, `init_tantivy` trusts embedded segments (without them the engine is rebuilt from the
    frames and left dirty) -/
def Mem.openLoad (m : Mem) : Mem :=
  { m with
    pendingInserts := 0, dirty := false, batch := none
    dataEnd := computeDataEnd m.frames m.footer
    payloadEnd := payloadRegionEnd m.frames
    lexEnabled := true, engine := true
    tantivyDirty := !m.tantivySegs
    lexDocs := if m.tantivySegs then m.lexDocs else fullLexRebuild m.frames
    vecEnabled := m.pVecMan
    vecManifest := m.pVecMan
    vecDim := m.pVecDim
    vec := if m.pVecMan then m.pVec else none
    queue := m.pQueue
    cards := [], enrRecs := [], sketch := [] }

/-- `persist_sketch_track` when the track is non-empty -/
def Mem.persistSketch (m : Mem) : Mem :=
  { m with pSketch := if m.sketch.isEmpty then m.pSketch else m.sketch }

/-- the footer moves past whatever was just written (`ft` = observed footer, trace input) -/
def Mem.bumpFooter (m : Mem) (ft : Nat) : Mem := { m with footer := max m.footer ft }

/-- `recover_wal` right after `apply_records` (repair 5c6fd4b): replayed embeddings imply vector search,
    although the writer's `enable_vec` never reached the file -/
def Mem.enableVecForEmbs (ma : Mem) (embs : List VecEnt) : Mem :=
  if !embs.isEmpty && !ma.vecEnabled then { ma with vecEnabled := true } else ma

/-- `recover_wal`; `ft` = footer after the replay (index rebuild / Tantivy flush / re-persisted sketch
    track) -/
def Mem.recoverWal (m1 : Mem) (ft : Nat) : Mem :=
  if m1.pending.isEmpty then m1.flushTantivy ft
  else
    match applyRecords m1 m1.pending true with
    | none => m1
    | some (ma, delta) =>
      -- (repaired code: the sketch track is re-persisted after the replay)
      ((if delta.nonEmpty then (ma.enableVecForEmbs delta.embs).rebuildIndexes delta.embs delta.inserted ft
        else (ma.enableVecForEmbs delta.embs).flushTantivy ft).persistSketch.bumpFooter ft).checkpoint

/-- `load_memories_track`, `load_sketch_track` (repaired code: BEFORE the WAL replay, so that the
    replay's index rebuild persists them again) -/
def Mem.loadTracks (m2 : Mem) : Mem :=
  { m2 with
    cards := match m2.pCards with | some c => c.1 | none => m2.cards
    enrRecs := match m2.pCards with | some c => c.2 | none => m2.enrRecs
    -- the persisted sketch track stores no frame ids: entries come back numbered 0..n-1 (C39 finding)
    sketch := if m2.pSketch.isEmpty then m2.sketch else List.range m2.pSketch.length }

/-- `open_locked` on the file the model state describes -/
def Mem.openFrom (m : Mem) (ft : Nat) : Mem := m.openLoad.loadTracks.recoverWal ft

/-- drop the handle (commit when dirty) and open the file again -/
def Mem.reopen (m : Mem) (ftDrop ftOpen : Nat) : Mem × Out :=
  ((m.dropHandle ftDrop).openFrom ftOpen, .ok)

/-- the process dies (no `Drop`): in-memory-only state is lost, the next open replays the WAL -/
def Mem.crash (m : Mem) (ft : Nat) : Mem × Out :=
  ({ m with queue := m.pQueue }.openFrom ft, .ok)

/-! ## vacuum / doctor / batch / ticket -/

/-- the compaction loop of `vacuum`: active payloads are rewritten from the data start -/
def compact : List Frame → Nat → List Frame × Nat
  | [], cur => ([], cur)
  | f :: fs, cur =>
    if f.status == .active then
      let (rest, c) := compact fs (cur + f.len)
      ({ f with off := cur } :: rest, c)
    else
      let (rest, c) := compact fs cur
      ({ f with off := 0, len := 0 } :: rest, c)

/-- the compaction step of `vacuum` on the handle: payload pointers rewritten, the payload region ends
    at the compacted cursor (repair 0e33b6e), Tantivy state cleared -/
def Mem.compactFrames (m1 : Mem) : Mem :=
  { m1 with frames := (compact m1.frames 0).1, dataEnd := (compact m1.frames 0).2,
            payloadEnd := (compact m1.frames 0).2, engine := false,
            tantivyDirty := false, tantivySegs := false }

/-- `vacuum()`; `ftCommit` / `ftRebuild` = footers after the leading commit and at the end.  After the
    rebuild the sketch track is re-persisted and the WAL checkpointed (repair 0e33b6e): nothing stays
    pending. -/
def Mem.vacuum (m : Mem) (ftCommit ftRebuild : Nat) : Mem × Out :=
  if (m.commit ftCommit).2.isAck then
    ((((m.commit ftCommit).1.compactFrames.rebuildIndexes [] [] ftRebuild).persistSketch.bumpFooter ftRebuild).checkpoint, .ok)
  else m.commit ftCommit

/-- `begin_batch(opts)`: optional WAL pre-sizing, then batch options are recorded -/
def Mem.beginBatch (m : Mem) (disableAutoCheckpoint : Bool) (ws : Nat) : Mem × Out :=
  ({ m.setWalSize ws with batch := some disableAutoCheckpoint }, .ok)

def Mem.endBatch (m : Mem) : Mem × Out := ({ m with batch := none }, .ok)

/-- `apply_ticket` -/
def Mem.applyTicket (m : Mem) (seqNo : Int) (cap : Nat) (issuerBlank issuerFree : Bool) : Mem × Out :=
  if seqNo ≤ m.ticketSeq then (m, .err "ticket-seq") else
  ({ m with ticketSeq := seqNo, ticketCap := cap, hasIssuer := !issuerBlank, freeTierIssuer := issuerFree }.persistToc, .ok)

/-- `frame_by_uri`: newest active frame with the URI, else newest frame with the URI -/
def frameByUri (frames : List Frame) (uri : String) : Option Frame :=
  match frames.reverse.find? (fun f => f.uri == uri && f.status == .active) with
  | some f => some f
  | none => frames.reverse.find? (fun f => f.uri == uri)

/-! ## Operations -/

inductive Op where
  | create
  | put (a : PutArgs) (t : Trace)
  | update (id : Nat) (u : UpdArgs) (t : Trace)
  | delete (id : Nat) (t : Trace)
  | commit (ft : Nat)
  | reopen (ftDrop ftOpen : Nat)
  | crash (ft : Nat)
  | beginBatch (disableAutoCheckpoint : Bool) (ws : Nat)
  | endBatch
  | commitSkipIndexes
  | finalizeIndexes (ft : Nat)
  | vacuum (ftCommit ftRebuild : Nat)
  /-- `rebuild*` = requested by the options OR scheduled by the doctor's own probe (trace input) -/
  | doctor (vacuum rebuildTime rebuildLex rebuildVec : Bool) (ftDrop ftA ftB ftOpen : Nat)
  | ticket (seqNo : Int) (cap : Nat) (issuerBlank issuerFree : Bool)
deriving Repr, Inhabited

/-- `doctor.rs reset_wal`: the WAL region is zeroed and the sequence restarts at 0 -/
def Mem.resetWal (m : Mem) : Mem :=
  { m with pending := [], seq := 0, pendingInserts := m.pendingInserts, dirty := false, tantivyDirty := false }

/-- `apply_pending_rebuilds` of the doctor (repair 842ec3b): an existing vector index is loaded so that
    `rebuild_indexes` keeps its embeddings (a requested vector rebuild only forgets the manifest); then
    `rebuild_indexes(&[], &[])` and `reset_wal` -/
def Mem.doctorRebuild (m2 : Mem) (rv : Bool) (ft : Nat) : Mem :=
  ((if rv then { m2 with vecEnabled := true, vecManifest := false,
                         vec := if m2.vec.isNone && m2.vecManifest then m2.pVec else m2.vec }
    else if m2.vecEnabled && m2.vec.isNone && m2.vecManifest then { m2 with vec := m2.pVec }
    else m2).rebuildIndexes [] [] ft).resetWal

/-- doctor, first stage: the file is opened (WAL replay) and optionally vacuumed -/
def Mem.doctorStage1 (m : Mem) (vac : Bool) (ftDrop ftA ftB : Nat) : Mem :=
  if vac then (((m.dropHandle ftDrop).openFrom ftA).vacuum ftA ftB).1 else (m.dropHandle ftDrop).openFrom ftA

/-- doctor, second stage: the scheduled rebuilds -/
def Mem.doctorStage2 (m2 : Mem) (any rv : Bool) (ftB : Nat) : Mem :=
  if any then m2.doctorRebuild rv ftB else m2

/-- `Memvid::doctor(path, opts)` on the closed file (the harness drops the handle first and opens it
    again afterwards): open (with WAL replay), optional vacuum, then — when any rebuild was requested —
    `apply_pending_rebuilds` followed by `reset_wal`; the final Verify phase resets the WAL in any case
    (sequence numbers restart at 0 after every doctor run).  The frame table is only touched by the vacuum. -/
def Mem.doctor (m : Mem) (vac rt rl rv : Bool) (ftDrop ftA ftB ftOpen : Nat) : Mem × Out :=
  -- the Verify phase that ends every run clears the WAL once more ("final WAL cleanup")
  (((((m.doctorStage1 vac ftDrop ftA ftB).doctorStage2 (rt || rl || rv) rv ftB).resetWal).dropHandle ftB).openFrom ftOpen, .ok)

def step (m : Mem) : Op → Mem × Out
  | .create => (Mem.create, .ok)
  | .put a t => m.put a t
  | .update id u t => m.update id u t
  | .delete id t => m.delete id t
  | .commit ft => m.commit ft
  | .reopen a b => m.reopen a b
  | .crash ft => m.crash ft
  | .beginBatch d ws => m.beginBatch d ws
  | .endBatch => m.endBatch
  | .commitSkipIndexes => m.commitSkipIndexes
  | .finalizeIndexes ft => m.finalizeIndexes ft
  | .vacuum a b => m.vacuum a b
  | .doctor v rt rl rv a b c d => m.doctor v rt rl rv a b c d
  | .ticket s c b f => m.applyTicket s c b f

def run (m : Mem) : List Op → Mem
  | [] => m
  | op :: ops => run (step m op).1 ops

/-- the operations with the answer each one got -/
def trace (m : Mem) : List Op → List (Op × Out)
  | [] => []
  | op :: ops => (op, (step m op).2) :: trace (step m op).1 ops

/-! ## The canonical observation (same format as `hist.rs::observe` prints for the real handle) -/

def showOptNat : Option Nat → String
  | some n => toString n
  | none => "-"
def showOptStr : Option String → String
  | some s => s
  | none => "-"
def showList (sep : String) (l : List String) : String :=
  if l.isEmpty then "-" else sep.intercalate l
def Status.show : Status → String
  | .active => "a" | .superseded => "s" | .deleted => "d"
def Role.show : Role → String
  | .document => "d" | .chunk => "c" | .image => "i"

/-- `id,uri,status,role,parent,supersedes,superseded_by,ts,kind,track,tags,labels,chunk_index,
    chunk_count,manifest,content,canonical,off,len` -/
def showFrame (frames : List Frame) (f : Frame) : String :=
  ",".intercalate
    [toString f.id, f.uri, f.status.show, f.role.show, showOptNat f.parent, showOptNat f.supersedes,
     showOptNat f.supersededBy, toString f.ts, showOptStr f.kind, showOptStr f.track,
     showList "+" f.tags, showList "+" f.labels, showOptNat f.chunkIndex, showOptNat f.chunkCount,
     showOptNat f.manifest, (if isManifestDoc f then "M" else ownContent f), canon frames f,
     toString (if f.len = 0 then 0 else f.off), toString f.len]

def natLe (a b : Nat) : Bool := decide (a ≤ b)
def vecLe (a b : VecEnt) : Bool := decide (a.id ≤ b.id)

def showVec : Option (List VecEnt) → String
  | none => "none"
  | some l => showList "," ((sortBy vecLe l).map fun e => s!"{e.id}:{e.dim}:{e.tok}")

def showTime : Option (List (Int × Nat)) → String
  | none => "none"
  | some l => showList "," (l.map fun e => s!"{e.1}:{e.2}")

def showNats (l : List Nat) : String := showList "," (l.map toString)

/-- header part of the observation -/
def obsHead (m : Mem) : String :=
  s!"fc={m.frames.length} nf={m.nextFrameId} pi={m.pendingInserts} pend={if m.pending.isEmpty then 0 else 1} seq={m.seq} " ++
  s!"dirty={if m.dirty then 1 else 0} ws={m.walSize} pe={m.payloadEnd} de={m.dataEnd} ft={m.footer} " ++
  s!"cap={m.capacityLimit} ve={if m.vecEnabled then 1 else 0} vec={showVec m.vec} time={showTime m.time} " ++
  s!"td={if m.tantivyDirty then 1 else 0} q={showNats m.queue} cards={showNats m.cards} " ++
  s!"er={showNats (sortBy natLe m.enrRecs)} sk={showNats (sortBy natLe m.sketch)} " ++
  s!"batch={match m.batch with | none => "-" | some true => "1" | some false => "0"}"

def obs (m : Mem) : String :=
  obsHead m ++ " | " ++ showList ";" (m.frames.map (showFrame m.frames))

end Mv.Core
