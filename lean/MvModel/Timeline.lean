/-
  Model of the timeline read path of memvid:
    * `/repo/src/memvid/timeline.rs`  `build_timeline`            → `buildTimeline` / `timeline`
    * `/repo/src/memvid/mutation.rs`  `rebuild_indexes` (time entries) → `timeIndexOf`
    * `/repo/src/io/time_index.rs`    `append_track` (sort), `read_track` (ordering check)
                                                                   → `sortE`, `readTrack`
  A frame is reduced to the four fields the timeline looks at.  Timestamps are `i64` in the code and
  are only ever compared, never added, so `Int` is exact.  Frame ids are `u64`/`usize` (64-bit target).

  `buildTimeline` mirrors the code as it is today (extracted-image frames appended after the sorted
  index block; no-index fallback in id order with every active frame).  `buildTimelineFixed` mirrors the
  code with `/verif/fixes/C15.diff` applied (the combined list is sorted by `(timestamp, frame_id)` before
  the since/until filter, and the fallback lists the same roles as the indexed path).
-/
namespace Mv.Timeline

/-- `FrameRole` -/
inductive Role where
  | document | chunk | image
deriving DecidableEq, Repr

/-- `FrameStatus` -/
inductive Status where
  | active | superseded | deleted
deriving DecidableEq, Repr

/-- the fields of `types::Frame` that `build_timeline` and `rebuild_indexes` read -/
structure Frame where
  id : Nat
  ts : Int
  role : Role
  status : Status
deriving DecidableEq, Repr

/-- `TimeIndexEntry { timestamp, frame_id }`; also the observable part of a `TimelineEntry` -/
structure Entry where
  ts : Int
  id : Nat
deriving DecidableEq, Repr

/-- `TimelineQuery { limit: Option<NonZeroU64>, since, until, reverse }` -/
structure Query where
  limit : Option Nat
  since : Option Int
  «until» : Option Int
  reverse : Bool
deriving DecidableEq, Repr

/-- tuple order on the sort key `(entry.timestamp, entry.frame_id)` -/
def Entry.le (a b : Entry) : Bool := decide (a.ts < b.ts) || (decide (a.ts = b.ts) && decide (a.id ≤ b.id))

/-- one step of a stable insertion sort -/
def insertE (e : Entry) : List Entry → List Entry
  | [] => [e]
  | x :: xs => if e.le x then e :: x :: xs else x :: insertE e xs

/-- `entries.sort_by_key(|entry| (entry.timestamp, entry.frame_id))` (stable) -/
def sortE (l : List Entry) : List Entry := l.foldr insertE []

/-- the ordering validation of `read_track`: each entry must not be smaller than its predecessor -/
def sortedChain : List Entry → Bool
  | [] => true
  | [_] => true
  | a :: b :: rest =>
      if decide (b.ts < a.ts) || (decide (b.ts = a.ts) && decide (b.id < a.id)) then false
      else sortedChain (b :: rest)

/-- `read_track` on a well-formed byte range: `none` = `InvalidTimeIndex { "entries not sorted" }` -/
def readTrack (stored : List Entry) : Option (List Entry) :=
  if sortedChain stored then some stored else none

def entryOf (f : Frame) : Entry := { ts := f.ts, id := f.id }

/-- which frames `rebuild_indexes` puts in the time index: `Active && role == Document` -/
def indexedAtCommit (f : Frame) : Bool := f.status == .active && f.role == .document

/-- the time index written by `rebuild_indexes` (and by `finalize_indexes`, WAL recovery, doctor) -/
def timeIndexOf (frames : List Frame) : List Entry :=
  sortE ((frames.filter indexedAtCommit).map entryOf)

/-- the `entries` vector before filtering.  `ti = none` ↔ `toc.time_index` is `None` -/
def rawEntries (frames : List Frame) (ti : Option (List Entry)) : List Entry :=
  match ti with
  | some indexed =>
      indexed ++ ((frames.filter (fun f =>
        f.status == .active && f.role == .image && !(indexed.any (fun e => e.id == f.id)))).map entryOf)
  | none => (frames.filter (fun f => f.status == .active)).map entryOf

/-- the `retain` closure -/
def inRange (q : Query) (e : Entry) : Bool :=
  (match q.since with | none => true | some s => decide (e.ts ≥ s)) &&
  (match q.until with | none => true | some u => decide (e.ts ≤ u))

/-- the loop body: `toc.frames.get(entry.frame_id)`, skip if missing or not active, emit the FRAME's
    id and timestamp -/
def lookup (frames : List Frame) (e : Entry) : Option Entry :=
  match frames[e.id]? with
  | none => none
  | some f => if f.status == .active then some { ts := f.ts, id := f.id } else none

/-- everything after the `entries` vector is built: retain, reverse, `take(limit)`, then the loop
    (so the limit is applied BEFORE inactive / out-of-range entries are dropped) -/
def finish (frames : List Frame) (q : Query) (entries : List Entry) : List Entry :=
  let es := entries.filter (inRange q)
  let es := if q.reverse then es.reverse else es
  let lim := match q.limit with
    | none => es.length
    | some n => n
  (es.take lim).filterMap (lookup frames)

/-- `build_timeline` as it is today, given the already-read index -/
def buildTimeline (frames : List Frame) (ti : Option (List Entry)) (q : Query) : List Entry :=
  finish frames q (rawEntries frames ti)

/-- `Memvid::timeline` today; `stored` = entries stored in the file's time index track -/
def timeline (frames : List Frame) (stored : Option (List Entry)) (q : Query) : Option (List Entry) :=
  match stored with
  | none => some (buildTimeline frames none q)
  | some s => match readTrack s with
    | none => none
    | some indexed => some (buildTimeline frames (some indexed) q)

/-! ### with `/verif/fixes/C15.diff` applied -/

/-- roles the timeline lists: everything but chunk frames -/
def listedRole (f : Frame) : Bool := f.status == .active && f.role != .chunk

def rawEntriesFixed (frames : List Frame) (ti : Option (List Entry)) : List Entry :=
  sortE (match ti with
    | some indexed =>
        indexed ++ ((frames.filter (fun f =>
          f.status == .active && f.role == .image && !(indexed.any (fun e => e.id == f.id)))).map entryOf)
    | none => (frames.filter listedRole).map entryOf)

def buildTimelineFixed (frames : List Frame) (ti : Option (List Entry)) (q : Query) : List Entry :=
  finish frames q (rawEntriesFixed frames ti)

def timelineFixed (frames : List Frame) (stored : Option (List Entry)) (q : Query) : Option (List Entry) :=
  match stored with
  | none => some (buildTimelineFixed frames none q)
  | some s => match readTrack s with
    | none => none
    | some indexed => some (buildTimelineFixed frames (some indexed) q)

/-! ### vocabulary of the property statements (MvProps/C15.lean) -/

/-- `toc.frames[i].id = i`: ids are assigned as `toc.frames.len()` at insertion (property C06); the
    harness checks it on every frame table it reads back -/
def DenseIds (frames : List Frame) : Prop := ∀ i (h : i < frames.length), (frames[i]).id = i

/-- what the timeline is supposed to list: one entry per active frame whose role is not chunk
    (documents and extracted images), in frame-table order -/
def listedEntries (frames : List Frame) : List Entry := (frames.filter listedRole).map entryOf

/-- strict tuple order on `(timestamp, frame_id)` -/
def Entry.lt (a b : Entry) : Prop := a.ts < b.ts ∨ (a.ts = b.ts ∧ a.id < b.id)

/-- chronological: strictly ascending by `(timestamp, frame_id)`, strictly descending when reversed
    (strictness also says that no entry occurs twice) -/
def Chrono (reverse : Bool) (l : List Entry) : Prop :=
  if reverse then l.Pairwise (fun a b => b.lt a) else l.Pairwise Entry.lt

/-- the query without its limit -/
def Query.unlimited (q : Query) : Query := { q with limit := none }

end Mv.Timeline
