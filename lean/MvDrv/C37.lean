/- Driver for C37 (adaptive cut-off).  f32 values travel as decimal bit patterns (u32).
   requests:
     cut <normalize 0|1> <minResults> abs <b> <scores>           → <cutoff> <trigger-kind>
     cut <normalize 0|1> <minResults> rel <b> <scores>
     cut <normalize 0|1> <minResults> cliff <b> <scores>
     cut <normalize 0|1> <minResults> elbow <b> <scores>
     cut <normalize 0|1> <minResults> comb <rel> <drop> <absmin> <scores>
     cutdefault <scores>                                          → same, `AdaptiveConfig::default()`
     norm <scores>                                                → comma list of bit patterns | -
     op add|sub|mul|div <a> <b> | op sqrt|abs <a> | op ofnat <n>  → bit pattern
     op lt <a> <b>                                                → 0 | 1
   <scores> = comma-separated bit patterns, `-` for the empty list.  NaN answers are 2143289344. -/
import MvModel.Adaptive
import MvModel.AdaptiveF32
import MvModel.DrvUtil
open Mv Mv.Adaptive Mv.F32

def floats (s : String) : Option (List F) := (natList s).map (·.map ofBits)

def showCut (r : Nat × Trigger) : String := s!"{r.1} {r.2.name}"

def runCut (norm minR : String) (mk : Option (Strategy F)) (scores : String) : String :=
  match norm.toNat?, minR.toNat?, mk, floats scores with
  | some nz, some m, some st, some sc =>
    if nz > 1 then "bad-op"
    else showCut (findAdaptiveCutoff f32Ops sc { minResults := m, strategy := st, normalize := nz == 1 })
  | _, _, _, _ => "bad-op"

def fb (s : String) : Option F := s.toNat?.map ofBits

def step (_ : Unit) (ws : List String) : Unit × String :=
  match ws with
  | ["cut", nz, m, "abs", b, sc] => ((), runCut nz m ((fb b).map .absolute) sc)
  | ["cut", nz, m, "rel", b, sc] => ((), runCut nz m ((fb b).map .relative) sc)
  | ["cut", nz, m, "cliff", b, sc] => ((), runCut nz m ((fb b).map .cliff) sc)
  | ["cut", nz, m, "elbow", b, sc] => ((), runCut nz m ((fb b).map .elbow) sc)
  | ["cut", nz, m, "comb", r, d, a, sc] =>
    ((), runCut nz m (match fb r, fb d, fb a with
      | some r, some d, some a => some (.combined r d a)
      | _, _, _ => none) sc)
  | ["cutdefault", sc] => match floats sc with
    | some sc => ((), showCut (findAdaptiveCutoff f32Ops sc (defaultConfig f32Ops)))
    | none => ((), "bad-op")
  | ["norm", sc] => match floats sc with
    | some sc => ((), showNats ((normalize f32Ops sc).map toBits))
    | none => ((), "bad-op")
  | ["op", "ofnat", n] => match n.toNat? with
    | some n => ((), toString (toBits (F32.ofNat n)))
    | none => ((), "bad-op")
  | ["op", nm, a] => match nm, fb a with
    | "sqrt", some a => ((), toString (toBits (F32.sqrt a)))
    | "abs", some a => ((), toString (toBits (F32.abs a)))
    | _, _ => ((), "bad-op")
  | ["op", nm, a, b] => match nm, fb a, fb b with
    | "add", some a, some b => ((), toString (toBits (F32.add a b)))
    | "sub", some a, some b => ((), toString (toBits (F32.sub a b)))
    | "mul", some a, some b => ((), toString (toBits (F32.mul a b)))
    | "div", some a, some b => ((), toString (toBits (F32.div a b)))
    | "lt", some a, some b => ((), if F32.lt a b then "1" else "0")
    | _, _, _ => ((), "bad-op")
  | _ => ((), "bad-op")

def main : IO Unit := runDriver () step
