/-
  C29 — Encrypted capsules round-trip exactly and reject tampering.  (placeholder, proofs follow)
-/
import MvModel.Capsule
namespace Mv.Capsule

theorem C29_placeholder : HEADER_SIZE = 64 := HEADER_SIZE_eq

end Mv.Capsule
