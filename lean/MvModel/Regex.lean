/-
  Regex model for C36: the subset of the Rust `regex` crate syntax that src/pii.rs uses, with the
  crate's semantics —
    * leftmost-first (Perl-like) alternation priority, greedy counted repetition
      (a backtracking matcher in continuation-passing style is exactly that priority order),
    * `\b` = Unicode word boundary, `\d` `\s` `\w` = Unicode classes,
    * `(?i)` = Unicode simple case folding (for the ASCII-only classes/literals the translator admits
      this only adds the fold partners of ASCII letters: U+212A KELVIN SIGN ~ k, U+017F ſ ~ s),
    * `is_match` = a match starts at some position, `replace_all` = non-overlapping, left to right.
  Text is a list of Unicode code points (`Nat`, fast in the kernel).  The Unicode tables are an explicit
  parameter `T : Tables`; ASCII code points never consult them (so results on ASCII text hold for
  every table).  The generated instance (`Mv.Gen.C36.tables`) is read from the regex-syntax crate.

  Restriction (checked by the translator and by `Re.wf`/`Re.nullable` lemmas over the generated
  patterns): bodies of repetitions and whole patterns never match the empty string, so the crate's
  rules for empty iterations / empty matches are not modelled.
-/
namespace Mv.Regex

/-- Unicode property tables (inclusive code point ranges); `fold` lists (non-ASCII c, ASCII letter a)
    with c and a in one simple-case-folding orbit. -/
structure Tables where
  digit : List (Nat × Nat)
  space : List (Nat × Nat)
  word  : List (Nat × Nat)
  fold  : List (Nat × Nat)

def inRange (lo hi c : Nat) : Bool := Nat.ble lo c && Nat.ble c hi

def inRanges : List (Nat × Nat) → Nat → Bool
  | [], _ => false
  | (lo, hi) :: rs, c => inRange lo hi c || inRanges rs c

def isAscii (c : Nat) : Bool := Nat.blt c 128
def asciiDigit (c : Nat) : Bool := inRange 48 57 c
def asciiUpper (c : Nat) : Bool := inRange 65 90 c
def asciiLower (c : Nat) : Bool := inRange 97 122 c
def asciiSpace (c : Nat) : Bool := inRange 9 13 c || Nat.beq c 32
def asciiWord (c : Nat) : Bool := asciiDigit c || asciiUpper c || asciiLower c || Nat.beq c 95

def Tables.isDigit (T : Tables) (c : Nat) : Bool :=
  bif isAscii c then asciiDigit c else inRanges T.digit c
def Tables.isSpace (T : Tables) (c : Nat) : Bool :=
  bif isAscii c then asciiSpace c else inRanges T.space c
def Tables.isWord (T : Tables) (c : Nat) : Bool :=
  bif isAscii c then asciiWord c else inRanges T.word c

/-- the other-case ASCII letter -/
def swapCase (c : Nat) : Bool × Nat :=
  bif asciiUpper c then (true, c + 32) else bif asciiLower c then (true, c - 32) else (false, c)

/-- ASCII members of the simple-case-folding orbit of `c`, plus `c` itself -/
def Tables.variants (T : Tables) (c : Nat) : List Nat :=
  bif isAscii c then
    (match swapCase c with | (true, d) => [c, d] | (false, _) => [c])
  else
    c :: (T.fold.filter (fun p => Nat.beq p.1 c)).flatMap (fun p => [p.2, (swapCase p.2).2])

inductive Item where
  | range (lo hi : Nat)
  | digit
  | space
  | word
  deriving Repr

/-- a bracketed class / single literal; `ci` = under `(?i)` -/
structure Cls where
  neg : Bool
  ci : Bool
  items : List Item
  deriving Repr

def Item.test (T : Tables) (ci : Bool) (c : Nat) : Item → Bool
  | .range lo hi => bif ci then (T.variants c).any (inRange lo hi) else inRange lo hi c
  | .digit => T.isDigit c
  | .space => T.isSpace c
  | .word => T.isWord c

def Cls.test (T : Tables) (k : Cls) (c : Nat) : Bool :=
  k.neg != k.items.any (Item.test T k.ci c)

inductive Re where
  | eps
  | cls (k : Cls)
  | wordB
  | cat (a b : Re)
  | alt (a b : Re)
  /-- greedy `r{lo,hi}`; `hi = none` is unbounded -/
  | rep (r : Re) (lo : Nat) (hi : Option Nat)
  deriving Repr

def Re.lit (ci : Bool) (c : Nat) : Re := .cls { neg := false, ci := ci, items := [.range c c] }
def Re.seq : List Re → Re
  | [] => .eps
  | [r] => r
  | r :: rs => .cat r (Re.seq rs)
def Re.alts : List Re → Re
  | [] => .eps
  | [r] => r
  | r :: rs => .alt r (Re.alts rs)

/-- can match the empty string (syntactic; `\b` counts as possibly empty) -/
def Re.nullable : Re → Bool
  | .eps => true
  | .cls _ => false
  | .wordB => true
  | .cat a b => a.nullable && b.nullable
  | .alt a b => a.nullable || b.nullable
  | .rep r lo _ => Nat.beq lo 0 || r.nullable

/-- every repetition body is non-nullable and bounds are ordered -/
def Re.wf : Re → Bool
  | .eps | .cls _ | .wordB => true
  | .cat a b | .alt a b => a.wf && b.wf
  | .rep r lo hi => r.wf && !r.nullable && (match hi with | none => true | some h => Nat.ble lo h)

def isWordOpt (T : Tables) : Option Nat → Bool
  | none => false
  | some c => T.isWord c

/-- greedy repetition of `step`: at most `fuel` further iterations, at least `lo` -/
def repLoop {α : Type} (step : Option Nat → List Nat → (Option Nat → List Nat → Option α) → Option α) :
    Nat → Nat → Option Nat → List Nat → (Option Nat → List Nat → Option α) → Option α
  | 0, lo, p, s, k => bif Nat.beq lo 0 then k p s else none
  | fuel + 1, lo, p, s, k =>
    match step p s (fun p' s' => repLoop step fuel (lo - 1) p' s' k) with
    | some x => some x
    | none => bif Nat.beq lo 0 then k p s else none

/-- backtracking matcher: `r.m T prev s k` tries the ways `r` can match a prefix of `s` (the code point
    before `s` is `prev`) in priority order and returns the first for which the continuation succeeds. -/
def Re.m {α : Type} (T : Tables) : Re → Option Nat → List Nat → (Option Nat → List Nat → Option α) → Option α
  | .eps, p, s, k => k p s
  | .cls c, _, s, k =>
    match s with
    | [] => none
    | x :: xs => bif c.test T x then k (some x) xs else none
  | .wordB, p, s, k => bif isWordOpt T p != isWordOpt T s.head? then k p s else none
  | .cat a b, p, s, k => a.m T p s (fun p' s' => b.m T p' s' k)
  | .alt a b, p, s, k =>
    match a.m T p s k with
    | some x => some x
    | none => b.m T p s k
  | .rep r lo hi, p, s, k =>
    repLoop (r.m T) (match hi with | some h => h | none => s.length) lo p s k

/-- leftmost-first match of `r` starting exactly at `s` (previous code point `prev`): the rest after it -/
def matchAt (T : Tables) (r : Re) (prev : Option Nat) (s : List Nat) : Option (List Nat) :=
  r.m T prev s (fun _ rest => some rest)

/-- `Regex::is_match`: does a match start at some position of `s` (incl. the end) -/
def anyMatch (T : Tables) (r : Re) : Option Nat → List Nat → Bool
  | p, [] => (matchAt T r p []).isSome
  | p, c :: cs => (matchAt T r p (c :: cs)).isSome || anyMatch T r (some c) cs

def isMatch (T : Tables) (r : Re) (s : List Nat) : Bool := anyMatch T r none s

/-- `Regex::replace_all` with a literal replacement: scan left to right; at each position not inside a
    previous match try the pattern; on a match emit `tok` and skip the matched text. -/
def replaceGo (T : Tables) (r : Re) (tok : List Nat) : Option Nat → List Nat → Nat → List Nat
  | _, [], _ => []
  | _, c :: cs, skip + 1 => replaceGo T r tok (some c) cs skip
  | p, c :: cs, 0 =>
    match matchAt T r p (c :: cs) with
    | none => c :: replaceGo T r tok (some c) cs 0
    | some rest =>
      let n := (c :: cs).length - rest.length
      bif Nat.beq n 0 then tok ++ c :: replaceGo T r tok (some c) cs 0
      else tok ++ replaceGo T r tok (some c) cs (n - 1)

def replaceAll (T : Tables) (r : Re) (tok : List Nat) (s : List Nat) : List Nat :=
  replaceGo T r tok none s 0

/-- last code point of `w`, or `p` when `w` is empty -/
def lastOpt : List Nat → Option Nat → Option Nat
  | [], p => p
  | x :: xs, _ => lastOpt xs (some x)

/-- "the replacement creates no word boundary": every match `replaceGo` replaces neither starts with a
    word character directly after a word character nor ends with a word character directly before one
    (same recursion as `replaceGo`). -/
def passSafeGo (T : Tables) (r : Re) : Option Nat → List Nat → Nat → Bool
  | _, [], _ => true
  | _, c :: cs, skip + 1 => passSafeGo T r (some c) cs skip
  | p, c :: cs, 0 =>
    match matchAt T r p (c :: cs) with
    | none => passSafeGo T r (some c) cs 0
    | some rest =>
      let n := (c :: cs).length - rest.length
      !(isWordOpt T p && T.isWord c)
        && !(isWordOpt T (lastOpt ((c :: cs).take n) p) && isWordOpt T rest.head?)
        && passSafeGo T r (some c) cs (n - 1)

def passSafe (T : Tables) (r : Re) (s : List Nat) : Bool := passSafeGo T r none s 0

end Mv.Regex
