/-
  Helper lemmas for C27: stable insertion sort, "first live card of the descending sort" = `best`.
-/
import MvModel.Cards
namespace Mv.Cards

/-! ### insertBy / sortBy, generic part -/

theorem mem_insertBy {α : Type} (lt : α → α → Bool) (x a : α) (l : List α) :
    a ∈ insertBy lt x l ↔ a = x ∨ a ∈ l := by
  induction l with
  | nil => simp [insertBy]
  | cons y ys ih =>
    unfold insertBy
    split
    · simp only [List.mem_cons, ih]
      constructor
      · rintro (h | h | h)
        · exact Or.inr (Or.inl h)
        · exact Or.inl h
        · exact Or.inr (Or.inr h)
      · rintro (h | h | h)
        · exact Or.inr (Or.inl h)
        · exact Or.inl h
        · exact Or.inr (Or.inr h)
    · simp [List.mem_cons]

theorem mem_sortBy {α : Type} (lt : α → α → Bool) (a : α) (l : List α) :
    a ∈ sortBy lt l ↔ a ∈ l := by
  induction l with
  | nil => simp [sortBy]
  | cons x xs ih => simp [sortBy, mem_insertBy, ih]

theorem insertBy_perm {α : Type} (lt : α → α → Bool) (x : α) (l : List α) :
    (insertBy lt x l).Perm (x :: l) := by
  induction l with
  | nil => simp [insertBy]
  | cons y ys ih =>
    unfold insertBy
    split
    · exact (List.Perm.cons y ih).trans (List.Perm.swap x y ys)
    · exact List.Perm.refl _

theorem sortBy_perm {α : Type} (lt : α → α → Bool) (l : List α) : (sortBy lt l).Perm l := by
  induction l with
  | nil => exact List.Perm.refl _
  | cons x xs ih => exact (insertBy_perm lt x _).trans (List.Perm.cons x ih)

theorem sortBy_length {α : Type} (lt : α → α → Bool) (l : List α) : (sortBy lt l).length = l.length :=
  (sortBy_perm lt l).length_eq

/-! ### sortedness, for comparators given by an integer key: `lt a b ↔ key a < key b` -/

def KeyLt {α : Type} (lt : α → α → Bool) (key : α → Int) : Prop := ∀ a b, lt a b = true ↔ key a < key b

def Sorted {α : Type} (key : α → Int) (l : List α) : Prop := l.Pairwise (fun a b => key a ≤ key b)

theorem sorted_insertBy {α : Type} {lt : α → α → Bool} {key : α → Int} (h : KeyLt lt key)
    (x : α) (l : List α) (hs : Sorted key l) : Sorted key (insertBy lt x l) := by
  induction l with
  | nil => simp [insertBy, Sorted]
  | cons y ys ih =>
    unfold Sorted at hs
    rw [List.pairwise_cons] at hs
    unfold insertBy
    split
    · rename_i hlt
      have hyx : key y < key x := (h y x).1 hlt
      unfold Sorted
      rw [List.pairwise_cons]
      refine ⟨?_, ih hs.2⟩
      intro a ha
      rcases (mem_insertBy lt x a ys).1 ha with rfl | ha
      · omega
      · exact hs.1 a ha
    · rename_i hlt
      have hyx : ¬ key y < key x := fun hc => hlt ((h y x).2 hc)
      unfold Sorted
      rw [List.pairwise_cons, List.pairwise_cons]
      refine ⟨?_, hs.1, hs.2⟩
      intro a ha
      rcases List.mem_cons.1 ha with rfl | ha
      · omega
      · have := hs.1 a ha; omega

theorem sorted_sortBy {α : Type} {lt : α → α → Bool} {key : α → Int} (h : KeyLt lt key)
    (l : List α) : Sorted key (sortBy lt l) := by
  induction l with
  | nil => simp [sortBy, Sorted]
  | cons x xs ih => exact sorted_insertBy h x _ ih

/-- stability: the elements carrying one key keep their relative order -/
theorem insertBy_filter_key {α : Type} {lt : α → α → Bool} {key : α → Int} (h : KeyLt lt key)
    (x : α) (l : List α) (hs : Sorted key l) (k : Int) :
    (insertBy lt x l).filter (fun a => decide (key a = k)) =
      (x :: l).filter (fun a => decide (key a = k)) := by
  induction l with
  | nil => simp [insertBy]
  | cons y ys ih =>
    unfold Sorted at hs
    rw [List.pairwise_cons] at hs
    unfold insertBy
    split
    · rename_i hlt
      have hyx : key y < key x := (h y x).1 hlt
      rw [List.filter_cons, ih hs.2]
      by_cases hx : key x = k
      · have hy : ¬ key y = k := by omega
        simp [hx, hy]
      · simp [List.filter_cons, hx]
    · rfl

theorem sortBy_filter_key {α : Type} {lt : α → α → Bool} {key : α → Int} (h : KeyLt lt key)
    (l : List α) (k : Int) :
    (sortBy lt l).filter (fun a => decide (key a = k)) = l.filter (fun a => decide (key a = k)) := by
  induction l with
  | nil => rfl
  | cons x xs ih =>
    simp only [sortBy]
    rw [insertBy_filter_key h x _ (sorted_sortBy h xs) k, List.filter_cons, List.filter_cons, ih]

/-- a list sorted by key is determined by its per-key sublists -/
theorem sorted_ext {α : Type} (key : α → Int) :
    ∀ (l₁ l₂ : List α), Sorted key l₁ → Sorted key l₂ →
      (∀ k, l₁.filter (fun a => decide (key a = k)) = l₂.filter (fun a => decide (key a = k))) → l₁ = l₂
  | [], [], _, _, _ => rfl
  | [], y :: ys, _, _, hf => by
    have := hf (key y); simp at this
  | x :: xs, [], _, _, hf => by
    have := hf (key x); simp at this
  | x :: xs, y :: ys, h₁, h₂, hf => by
    unfold Sorted at h₁ h₂
    rw [List.pairwise_cons] at h₁ h₂
    have hxy : key x = key y := by
      have hx : x ∈ (y :: ys).filter (fun a => decide (key a = key x)) := by
        rw [← hf (key x)]; simp
      have hy : y ∈ (x :: xs).filter (fun a => decide (key a = key y)) := by
        rw [hf (key y)]; simp
      simp only [List.mem_filter, List.mem_cons, decide_eq_true_eq] at hx hy
      have h1 : key y ≤ key x := by
        rcases hx.1 with rfl | hm
        · omega
        · exact h₂.1 x hm
      have h2 : key x ≤ key y := by
        rcases hy.1 with rfl | hm
        · omega
        · exact h₁.1 y hm
      omega
    have hhead := hf (key x)
    have e1 : (x :: xs).filter (fun a => decide (key a = key x)) =
        x :: xs.filter (fun a => decide (key a = key x)) := by simp
    have e2 : (y :: ys).filter (fun a => decide (key a = key x)) =
        y :: ys.filter (fun a => decide (key a = key x)) := by simp [hxy]
    rw [e1, e2] at hhead
    have hxe : x = y := (List.cons.inj hhead).1
    subst hxe
    have htail : xs = ys := by
      apply sorted_ext key xs ys h₁.2 h₂.2
      intro k
      have := hf k
      by_cases hk : key x = k
      · simp only [List.filter_cons, hk, decide_true, if_true] at this
        exact (List.cons.inj this).2
      · simpa [List.filter_cons, hk] using this
    rw [htail]

/-- **every stable sort computes `sortBy`**: a permutation-free characterisation — any list that is
    sorted by the key and keeps, for every key value, exactly the input's elements with that key in
    their input order, is the list `sortBy` returns. -/
theorem sortBy_unique {α : Type} {lt : α → α → Bool} {key : α → Int} (h : KeyLt lt key)
    (l out : List α) (hsorted : Sorted key out)
    (hstable : ∀ k, out.filter (fun a => decide (key a = k)) = l.filter (fun a => decide (key a = k))) :
    out = sortBy lt l := by
  apply sorted_ext key out (sortBy lt l) hsorted (sorted_sortBy h l)
  intro k
  rw [hstable k, sortBy_filter_key h l k]

/-! ### the two comparators of the track -/

theorem descLt_key : KeyLt descLt (fun c => - c.effTs) := by
  intro a b; simp only [descLt, decide_eq_true_eq]; omega

theorem ascLt_key : KeyLt ascLt (fun c => c.effTs) := by
  intro a b; simp [ascLt]

theorem sortDesc_pairwise (l : List Card) :
    (sortBy descLt l).Pairwise (fun a b => b.effTs ≤ a.effTs) := by
  have := sorted_sortBy descLt_key l
  unfold Sorted at this
  exact this.imp (by intro a b hab; simp only at hab; omega)

theorem sortAsc_pairwise (l : List Card) :
    (sortBy ascLt l).Pairwise (fun a b => a.effTs ≤ b.effTs) := sorted_sortBy ascLt_key l

/-! ### first live card of the descending sort = `best` -/

theorem firstLive_insert_dead (c : Card) (hc : c.live = false) (l : List Card) :
    firstLive (insertBy descLt c l) = firstLive l := by
  induction l with
  | nil => simp [insertBy, firstLive, List.find?, hc]
  | cons y ys ih =>
    unfold insertBy
    split
    · unfold firstLive at ih ⊢
      simp only [List.find?_cons, ih]
    · unfold firstLive
      simp [List.find?_cons, hc]

theorem firstLive_insert_live (c : Card) (hc : c.live = true) (l : List Card)
    (hs : l.Pairwise (fun a b => b.effTs ≤ a.effTs)) :
    firstLive (insertBy descLt c l) =
      match firstLive l with
      | none => some c
      | some d => if c.effTs < d.effTs then some d else some c := by
  induction l with
  | nil => simp [insertBy, firstLive, hc]
  | cons y ys ih =>
    rw [List.pairwise_cons] at hs
    unfold insertBy
    split
    · rename_i hlt
      have hyc : c.effTs < y.effTs := by simpa [descLt] using hlt
      by_cases hy : y.live = true
      · simp [firstLive, hy, hyc]
      · have hy' : y.live = false := by simpa using hy
        have := ih hs.2
        unfold firstLive at this ⊢
        simp only [List.find?_cons, hy']
        exact this
    · rename_i hlt
      have hyc : ¬ c.effTs < y.effTs := by simpa [descLt] using hlt
      have hfc : firstLive (c :: y :: ys) = some c := by simp [firstLive, hc]
      rw [hfc]
      cases hf : firstLive (y :: ys) with
      | none => rfl
      | some d =>
        have hd : d ∈ y :: ys := List.mem_of_find?_eq_some hf
        have hdy : d.effTs ≤ y.effTs := by
          rcases List.mem_cons.1 hd with rfl | hm
          · omega
          · exact hs.1 d hm
        have : ¬ c.effTs < d.effTs := by omega
        simp [this]

theorem firstLive_sortDesc (l : List Card) : firstLive (sortBy descLt l) = best l := by
  induction l with
  | nil => rfl
  | cons c cs ih =>
    simp only [sortBy, best]
    by_cases hc : c.isRetracted = true
    · have hl : c.live = false := by simp [Card.live, hc]
      rw [firstLive_insert_dead c hl, ih]; simp [hc]
    · have hx' : c.isRetracted = false := by simpa using hc
      have hl : c.live = true := by simp [Card.live, hx']
      rw [firstLive_insert_live c hl _ (sortDesc_pairwise cs), ih]
      simp only [hx', Bool.false_eq_true, if_false]
      cases best cs <;> rfl

/-! ### what `best` returns -/

theorem best_none {l : List Card} (h : best l = none) : ∀ d ∈ l, d.isRetracted = true := by
  induction l with
  | nil => intro d hd; cases hd
  | cons x xs ih =>
    unfold best at h
    split at h
    · rename_i hx
      intro d hd
      rcases List.mem_cons.1 hd with rfl | hm
      · exact hx
      · exact ih h d hm
    · split at h
      · cases h
      · split at h <;> cases h

theorem best_some {l : List Card} {c : Card} (h : best l = some c) :
    c ∈ l ∧ c.isRetracted = false ∧ ∀ d ∈ l, d.isRetracted = false → d.effTs ≤ c.effTs := by
  induction l generalizing c with
  | nil => simp [best] at h
  | cons x xs ih =>
    unfold best at h
    split at h
    · rename_i hx
      obtain ⟨h1, h2, h3⟩ := ih h
      refine ⟨List.mem_cons_of_mem _ h1, h2, ?_⟩
      intro d hd hdl
      rcases List.mem_cons.1 hd with rfl | hm
      · simp [hx] at hdl
      · exact h3 d hm hdl
    · rename_i hx
      have hx' : x.isRetracted = false := by simpa using hx
      split at h
      · rename_i hb
        cases h
        refine ⟨List.mem_cons_self, hx', ?_⟩
        intro d hd hdl
        rcases List.mem_cons.1 hd with rfl | hm
        · omega
        · have := best_none hb d hm
          simp [hdl] at this
      · rename_i e hb
        obtain ⟨h1, h2, h3⟩ := ih hb
        split at h
        · rename_i hlt
          cases h
          refine ⟨List.mem_cons_of_mem _ h1, h2, ?_⟩
          intro d hd hdl
          rcases List.mem_cons.1 hd with rfl | hm
          · omega
          · exact h3 d hm hdl
        · rename_i hlt
          cases h
          refine ⟨List.mem_cons_self, hx', ?_⟩
          intro d hd hdl
          rcases List.mem_cons.1 hd with rfl | hm
          · omega
          · have := h3 d hm hdl; omega

theorem best_isSome_of_live {l : List Card} {d : Card} (hd : d ∈ l) (hl : d.isRetracted = false) :
    (best l).isSome = true := by
  cases hb : best l with
  | none => have := best_none hb d hd; simp [hl] at this
  | some c => rfl

/-- retractions are invisible to `best` -/
theorem best_filter_live (l : List Card) : best (l.filter Card.live) = best l := by
  induction l with
  | nil => rfl
  | cons x xs ih =>
    by_cases hx : x.isRetracted = true
    · have : x.live = false := by simp [Card.live, hx]
      simp [this, best, hx, ih]
    · have hx' : x.isRetracted = false := by simpa using hx
      have : x.live = true := by simp [Card.live, hx']
      simp [this, best, hx', ih]

/-- tie-break: among the live cards with the maximal timestamp `best` returns the first of the list -/
theorem best_first {l : List Card} {c : Card} (h : best l = some c) :
    ∃ pre post, l = pre ++ c :: post ∧ ∀ d ∈ pre, d.isRetracted = false → d.effTs < c.effTs := by
  induction l generalizing c with
  | nil => simp [best] at h
  | cons x xs ih =>
    unfold best at h
    split at h
    · rename_i hx
      obtain ⟨pre, post, he, hp⟩ := ih h
      refine ⟨x :: pre, post, by simp [he], ?_⟩
      intro d hd hdl
      rcases List.mem_cons.1 hd with rfl | hm
      · simp [hx] at hdl
      · exact hp d hm hdl
    · split at h
      · cases h
        exact ⟨[], xs, rfl, by intro d hd; cases hd⟩
      · rename_i e hb
        split at h
        · rename_i hlt
          cases h
          obtain ⟨pre, post, he, hp⟩ := ih hb
          refine ⟨x :: pre, post, by simp [he], ?_⟩
          intro d hd hdl
          rcases List.mem_cons.1 hd with rfl | hm
          · exact hlt
          · exact hp d hm hdl
        · cases h
          exact ⟨[], xs, rfl, by intro d hd; cases hd⟩

end Mv.Cards
