//! C08 — deleted and superseded frames disappear from every read path.
//!
//! impl  : real `Memvid` on a tempdir file, one history at a time (`mvh::hist::World`).
//! model : drv_c08 = the Lean Core model + the read-path model (MvModel/ReadPaths.lean).  After every op:
//!         the shared observation (frame table, vector index, persisted time index, …) is compared as in
//!         every Core-family bin, and on top of it
//!           * `lex`      — the model's engine document ids ⊇ the ids the real Tantivy reader holds
//!                          (listed through the hook `tantivy_search_documents` with a match-all query),
//!                          equal as multisets when every indexed frame has non-blank text;
//!           * `timeline` — the model's timeline ids = `timeline(unbounded)` of the real handle;
//!           * `hits` / `vhits` — the ids the real `search` / `vec_search_with_embedding` report for a
//!                          probe are among the ids the model's loop keeps from the raw engine answer.
//! oracle: (independent of the model) after EVERY op, for every frame the committed table marks
//!         Superseded or Deleted:
//!           * no hit of `search` (word / tag / label / track / uri queries built from the inactive frame's
//!             own text and metadata, uri and scope filters, with and without the sketch pre-filter), `ask`
//!             (Lex, Hybrid), `search_vec`, `vec_search_with_embedding`, `search_adaptive` (queried with the
//!             inactive frame's own embedding) or `timeline` (both directions, children) names it;
//!           * `frame_by_uri(its uri)` returns the newest ACTIVE frame with that URI when one exists;
//!           * the persisted time index and the in-memory vector index do not contain it;
//!         and whenever every acknowledged call has been applied (nothing pending): the frame a delete /
//!         update named is inactive, the old version records `superseded_by` = the id of the LAST
//!         acknowledged update of it (or is Deleted when a delete of it was acknowledged later), each new
//!         version carries `supersedes = old id`, and every field the update did not specify (uri,
//!         timestamp, kind, track, tags, labels, and the content of a payload-less update of an unchunked
//!         frame) equals the old one.
use memvid_core::verif_hooks;
use memvid_core::{AclEnforcementMode, AdaptiveConfig, AskMode, AskRequest, SearchRequest, TimelineQuery, VecEmbedder};
use mvh::hist::*;
use mvh::*;
use serde_json::{json, Value};
use std::collections::{BTreeMap, BTreeSet, HashMap};
use std::num::NonZeroU64;

struct FixedEmbedder(Vec<f32>);
impl VecEmbedder for FixedEmbedder {
    fn embed_query(&self, _text: &str) -> memvid_core::Result<Vec<f32>> { Ok(self.0.clone()) }
    fn embedding_dimension(&self) -> usize { self.0.len() }
}

const MATCH_ALL: &str = "NOT zzzqqqabsentword";

fn search_ids(world: &mut World, query: &str, uri: Option<&str>, scope: Option<&str>, no_sketch: bool, as_of_frame: Option<u64>) -> Result<Vec<u64>, String> {
    let req = SearchRequest {
        query: query.to_string(), top_k: 500, snippet_chars: 80, uri: uri.map(|s| s.to_string()),
        scope: scope.map(|s| s.to_string()), cursor: None, as_of_frame, as_of_ts: None, no_sketch,
        acl_context: None, acl_enforcement_mode: AclEnforcementMode::Audit,
    };
    match guarded(std::panic::AssertUnwindSafe(|| world.mem().search(req))) {
        Ok(Ok(r)) => Ok(r.hits.iter().map(|h| h.frame_id).collect()),
        Ok(Err(e)) => Err(e.to_string()),
        Err(p) => Err(format!("panic: {p}")),
    }
}

/// words of the frame's own index text that the analyser keeps as one token
fn own_words(f: &FrameObs) -> Vec<String> {
    let mut out: Vec<String> = vec![];
    if let Some(t) = &f.search_text {
        for w in t.split(|c: char| !c.is_ascii_alphanumeric()) {
            if w.len() >= 4 && w.chars().all(|c| c.is_ascii_alphabetic()) && !out.iter().any(|x| x.eq_ignore_ascii_case(w)) {
                out.push(w.to_string());
                if out.len() == 2 { break; }
            }
        }
    }
    out
}

/// what the oracle asked the implementation, kept for the comparison with the read-path model
enum Probe {
    Lex { query: String, real: Vec<u64> },
    Vec { query: Vec<f32>, real: Vec<u64> },
}

#[derive(Default)]
struct Ctx {
    /// embedding token → vector (from the ops seen so far)
    embs: HashMap<String, Vec<f32>>,
    /// acknowledged mutations of existing frames, in order: (target, Some((new id, spec)) = update | None = delete)
    log: Vec<(u64, Option<(u64, UpdSpec)>)>,
    probes: Vec<Probe>,
}

fn remember_embs(ctx: &mut Ctx, op: &Op) {
    let mut add = |e: &EmbSpec| { let v = e.vector(); ctx.embs.insert(emb_tok(&v), v); };
    match op {
        Op::Put(p) => {
            if let Some(e) = &p.emb { add(e); }
            if let Some(ce) = &p.chunk_embs { for e in ce { add(e); } }
        }
        Op::Update(u) => { if let Some(e) = &u.emb { add(e); } }
        _ => {}
    }
}

fn oracle_c08(ctx: &mut Ctx, v: &mut StepView) -> Option<(String, String)> {
    ctx.probes.clear();
    remember_embs(ctx, v.op);
    if v.ack.is_ok() {
        match v.op {
            Op::Update(u) => ctx.log.push((u.id, Some((v.reference_before.next_id(), u.clone())))),
            Op::Delete { id } => ctx.log.push((*id, None)),
            _ => {}
        }
    }
    let obs = v.after;
    let refm = v.reference;
    let inactive: Vec<&FrameObs> = obs.frames.iter().filter(|f| !f.active()).collect();
    let is_inactive = |id: u64| obs.frames.get(id as usize).map(|f| !f.active()).unwrap_or(false);
    let describe = |id: u64| obs.frames.get(id as usize).map(|f| format!("frame {id} (status {}, superseded_by {:?})", f.status, f.superseded_by)).unwrap_or_default();

    // ---- 1. status / superseded_by / inheritance, once everything acknowledged has been applied
    let quiescent = obs.pending_inserts == 0 && !obs.dirty && obs.frames.len() == refm.frames.len();
    if quiescent {
        v.world.branches.push("quiescent-check".into());
        // the last acknowledged mutation of each target decides status and superseded_by
        let mut last: BTreeMap<u64, Option<u64>> = BTreeMap::new();
        for (t, what) in &ctx.log { last.insert(*t, what.as_ref().map(|w| w.0)); }
        for (t, what) in &last {
            let f = &obs.frames[*t as usize];
            match what {
                None => if f.status != 'd' || f.superseded_by.is_some() {
                    return Some(("committed-delete-leaves-frame-active".into(), format!("delete_frame({t}) was acknowledged and committed; the frame has status {} superseded_by {:?}", f.status, f.superseded_by)));
                },
                Some(new) => if f.status != 's' || f.superseded_by != Some(*new) {
                    return Some(("committed-update-leaves-old-version".into(), format!("update_frame({t}) → {new} was the last acknowledged call on frame {t} and is committed; the old version has status {} superseded_by {:?}", f.status, f.superseded_by)));
                },
            }
        }
        for (old, what) in &ctx.log {
            let Some((new, u)) = what else { continue };
            let (fo, fnw) = (&obs.frames[*old as usize], &obs.frames[*new as usize]);
            if fo.active() {
                return Some(("committed-update-leaves-old-version".into(), format!("update_frame({old}) → {new} committed; the old version is still Active")));
            }
            if fnw.supersedes != Some(*old) {
                return Some(("committed-update-leaves-old-version".into(), format!("new version {new} has supersedes {:?}, expected {old}", fnw.supersedes)));
            }
            let mut bad: Vec<String> = vec![];
            let exp_uri = u.uri.clone().or(fo.uri.clone());
            if fnw.uri != exp_uri { bad.push(format!("uri {:?} expected {:?}", fnw.uri, exp_uri)); }
            if fnw.ts != u.ts.unwrap_or(fo.ts) { bad.push(format!("ts {} expected {}", fnw.ts, u.ts.unwrap_or(fo.ts))); }
            let exp_kind = u.kind.clone().or(fo.kind.clone());
            if fnw.kind != exp_kind { bad.push(format!("kind {:?} expected {:?}", fnw.kind, exp_kind)); }
            let exp_track = u.track.clone().or(fo.track.clone());
            if fnw.track != exp_track { bad.push(format!("track {:?} expected {:?}", fnw.track, exp_track)); }
            let exp_tags = if u.tags.is_empty() { fo.tags.clone() } else { u.tags.clone() };
            if fnw.tags != exp_tags { bad.push(format!("tags {:?} expected {:?}", fnw.tags, exp_tags)); }
            let exp_labels = if u.labels.is_empty() { fo.labels.clone() } else { u.labels.clone() };
            if fnw.labels != exp_labels { bad.push(format!("labels {:?} expected {:?}", fnw.labels, exp_labels)); }
            // content of a payload-less update = content of the old version.  Not judged: a chunked old
            // version (C01's known finding `payloadless-update-of-chunked-document-reads-empty`) and an old
            // version whose bytes a vacuum has dropped since (`err`)
            if u.payload.is_none() && fo.manifest.is_none() && fo.content != "err" && fnw.content != "err" && fnw.content != fo.content {
                bad.push(format!("content {} expected {} (payload-less update)", fnw.content, fo.content));
            }
            if !bad.is_empty() {
                return Some(("update-does-not-inherit-unspecified-fields".into(), format!("update_frame({old}) → {new}: {}", bad.join("; "))));
            }
            v.world.branches.push(if u.payload.is_none() { "inherit-checked-reuse".into() } else { "inherit-checked-payload".into() });
        }
        // the committed table agrees with the independent reference on which frames are inactive
        for (f, r) in obs.frames.iter().zip(refm.frames.iter()) {
            if f.status != r.status || f.superseded_by != r.superseded_by {
                return Some(("frame-status-differs-from-acknowledged-calls".into(), format!("frame {}: status {} superseded_by {:?}, expected {} {:?}", f.id, f.status, f.superseded_by, r.status, r.superseded_by)));
            }
        }
    }

    // ---- 2. index membership seen from outside: persisted time index, in-memory vector index
    if let Some(t) = &obs.time {
        for (_, id) in t {
            if is_inactive(*id) { return Some(("time-index-holds-inactive-frame".into(), format!("persisted time index lists {}", describe(*id)))); }
        }
    }
    if let Some(es) = &obs.vec {
        for (id, _, _) in es {
            if is_inactive(*id) { return Some(("vector-index-holds-inactive-frame".into(), format!("in-memory vector index holds {}", describe(*id)))); }
        }
    }
    if inactive.is_empty() { return None; }
    v.world.branches.push("inactive-frames-present".into());

    // ---- 3. timeline
    for reverse in [false, true] {
        let tq = TimelineQuery { limit: NonZeroU64::new(1_000_000), since: None, until: None, reverse };
        match guarded(std::panic::AssertUnwindSafe(|| v.world.mem().timeline(tq))) {
            Ok(Ok(es)) => {
                for e in &es {
                    if is_inactive(e.frame_id) { return Some(("timeline-lists-inactive-frame".into(), format!("timeline(reverse={reverse}) lists {}", describe(e.frame_id)))); }
                    for c in &e.child_frames {
                        if is_inactive(*c) { return Some(("timeline-lists-inactive-frame".into(), format!("timeline entry {} lists child {}", e.frame_id, describe(*c)))); }
                    }
                }
            }
            Ok(Err(_)) => {}
            Err(p) => return Some(("read-path-panics".into(), format!("timeline panicked: {p}"))),
        }
    }

    // ---- 4. frame_by_uri: newest active version when one exists
    let uris: BTreeSet<String> = inactive.iter().rev().take(10).filter_map(|f| f.uri.clone()).collect();
    for u in &uris {
        let newest_active = obs.frames.iter().rev().find(|f| f.uri.as_deref() == Some(u.as_str()) && f.active()).map(|f| f.id);
        let newest_any = obs.frames.iter().rev().find(|f| f.uri.as_deref() == Some(u.as_str())).map(|f| f.id);
        let got = v.world.mem().frame_by_uri(u).ok().map(|f| f.id);
        if let Some(want) = newest_active {
            v.world.branches.push("by-uri-active-version".into());
            if got != Some(want) {
                return Some(("frame-by-uri-returns-inactive-version".into(), format!("frame_by_uri({u}) = {got:?}; the newest active frame with that URI is {want}")));
            }
        } else {
            v.world.branches.push("by-uri-no-active-version".into());
            if got != newest_any {
                return Some(("frame-by-uri-returns-inactive-version".into(), format!("frame_by_uri({u}) = {got:?}; no active frame has the URI, newest frame with it is {newest_any:?}")));
            }
        }
    }

    // ---- 5. lexical search / ask with queries aimed at the inactive frames (newest first)
    let mut budget = 9usize;
    let mut asked: BTreeSet<String> = BTreeSet::new();
    let targets: Vec<&FrameObs> = inactive.iter().rev().take(5).cloned().collect();
    for f in &targets {
        let mut queries: Vec<(String, Option<String>, Option<String>)> = vec![];
        for w in own_words(f) { queries.push((w, None, None)); }
        if let Some(w) = own_words(f).first() {
            if let Some(u) = &f.uri { queries.push((w.clone(), Some(u.clone()), None)); queries.push((w.clone(), None, Some(u.chars().take(10).collect()))); }
        }
        if let Some(t) = f.tags.first() { queries.push((format!("tag:{t}"), None, None)); }
        if let Some(l) = f.labels.first() { queries.push((format!("label:{l}"), None, None)); }
        if let Some(t) = &f.track { queries.push((format!("track:{t}"), None, None)); }
        if let Some(u) = &f.uri { queries.push((format!("uri:{u}"), None, None)); }
        for (q, uri, scope) in queries {
            let key = format!("{q}|{uri:?}|{scope:?}");
            if budget == 0 || !asked.insert(key) { continue; }
            budget -= 1;
            // third variant: the time-travel view as of the newest frame (candidate filter get_replay_frame_ids)
            let nth = asked.len();
            let mut variants: Vec<(bool, Option<u64>)> = vec![(true, None)];
            if nth <= 4 { variants.push((false, None)); }
            if nth <= 2 { variants.push((true, obs.frames.last().map(|f| f.id))); }
            for (no_sketch, as_of) in variants {
                if as_of.is_some() { v.world.branches.push("search-time-travel".into()); }
                match search_ids(v.world, &q, uri.as_deref(), scope.as_deref(), no_sketch, as_of) {
                    Ok(ids) => {
                        v.world.branches.push(if ids.is_empty() { "search-empty".into() } else { "search-hits".into() });
                        if q.contains(':') { v.world.branches.push("search-field-query".into()); }
                        if no_sketch && as_of.is_none() && ctx.probes.len() < 3 && !ids.is_empty() { ctx.probes.push(Probe::Lex { query: q.clone(), real: ids.clone() }); }
                        for id in ids {
                            if is_inactive(id) {
                                return Some(("lexical-search-returns-inactive-frame".into(),
                                    format!("search(`{q}`, uri={uri:?}, scope={scope:?}, no_sketch={no_sketch}, as_of_frame={as_of:?}) returns {}", describe(id))));
                            }
                        }
                    }
                    Err(e) => { if e.starts_with("panic") { return Some(("read-path-panics".into(), format!("search(`{q}`) {e}"))); } v.world.branches.push("search-error".into()); }
                }
            }
        }
    }
    // ask (lexical mode, no embedder) with the first word of the newest inactive frame
    let ask_word = targets.iter().flat_map(|f| own_words(f)).next();
    if let Some(w) = &ask_word {
        let req = AskRequest {
            question: w.clone(), top_k: 50, snippet_chars: 80, uri: None, scope: None, cursor: None, start: None, end: None,
            context_only: true, mode: AskMode::Lex, as_of_frame: None, as_of_ts: None, adaptive: None, acl_context: None,
            acl_enforcement_mode: AclEnforcementMode::Audit,
        };
        match guarded(std::panic::AssertUnwindSafe(|| v.world.mem().ask::<FixedEmbedder>(req, None))) {
            Ok(Ok(r)) => {
                v.world.branches.push("ask-lex".into());
                for id in r.retrieval.hits.iter().map(|h| h.frame_id).chain(r.citations.iter().map(|c| c.frame_id)) {
                    if is_inactive(id) { return Some(("ask-returns-inactive-frame".into(), format!("ask(`{w}`, Lex) retrieves {}", describe(id)))); }
                }
            }
            Ok(Err(_)) => {}
            Err(p) => return Some(("read-path-panics".into(), format!("ask panicked: {p}"))),
        }
    }

    // ---- 6. vector paths, queried with the inactive frames' own embeddings (distance 0 → rank 1)
    if obs.vec_enabled {
        let mut qs: Vec<Vec<f32>> = vec![];
        for f in inactive.iter().rev() {
            if let Some(r) = refm.frames.get(f.id as usize) {
                if let Some(t) = &r.emb { if let Some(vv) = ctx.embs.get(t) { if !qs.contains(vv) { qs.push(vv.clone()); } } }
            }
            if qs.len() >= 2 { break; }
        }
        if qs.is_empty() {
            let mut keys: Vec<&String> = ctx.embs.keys().collect();
            keys.sort();
            if let Some(k) = keys.first() { qs.push(ctx.embs[*k].clone()); }
        }
        for q in &qs {
            match guarded(std::panic::AssertUnwindSafe(|| v.world.mem().search_vec(q, 100_000))) {
                Ok(Ok(hits)) => {
                    v.world.branches.push(if hits.is_empty() { "vec-empty".into() } else { "vec-hits".into() });
                    for h in &hits { if is_inactive(h.frame_id) { return Some(("vector-search-returns-inactive-frame".into(), format!("search_vec returns {}", describe(h.frame_id)))); } }
                }
                Ok(Err(_)) => { v.world.branches.push("vec-error".into()); }
                Err(p) => return Some(("read-path-panics".into(), format!("search_vec panicked: {p}"))),
            }
            match guarded(std::panic::AssertUnwindSafe(|| v.world.mem().vec_search_with_embedding("q", q, 1000, 80, None))) {
                Ok(Ok(r)) => {
                    let ids: Vec<u64> = r.hits.iter().map(|h| h.frame_id).collect();
                    if ctx.probes.len() < 5 && !ids.is_empty() { ctx.probes.push(Probe::Vec { query: q.clone(), real: ids.clone() }); }
                    for id in ids { if is_inactive(id) { return Some(("vector-search-returns-inactive-frame".into(), format!("vec_search_with_embedding returns {}", describe(id)))); } }
                }
                Ok(Err(_)) => {}
                Err(p) => return Some(("read-path-panics".into(), format!("vec_search_with_embedding panicked: {p}"))),
            }
            let cfg = AdaptiveConfig { max_results: 1000, ..AdaptiveConfig::default() };
            match guarded(std::panic::AssertUnwindSafe(|| v.world.mem().search_adaptive("q", q, cfg, 80, None))) {
                Ok(Ok(r)) => {
                    v.world.branches.push("adaptive".into());
                    for h in &r.results { if is_inactive(h.frame_id) { return Some(("vector-search-returns-inactive-frame".into(), format!("search_adaptive returns {}", describe(h.frame_id)))); } }
                }
                Ok(Err(_)) => {}
                Err(p) => return Some(("read-path-panics".into(), format!("search_adaptive panicked: {p}"))),
            }
            // ask in hybrid mode with an embedder that returns this vector
            if let Some(w) = &ask_word {
                let req = AskRequest {
                    question: w.clone(), top_k: 50, snippet_chars: 80, uri: None, scope: None, cursor: None, start: None, end: None,
                    context_only: true, mode: AskMode::Hybrid, as_of_frame: None, as_of_ts: None, adaptive: None, acl_context: None,
                    acl_enforcement_mode: AclEnforcementMode::Audit,
                };
                let emb = FixedEmbedder(q.clone());
                match guarded(std::panic::AssertUnwindSafe(|| v.world.mem().ask(req, Some(&emb)))) {
                    Ok(Ok(r)) => {
                        v.world.branches.push("ask-hybrid".into());
                        for h in &r.retrieval.hits {
                            if is_inactive(h.frame_id) { return Some(("ask-returns-inactive-frame".into(), format!("ask(`{w}`, Hybrid) retrieves {}", describe(h.frame_id)))); }
                        }
                    }
                    Ok(Err(_)) => {}
                    Err(p) => return Some(("read-path-panics".into(), format!("ask(hybrid) panicked: {p}"))),
                }
            }
        }
    }
    None
}

// ---------------------------------------------------------------------------------------
// the read-path model against the implementation

fn ids_line(v: &[u64]) -> String { if v.is_empty() { "-".into() } else { v.iter().map(|x| x.to_string()).collect::<Vec<_>>().join(",") } }
fn parse_ids(s: &str) -> Vec<u64> { if s == "-" { vec![] } else { s.split(',').filter_map(|x| x.parse().ok()).collect() } }

/// `a` is a sub-multiset of `b`
fn sub_multiset(a: &[u64], b: &[u64]) -> bool {
    let mut m: BTreeMap<u64, i64> = BTreeMap::new();
    for x in b { *m.entry(*x).or_insert(0) += 1; }
    for x in a { let e = m.entry(*x).or_insert(0); *e -= 1; if *e < 0 { return false; } }
    true
}

/// (what, model, impl) of the first disagreement between the read-path model and the implementation
fn read_path_model_check(world: &mut World, obs: &Obs, d: &mut Driver, probes: &[Probe]) -> Option<(String, String, String)> {
    // engine contents: only when the reader shows everything the writer holds
    if !obs.tantivy_dirty {
        if let Some(Ok(docs)) = verif_hooks::tantivy_search_documents(world.mem(), MATCH_ALL, None, None, None, 1_000_000) {
            let mut real: Vec<u64> = docs.iter().map(|x| x.0).collect();
            real.sort_unstable();
            if obs.index.lex_num_docs == Some(real.len() as u64) {
                let model = parse_ids(&d.ask("lex"));
                world.branches.push(if real == model { "lex-docs-equal".into() } else { "lex-docs-subset".into() });
                if !sub_multiset(&real, &model) {
                    return Some(("engine documents not among the model's lexDocs".into(), ids_line(&model), ids_line(&real)));
                }
            } else {
                world.branches.push("lex-docs-listing-incomplete".into());
            }
        }
    }
    // timeline
    let tq = TimelineQuery { limit: NonZeroU64::new(1_000_000), since: None, until: None, reverse: false };
    if let Ok(Ok(es)) = guarded(std::panic::AssertUnwindSafe(|| world.mem().timeline(tq))) {
        let real: Vec<u64> = es.iter().map(|e| e.frame_id).collect();
        let model = d.ask("timeline");
        world.branches.push("timeline-compared".into());
        if model != ids_line(&real) { return Some(("timeline ids".into(), model, ids_line(&real))); }
    }
    // time-travel candidates
    if let Some(last) = obs.frames.last() {
        let cut = last.id / 2;
        let ts_cut = obs.frames[(obs.frames.len() - 1) / 2].ts;
        for (f, ts) in [(Some(cut), None), (None, Some(ts_cut)), (Some(last.id), Some(ts_cut))] {
            let req = SearchRequest {
                query: "x".into(), top_k: 10, snippet_chars: 80, uri: None, scope: None, cursor: None, as_of_frame: f, as_of_ts: ts,
                no_sketch: true, acl_context: None, acl_enforcement_mode: AclEnforcementMode::Audit,
            };
            if let Ok(real) = world.mem().verif_replay_frame_ids(&req) {
                let model = d.ask(&format!("replay f={} ts={}", f.map(|x| x.to_string()).unwrap_or("-".into()), ts.map(|x| x.to_string()).unwrap_or("-".into())));
                world.branches.push("replay-ids-compared".into());
                if model != ids_line(&real) { return Some((format!("get_replay_frame_ids(as_of_frame={f:?}, as_of_ts={ts:?})"), model, ids_line(&real))); }
            }
        }
    }
    // probes: what the implementation reported is among what the model's loop keeps of the raw engine answer
    for p in probes {
        match p {
            Probe::Lex { query, real } => {
                if let Some(Ok(docs)) = verif_hooks::tantivy_search_documents(world.mem(), query, None, None, None, 1_000_000) {
                    let raw: Vec<u64> = docs.iter().map(|x| x.0).collect();
                    let kept = parse_ids(&d.ask(&format!("hits {}", ids_line(&raw))));
                    world.branches.push("hits-compared".into());
                    if let Some(x) = real.iter().find(|x| !kept.contains(x)) {
                        return Some((format!("search(`{query}`) reports frame {x}, which the model's loop drops from the engine answer {}", ids_line(&raw)), ids_line(&kept), ids_line(real)));
                    }
                }
            }
            Probe::Vec { query, real } => {
                if let Ok(Ok(hits)) = guarded(std::panic::AssertUnwindSafe(|| world.mem().search_vec(query, 100_000))) {
                    let raw: Vec<u64> = hits.iter().map(|h| h.frame_id).collect();
                    let kept = parse_ids(&d.ask(&format!("vhits {}", ids_line(&raw))));
                    world.branches.push("vhits-compared".into());
                    if let Some(x) = real.iter().find(|x| !kept.contains(x)) {
                        return Some((format!("vec_search_with_embedding reports frame {x}, which the model's loop drops from the index answer {}", ids_line(&raw)), ids_line(&kept), ids_line(real)));
                    }
                }
            }
        }
    }
    None
}

// ---------------------------------------------------------------------------------------
// running one history (the shared `run_history` plus the read-path requests)

fn first_diff(a: &str, b: &str) -> String {
    let ta: Vec<&str> = a.split(|c| c == ' ' || c == ';').collect();
    let tb: Vec<&str> = b.split(|c| c == ' ' || c == ';').collect();
    for i in 0..ta.len().max(tb.len()) {
        let x = ta.get(i).copied().unwrap_or("<missing>");
        let y = tb.get(i).copied().unwrap_or("<missing>");
        if x != y { return format!("token {i}: model `{x}` vs impl `{y}`"); }
    }
    "equal".into()
}

fn run_history8(src: Source, mut drv: Option<&mut Driver>, verbose: bool) -> Outcome {
    let mut out = Outcome::default();
    let mut ctx = Ctx::default();
    let mut world = match World::create() { Ok(w) => w, Err(e) => { out.dead = Some(e); return out; } };
    if let Some(d) = drv.as_deref_mut() {
        let a = d.ask("create");
        if a != "ok" { out.disagree = Some(("create".into(), a, "ok".into())); return out; }
    }
    let mut before = world.observe();
    if let Some(d) = drv.as_deref_mut() {
        let m = d.ask("obs");
        let i = before.line();
        if m != i { out.disagree = Some((format!("after create: {}", first_diff(&m, &i)), m, i)); return out; }
    }
    let (fixed, mut genr): (Option<&[Op]>, Option<(&mut Rng, &GenProfile, usize, GenState)>) = match src {
        Source::Fixed(ops) => (Some(ops), None),
        Source::Gen { rng, prof, len, long } => { let gs = GenState::new(rng, long); (None, Some((rng, prof, len, gs))) }
    };
    let n = match (&fixed, &genr) { (Some(o), _) => o.len(), (_, Some(g)) => g.2, _ => 0 };
    for i in 0..n {
        let op: Op = match (&fixed, genr.as_mut()) {
            (Some(ops), _) => ops[i].clone(),
            (_, Some((rng, prof, len, gs))) => {
                // every generated history ends by making everything durable and visible
                if i + 3 == *len { Op::Commit } else if i + 2 == *len { Op::Reopen } else if i + 1 == *len { Op::ReadOnly }
                else { gen_op(rng, prof, gs, &before) }
            }
            _ => unreachable!(),
        };
        let ref_before = world.reference.clone();
        let step = match guarded(std::panic::AssertUnwindSafe(|| world.exec(&op))) {
            Ok(s) => s,
            Err(p) => { out.ops.push(op.clone()); out.dead = Some(format!("op {i} {}: panic in implementation: {p}", op.name())); return out; }
        };
        out.ops.push(op.clone());
        if let Ack::Err(k, d) = &step.ack { if k == "dead" { out.dead = Some(format!("op {i} {}: {d}", op.name())); return out; } }
        branch_tags(&step, &before, &mut out.branches);
        let impl_ack = step.ack.line();
        let impl_obs = step.obs.line();
        let (model_ack, model_obs) = match drv.as_deref_mut() {
            Some(d) => { let a = d.ask(&step.request); let o = d.ask("obs"); (Some(a), Some(o)) }
            None => (None, None),
        };
        if verbose {
            println!("--- op {i}: {:?}", op);
            println!("    request: {}", step.request);
            println!("    impl : {} | {}", impl_ack, step.obs.head());
            if let (Some(a), Some(o)) = (&model_ack, &model_obs) { println!("    model: {} | {}", a, o.split(" | ").next().unwrap_or("")); }
            if let Ack::Err(_, d) = &step.ack { println!("    impl error detail: {d}"); }
        }
        out.trace.push(format!("{} -> {}", step.request.chars().take(120).collect::<String>(), impl_ack));
        let mut model_same = true;
        if let (Some(a), Some(o)) = (&model_ack, &model_obs) {
            if *a != impl_ack {
                model_same = false;
                out.disagree = Some((format!("op {i} `{}` answer", op.name()), a.clone(), format!("{impl_ack} ({})", match &step.ack { Ack::Err(_, d) => d.as_str(), _ => "" })));
            } else if *o != impl_obs {
                model_same = false;
                out.disagree = Some((format!("op {i} `{}` observation: {}", op.name(), first_diff(o, &impl_obs)), o.clone(), impl_obs.clone()));
            }
        }
        if step.ack.is_ok() && matches!(op, Op::Put(_) | Op::Update(_) | Op::Delete { .. }) { out.acked_mutations += 1; }
        // property oracle on the implementation's own outputs
        let reference = world.reference.clone();
        {
            let mut view = StepView {
                index: i, op: &op, ack: &step.ack, before: &before, after: &step.obs, reference: &reference,
                reference_before: &ref_before, world: &mut world, model_ack: model_ack.as_deref(), model_obs: model_obs.as_deref(),
            };
            if let Some((sig, what)) = oracle_c08(&mut ctx, &mut view) {
                if verbose { println!("    ORACLE {sig}: {what}"); }
                out.oracle = Some((sig, format!("op {i} ({}): {what}", op.name()), i, model_same));
            }
        }
        // read-path model vs implementation
        if out.disagree.is_none() {
            if let Some(d) = drv.as_deref_mut() {
                if let Some((what, m, im)) = read_path_model_check(&mut world, &step.obs, d, &ctx.probes) {
                    if verbose { println!("    READ-PATH DISAGREE {what}: model {m} impl {im}"); }
                    out.disagree = Some((format!("op {i} `{}` read paths: {what}", op.name()), m, im));
                }
            }
        }
        out.branches.append(&mut world.branches);
        out.final_frames = step.obs.frames.len();
        before = step.obs;
        if out.oracle.is_some() || out.disagree.is_some() { break; }
    }
    out
}

fn ops_json(ops: &[Op]) -> Value { serde_json::to_value(ops).unwrap_or(Value::Null) }

/// failure classes that belong to other properties of the family: recorded as notes, not judged here
fn foreign_death(d: &str) -> bool {
    d.contains("open-after-crash-failed") || d.contains("open-failed") || d.contains("open-read-only-failed") || d.contains("open-after-doctor-failed")
}

fn record(sum: &mut Summary, args: &Args, drv: &mut Option<Driver>, label: &str, out: Outcome, shrink_budget_s: u64) {
    for b in &out.branches { sum.branch(b); }
    let canon = out.trace.join(";");
    let nontrivial = out.acked_mutations >= 2 && out.branches.iter().any(|b| matches!(b.as_str(), "auto-commit" | "op-commit" | "op-reopen" | "op-crash" | "drop-commit"));
    sum.case(&canon, nontrivial, || json!({"label": label, "ops": out.ops.len(), "acked_mutations": out.acked_mutations, "frames": out.final_frames,
        "trace_tail": out.trace.iter().rev().take(3).collect::<Vec<_>>()}));
    if let Some(d) = &out.dead {
        if foreign_death(d) {
            // the file can no longer be opened: no read path returns anything; durability of the file is
            // the business of C01–C04 / C22 — noted, with a replay file, not a verdict about C08
            sum.branch("history-ended-by-unopenable-file");
            let p = args.replay_dir.join(format!("C08-note-unopenable-{}.json", b3short(serde_json::to_string(&ops_json(&out.ops)).unwrap_or_default().as_bytes())));
            let _ = std::fs::create_dir_all(&args.replay_dir);
            let _ = std::fs::write(&p, serde_json::to_string_pretty(&json!({"property": "C08", "kind": "note", "case": {"input": {"ops": ops_json(&out.ops)}, "what": d}})).unwrap());
            sum.notes.push(format!("{label}: {d} (outside C08; replay {})", p.display()));
        } else {
            sum.oracle_violation("implementation-failed", d, json!({"ops": ops_json(&out.ops)}));
        }
        return;
    }
    if out.oracle.is_none() && out.disagree.is_none() { return; }
    let want_sig: Option<String> = out.oracle.as_ref().map(|o| o.0.clone());
    let t0 = std::time::Instant::now();
    let mut fails = |cand: &[Op]| -> bool {
        if t0.elapsed().as_secs() > shrink_budget_s { return false; }
        let o = run_history8(Source::Fixed(cand), drv.as_mut(), false);
        match &want_sig { Some(s) => o.oracle.as_ref().map(|x| &x.0) == Some(s), None => o.disagree.is_some() && o.oracle.is_none() }
    };
    let small = shrink_list(&out.ops, &mut fails);
    let o2 = run_history8(Source::Fixed(&small), drv.as_mut(), false);
    let case = json!({"ops": ops_json(&small), "label": label});
    let known: Vec<String> = args.extra.get("known").map(|s| s.split(',').map(|x| x.to_string()).collect()).unwrap_or_default();
    let (oracle_res, disagree_res) = if o2.oracle.is_some() || o2.disagree.is_some() { (o2.oracle, o2.disagree) } else { (out.oracle, out.disagree) };
    if let Some((sig, what, _, model_same)) = oracle_res {
        if model_same && known.iter().any(|k| *k == sig) { sum.known_finding(&sig, &what, case); } else { sum.oracle_violation(&sig, &what, case); }
    } else if let Some((what, m, i)) = disagree_res {
        let cut = |s: &str| s.chars().take(1500).collect::<String>();
        sum.disagreement(&what, case, &cut(&m), &cut(&i));
    }
}

fn main() {
    let args = mvh::parse_args();
    let mut prof = GenProfile::standard(args.thorough);
    // more deletes / updates, embeddings on more puts, the bulk paths that detach the engine
    prof.w_update = 18; prof.w_delete = 16; prof.w_skip = 4; prof.w_finalize = 3; prof.emb_percent = 45; prof.wrong_dim_percent = 1;
    prof.w_reopen = 6; prof.w_crash = 4; prof.w_ticket = 0;
    prof.n_short = if args.thorough { 70 } else { 22 };
    prof.n_long = if args.thorough { 6 } else { 2 };
    prof.short_len = (12, 50);
    prof.corpus = corpus();
    let rule = "the Core history generator with more updates / deletes / embeddings / skip-index commits; after every op, for every \
                frame the committed table marks Superseded or Deleted: search (word, tag, label, track, uri queries built from that \
                frame, uri and scope filters, with and without sketch pre-filter), ask (Lex and Hybrid), search_vec / \
                vec_search_with_embedding / search_adaptive (queried with that frame's own embedding), timeline (both directions, \
                children too), the persisted time index and the in-memory vector index never name it, frame_by_uri returns the \
                newest active version; when nothing is pending: deleted / updated frames are inactive, superseded_by = id of the last \
                acknowledged update, unspecified fields inherited; model side: full Core observation + engine document ids + timeline \
                ids + search / vector hit loops; non-trivial = at least two acknowledged mutations and a commit point; distinct = op/answer trace";
    let mut drv: Option<Driver> = if args.driver.as_os_str() == "none" { None } else { Some(Driver::spawn(&args.driver).expect("spawn driver")) };
    let mut sum = Summary::new("C08", &args, rule);
    sum.expect_branches(&["inactive-frames-present", "quiescent-check", "inherit-checked-reuse", "inherit-checked-payload", "search-hits",
        "search-field-query", "vec-hits", "adaptive", "ask-lex", "ask-hybrid", "by-uri-active-version", "by-uri-no-active-version", "op-skip",
        "op-finalize", "op-vacuum", "wal-replay-on-open", "auto-commit", "update-reuse", "update-payload", "timeline-compared",
        "hits-compared", "vhits-compared", "lex-docs-equal", "replay-ids-compared", "search-time-travel"]);
    if args.mode == "replay" {
        let case = load_replay(args.replay_file.as_ref().expect("replay file"));
        let input = case.get("input").unwrap_or(&case);
        let ops = ops_from_json(&input["ops"]);
        let out = run_history8(Source::Fixed(&ops), drv.as_mut(), true);
        if let Some((sig, what, _, _)) = &out.oracle { println!("ORACLE {sig}: {what}"); }
        if let Some((w, m, i)) = &out.disagree { println!("DISAGREE {w}\n  model: {}\n  impl : {}", m.chars().take(600).collect::<String>(), i.chars().take(600).collect::<String>()); }
        if let Some(d) = &out.dead { println!("DEAD {d}"); }
        record(&mut sum, &args, &mut drv, "replay", out, 0);
        sum.model_requests = drv.as_ref().map(|d| d.requests).unwrap_or(0);
        sum.finish(&args);
    }
    if let Some(n) = args.extra.get("nshort").and_then(|s| s.parse().ok()) { prof.n_short = n; }
    if let Some(n) = args.extra.get("nlong").and_then(|s| s.parse().ok()) { prof.n_long = n; }
    let max_fail: usize = args.extra.get("maxfail").and_then(|s| s.parse().ok()).unwrap_or(3);
    let budget = args.extra.get("shrink").and_then(|s| s.parse().ok()).unwrap_or(if args.thorough { 180 } else { 40 });
    for (label, ops) in prof.corpus.clone() {
        let out = run_history8(Source::Fixed(&ops), drv.as_mut(), false);
        sum.branch("corpus");
        record(&mut sum, &args, &mut drv, &label, out, budget);
    }
    let mut rng = Rng::new(args.seed);
    for k in 0..prof.n_short {
        if sum.oracle_violations.len() + sum.disagreements.len() >= max_fail { break; }
        let len = rng.usize(prof.short_len.0, prof.short_len.1);
        let mut r = rng.fork();
        let out = run_history8(Source::Gen { rng: &mut r, prof: &prof, len, long: false }, drv.as_mut(), false);
        record(&mut sum, &args, &mut drv, &format!("short-{k}"), out, budget);
    }
    for k in 0..prof.n_long {
        if sum.oracle_violations.len() + sum.disagreements.len() >= max_fail { break; }
        let len = rng.usize(prof.long_len.0, prof.long_len.1);
        let mut r = rng.fork();
        let mut p = prof.clone();
        // long histories: mostly puts, so that the WAL fills, checkpoints automatically and wraps
        p.w_put = 60; p.w_update = 12; p.w_delete = 12; p.w_commit = 2; p.w_reopen = 2; p.w_crash = 2; p.w_vacuum = 1; p.w_doctor = 0;
        p.w_skip = 1; p.w_finalize = 1; p.w_ticket = 0; p.w_batch = 2; p.w_readonly = 0;
        let out = run_history8(Source::Gen { rng: &mut r, prof: &p, len, long: true }, drv.as_mut(), false);
        sum.branch("long-history");
        record(&mut sum, &args, &mut drv, &format!("long-{k}"), out, budget);
    }
    sum.model_requests = drv.as_ref().map(|d| d.requests).unwrap_or(0);
    sum.finish(&args);
}

fn corpus() -> Vec<(String, Vec<Op>)> {
    let put = |kind, len, seed, ts| Op::Put(PutSpec::simple(PayloadSpec::new(kind, len, seed), ts));
    let put_emb = |len, seed: u64, ts, eseed| {
        let mut p = PutSpec::simple(PayloadSpec::new(PayloadKind::Ascii, len, seed), ts);
        p.emb = Some(EmbSpec { dim: 4, seed: eseed });
        p.uri = Some(format!("mv2://doc/e{seed}.txt"));
        p.tags = vec!["news".into()];
        Op::Put(p)
    };
    vec![
        // the witness of the defect repaired by fixes/C10.diff: a delete committed through
        // commit_skip_indexes never reaches the engine (it is detached while the records are applied)
        ("delete-then-skip-index-commit".into(), vec![put(PayloadKind::Ascii, 60, 1, 100), put(PayloadKind::Ascii, 50, 2, 101), Op::Commit,
            Op::Delete { id: 0 }, Op::CommitSkip, Op::Finalize]),
        // … and the stale entry survives a later full commit (incremental engine update)
        ("update-then-skip-index-commit".into(), vec![put_emb(80, 3, 100, 7), put_emb(70, 4, 101, 8), Op::Commit,
            Op::Update(UpdSpec { id: 0, tags: vec!["red".into()], ..Default::default() }), Op::CommitSkip,
            put(PayloadKind::Bin, 9, 5, 102), Op::Commit, Op::Reopen]),
        ("delete-update-commit-reopen".into(), vec![put_emb(90, 6, 100, 9), put_emb(3000, 7, 101, 10), put(PayloadKind::Utf8, 200, 8, 102), Op::Commit,
            Op::Delete { id: 0 }, Op::Update(UpdSpec { id: 2, payload: Some(PayloadSpec::new(PayloadKind::Ascii, 120, 9)), ..Default::default() }),
            Op::Commit, Op::Reopen, Op::Vacuum, Op::Crash]),
        ("delete-pending-crash".into(), vec![put_emb(90, 10, 100, 11), put_emb(60, 11, 101, 12), Op::Commit, Op::Delete { id: 1 },
            Op::Update(UpdSpec { id: 0, uri: Some("mv2://upd/x.md".into()), emb: Some(EmbSpec { dim: 4, seed: 13 }), ..Default::default() }),
            Op::Crash, Op::Doctor { vacuum: false, rebuild_time: true, rebuild_lex: true, rebuild_vec: false }]),
        // update and delete of the same frame before one commit: both acknowledged (the table still shows
        // it Active), the last one decides
        ("update-then-delete-same-frame-one-commit".into(), vec![put_emb(90, 14, 100, 15), put(PayloadKind::Ascii, 40, 16, 101), Op::Commit,
            Op::Update(UpdSpec { id: 0, kind: Some("note".into()), ..Default::default() }), Op::Delete { id: 0 },
            Op::Update(UpdSpec { id: 1, ts: Some(500), ..Default::default() }), Op::Update(UpdSpec { id: 1, labels: vec!["blue".into()], ..Default::default() }),
            Op::Commit, Op::Reopen]),
    ]
}
