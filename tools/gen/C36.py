#!/usr/bin/env python3
"""C36: the regex literals of src/pii.rs -> Lean `Mv.Regex.Re` ASTs, in the order mask_pii applies
them (with the replacement tokens) and the order contains_pii tests them; plus the Unicode tables
(\\d, \\s, \\w, simple case folding partners of ASCII letters) of the regex-syntax crate version
pinned in Cargo.lock.

Exit 2 (TRANSLATOR-FAILED) when: a pattern uses syntax outside the supported subset, a pattern or a
repetition body can match the empty string, a replacement contains `$`, mask_pii / contains_pii do
not have the expected shape (a chain of replace_all / an || of is_match over the pattern statics), or
the regex-syntax sources cannot be found."""
import glob
from common import *

# ----------------------------------------------------------------------------- tiny Rust lexer

def lex(src):
    """tokens: ('id', text) | ('str', value) | ('p', char).  Comments dropped."""
    toks, i, n = [], 0, len(src)
    while i < n:
        c = src[i]
        if c.isspace():
            i += 1
        elif src.startswith("//", i):
            j = src.find("\n", i); i = n if j < 0 else j
        elif src.startswith("/*", i):
            j = src.find("*/", i + 2); i = n if j < 0 else j + 2
        elif c == "r" and re.match(r'r#*"', src[i:]):
            m = re.match(r'r(#*)"', src[i:])
            close = '"' + m.group(1)
            j = src.find(close, i + len(m.group(0)))
            if j < 0:
                raise TranslateError("unterminated raw string")
            toks.append(("str", src[i + len(m.group(0)):j])); i = j + len(close)
        elif c == '"':
            j, out = i + 1, []
            while j < n and src[j] != '"':
                if src[j] == "\\":
                    e = src[j + 1]
                    simple = {"n": "\n", "t": "\t", "r": "\r", "\\": "\\", '"': '"', "'": "'", "0": "\0"}
                    if e in simple:
                        out.append(simple[e]); j += 2
                    else:
                        raise TranslateError(f"string escape \\{e} not supported by the translator")
                else:
                    out.append(src[j]); j += 1
            toks.append(("str", "".join(out))); i = j + 1
        elif c == "'":
            m = re.match(r"'(\\.|[^\\'])'", src[i:])
            if m:
                toks.append(("chr", m.group(1))); i += len(m.group(0))
            else:
                toks.append(("p", c)); i += 1
        elif c.isalnum() or c == "_":
            m = re.match(r"\w+", src[i:])
            toks.append(("id", m.group(0))); i += len(m.group(0))
        else:
            toks.append(("p", c)); i += 1
    return toks


def fn_body(toks, name):
    for i in range(len(toks) - 1):
        if toks[i] == ("id", "fn") and toks[i + 1] == ("id", name):
            j = i
            while toks[j] != ("p", "{"):
                j += 1
            depth, k = 0, j
            while True:
                if toks[k] == ("p", "{"): depth += 1
                if toks[k] == ("p", "}"):
                    depth -= 1
                    if depth == 0:
                        return toks[j + 1:k]
                k += 1
    raise TranslateError(f"fn {name} not found")


def expect(toks, i, spec, what):
    """spec: string of space separated ids/puncts; returns new index"""
    for w in spec.split():
        t = toks[i] if i < len(toks) else None
        if t is None or t[0] not in ("id", "p") or t[1] != w:
            raise TranslateError(f"{what}: expected `{w}` at token {i}, found {t}")
        i += 1
    return i

# ----------------------------------------------------------------------------- regex parser

class P:
    def __init__(self, pat, name):
        self.s, self.i, self.name, self.ci = pat, 0, name, False

    def fail(self, msg):
        raise TranslateError(f"{self.name}: unsupported regex syntax at offset {self.i}: {msg} in {self.s!r}")

    def peek(self):
        return self.s[self.i] if self.i < len(self.s) else None

    def parse(self):
        if self.s.startswith("(?i)"):
            self.ci = True; self.i = 4
        r = self.alt()
        if self.i != len(self.s):
            self.fail("unbalanced )")
        return r

    def alt(self):
        branches = [self.concat()]
        while self.peek() == "|":
            self.i += 1
            branches.append(self.concat())
        return branches[0] if len(branches) == 1 else ("alt", branches)

    def concat(self):
        items = []
        while self.peek() is not None and self.peek() not in "|)":
            items.append(self.quantified())
        if not items:
            return ("eps",)
        return items[0] if len(items) == 1 else ("seq", items)

    def quantified(self):
        a = self.atom()
        c = self.peek()
        q = None
        if c == "?": q = (0, 1); self.i += 1
        elif c == "*": q = (0, None); self.i += 1
        elif c == "+": q = (1, None); self.i += 1
        elif c == "{":
            m = re.match(r"\{(\d+)(,(\d*))?\}", self.s[self.i:])
            if not m:
                self.fail("malformed {..} quantifier")
            lo = int(m.group(1))
            hi = lo if m.group(2) is None else (None if m.group(3) == "" else int(m.group(3)))
            if hi is not None and hi < lo:
                self.fail("quantifier bounds out of order")
            q = (lo, hi); self.i += len(m.group(0))
        if q is None:
            return a
        if self.peek() in ("?", "+", "*", "{"):
            self.fail("lazy/possessive/stacked quantifier")
        if a[0] == "wordb":
            self.fail("quantified \\b")
        if nullable(a):
            self.fail("repetition of a sub-pattern that can match the empty string")
        return ("rep", a, q[0], q[1])

    def lit(self, ch):
        cp = ord(ch)
        if self.ci and cp >= 128:
            self.fail("non-ASCII literal under (?i)")
        return ("cls", False, self.ci, [("range", cp, cp)])

    def escape_class_item(self, e):
        if e == "d": return ("digit",)
        if e == "s": return ("space",)
        if e == "w": return ("word",)
        return None

    def escape_char(self, e):
        simple = {"n": "\n", "t": "\t", "r": "\r"}
        if e in simple:
            return simple[e]
        if ord(e) < 128 and not e.isalnum() and not e.isspace():
            return e
        return None

    def atom(self):
        c = self.peek()
        if c == "(":
            if self.s.startswith("(?:", self.i):
                self.i += 3
            elif self.s.startswith("(?", self.i):
                self.fail("group flags / named group / look-around")
            else:
                self.i += 1          # capturing group: same language, replacements have no $refs (checked)
            r = self.alt()
            if self.peek() != ")":
                self.fail("missing )")
            self.i += 1
            return r
        if c == "[":
            return self.cls()
        if c == ".":
            self.i += 1
            return ("cls", True, False, [("range", 10, 10)])
        if c in "^$":
            self.fail("anchor")
        if c in "*+?{}])":
            self.fail(f"stray {c}")
        if c == "\\":
            e = self.s[self.i + 1] if self.i + 1 < len(self.s) else None
            if e is None:
                self.fail("trailing backslash")
            self.i += 2
            if e == "b":
                return ("wordb",)
            it = self.escape_class_item(e)
            if it:
                return ("cls", False, False, [it])
            if e in "DSW":
                return ("cls", True, False, [self.escape_class_item(e.lower())])
            ch = self.escape_char(e)
            if ch is None:
                self.i -= 2
                self.fail(f"escape \\{e}")
            return self.lit(ch)
        self.i += 1
        return self.lit(c)

    def cls(self):
        assert self.peek() == "["
        self.i += 1
        neg = False
        if self.peek() == "^":
            neg = True; self.i += 1
        items, first = [], True
        while True:
            c = self.peek()
            if c is None:
                self.fail("unterminated class")
            if c == "]" and not first:
                self.i += 1
                break
            first = False
            if c == "[":
                self.fail("nested class / POSIX class")
            if self.s.startswith("&&", self.i) or self.s.startswith("--", self.i) or self.s.startswith("~~", self.i):
                self.fail("class set operation")
            lo = self.cls_atom()
            if isinstance(lo, tuple):
                items.append(lo)
                continue
            if self.peek() == "-" and self.i + 1 < len(self.s) and self.s[self.i + 1] != "]":
                self.i += 1
                hi = self.cls_atom()
                if isinstance(hi, tuple):
                    self.fail("range ending in a class escape")
                if ord(hi) < ord(lo):
                    self.fail("range out of order")
                items.append(("range", ord(lo), ord(hi)))
            else:
                items.append(("range", ord(lo), ord(lo)))
        if self.ci:
            for it in items:
                if it[0] == "range" and it[2] >= 128:
                    self.fail("non-ASCII class member under (?i)")
        return ("cls", neg, self.ci, items)

    def cls_atom(self):
        c = self.peek()
        if c == "\\":
            e = self.s[self.i + 1] if self.i + 1 < len(self.s) else None
            if e is None:
                self.fail("trailing backslash")
            self.i += 2
            it = self.escape_class_item(e)
            if it:
                return it
            ch = self.escape_char(e)
            if ch is None:
                self.i -= 2
                self.fail(f"escape \\{e} in class")
            return ch
        self.i += 1
        return c


def nullable(r):
    k = r[0]
    if k in ("eps", "wordb"): return True
    if k == "cls": return False
    if k == "seq": return all(nullable(x) for x in r[1])
    if k == "alt": return any(nullable(x) for x in r[1])
    if k == "rep": return r[2] == 0 or nullable(r[1])
    raise AssertionError(k)


def lean_item(it):
    if it[0] == "range":
        return f".range {it[1]} {it[2]}"
    return "." + it[0]


def lean_re(r):
    k = r[0]
    if k == "eps": return "Re.eps"
    if k == "wordb": return "Re.wordB"
    if k == "cls":
        _, neg, ci, items = r
        if not neg and len(items) == 1 and items[0][0] == "range" and items[0][1] == items[0][2]:
            return f"Re.lit {str(ci).lower()} {items[0][1]}"
        return ("Re.cls ⟨" + str(neg).lower() + ", " + str(ci).lower() + ", ["
                + ", ".join(lean_item(i) for i in items) + "]⟩")
    if k == "seq": return "Re.seq [" + ", ".join(lean_re(x) for x in r[1]) + "]"
    if k == "alt": return "Re.alts [" + ", ".join(lean_re(x) for x in r[1]) + "]"
    if k == "rep":
        hi = "none" if r[3] is None else f"(some {r[3]})"
        return f"Re.rep ({lean_re(r[1])}) {r[2]} {hi}"
    raise AssertionError(k)

# ----------------------------------------------------------------------------- Unicode tables

def regex_syntax_dir():
    lock = read("Cargo.lock")
    m = re.search(r'name = "regex-syntax"\s*\nversion = "([^"]+)"', lock)
    if not m:
        raise TranslateError("regex-syntax not in Cargo.lock")
    ver = m.group(1)
    home = os.environ.get("CARGO_HOME", os.path.expanduser("~/.cargo"))
    cands = sorted(glob.glob(f"{home}/registry/src/*/regex-syntax-{ver}/src/unicode_tables"))
    if not cands:
        raise TranslateError(f"regex-syntax {ver} sources not found under {home}/registry/src")
    return ver, cands[0]


def rust_char(tok):
    """value of the inside of a Rust char literal"""
    if tok.startswith("\\u{"):
        return int(tok[3:-1], 16)
    simple = {"\\n": 10, "\\t": 9, "\\r": 13, "\\\\": 92, "\\'": 39, "\\0": 0}
    if tok in simple:
        return simple[tok]
    if len(tok) != 1:
        raise TranslateError(f"cannot read char literal {tok!r}")
    return ord(tok)


CHAR = r"'(\\u\{[0-9a-fA-F]+\}|\\.|[^\\'])'"


def range_table(path, const):
    src = open(path, encoding="utf-8").read()
    m = re.search(r"pub const " + const + r": &'static \[\(char, char\)\] = &\[(.*?)\];", src, re.S)
    if not m:
        raise TranslateError(f"table {const} not found in {path}")
    out = [(rust_char(a), rust_char(b)) for a, b in re.findall(r"\(" + CHAR + r",\s*" + CHAR + r"\)", m.group(1))]
    if not out:
        raise TranslateError(f"table {const} empty")
    return out


def fold_partners(path):
    """(non-ASCII cp, ASCII cp) pairs that share a simple case folding orbit"""
    src = open(path, encoding="utf-8").read()
    m = re.search(r"pub const CASE_FOLDING_SIMPLE: .*? = &\[(.*)\];", src, re.S)
    if not m:
        raise TranslateError("CASE_FOLDING_SIMPLE not found")
    pairs = set()
    n = 0
    for a, bs in re.findall(r"\(" + CHAR + r",\s*&\[(.*?)\]\)", m.group(1)):
        n += 1
        a = rust_char(a)
        for b in re.findall(CHAR, bs):
            b = rust_char(b)
            if a >= 128 and b < 128:
                pairs.add((a, b))
            if b >= 128 and a < 128:
                pairs.add((b, a))
            if a < 128 and b < 128 and not (chr(a).isalpha() and chr(a).swapcase() == chr(b)):
                raise TranslateError(f"unexpected ASCII fold pair {a} {b}")
    if n < 1000:
        raise TranslateError("CASE_FOLDING_SIMPLE suspiciously small")
    return sorted(pairs)


def lean_pairs(ps, per_line=8):
    lines = []
    for i in range(0, len(ps), per_line):
        lines.append("  " + ", ".join(f"({a}, {b})" for a, b in ps[i:i + per_line]))
    return "[\n" + ",\n".join(lines) + "]"

# ----------------------------------------------------------------------------- main

def run():
    src = read("src/pii.rs")
    toks = lex(src)
    # statics: static NAME : ...LazyLock<Regex> = ...LazyLock::new(|| { Regex::new( STR ,? ) . expect(STR) });
    pats = {}
    for i, t in enumerate(toks):
        if t == ("id", "static") and toks[i + 1][0] == "id":
            name = toks[i + 1][1]
            j = i + 2
            # up to the terminating ';' at depth 0
            depth, k = 0, j
            while not (toks[k] == ("p", ";") and depth == 0):
                if toks[k][0] == "p" and toks[k][1] in "({[": depth += 1
                if toks[k][0] == "p" and toks[k][1] in ")}]": depth -= 1
                k += 1
            seg = toks[j:k]
            ids = [x[1] for x in seg if x[0] == "id"]
            if "Regex" not in ids:
                continue
            # find Regex :: new ( STR ,? )
            found = None
            for a in range(len(seg) - 5):
                if seg[a] == ("id", "Regex") and seg[a + 1] == ("p", ":") and seg[a + 2] == ("p", ":") \
                        and seg[a + 3] == ("id", "new") and seg[a + 4] == ("p", "("):
                    if seg[a + 5][0] != "str":
                        raise TranslateError(f"{name}: Regex::new argument is not a string literal")
                    b = a + 6
                    if seg[b] == ("p", ","): b += 1
                    if seg[b] != ("p", ")"):
                        raise TranslateError(f"{name}: Regex::new has more than a literal argument")
                    found = seg[a + 5][1]
            if found is None:
                raise TranslateError(f"{name}: Regex::new(..) not found in static initialiser")
            pats[name] = found
    if not pats:
        raise TranslateError("no Regex statics found in src/pii.rs")

    # mask_pii: let mut masked = text.to_string(); (masked = NAME.replace_all(&masked, STR).to_string();)* masked
    body = fn_body(toks, "mask_pii")
    i = expect(body, 0, "let mut masked = text . to_string ( ) ;", "mask_pii")
    order = []
    while i < len(body) and not (i == len(body) - 1 and body[i] == ("id", "masked")):
        i = expect(body, i, "masked =", "mask_pii")
        if body[i][0] != "id" or body[i][1] not in pats:
            raise TranslateError(f"mask_pii: {body[i]} is not one of the pattern statics")
        name = body[i][1]
        i = expect(body, i + 1, ". replace_all ( & masked ,", "mask_pii")
        if body[i][0] != "str":
            raise TranslateError("mask_pii: replacement is not a string literal")
        tok = body[i][1]
        if "$" in tok:
            raise TranslateError(f"mask_pii: replacement {tok!r} contains '$' (capture expansion not modelled)")
        i = expect(body, i + 1, ") . to_string ( ) ;", "mask_pii")
        order.append((name, tok))
    if i != len(body) - 1 or body[i] != ("id", "masked"):
        raise TranslateError("mask_pii: does not end by returning `masked`")
    if not order:
        raise TranslateError("mask_pii: no replace_all pass found")

    # contains_pii: NAME.is_match(text) (|| NAME.is_match(text))*
    body = fn_body(toks, "contains_pii")
    i, corder = 0, []
    while True:
        if i >= len(body) or body[i][0] != "id" or body[i][1] not in pats:
            raise TranslateError(f"contains_pii: expected a pattern static at token {i}")
        corder.append(body[i][1])
        i = expect(body, i + 1, ". is_match ( text )", "contains_pii")
        if i == len(body):
            break
        i = expect(body, i, "| |", "contains_pii")

    used = [n for n in pats if n in {x for x, _ in order} | set(corder)]
    out = []
    for name in used:
        p = P(pats[name], name)
        ast = p.parse()
        if nullable(ast):
            raise TranslateError(f"{name}: pattern can match the empty string (empty-match rules not modelled)")
        shown = pats[name].replace("\n", "\\n").replace("\r", "\\r")
        out.append(f"-- {name} = {shown}\ndef {name} : Re :=\n  {lean_re(ast)}\n")

    ver, tdir = regex_syntax_dir()
    digit = range_table(f"{tdir}/perl_decimal.rs", "DECIMAL_NUMBER")
    space = range_table(f"{tdir}/perl_space.rs", "WHITE_SPACE")
    word = range_table(f"{tdir}/perl_word.rs", "PERL_WORD")
    fold = fold_partners(f"{tdir}/case_folding_simple.rs")
    # the model hard-wires the ASCII part of these tables: check it
    def ascii_set(t): return {c for a, b in t for c in range(a, min(b, 127) + 1) if a < 128}
    if ascii_set(digit) != set(range(48, 58)) or ascii_set(space) != {9, 10, 11, 12, 13, 32} \
            or ascii_set(word) != set(range(48, 58)) | set(range(65, 91)) | set(range(97, 123)) | {95}:
        raise TranslateError("ASCII part of the regex-syntax tables differs from the model's built-in ASCII classes")
    na = lambda t: [(max(a, 128), b) for a, b in t if b >= 128]

    def cps(s): return "[" + ", ".join(str(ord(c)) for c in s) + "]"
    body = "open Mv.Regex\n\n" + "\n".join(out) + "\n"
    body += "/-- passes of mask_pii in source order: (pattern, replacement code points, replacement text, static name) -/\n"
    body += "def maskOrder : List (Re × List Nat) :=\n  [" + ",\n   ".join(f"({n}, {cps(t)})" for n, t in order) + "]\n\n"
    body += "def maskNames : List (String × String) :=\n  [" + ", ".join(f'("{n}", "{t}")' for n, t in order) + "]\n\n"
    body += "/-- patterns contains_pii tests, in source order -/\n"
    body += "def containsOrder : List Re :=\n  [" + ", ".join(corder) + "]\n\n"
    body += "def containsNames : List String :=\n  " + lean_str_list(corder) + "\n\n"
    body += f"/-- non-ASCII part of the Unicode tables of regex-syntax {ver} -/\n"
    body += f'def tablesVersion : String := "regex-syntax {ver}"\n'
    body += "def tables : Tables where\n"
    body += "  digit := " + lean_pairs(na(digit)) + "\n"
    body += "  space := " + lean_pairs(na(space)) + "\n"
    body += "  word := " + lean_pairs(na(word)) + "\n"
    body += "  fold := " + lean_pairs(fold) + "\n"
    return emit("C36", body, header="import MvModel.Regex\n")


main(run)
