//! C29 stub (timing probe) — replaced by the real harness.
#[cfg(not(feature = "encryption"))]
fn main() {
    eprintln!("c29: built without --features encryption");
    std::process::exit(12)
}

#[cfg(feature = "encryption")]
fn main() {
    use memvid_core::encryption::{lock_file, unlock_file};
    let dir = tempfile::tempdir().unwrap();
    let p = dir.path().join("a.mv2");
    let mut f = b"MV2\0".to_vec();
    f.extend(std::iter::repeat(7u8).take(3 * 1024 * 1024));
    std::fs::write(&p, &f).unwrap();
    let t = std::time::Instant::now();
    let c = lock_file(&p, None, b"pw").unwrap();
    println!("lock {:?}", t.elapsed());
    let t = std::time::Instant::now();
    let o = dir.path().join("o.mv2");
    unlock_file(&c, Some(&o), b"pw").unwrap();
    println!("unlock {:?}", t.elapsed());
    assert_eq!(std::fs::read(&o).unwrap(), f);
}
