/- C22 / C31: what `locate_footer_window` computes.  The doubling loop equals "the first window of the
   arithmetic plan `windowPlanWith` whose tail holds a valid footer" — for every file, every positive
   `MAX_SEARCH_SIZE`.  The plan is bytes-free, so the harness evaluates it for files larger than
   16 MiB (where the real constant makes the second iteration reachable) and checks the real function
   against `plan + find_last_valid_footer` (C31's function). -/
import MvProps.C22
namespace Mv.Dec
open Mv

/-- first window of a plan that holds a valid footer -/
def planResult (H : Bytes → Bytes) (mmap : Bytes) (plan : List Nat) : Option (Footer.FooterSlice × Nat) :=
  plan.findSome? fun start => (Footer.findLast H (mmap.drop start)).map fun s => (s, start)

theorem windowLoop_eq_plan (H : Bytes → Bytes) (mmap : Bytes) (hlen : mmap.length < 2^63) :
    ∀ fuel window, 1 ≤ window → window ≤ mmap.length → mmap.length < fuel + window →
      windowLoop H mmap fuel window = .ok (planResult H mmap (windowStarts fuel mmap.length window))
  | 0, w, _, h2, h3 => by omega
  | fuel + 1, w, h1, h2, h3 => by
    have hsub : subP mmap.length w = .ok (mmap.length - w) := by simp [subP, h2]
    have hsl : sliceP mmap (mmap.length - w) mmap.length = .ok (mmap.drop (mmap.length - w)) := by
      have : mmap.length - w ≤ mmap.length := Nat.sub_le _ _
      simp only [sliceP, this, Nat.le_refl, and_self, ↓reduceIte, slice]
      congr 1
      apply List.take_of_length_le
      simp only [List.length_drop]; omega
    unfold windowLoop
    rw [hsub]; simp only [Out.bind]
    rw [hsl]; simp only [Out.bind]
    unfold windowStarts planResult
    simp only [List.findSome?_cons]
    cases hf : Footer.findLast H (mmap.drop (mmap.length - w)) with
    | some s => simp
    | none =>
      simp only [Option.map_none]
      by_cases hw : w = mmap.length
      · simp [hw]
      · simp only [hw, ↓reduceIte]
        have hmul : mulP w 2 = .ok (w * 2) := by
          have : w * 2 < 2^64 := by omega
          simp [mulP, this]
        rw [hmul]; simp only [Out.bind]
        have ih := windowLoop_eq_plan H mmap hlen fuel (min (w * 2) mmap.length)
          (by simp only [Nat.min_def]; split <;> omega) (Nat.min_le_right _ _)
          (by simp only [Nat.min_def]; split <;> omega)
        rw [ih]; rfl

/-- **C22_window_plan** — `locate_footer_window` returns the last valid footer (C31: `findLast`) of
    the FIRST window in the doubling plan whose tail contains one, together with that window's
    start; `none` iff no window does.  Any positive search size, any file below 2^63 bytes. -/
theorem C22_window_plan (maxSearch : Nat) (hmax : 1 ≤ maxSearch) (H : Bytes → Bytes) (mmap : Bytes)
    (hlen : mmap.length < 2^63) :
    locateWindowWith maxSearch H mmap = .ok (planResult H mmap (windowPlanWith maxSearch mmap.length)) := by
  unfold locateWindowWith windowPlanWith
  by_cases h0 : mmap.length = 0
  · simp [h0, planResult]
  · simp only [h0, ↓reduceIte]
    apply windowLoop_eq_plan H mmap hlen
    · simp only [Nat.min_def]; split <;> omega
    · exact Nat.min_le_right _ _
    · simp only [Nat.min_def]; split <;> omega

/-- the plan always ends with the whole file (start 0), and its starts never exceed the file -/
theorem windowStarts_le (fuel len window : Nat) (hw : window ≤ len) :
    ∀ s ∈ windowStarts fuel len window, s ≤ len := by
  induction fuel generalizing window with
  | zero => intro s hs; simp [windowStarts] at hs
  | succ n ih =>
    intro s hs
    simp only [windowStarts, List.mem_cons] at hs
    rcases hs with h | h
    · omega
    · split at h
      · simp at h
      · exact ih _ (Nat.min_le_right _ _) s h

/-- concrete plans (kernel-evaluated): a 40 MiB file is searched in the windows 16, 32, 40 MiB; the
    start of the second window is `len - 32 MiB`, which the clamp `.min(len)` keeps from underflowing
    in the third round (seeded change C22-1 removed that clamp) -/
theorem C22_window_plan_40MiB :
    windowPlanWith 16777216 41943040 = [25165824, 8388608, 0] := by
  decide +kernel

theorem C22_window_plan_17MiB :
    windowPlanWith 16777216 (16777216 + 1048576) = [1048576, 0] := by
  decide +kernel

end Mv.Dec
