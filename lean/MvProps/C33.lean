/-
  C33 — Text normalization invariants.  Property theorems only.
  Model: MvModel/Text.lean (mirror of /repo/src/text.rs); helper lemmas: C33Lemmas.lean; the toy
  Unicode used for non-vacuity and for the counterexamples: C33Toy.lean.

  The Unicode tables are parameters (`U : Uni`); what is assumed of them is spelled out in
  `CharLaws` (three facts about ' ' and '\n'), `SegLaws` (segmentation = consecutive non-empty
  pieces) and `NfkcLaws` (idempotent; stable texts are closed under substring and under joining
  with a space / newline; NFKC creates no control characters).

  `normalizeCfg keep trail` is the pipeline with/without the two repairs of fixes/C33.diff;
  `normalize = normalizeCfg (some [LF, CR, TAB]) true` is the repaired code, `normalizeOrig =
  normalizeCfg none false` the code as found.  Clauses that hold for both are stated for every
  configuration; the NFKC, idempotence and trailing-whitespace clauses are FALSE for the code as
  found (`C33_counterexample_unfixed`) and proved for the repaired code.
-/
import MvProps.C33Lemmas
import MvProps.C33Toy
namespace Mv.Text

variable {U : Uni} {keep : Option (List Char)} {trail : Bool} {input out : List Char} {limit : Nat} {tr : Bool}

/-- The literal mirror of the truncation loop (`out`/`consumed`/`keep`, `String::truncate`) never
    panics and equals the cluster-level formulation the theorems below are stated for. -/
theorem C33_literal_loop (keep : Option (List Char)) (trail : Bool) (U : Uni) (input : List Char) (limit : Nat) :
    normalizeLit keep trail U input limit = some (normalizeCfg keep trail U input limit) :=
  normalizeLit_eq keep trail U input limit

/-- The theorems about `normalize` apply to the working tree: the pipeline shape read from
    src/text.rs (tools/gen/C33.py) is the repaired one. Fails to elaborate on the unrepaired code. -/
theorem C33_source_is_repaired (U : Uni) (input : List Char) (limit : Nat) :
    normalizeSrc U input limit = some (normalize U input limit) := by
  unfold normalizeSrc normalize
  exact normalizeLit_eq _ _ U input limit

/-- `None` is returned exactly when nothing is left after cleaning and trimming -/
theorem C33_none_iff : normalizeCfg keep trail U input limit = none ↔ cleanedText keep U input = [] := by
  unfold normalizeCfg
  simp only
  constructor
  · intro h
    by_cases hne : cleanedText keep U input = []
    · exact hne
    · exfalso
      rw [if_neg (by simpa using hne)] at h
      exact fallback_ne_none _ _ _ h
  · intro h
    rw [if_pos (by rw [h]; rfl)]

/-- **ends on a grapheme boundary**: the output is the concatenation of the first `k ≥ 1` grapheme
    clusters of the cleaned text, hence a prefix of it, and all of it when not truncated. -/
theorem C33_boundary (S : SegLaws U) (h : normalizeCfg keep trail U input limit = some (out, tr)) :
    ∃ k, 1 ≤ k ∧ k ≤ (U.graphemes (cleanedText keep U input)).length ∧
      out = ((U.graphemes (cleanedText keep U input)).take k).flatten ∧
      out <+: cleanedText keep U input ∧
      (tr = false → out = cleanedText keep U input) := by
  obtain ⟨_, k, h1, h2, h3, _, h5, _, _⟩ := normalize_spec S h
  refine ⟨k, h1, h2, h3, ?_, h5⟩
  rw [h3]
  have := take_flatten_prefix (U.graphemes (cleanedText keep U input)) k
  rwa [S.flat] at this

/-- **byte limit with the first-grapheme exception** (the effective limit is `limit.max(1)`) -/
theorem C33_limit (S : SegLaws U) (h : normalizeCfg keep trail U input limit = some (out, tr)) :
    bytes out ≤ max limit 1 ∨
    (∃ rest, U.graphemes (cleanedText keep U input) = out :: rest ∧ max limit 1 < bytes out) := by
  obtain ⟨_, k, _, h2, h3, _, _, h6, _⟩ := normalize_spec S h
  rw [MIN_LIMIT_eq] at h6
  rcases h6 with h6 | ⟨hk, h6⟩
  · exact Or.inl h6
  · right
    subst hk
    cases hgs : U.graphemes (cleanedText keep U input) with
    | nil => rw [hgs] at h2; simp at h2
    | cons g rest => rw [hgs] at h3; simp at h3; exact ⟨rest, by rw [h3], h6⟩

/-- the same clause against the caller's `limit` itself -/
theorem C33_limit_raw (S : SegLaws U) (h : normalizeCfg keep trail U input limit = some (out, tr)) :
    bytes out ≤ limit ∨
    (∃ rest, U.graphemes (cleanedText keep U input) = out :: rest ∧ limit < bytes out) := by
  rcases C33_limit S h with h1 | ⟨rest, h1, h2⟩
  · rcases Nat.lt_or_ge limit (bytes out) with hlt | hge
    · right
      obtain ⟨_, k, hk1, hk2, h3, _⟩ := normalize_spec S h
      have hge := bytes_take_ge (S.ne _) hk2
      rw [← h3] at hge
      have hk : k = 1 := by omega
      subst hk
      cases hgs : U.graphemes (cleanedText keep U input) with
      | nil => rw [hgs] at hk2; simp at hk2
      | cons g rest => rw [hgs] at h3; simp at h3; exact ⟨rest, by rw [h3], hlt⟩
    · exact Or.inl hge
  · exact Or.inr ⟨rest, h1, by omega⟩

/-- the `truncated` flag says exactly whether the cleaned text exceeds the limit -/
theorem C33_truncated_iff (S : SegLaws U) (h : normalizeCfg keep trail U input limit = some (out, tr)) :
    tr = false ↔ bytes (cleanedText keep U input) ≤ max limit 1 := by
  obtain ⟨_, k, _, _, _, h4, _⟩ := normalize_spec S h
  rwa [MIN_LIMIT_eq] at h4

/-- **the cut is tight**: for a truncated result the clusters are `a ++ z ++ g :: rest` where
    `a ++ z` is the longest prefix that fits the limit, `g` is the first cluster that does not,
    `z` are the trailing clusters ending in whitespace that the repair cuts (`z = []` in the code
    as found), `a` does not end in such a cluster, and the output is `a` — or the first cluster
    alone when `a` is empty (the never-empty fallback). -/
theorem C33_cut_tight (S : SegLaws U) (h : normalizeCfg keep trail U input limit = some (out, true)) :
    ∃ (a z : List (List Char)) (g : List Char) (rest : List (List Char)),
      U.graphemes (cleanedText keep U input) = a ++ z ++ g :: rest ∧
      bytes (a ++ z).flatten ≤ max limit 1 ∧
      max limit 1 < bytes (a ++ z).flatten + bytes g ∧
      (∀ x ∈ z, endsWs U x = true) ∧ (trail = false → z = []) ∧
      (∀ x, a.getLast? = some x → trail = true → endsWs U x = false) ∧
      ((a ≠ [] ∧ out = a.flatten) ∨
        (a = [] ∧ ∃ r', U.graphemes (cleanedText keep U input) = out :: r')) := by
  have := normalize_cut_spec S h
  rwa [MIN_LIMIT_eq] at this

/-- **no control characters other than newline** -/
theorem C33_no_control (L : CharLaws U) (S : SegLaws U)
    (h : normalizeCfg keep trail U input limit = some (out, tr)) :
    ∀ c ∈ out, U.isControl c = true → c = '\n' := by
  obtain ⟨_, _, _, _, hp, _⟩ := C33_boundary S h
  exact fun c hc => (good_trim_clean L _).ctl c (hp.subset hc)

/-- **no runs of spaces, no blank lines**: the only whitespace characters are ' ' and '\n', and
    no two adjacent characters are both whitespace (so no "  ", no "\n\n", no " \n", no "\n ") -/
theorem C33_no_runs (L : CharLaws U) (S : SegLaws U)
    (h : normalizeCfg keep trail U input limit = some (out, tr)) :
    (∀ c ∈ out, U.isWhitespace c = true → c = ' ' ∨ c = '\n') ∧
    (∀ a b, [a, b] <:+: out → ¬ (U.isWhitespace a = true ∧ U.isWhitespace b = true)) := by
  obtain ⟨_, _, _, _, hp, _⟩ := C33_boundary S h
  have g := good_trim_clean L (U.nfkc (prefilter keep U input))
  exact ⟨fun c hc => g.ws c (hp.subset hc), noAdj_infix hp.isInfix g.adj⟩

/-- **no leading whitespace** (and the output is not empty) -/
theorem C33_trimmed_start (L : CharLaws U) (S : SegLaws U)
    (h : normalizeCfg keep trail U input limit = some (out, tr)) :
    out ≠ [] ∧ ∀ c, out.head? = some c → U.isWhitespace c = false := by
  obtain ⟨hne, k, hk1, hk2, h3, _⟩ := normalize_spec S h
  obtain ⟨_, _, _, _, hp, _⟩ := C33_boundary S h
  have g := good_trim_clean L (U.nfkc (prefilter keep U input))
  have hout : out ≠ [] := by
    intro e
    have := bytes_take_ge (S.ne _) hk2
    rw [← h3, e, bytes_nil] at this
    omega
  refine ⟨hout, fun c hc => g.head c ?_⟩
  show (cleanedText keep U input).head? = some c
  cases ht : cleanedText keep U input with
  | nil => exact absurd ht hne
  | cons x r =>
    rw [ht] at hp
    have := prefix_head hp hout
    rw [this] at hc
    simpa using hc

/-- **no trailing whitespace when nothing was cut** (every configuration) -/
theorem C33_trimmed_end_untruncated (L : CharLaws U) (S : SegLaws U)
    (h : normalizeCfg keep trail U input limit = some (out, false)) :
    ∀ c, out.getLast? = some c → U.isWhitespace c = false := by
  obtain ⟨_, _, _, _, _, he⟩ := C33_boundary S h
  rw [he rfl]
  exact (good_trim_clean L _).last

/-- **no trailing whitespace, repaired code**: a trailing whitespace character is only possible when
    the output is exactly the first grapheme cluster of a longer text (the never-empty fallback)
    and that cluster itself ends in whitespace. -/
theorem C33_trimmed_end_partial (L : CharLaws U) (S : SegLaws U)
    (h : normalizeCfg keep true U input limit = some (out, tr)) :
    ∀ c, out.getLast? = some c → U.isWhitespace c = true →
      tr = true ∧ ∃ rest, U.graphemes (cleanedText keep U input) = out :: rest := by
  intro c hc hw
  obtain ⟨_, k, hk1, hk2, h3, _, h5, _, h7⟩ := normalize_spec S h
  cases htr : tr with
  | false =>
    subst htr
    have := C33_trimmed_end_untruncated L S h c hc
    rw [this] at hw; cases hw
  | true =>
    refine ⟨rfl, ?_⟩
    rcases h7 rfl htr with hk | hlast
    · subst hk
      cases hgs : U.graphemes (cleanedText keep U input) with
      | nil => rw [hgs] at hk2; simp at hk2
      | cons g rest => rw [hgs] at h3; simp at h3; exact ⟨rest, by rw [h3]⟩
    · exfalso
      -- the last kept cluster does not end in whitespace
      have hne : (U.graphemes (cleanedText keep U input)).take k ≠ [] := by
        intro e
        have := congrArg List.length e
        rw [List.length_take, List.length_nil] at this
        omega
      obtain ⟨g, hg⟩ : ∃ g, ((U.graphemes (cleanedText keep U input)).take k).getLast? = some g := by
        cases hl : ((U.graphemes (cleanedText keep U input)).take k).getLast? with
        | none => exact absurd (List.getLast?_eq_none_iff.mp hl) hne
        | some g => exact ⟨g, rfl⟩
      have hgne : g ≠ [] :=
        S.ne _ g ((List.take_subset _ _) (List.mem_of_getLast? hg))
      have hl := flatten_getLast hg hgne
      rw [← h3, hc] at hl
      have he := hlast g hg
      unfold endsWs at he
      rw [← hl] at he
      simp only at he
      rw [he] at hw; cases hw

/-- the trailing-whitespace clause at full strength, for the repaired code -/
def C33_trimmed_full : Prop :=
  ∀ (U : Uni), CharLaws U → SegLaws U → NfkcLaws U → ∀ input limit out tr,
    normalize U input limit = some (out, tr) → ∀ c, out.getLast? = some c → U.isWhitespace c = false

/-- it is false even after the repair: a Prepend character glues the following space into its
    cluster (GB9b); when that cluster is the only one that fits, the fallback returns it whole. -/
theorem C33_trimmed_counterexample : ¬ C33_trimmed_full := by
  intro h
  have := h toyU toy_char toy_seg toy_nfkc [PRE, ' ', 'x'] 3 [PRE, ' '] true (by decide) ' ' (by decide)
  exact absurd this (by decide)

/-- **NFKC-normalized** (repaired code) -/
theorem C33_nfkc (L : CharLaws U) (S : SegLaws U) (N : NfkcLaws U)
    (h : normalize U input limit = some (out, tr)) : U.nfkc out = out := by
  obtain ⟨_, _, _, _, hp, _⟩ := C33_boundary S h
  exact stable_infix N hp.isInfix (stable_cleanedText L N input)

/-- **idempotence on untruncated outputs** (repaired code): normalizing an untruncated output again,
    with the same or any other limit it fits in, returns it unchanged and untruncated -/
theorem C33_idem (L : CharLaws U) (S : SegLaws U) (N : NfkcLaws U)
    (h : normalize U input limit = some (out, false)) :
    normalize U out limit = some (out, false) ∧
    ∀ limit', bytes out ≤ max limit' 1 → normalize U out limit' = some (out, false) := by
  obtain ⟨hne, _, _, _, _, h4, h5, _⟩ := normalize_spec S h
  have he : out = cleanedText (some ['\n', '\r', '\t']) U input := h5 rfl
  have hg : Good U out := by rw [he]; exact good_trim_clean L _
  have hs : Stable U out := by rw [he]; exact stable_cleanedText L N input
  have hid := cleanedText_id L hg hs
  have key : ∀ limit', bytes out ≤ max limit' 1 → normalize U out limit' = some (out, false) := by
    intro limit' hfit
    unfold normalize normalizeCfg
    simp only [hid]
    have hne' : out.isEmpty = false := by
      rw [he]; cases hc : cleanedText (some ['\n', '\r', '\t']) U input with
      | nil => exact absurd hc hne
      | cons x r => rfl
    rw [MIN_LIMIT_eq, takeFit_all _ _ 0 (by rw [S.flat]; omega)]
    simp [S.flat, hne']
  refine ⟨key limit ?_, key⟩
  have := h4.mp rfl
  rw [MIN_LIMIT_eq, ← he] at this
  exact this

/-- **truncate_at_grapheme_boundary**: the index is the byte length of a whole number `k` of leading
    clusters; it is within the limit unless it is the first cluster alone and that exceeds the limit;
    it is the largest such index (the next cluster would not fit); it is 0 only for the empty text. -/
theorem C33_truncate (S : SegLaws U) (s : List Char) (limit : Nat) :
    ∃ k, k ≤ (U.graphemes s).length ∧
      truncIdx U s limit = bytes ((U.graphemes s).take k).flatten ∧
      (truncIdx U s limit ≤ limit ∨ (k = 1 ∧ limit < truncIdx U s limit)) ∧
      (k < (U.graphemes s).length → limit < bytes ((U.graphemes s).take (k + 1)).flatten) ∧
      (s ≠ [] → 0 < truncIdx U s limit) :=
  truncIdx_spec S s limit

/-! ### the code as found -/

/-- NFKC, idempotence and trailing-whitespace clauses at full strength for the unrepaired code -/
def C33_unfixed_full : Prop :=
  ∀ (U : Uni), CharLaws U → SegLaws U → NfkcLaws U → ∀ input limit out tr,
    normalizeOrig U input limit = some (out, tr) →
      U.nfkc out = out ∧ (tr = false → normalizeOrig U out limit = some (out, false)) ∧
      (∀ c, out.getLast? = some c → U.isWhitespace c = false)

/-- `e U+0001 U+0301`: NFKC leaves it alone, the control character is removed afterwards, and the
    output `e U+0301` is neither NFKC nor a fixed point (normalizing again gives `é`). -/
theorem C33_counterexample_unfixed : ¬ C33_unfixed_full := by
  intro h
  have := (h toyU toy_char toy_seg toy_nfkc ['e', Char.ofNat 1, ACUTE] 100 ['e', ACUTE] false (by decide)).1
  exact absurd this (by decide)

/-- the same witness against idempotence only -/
theorem C33_counterexample_unfixed_idem :
    normalizeOrig toyU ['e', Char.ofNat 1, ACUTE] 100 = some (['e', ACUTE], false) ∧
    normalizeOrig toyU ['e', ACUTE] 100 = some ([EACUTE], false) := by
  constructor <;> decide

/-- `ab cd` cut at 3 bytes keeps the space: trailing whitespace in the code as found -/
theorem C33_counterexample_unfixed_trailing :
    normalizeOrig toyU ['a', 'b', ' ', 'c', 'd'] 3 = some (['a', 'b', ' '], true) := by decide

/-! ### non-vacuity: the toy Unicode satisfies every assumed law, and the repaired pipeline
    produces non-trivial results on it -/

example : CharLaws toyU ∧ SegLaws toyU ∧ NfkcLaws toyU := ⟨toy_char, toy_seg, toy_nfkc⟩

/-- the defect witness under the repaired arrangement: composed, stable, untruncated -/
example : normalize toyU ['e', Char.ofNat 1, ACUTE] 100 = some ([EACUTE], false) := by decide
example : normalize toyU [EACUTE] 100 = some ([EACUTE], false) := by decide
/-- whitespace compaction, CR/TAB rewriting, control removal, trimming -/
example : normalize toyU [' ', 'a', '\t', '\t', 'b', ' ', '\r', '\n', Char.ofNat 7, ' ', 'c', ' '] 100
    = some (['a', ' ', 'b', '\n', 'c'], false) := by decide
/-- truncation: the cut backs off over the space -/
example : normalize toyU ['a', 'b', ' ', 'c', 'd'] 3 = some (['a', 'b'], true) := by decide
/-- first-grapheme exception: `e`+U+0301+U+0301 is one 4-byte cluster (`é` + mark), limit 2 -/
example : normalize toyU ['e', ACUTE, ACUTE, 'x'] 2 = some ([EACUTE, ACUTE], true) := by decide
example : truncIdx toyU ['e', ACUTE, ACUTE, 'x'] 2 = 5 := by decide
example : truncIdx toyU ['a', 'e', ACUTE, 'x'] 3 = 1 := by decide
example : truncIdx toyU ['a', 'e', ACUTE, 'x'] 4 = 4 := by decide

end Mv.Text
