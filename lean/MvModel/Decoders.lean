/-
  PANIC-EXPLICIT models of the hand-written byte-level decoders that `Memvid::open`,
  `open_read_only`, `verify`, `doctor_plan`, `doctor` and the read APIs run over file bytes
  (property C22).

  Conventions
  * the target is 64-bit, the harness and the repo's test-suite use the debug profile: `+ - *` on
    `u64`/`usize` panic on overflow, `debug_assert!` is compiled in.  Numbers are `Nat`; every
    arithmetic step that can panic in Rust is one of `addP / subP / mulP` (→ `.panic` when the
    result leaves `[0, 2^64)`), every `&b[s..e]`, `b[i]`, `split_at` is `sliceP / idxP`.
    `checked_*`, `saturating_*`, `.get(range)` are the non-panicking primitives they are in Rust.
  * a file is its byte list; `seek(Start(p))` fails (EINVAL) for `p > i64::MAX`, `read_exact`
    past the end is the I/O error.  File lengths are `< 2^63` (off_t) — a hypothesis of the
    theorems, never used by the models.
  * loops that are not structurally recursive on their input carry fuel; running out of fuel is
    the outcome `.hang`, and the theorems prove it is never produced (termination = no hang).
  * black boxes are parameters: `H` (blake3), `dec` (`Toc::decode`: bincode), `allocOk` (whether the
    allocator grants a request of that many bytes; a refused request aborts the process).
    zstd / serde_json / Tantivy / LexIndex / VecIndex are *not* modelled: a model stops with the
    bytes it hands to them.
  * every limit, magic and the shape of each risky expression come from the source through
    tools/gen/C22.py (+ the C05/C30/C31/C39 translators of the reused models).
-/
import MvModel.Bytes
import MvModel.Footer
import MvModel.Header
import MvModel.Wal
import MvModel.TimeIndex
import MvModel.Sketch
import MvModel.Gen.C22
namespace Mv.Dec
open Mv

/-! ### outcomes -/

inductive Out (α : Type) where
  | ok (a : α)
  | err (e : String)     -- the function returned `Err(..)` (or `None`)
  | panic (why : String) -- the thread panicked
  | abort (why : String) -- the process was killed (allocation failure)
  | hang                 -- a loop ran out of fuel
deriving Repr, DecidableEq

namespace Out
def crashes {α : Type} : Out α → Bool
  | ok _ => false
  | err _ => false
  | _ => true

/-- the outcome is a result or an error: no panic, no abort, no hang -/
def Safe {α : Type} (o : Out α) : Prop := o.crashes = false

instance {α : Type} (o : Out α) : Decidable o.Safe := by unfold Safe; infer_instance

def isPanic {α : Type} : Out α → Bool
  | panic _ => true
  | _ => false

def bind {α β : Type} (x : Out α) (f : α → Out β) : Out β :=
  match x with
  | ok a => f a
  | err e => err e
  | panic w => panic w
  | abort w => abort w
  | hang => hang

instance : Monad Out where
  pure := Out.ok
  bind := Out.bind

/-- one-word class for the driver protocol -/
def cls {α : Type} : Out α → String
  | ok _ => "ok"
  | err e => "err " ++ e
  | panic w => "panic " ++ w
  | abort w => "abort " ++ w
  | hang => "hang"
end Out

/-! ### arithmetic and slicing with the debug profile's checks -/

def addP (a b : Nat) : Out Nat :=
  if a + b < 2^64 then .ok (a + b) else .panic "add-overflow"
def subP (a b : Nat) : Out Nat :=
  if b ≤ a then .ok (a - b) else .panic "sub-overflow"
def mulP (a b : Nat) : Out Nat :=
  if a * b < 2^64 then .ok (a * b) else .panic "mul-overflow"

def checkedAdd (a b : Nat) : Option Nat := if a + b < 2^64 then some (a + b) else none
def satAdd (a b : Nat) : Nat := min (a + b) (2^64 - 1)
def satMul (a b : Nat) : Nat := min (a * b) (2^64 - 1)

/-- `&b[s..e]` -/
def sliceP (b : Bytes) (s e : Nat) : Out Bytes :=
  if s ≤ e ∧ e ≤ b.length then .ok (slice b s (e - s)) else .panic "slice-out-of-range"
/-- `b[i]` -/
def idxP (b : Bytes) (i : Nat) : Out UInt8 :=
  match b[i]? with
  | some x => .ok x
  | none => .panic "index-out-of-bounds"
/-- `b.get(s..e)` -/
def getRange (b : Bytes) (s e : Nat) : Option Bytes :=
  if s ≤ e ∧ e ≤ b.length then some (slice b s (e - s)) else none

/-- `seek(SeekFrom::Start(pos))` + `read_exact` of `n` bytes -/
def readAt (file : Bytes) (pos n : Nat) : Out Bytes :=
  if pos ≥ 2^63 then .err "io"
  else if pos + n ≤ file.length then .ok (slice file pos n) else .err "io"

/-- `read_exact` of `n` bytes at the current position `pos` (no seek) -/
def readSeq (file : Bytes) (pos n : Nat) : Out Bytes :=
  if pos + n ≤ file.length then .ok (slice file pos n) else .err "io"

/-! ### D1 header: `HeaderCodec::read` / `decode` (src/io/header.rs) -/

/-- `extract_array::<N>(bytes, offset)`: `.get(offset..offset + N)` -/
def extractArrayP (b : Bytes) (off n : Nat) : Out Bytes :=
  match getRange b off (off + n) with
  | some s => .ok s
  | none => .err "truncated"

/-- `HeaderCodec::decode(&[u8; HEADER_SIZE])`; the first test stands for the parameter type -/
def headerDecode (b : Bytes) : Out Header.Header :=
  if b.length ≠ Header.HEADER_SIZE then .err "truncated" else do
  let magic ← extractArrayP b 0 4
  if magic ≠ Header.MAGIC then .err "magic" else do
  let v ← extractArrayP b Header.VERSION_OFFSET 2
  if leVal v ≠ Header.EXPECTED_VERSION then .err "version" else do
  let s0 ← idxP b Header.SPEC_BYTES_OFFSET
  if s0 ≠ UInt8.ofNat Header.SPEC_MAJOR then .err "spec" else do
  let s1 ← idxP b (Header.SPEC_BYTES_OFFSET + 1)
  if s1 ≠ UInt8.ofNat Header.SPEC_MINOR then .err "spec" else do
  let fo ← extractArrayP b Header.FOOTER_OFFSET_POS 8
  let wo ← extractArrayP b Header.WAL_OFFSET_POS 8
  if leVal wo < Header.WAL_OFFSET then .err "wal_offset" else do
  let ws ← extractArrayP b Header.WAL_SIZE_POS 8
  if leVal ws = 0 then .err "wal_size" else do
  let cp ← extractArrayP b Header.WAL_CHECKPOINT_POS 8
  let sq ← extractArrayP b Header.WAL_SEQUENCE_POS 8
  let ck ← extractArrayP b Header.TOC_CHECKSUM_POS 32
  .ok { magic := magic, version := leVal v, footerOffset := leVal fo, walOffset := leVal wo,
        walSize := leVal ws, walCheckpointPos := leVal cp, walSequence := leVal sq, tocChecksum := ck }

/-- `HeaderCodec::read`: `seek(0)`, `read_exact` of the 4 KiB, decode (the legacy-lock region
    80..140 is zeroed first; no decoded field lies there) -/
def headerRead (file : Bytes) : Out Header.Header := do
  let buf ← readAt file 0 Header.HEADER_SIZE
  headerDecode buf

/-! ### D3 `verify_toc_prefix` (src/memvid/lifecycle.rs) -/

/-- the `read_u64` closure: `bytes.get(range)` then `try_into::<[u8; 8]>` -/
def readU64 (b : Bytes) (s e : Nat) : Out Nat :=
  match getRange b s e with
  | none => .err "truncated"
  | some sl => if sl.length = 8 then .ok (leVal sl) else .err "truncated"

def verifyTocPrefix (b : Bytes) : Out Unit :=
  if b.length < Gen.C22.PREFIX_MIN_LEN then .err "trailer_small" else do
  let ver ← readU64 b 0 8
  if ver > Gen.C22.PREFIX_MAX_VERSION then .err "version" else do
  let segs ← readU64 b 8 16
  if segs > Gen.C22.PREFIX_MAX_SEGMENTS then .err "segments" else do
  let frames ← readU64 b 16 24
  if frames > Gen.C22.PREFIX_MAX_FRAMES then .err "frames" else
  let required := satAdd (satMul segs Gen.C22.PREFIX_MIN_SEGMENT_META_BYTES)
                         (satMul frames Gen.C22.PREFIX_MIN_FRAME_BYTES)
  if required > b.length then .err "inconsistent" else .ok ()

/-! ### the `Toc::decode` black box and what the open path uses of a decoded TOC -/

structure FrameV where
  off : Nat
  len : Nat
  active : Bool
deriving Repr, DecidableEq

structure Span where
  off : Nat
  len : Nat
deriving Repr, DecidableEq

/-- the fields of a decoded `Toc` the modelled code reads (all of them plain `u64`s) -/
structure TocV where
  frames : List FrameV
  /-- every `(bytes_offset, bytes_length)` pair `compute_data_end` folds over, in source order -/
  spans : List Span
  sketch : Option Span
  timeIndex : Option Span
  memories : Option Span
  mesh : Option Span
deriving Repr, DecidableEq

def TocV.InRange (t : TocV) : Prop :=
  (∀ f ∈ t.frames, f.off < 2^64 ∧ f.len < 2^64) ∧ (∀ s ∈ t.spans, s.off < 2^64 ∧ s.len < 2^64) ∧
  (∀ s, t.sketch = some s → s.off < 2^64 ∧ s.len < 2^64) ∧
  (∀ s, t.timeIndex = some s → s.off < 2^64 ∧ s.len < 2^64) ∧
  (∀ s, t.memories = some s → s.off < 2^64 ∧ s.len < 2^64) ∧
  (∀ s, t.mesh = some s → s.off < 2^64 ∧ s.len < 2^64)

/-- result of a black-box call -/
inductive BB (α : Type) where
  | ok (a : α)
  | err
  | panicked
deriving Repr, DecidableEq

/-- a call that is NOT wrapped in `catch_unwind` (`Toc::decode(..)?`) -/
def callBB {α : Type} (r : BB α) : Out α :=
  match r with
  | .ok a => .ok a
  | .err => .err "decode"
  | .panicked => .panic "blackbox"

/-- `catch_unwind(|| Toc::decode(..))` followed by `if let Ok(Ok(toc)) = attempt` -/
def caughtBB {α : Type} (r : BB α) : Option α :=
  match r with
  | .ok a => some a
  | _ => none

/-- which `Toc::decode` call sites are wrapped, as found in the source; the models below hard-wire
    this inventory and stop elaborating when it changes -/
theorem wrap_inventory :
    Gen.C22.READ_TOC_DECODE_WRAPPED = false ∧ Gen.C22.RECOVER_FOOTER_DECODE_WRAPPED = false ∧
    Gen.C22.RECOVER_HINT_DECODE_WRAPPED = true ∧ Gen.C22.SCAN_DECODE_WRAPPED = true ∧
    Gen.C22.TAIL_DECODE_WRAPPED = false := by decide

/-! ### D2 `read_toc` up to the call of `Toc::decode` -/

def FOOTER_SIZE : Nat := Footer.FOOTER_SIZE

/-- ok `tocBytes` = control reaches `Toc::decode(tocBytes)` -/
def readTocBytes (H : Bytes → Bytes) (file : Bytes) (footerOffset : Nat) : Out Bytes :=
  let len := file.length
  if len < footerOffset then .err "footer_beyond_file" else do
  let total ← subP len footerOffset
  if total > Gen.C22.MAX_INDEX_BYTES then .err "region_too_big" else
  if total < FOOTER_SIZE then .err "region_too_small" else do
  -- `seek(Start(footer_offset))` + `read_to_end`
  let buf := file.drop footerOffset
  let footerStart ← subP buf.length FOOTER_SIZE
  let footerBytes ← sliceP buf footerStart buf.length
  match Footer.decode footerBytes with
  | none => .err "footer_decode"
  | some footer => do
    let tocBytes ← sliceP buf 0 footerStart
    if tocBytes.length ≠ footer.tocLen then .err "toc_len_mismatch" else
    if H tocBytes ≠ footer.tocHash then .err "toc_hash_mismatch" else do
    verifyTocPrefix tocBytes
    .ok tocBytes

def readToc (H : Bytes → Bytes) (dec : Bytes → BB TocV) (file : Bytes) (footerOffset : Nat) : Out TocV := do
  let tb ← readTocBytes H file footerOffset
  callBB (dec tb)

/-! ### D4 footer scan: `find_last_valid_footer` is `Footer.findLast` (MvModel/Footer.lean), a total
    function into `Option`: every slice it takes is guarded (`pos + FOOTER_SIZE ≤ len`,
    `toc_len ≤ pos`) in the model as in the source. -/

def footerScan (H : Bytes → Bytes) (bytes : Bytes) : Out (Option Footer.FooterSlice) :=
  .ok (Footer.findLast H bytes)

/-! ### D5 `recover_toc` / `scan_range_for_toc` -/

/-- the `for offset in (scan_start..end).rev()` loop; `k` offsets remain, the next is
    `scanStart + k - 1` -/
def scanLoop (H : Bytes → Bytes) (dec : Bytes → BB TocV) (data : Bytes) (scanStart : Nat) :
    Nat → Out (Option (TocV × Nat))
  | 0 => .ok none
  | k + 1 =>
    let offset := scanStart + k
    (sliceP data offset data.length).bind fun sl =>
    if sl.length < 16 then scanLoop H dec data scanStart k else
    if sl.length > Gen.C22.MAX_TOC_BYTES then .panic "debug_assert" else
    if sl.length < 32 then scanLoop H dec data scanStart k else
    (subP sl.length 32).bind fun mid =>
    -- `slice.split_at(mid)` panics when `mid > len`
    if mid > sl.length then .panic "split_at" else
    let body := sl.take mid
    let stored := sl.drop mid
    if H (body ++ zeros 32) ≠ stored then scanLoop H dec data scanStart k else
    match verifyTocPrefix sl with
    | .ok _ =>
      match caughtBB (dec sl) with
      | some t => .ok (some (t, offset))
      | none => scanLoop H dec data scanStart k
    | _ => scanLoop H dec data scanStart k

def scanRange (H : Bytes → Bytes) (dec : Bytes → BB TocV) (data : Bytes) (start end_ : Nat) :
    Out (Option (TocV × Nat)) :=
  if start ≥ end_ ∨ end_ > data.length then .ok none else
  let minOffset := data.length - Gen.C22.MAX_TOC_BYTES
  let scanStart := max start minOffset
  scanLoop H dec data scanStart (end_ - scanStart)

/-- the "assume the TOC spans from `hint` to the final footer" attempt of `recover_toc` -/
def hintAttempt (dec : Bytes → BB TocV) (mmap : Bytes) (hint : Nat) : Out (Option (TocV × Nat)) :=
  let start := min hint mmap.length
  if mmap.length - start ≥ FOOTER_SIZE then
    let tocEnd := mmap.length - FOOTER_SIZE
    if tocEnd > start then do
      let tocBytes ← sliceP mmap start tocEnd
      match verifyTocPrefix tocBytes with
      | .ok _ =>
        match caughtBB (dec tocBytes) with
        | some t => .ok (some (t, hint))
        | none => .ok none
      | _ => .ok none
    else .ok none
  else .ok none

def scanRanges (H : Bytes → Bytes) (dec : Bytes → BB TocV) (mmap : Bytes) :
    List (Nat × Nat) → Out (TocV × Nat)
  | [] => .err "unrecoverable"
  | (s, e) :: rest => do
    match ← scanRange H dec mmap s e with
    | some found => .ok found
    | none => scanRanges H dec mmap rest

def recoverToc (H : Bytes → Bytes) (dec : Bytes → BB TocV) (mmap : Bytes) (hint : Option Nat) :
    Out (TocV × Nat) :=
  let viaFooter : Out (Option (TocV × Nat)) :=
    match Footer.findLast H mmap with
    | some fs =>
      match dec fs.tocBytes with          -- `match Toc::decode(..)`: NOT wrapped
      | .ok t => .ok (some (t, fs.tocOffset))
      | .err => .ok none
      | .panicked => .panic "blackbox"
    | none => .ok none
  viaFooter.bind fun r =>
  match r with
  | some found => .ok found
  | none =>
    let viaHint : Out (Option (TocV × Nat)) :=
      match hint with
      | some h => hintAttempt dec mmap h
      | none => .ok none
    viaHint.bind fun r =>
    match r with
    | some found => .ok found
    | none =>
      let ranges : List (Nat × Nat) :=
        match hint with
        | some h =>
          let hi := min h mmap.length
          if hi > 0 then [(hi, mmap.length), (0, hi)] else [(hi, mmap.length)]
        | none => [(0, mmap.length)]
      scanRanges H dec mmap ranges

/-! ### D6 `locate_footer_window` (used by `load_tail_snapshot` and `detect_generation`) -/

def windowLoop (H : Bytes → Bytes) (mmap : Bytes) : Nat → Nat → Out (Option (Footer.FooterSlice × Nat))
  | 0, _ => .hang
  | fuel + 1, window =>
    (subP mmap.length window).bind fun start =>
    (sliceP mmap start mmap.length).bind fun tail =>
    match Footer.findLast H tail with
    | some s => .ok (some (s, start))
    | none =>
      if window = mmap.length then .ok none else
      (mulP window 2).bind fun w2 =>
      windowLoop H mmap fuel (min w2 mmap.length)

def locateWindowWith (maxSearch : Nat) (H : Bytes → Bytes) (mmap : Bytes) :
    Out (Option (Footer.FooterSlice × Nat)) :=
  if mmap.length = 0 then .ok none
  else windowLoop H mmap (mmap.length + 1) (min maxSearch mmap.length)

def locateWindow (H : Bytes → Bytes) (mmap : Bytes) : Out (Option (Footer.FooterSlice × Nat)) :=
  locateWindowWith Gen.C22.MAX_SEARCH_SIZE H mmap

/-- the window starts `locate_footer_window` visits while no window holds a valid footer: pure
    arithmetic (no bytes), so it can be evaluated for file sizes far beyond what the byte-level model
    can hold (the real constant is 16 MiB; `C22_window_plan` links it to `windowLoop`) -/
def windowStarts : Nat → Nat → Nat → List Nat
  | 0, _, _ => []
  | fuel + 1, len, window =>
    (len - window) :: (if window = len then [] else windowStarts fuel len (min (window * 2) len))

def windowPlanWith (maxSearch len : Nat) : List Nat :=
  if len = 0 then [] else windowStarts (len + 1) len (min maxSearch len)

def windowPlan (len : Nat) : List Nat := windowPlanWith Gen.C22.MAX_SEARCH_SIZE len

/-! ### D7 WAL: `EmbeddedWal::scan_records`, `open_internal` (src/io/wal.rs) -/

def EHS : Nat := Wal.ENTRY_HEADER_SIZE

def walLoop (H : Bytes → Bytes) (file : Bytes) (offset size : Nat) :
    Nat → Nat → List Wal.Rec → Out (List Wal.Rec × Nat)
  | 0, _, _ => .hang
  | fuel + 1, cursor, acc =>
    (addP cursor EHS).bind fun c48 =>
    if c48 ≤ size then
      (addP offset cursor).bind fun pos =>
      (readAt file pos EHS).bind fun hdr =>
      let sequence := leVal (slice hdr 0 8)
      let length := leVal (slice hdr 8 4)
      let checksum := slice hdr 16 32
      if sequence = 0 ∧ length = 0 then .ok (acc.reverse, cursor)
      else if length = 0 then .err "corrupt"
      else
        (addP c48 length).bind fun e =>
        if e > size then .err "corrupt" else
        (readSeq file (pos + EHS) length).bind fun payload =>
        if H payload ≠ checksum then .err "corrupt" else
        (addP EHS length).bind fun adv =>
        (addP cursor adv).bind fun c' =>
        walLoop H file offset size fuel c' ({ seq := sequence, payload := payload } :: acc)
    else .ok (acc.reverse, cursor)

def walScan (H : Bytes → Bytes) (file : Bytes) (offset size : Nat) : Out (List Wal.Rec × Nat) :=
  walLoop H file offset size (file.length + 2) 0 []

/-- `iter().map(total_size).sum()` over `u64` (overflow-checked in the debug profile) -/
def sumP : List Nat → Out Nat
  | [] => .ok 0
  | x :: xs => (sumP xs).bind fun s => addP x s

structure WalOpened where
  records : Nat
  sequence : Nat
  pending : Nat
  writeHead : Nat
deriving Repr, DecidableEq

/-- `open_internal`: scan, statistics, and (writable handles) the position arithmetic of
    `initialise_sentinel → write_zero_header → seek_and_write` -/
def walOpen (H : Bytes → Bytes) (file : Bytes) (offset size ckSeq : Nat) (readOnly : Bool) : Out WalOpened :=
  if size = 0 then .err "wal_size" else do
  let (recs, next) ← walScan H file offset size
  let pending ← sumP ((recs.filter fun r => r.seq > ckSeq).map Wal.Rec.size)
  let sequence := (recs.getLast?.map (·.seq)).getD ckSeq
  let res : WalOpened := { records := recs.length, sequence := sequence, pending := pending, writeHead := next }
  if readOnly then .ok res
  else if pending ≥ size then .ok res
  else
    let pos := min next size
    let remaining := size - pos
    if remaining = 0 then .ok res else do
    -- `seek_and_write(pos, zeros)`: `position % region_size`, `region_offset + pos`, seek, write
    let absolute ← addP offset (pos % size)
    if absolute ≥ 2^63 then .err "io" else .ok res

/-- `append_entry` up to the sequence number: the capacity tests (`Err(CheckpointFailed)` / `Err(Lock)`) -/
def walAppendGuards (readOnly : Bool) (size pending writeHead payloadLen : Nat) : Out Unit :=
  if readOnly then .err "read_only" else
  if payloadLen > 4294967295 then .err "too_large" else
  (addP EHS payloadLen).bind fun entrySize =>
  if entrySize > size then .err "too_small" else
  (addP pending entrySize).bind fun p =>
  if p > size then .err "full" else
  (addP writeHead entrySize).bind fun w =>
  if w > size ∧ pending > 0 then .err "full" else .ok ()

/-- `EmbeddedWal::append_entry`: ok = the sequence number of the new record.  `checked` = the source
    computes it with `checked_add` (repaired) instead of `self.sequence + 1`. -/
def walAppendWith (checked readOnly : Bool) (size pending writeHead sequence payloadLen : Nat) : Out Nat :=
  (walAppendGuards readOnly size pending writeHead payloadLen).bind fun _ =>
  if checked then
    match checkedAdd sequence 1 with
    | some n => .ok n
    | none => .err "sequence"
  else addP sequence 1

def walAppend (readOnly : Bool) (size pending writeHead sequence payloadLen : Nat) : Out Nat :=
  walAppendWith Gen.C22.WAL_APPEND_SEQ_CHECKED readOnly size pending writeHead sequence payloadLen

/-! ### D8 time index: `read_track` (src/io/time_index.rs) with the pre-allocation -/

/-- `allocOk n` = the allocator grants `n` bytes; a refused request aborts the process -/
def timeIndexRead (allocOk : Nat → Bool) (file : Bytes) (offset length : Nat) : Out (List TimeIndex.Entry) :=
  if offset ≥ 2^63 then .err "io" else
  match TimeIndex.reachesPrealloc file offset length with
  | some count =>
    let req := TimeIndex.preallocRequest count
    if TimeIndex.preallocPanics req then .panic "capacity-overflow"
    else if ¬ allocOk (req * 16) then .abort "alloc"
    else
      match TimeIndex.readTrack file offset length with
      | .ok es => .ok es
      | .error e => .err e.name
  | none =>
    match TimeIndex.readTrack file offset length with
    | .ok es => .ok es
    | .error e => .err e.name

/-! ### D9 sketch track: `read_sketch_track` is `Sketch.readTrack` (MvModel/Sketch.lean) -/

def sketchErrName : Sketch.RErr → String
  | .io => "io" | .magic => "magic" | .entrySize => "entry_size" | .length => "length"
  | .overflow => "overflow" | .panicMul => "mul" | .panicAdd => "add"

def sketchRead (file : Bytes) (offset length : Nat) : Out Sketch.Track :=
  if offset ≥ 2^63 then .err "io" else
  match Sketch.readTrack file offset length with
  | .ok t => .ok t
  | .error .panicMul => .panic "mul-overflow"
  | .error .panicAdd => .panic "add-overflow"
  | .error e => .err (sketchErrName e)

/-! ### D10 memories track / logic mesh: the 14-byte header in front of the zstd stream -/

/-- `deserialize(data)` up to `zstd::decode_all(&data[14..14 + len])`; ok = the compressed slice.
    `lenChecked` = the length test is `data.len() - 14 < len` (repaired) instead of
    `data.len() < 14 + len` (overflow-checked addition). -/
def trackHeader (magic : Bytes) (versionOk : Nat → Bool) (lenChecked : Bool) (data : Bytes) : Out Bytes :=
  if data.length < 14 then .err "short" else do
  let m ← sliceP data 0 4
  if m ≠ magic then .err "magic" else do
  let v0 ← idxP data 4
  let v1 ← idxP data 5
  let version := v0.toNat + 256 * v1.toNat
  if ¬ versionOk version then .err "version" else do
  let lb ← sliceP data 6 14
  let len := leVal lb     -- `usize::try_from(u64)` always succeeds on a 64-bit target
  let tooShort ← (if lenChecked then (subP data.length 14).bind fun room => .ok (decide (room < len))
                  else (addP 14 len).bind fun e => .ok (decide (data.length < e)))
  if tooShort then .err "truncated" else do
  let e ← addP 14 len
  sliceP data 14 e

def memoriesHeader (data : Bytes) : Out Bytes :=
  trackHeader Gen.C22.MEMORIES_MAGIC (fun v => v == Gen.C22.MEMORIES_VERSION) Gen.C22.MEMORIES_LEN_CHECKED data

def meshHeader (data : Bytes) : Out Bytes :=
  trackHeader Gen.C22.MESH_MAGIC (fun v => decide (v ≤ Gen.C22.MESH_VERSION)) Gen.C22.MESH_LEN_CHECKED data

/-- `Memvid::read_range` / the manifest reads of `load_memories_track`, `load_logic_mesh` -/
def readRange (file : Bytes) (offset length : Nat) : Out Bytes :=
  match checkedAdd offset length with
  | none => .err "range_overflow"
  | some e =>
    if e > file.length ∨ length > Gen.C22.MAX_INDEX_BYTES then .err "range_invalid"
    else readAt file offset length

/-- `load_memories_track` / `load_logic_mesh`: size limit, seek + read_exact, (checksum), header -/
def loadTrack (hdr : Bytes → Out Bytes) (file : Bytes) (s : Span) : Out Bytes :=
  if s.len > Gen.C22.MAX_INDEX_BYTES then .err "track_too_big" else do
  let buf ← readAt file s.off s.len
  hdr buf

/-! ### D11 `ensure_non_overlapping_frames` -/

/-- the loop over the sorted frames; `prevEnd`, `prevOff` = end and offset of the previous frame.  A frame
    whose byte range is identical to the previous one (payload-less update reusing a payload) is not an overlap. -/
def framesLoop (fileLen : Nat) : List FrameV → Nat → Nat → Out Unit
  | [], _, _ => .ok ()
  | f :: fs, prevEnd, prevOff =>
    match checkedAdd f.off f.len with
    | none => .err "overflow"
    | some e =>
      if e > fileLen then .err "exceeds"
      else if f.off < prevEnd ∧ ¬ (f.off = prevOff ∧ e = prevEnd) then .err "overlap"
      else framesLoop fileLen fs e f.off

/-- `sort_by_key(|f| f.payload_offset)` (stable) as an insertion sort: an element goes in front of
    the first one whose key is not smaller -/
def insertFrame (f : FrameV) : List FrameV → List FrameV
  | [] => [f]
  | g :: gs => if g.off < f.off then g :: insertFrame f gs else f :: g :: gs

def sortFrames : List FrameV → List FrameV
  | [] => []
  | f :: fs => insertFrame f (sortFrames fs)

def ensureNonOverlapping (frames : List FrameV) (fileLen : Nat) : Out Unit :=
  framesLoop fileLen (sortFrames (frames.filter fun f => f.active && decide (f.len > 0))) 0 0

/-! ### D12 `compute_data_end` / `compute_payload_region_end` -/

def maxEnd (acc : Nat) (off len : Nat) : Nat :=
  match checkedAdd off len with
  | some e => max acc e
  | none => acc

def computeDataEnd (walOffset walSize footerOffset : Nat) (t : TocV) : Nat :=
  let start := max (satAdd walOffset walSize) footerOffset
  let a := (t.frames.filter fun f => f.active && decide (f.len > 0)).foldl (fun acc f => maxEnd acc f.off f.len) start
  t.spans.foldl (fun acc s => maxEnd acc s.off s.len) a

def computePayloadEnd (walOffset walSize : Nat) (t : TocV) : Nat :=
  (t.frames.filter fun f => decide (f.len ≠ 0)).foldl (fun acc f => maxEnd acc f.off f.len) (satAdd walOffset walSize)

/-! ### D13 `validate_frame_bounds` + `read_frame_payload_bytes` (src/memvid/frame.rs) -/

def validateFrameBounds (walOffset walSize dataEnd fileLen off len : Nat) : Out Unit :=
  if len = 0 then .ok () else
  if len > Gen.C22.MAX_FRAME_BYTES then .err "too_long" else
  match checkedAdd walOffset walSize with
  | none => .err "wal_overflow"
  | some walEnd =>
    if off < walEnd then .err "overlaps_wal" else
    match checkedAdd off len with
    | none => .err "range_overflow"
    | some e =>
      if e > dataEnd then .err "past_data" else
      if e > fileLen then .err "past_file" else .ok ()

def readFramePayload (file : Bytes) (walOffset walSize dataEnd off len : Nat) : Out Bytes := do
  validateFrameBounds walOffset walSize dataEnd file.length off len
  readAt file off len

/-! ### D14 timeline (src/memvid/timeline.rs): the `usize` conversions -/

/-- `limit.map_or(len, |nz| usize::try_from(nz).unwrap_or(MAX))`, `Vec::with_capacity(len.min(limit))`,
    `frames.get(usize::try_from(id).unwrap_or(MAX))`: ids of the entries that are looked up
    successfully, in order -/
def timelineSelect (ids : List Nat) (limit : Option Nat) (nFrames : Nat) : Out (List Nat) :=
  let lim := match limit with | some n => n | none => ids.length
  .ok ((ids.take lim).filter fun id => decide (id < nFrames))

/-! ### D15 `DoctorPlanner::compute` (src/memvid/doctor.rs) -/

/-- ok `b`: the plan is produced, `b` = it contains a WalReplay phase.  `asserts` = the source has
    `debug_assert!(probe.wal_pending == 0, ..)` after the probe. -/
def plannerComputeWith (asserts : Bool) (walPending : Nat) : Out Bool :=
  if asserts && decide (walPending ≠ 0) then .panic "debug_assert-wal_pending"
  else .ok (decide (walPending > 0))

def plannerCompute (walPending : Nat) : Out Bool :=
  plannerComputeWith Gen.C22.DOCTOR_ASSERTS_NO_PENDING walPending

/-! ### D16 `BlobReader` (src/memvid/frame.rs): `file.seek(SeekFrom::Start(*start + *pos))` -/

/-- `Seek::seek(SeekFrom::Start(target))` on a file-backed reader over `[start, start + len)` -/
def blobSeekWith (checked : Bool) (start len target : Nat) : Out Nat :=
  if target > len then .err "beyond_end" else
  if checked then
    match checkedAdd start target with
    | none => .err "overflow"
    | some p => if p ≥ 2^63 then .err "io" else .ok target
  else do
    let p ← addP start target
    if p ≥ 2^63 then .err "io" else .ok target

def blobSeek (start len target : Nat) : Out Nat := blobSeekWith Gen.C22.BLOB_CHECKED start len target

/-- `blob_reader(id)?.seek(SeekFrom::Start(target))` for a Plain frame `(start, len)` of the TOC.
    `verifies` = `blob_reader_from_frame` streams the `len` stored bytes through the hasher before it
    hands out the reader (a short read or a different hash is `ChecksumMismatch`); `ckOk` = the hash
    of those bytes equals `frame.checksum` (black box: blake3). -/
def blobOpenSeekWith (verifies checked : Bool) (fileLen start len target : Nat) (ckOk : Bool) : Out Nat :=
  if start ≥ 2^63 then .err "io"
  else if verifies && decide (len > 0) && (decide (start + len > fileLen) || !ckOk) then .err "checksum"
  else blobSeekWith checked start len target

def blobOpenSeek (fileLen start len target : Nat) (ckOk : Bool) : Out Nat :=
  blobOpenSeekWith Gen.C22.BLOB_OPEN_VERIFIES Gen.C22.BLOB_CHECKED fileLen start len target ckOk

/-! ### composition: what `open_locked` runs before / between the black boxes -/

/-- run a loader when the manifest is present; its value is not used by the rest of the model -/
def optRun {α : Type} (o : Option Span) (f : Span → Out α) : Out Unit :=
  match o with
  | some s => (f s).bind fun _ => .ok ()
  | none => .ok ()

structure Opened where
  footerOffset : Nat
  dataEnd : Nat
  payloadEnd : Nat
  wal : WalOpened
  generation : Nat
deriving Repr, DecidableEq

/-- `match read_toc(..) { Ok(toc) => toc, Err(Decode | InvalidToc) => recover_toc(.., Some(footer_offset)) }`
    (every error the modelled part of `read_toc` produces is one of those two) -/
def tocOrRecover (H : Bytes → Bytes) (dec : Bytes → BB TocV) (file : Bytes) (fo : Nat) : Out (TocV × Nat) :=
  match readToc H dec file fo with
  | .ok t => .ok (t, fo)
  | .err _ => recoverToc H dec file (some fo)
  | .panic w => .panic w
  | .abort w => .abort w
  | .hang => .hang

/-- `open_locked` (writable open).  `zstdOk` stands for what follows the track headers (zstd +
    serde_json / bincode), `dec` for `Toc::decode`; Tantivy / LexIndex / VecIndex loading sits
    between `compute_data_end` and `recover_wal` and is not modelled. -/
def openLocked (H : Bytes → Bytes) (dec : Bytes → BB TocV) (file : Bytes) : Out Opened := do
  let hdr ← headerRead file
  let (toc, fo) ← tocOrRecover H dec file hdr.footerOffset
  ensureNonOverlapping toc.frames file.length
  let wal ← walOpen H file hdr.walOffset hdr.walSize hdr.walSequence false
  let gen ← locateWindow H file
  let dataEnd := computeDataEnd hdr.walOffset hdr.walSize fo toc
  let payloadEnd := computePayloadEnd hdr.walOffset hdr.walSize toc
  -- load_memories_track / load_logic_mesh (up to the zstd call), load_sketch_track
  optRun toc.memories (loadTrack memoriesHeader file)
  optRun toc.mesh (loadTrack meshHeader file)
  optRun toc.sketch (fun s => sketchRead file s.off s.len)
  .ok { footerOffset := fo, dataEnd := dataEnd, payloadEnd := payloadEnd, wal := wal,
        generation := match gen with | some (s, _) => s.footer.generation | none => 0 }

end Mv.Dec
