/-
  C41, the "exactly once" clause.
    C41_tasks_once    (both id policies, every schedule) at quiescence the ids handed to process_task are
                      exactly the ids ever queued, each once, in FIFO order; no frame is ever hit twice.
    C41_once_partial  with frame ids in the queue and a worker that never takes a task while a put is
                      uncommitted: at quiescence every queued frame is Enriched exactly once and no other
                      frame was touched.
-/
import MvProps.C41
namespace Mv.Worker

/-- strict upper bound of every id pushed so far -/
def bound (pol : Policy) (s : St) : Nat :=
  match pol with
  | .walSeq => s.seq + 1
  | .frameId => s.frames.length + s.pending.length

def inflight : PC → List Nat
  | .processed t => [t]
  | _ => []

/-- bookkeeping invariant of the queue -/
structure QInv (c : Cfg) (s : St) : Prop where
  qlog_eq : s.qlog = s.clog ++ s.queue
  plog_eq : s.plog = s.clog ++ inflight s.pc
  head_hold : ∀ t, s.pc = .holding t → s.queue.head? = some t
  head_proc : ∀ t, s.pc = .processed t → s.queue.head? = some t
  sorted : s.qlog.Pairwise (· < ·)
  bounded : ∀ t ∈ s.qlog, t < bound c.pol s

theorem qinv_init (c : Cfg) : QInv c init := by
  constructor <;> simp [init, inflight]

theorem bound_commitStep (pol : Policy) (s : St) : bound pol s ≤ bound pol (commitStep s) := by
  cases pol with
  | walSeq => have := commitStep_seq_le s; simp only [bound]; omega
  | frameId => simp only [bound, commitStep_frames_length, commitStep_pending]; simp

theorem qinv_commitStep (c : Cfg) (s : St) (h : QInv c s) : QInv c (commitStep s) := by
  constructor
  · simpa using h.qlog_eq
  · simpa using h.plog_eq
  · simpa using h.head_hold
  · simpa using h.head_proc
  · simpa using h.sorted
  · intro t ht
    have := h.bounded t (by simpa using ht)
    have := bound_commitStep c.pol s
    omega

/-- the state right after the put's own bookkeeping, before its optional auto-commit -/
def putCore (c : Cfg) (s : St) (instant embed : Bool) : St := putStep c s instant embed false

theorem putStep_auto (c : Cfg) (s : St) (i e : Bool) : putStep c s i e true = commitStep (putCore c s i e) := by
  simp [putStep, putCore]

theorem queueId_eq (c : Cfg) (s : St) : queueId c.pol s (s.seq + 1) = bound c.pol s := by
  cases h : c.pol <;> simp [queueId, bound]

theorem qinv_putCore (c : Cfg) (s : St) (i e : Bool) (h : QInv c s) : QInv c (putCore c s i e) := by
  have hid := queueId_eq c s
  by_cases hn : (i && e) = true
  · -- queued
    have hb : bound c.pol (putCore c s i e) = bound c.pol s + 1 := by
      cases hp : c.pol <;> simp [putCore, putStep, bound, hp] <;> omega
    constructor
    · simp [putCore, putStep, hn, h.qlog_eq]
    · simpa [putCore, putStep] using h.plog_eq
    · intro t ht
      have := h.head_hold t (by simpa [putCore, putStep] using ht)
      cases hq : s.queue with
      | nil => simp [hq] at this
      | cons a l => simp [putCore, putStep, hn, hq] at *; exact this
    · intro t ht
      have := h.head_proc t (by simpa [putCore, putStep] using ht)
      cases hq : s.queue with
      | nil => simp [hq] at this
      | cons a l => simp [putCore, putStep, hn, hq] at *; exact this
    · simp only [putCore, putStep, hn, if_true, Bool.false_eq_true, if_false]
      rw [List.pairwise_append]
      refine ⟨h.sorted, by simp, ?_⟩
      intro a ha b hb'
      simp only [List.mem_singleton] at hb'
      subst hb'
      rw [hid]; exact h.bounded a ha
    · intro t ht
      rw [hb]
      simp only [putCore, putStep, hn, if_true, Bool.false_eq_true, if_false, List.mem_append, List.mem_singleton] at ht
      rcases ht with ht | ht
      · have := h.bounded t ht; omega
      · rw [ht, hid]; omega
  · -- not queued
    have hn' : (i && e) = false := by simpa using hn
    have hb : bound c.pol s ≤ bound c.pol (putCore c s i e) := by
      cases hp : c.pol <;> simp [putCore, putStep, bound, hp]
    constructor
    · simpa [putCore, putStep, hn'] using h.qlog_eq
    · simpa [putCore, putStep] using h.plog_eq
    · simpa [putCore, putStep, hn'] using h.head_hold
    · simpa [putCore, putStep, hn'] using h.head_proc
    · simpa [putCore, putStep, hn'] using h.sorted
    · intro t ht
      have := h.bounded t (by simpa [putCore, putStep, hn'] using ht)
      omega

theorem qinv_putStep (c : Cfg) (s : St) (i e a : Bool) (h : QInv c s) : QInv c (putStep c s i e a) := by
  cases a
  · exact qinv_putCore c s i e h
  · rw [putStep_auto]; exact qinv_commitStep c _ (qinv_putCore c s i e h)

theorem filter_ne_head {t : Nat} {l : List Nat} (h : (t :: l).Pairwise (· < ·)) :
    (t :: l).filter (· ≠ t) = l := by
  rw [List.pairwise_cons] at h
  simp only [List.filter_cons, ne_eq, not_true_eq_false, decide_false, Bool.false_eq_true, if_false]
  rw [List.filter_eq_self]
  intro a ha
  have := h.1 a ha
  simp; omega

theorem bound_setpc (pol : Policy) (s : St) (p : PC) : bound pol { s with pc := p } = bound pol s := by
  cases pol <;> rfl

/-- moving between program counters that carry no task keeps the bookkeeping -/
theorem qinv_idle_pc (c : Cfg) (s : St) (p : PC) (h : QInv c s) (hin : inflight s.pc = [])
    (hp : inflight p = []) (hh : ∀ t, p ≠ .holding t) : QInv c { s with pc := p } := by
  constructor
  · exact h.qlog_eq
  · have := h.plog_eq; rw [hin] at this; simp only [hp]; exact this
  · intro t ht; exact absurd ht (hh t)
  · intro t ht; simp only at ht; rw [ht] at hp; simp [inflight] at hp
  · exact h.sorted
  · intro t ht; rw [bound_setpc]; exact h.bounded t ht

theorem qinv_workerStep (c : Cfg) (s : St) (h : QInv c s) : QInv c (workerStep c s) := by
  unfold workerStep
  cases hpc : s.pc with
  | head =>
    have hin : inflight s.pc = [] := by rw [hpc]; rfl
    simp only
    split
    · by_cases hs : s.since > 0
      · simp only [hs, if_true]; exact qinv_idle_pc c s .finalCk h hin rfl (by intro t; simp)
      · simp only [hs, if_false]; exact qinv_idle_pc c s .stopped h hin rfl (by intro t; simp)
    · exact qinv_idle_pc c s .fetch h hin rfl (by intro t; simp)
  | fetch =>
    have hin : inflight s.pc = [] := by rw [hpc]; rfl
    have hp := h.plog_eq; rw [hpc] at hp
    simp only
    split
    · exact qinv_idle_pc c s .head h hin rfl (by intro t; simp)
    · next t l hq =>
      constructor
      · exact h.qlog_eq
      · simpa [inflight] using hp
      · intro t' ht'; simp at ht'; simp [hq, ht']
      · intro t' ht'; simp at ht'
      · exact h.sorted
      · exact h.bounded
  | holding t =>
    have hp := h.plog_eq; rw [hpc] at hp
    have hh := h.head_hold t hpc
    simp only [processStep]
    split
    · constructor
      · exact h.qlog_eq
      · simp [inflight, hp]
      · intro t' ht'; simp at ht'
      · intro t' ht'; simp at ht'; subst ht'; exact hh
      · exact h.sorted
      · intro t' ht'
        have := h.bounded t' ht'
        cases hpol : c.pol <;> simp_all [bound, enrichAt_length]
    · constructor
      · exact h.qlog_eq
      · simp [inflight, hp]
      · intro t' ht'; simp at ht'
      · intro t' ht'; simp at ht'; subst ht'; exact hh
      · exact h.sorted
      · intro t' ht'
        have := h.bounded t' ht'
        cases hpol : c.pol <;> simp_all [bound]
  | processed t =>
    have hp := h.plog_eq; rw [hpc] at hp
    have hh := h.head_proc t hpc
    obtain ⟨l, hq⟩ : ∃ l, s.queue = t :: l := by
      cases hq : s.queue with
      | nil => simp [hq] at hh
      | cons a l => simp [hq] at hh; exact ⟨l, by rw [hh]⟩
    have hsorted_q : (t :: l).Pairwise (· < ·) := by
      have := h.sorted; rw [h.qlog_eq, hq, List.pairwise_append] at this; exact this.2.1
    have hfil : s.queue.filter (· ≠ t) = l := by rw [hq]; exact filter_ne_head hsorted_q
    simp only [completeStep]
    constructor
    · simp only [hfil]; rw [h.qlog_eq, hq]; simp
    · simp only; split <;> simp [inflight, hp]
    · intro t' ht'; simp only at ht'; split at ht' <;> cases ht'
    · intro t' ht'; simp only at ht'; split at ht' <;> cases ht'
    · exact h.sorted
    · intro t' ht'
      have := h.bounded t' ht'
      cases hpol : c.pol <;> simp_all [bound]
  | ckpt =>
    have hp := h.plog_eq; rw [hpc] at hp
    have hc := qinv_commitStep c s h
    constructor
    · exact hc.qlog_eq
    · simpa [inflight] using hp
    · intro t' ht'; simp at ht'
    · intro t' ht'; simp at ht'
    · exact hc.sorted
    · intro t' ht'
      have := hc.bounded t' ht'
      cases hpol : c.pol <;> simp_all [bound]
  | finalCk =>
    have hp := h.plog_eq; rw [hpc] at hp
    have hc := qinv_commitStep c s h
    constructor
    · exact hc.qlog_eq
    · simpa [inflight] using hp
    · intro t' ht'; simp at ht'
    · intro t' ht'; simp at ht'
    · exact hc.sorted
    · intro t' ht'
      have := hc.bounded t' ht'
      cases hpol : c.pol <;> simp_all [bound]
  | stopped => exact h

theorem qinv_step (c : Cfg) (s : St) (a : Action) (h : QInv c s) : QInv c (step c s a) := by
  cases a with
  | put i e au => exact qinv_putStep c s i e au h
  | search => exact h
  | commit => exact qinv_commitStep c s h
  | stop => exact ⟨h.qlog_eq, h.plog_eq, h.head_hold, h.head_proc, h.sorted, h.bounded⟩
  | w => exact qinv_workerStep c s h

theorem qinv_run (c : Cfg) (s : St) (sched : List Action) (h : QInv c s) : QInv c (run c s sched) := by
  induction sched generalizing s with
  | nil => exact h
  | cons a as ih => exact ih _ (qinv_step c s a h)

theorem plog_prefix {c : Cfg} {s : St} (h : QInv c s) : s.plog <+: s.qlog := by
  rw [h.plog_eq, h.qlog_eq]
  cases hpc : s.pc with
  | processed t =>
    have := h.head_proc t hpc
    cases hq : s.queue with
    | nil => simp [hq] at this
    | cons a l =>
      simp [hq] at this; subst this
      simp only [inflight]
      exact ⟨l, by simp⟩
  | _ => simp [inflight]

theorem plog_sorted {c : Cfg} {s : St} (h : QInv c s) : s.plog.Pairwise (· < ·) :=
  List.Pairwise.sublist (plog_prefix h).sublist h.sorted

theorem quiescent_logs {c : Cfg} {s : St} (h : QInv c s) (hq : Quiescent s) : s.plog = s.qlog := by
  obtain ⟨h1, _, h3⟩ := hq
  rw [h.plog_eq, h.qlog_eq, h1]
  rcases h3 with h3 | h3 | h3 <;> simp [h3, inflight]

theorem count_le_one_of_sorted {l : List Nat} (h : l.Pairwise (· < ·)) (i : Nat) : l.count i ≤ 1 := by
  have hn : l.Nodup := h.imp (fun hab => Nat.ne_of_lt hab)
  exact List.nodup_iff_count.mp hn i

/-! ### no frame is hit twice -/

def EnrLe (s : St) : Prop := ∀ i f, s.all[i]? = some f → f.enr ≤ s.plog.count i

theorem enrle_step (c : Cfg) (s : St) (a : Action) (h : EnrLe s) : EnrLe (step c s a) := by
  intro i f hf
  cases a with
  | put ii e au =>
    simp only [step] at hf ⊢
    rw [plog_putStep]
    rw [all_putStep, List.getElem?_append] at hf
    split at hf
    · exact h i f hf
    · have : f = putFr s ii e := by
        cases hx : [putFr s ii e][i - s.all.length]? with
        | none => rw [hx] at hf; cases hf
        | some g =>
          rw [hx] at hf; cases hf
          have := List.mem_of_getElem? hx
          simpa using this
      subst this; simp [putFr]
  | search => exact h i f hf
  | commit => simp only [step] at hf ⊢; rw [all_commitStep] at hf; simpa using h i f hf
  | stop => exact h i f hf
  | w =>
    simp only [step] at hf ⊢
    unfold workerStep at hf ⊢
    cases hpc : s.pc with
    | head =>
      rw [hpc] at hf; simp only at hf ⊢
      by_cases hst : s.stop = true <;> simp only [hst, if_true, if_false, Bool.false_eq_true] at hf ⊢ <;> exact h i f hf
    | fetch => rw [hpc] at hf; simp only at hf ⊢; split at hf <;> exact h i f hf
    | holding t =>
      rw [hpc] at hf; simp only [processStep] at hf ⊢
      by_cases ht : t < s.frames.length
      · simp only [ht, if_true] at hf ⊢
        have e : ({ s with frames := enrichAt s.frames t, dirty := true, tdirty := true, plog := s.plog ++ [t], pc := PC.processed t } : St).all
            = enrichAt s.all t := by simp [St.all, enrichAt_append, ht]
        rw [e, getElem?_enrichAt] at hf
        by_cases hit : i = t
        · subst hit
          simp only [if_true] at hf
          cases hg : s.all[i]? with
          | none => rw [hg] at hf; cases hf
          | some g =>
            rw [hg] at hf; cases hf
            have := h i g hg
            simp [enrich, List.count_append]; omega
        · simp only [hit, if_false] at hf
          have := h i f hf
          simp [List.count_append]; omega
      · simp only [ht, if_false] at hf ⊢
        have := h i f hf
        simp [List.count_append]; omega
    | processed t => rw [hpc] at hf; simp only [completeStep] at hf ⊢; exact h i f hf
    | ckpt => rw [hpc] at hf; simp only at hf ⊢; have := all_commitStep s; simp only [St.all] at this hf; rw [this] at hf; simpa using h i f hf
    | finalCk => rw [hpc] at hf; simp only at hf ⊢; have := all_commitStep s; simp only [St.all] at this hf; rw [this] at hf; simpa using h i f hf
    | stopped => rw [hpc] at hf; exact h i f hf

theorem enrle_run (c : Cfg) (s : St) (sched : List Action) (h : EnrLe s) : EnrLe (run c s sched) := by
  induction sched generalizing s with
  | nil => exact h
  | cons a as ih => exact ih _ (enrle_step c s a h)

/-- **C41_tasks_once** — for every schedule, interval and id policy: the ids handed to process_task
    are always a duplicate-free prefix of the ids ever queued (FIFO, nothing skipped, nothing twice);
    at quiescence they are ALL the ids ever queued; and no frame is ever hit by `mark_frame_enriched`
    more than once. -/
theorem C41_tasks_once (c : Cfg) (sched : List Action) :
    let s := run c init sched
    s.plog <+: s.qlog ∧ s.qlog.Pairwise (· < ·) ∧ (Quiescent s → s.plog = s.qlog) ∧
    ∀ f ∈ s.frames ++ s.pending, f.enr ≤ 1 := by
  have hq := qinv_run c init sched (qinv_init c)
  have he := enrle_run c init sched (by intro i f hf; simp [init, St.all] at hf)
  refine ⟨plog_prefix hq, hq.sorted, quiescent_logs hq, ?_⟩
  intro f hf
  obtain ⟨i, hi⟩ := List.getElem?_of_mem hf
  have := he i f hi
  have := count_le_one_of_sorted (plog_sorted hq) i
  omega

/-- non-vacuity: on the witness of the recorded defect the task IS processed exactly once —
    what fails there is only that the frame ends Enriched -/
example : (run walCfg init witnessSeq).qlog = [1] ∧ (run walCfg init witnessSeq).plog = [1] ∧
    Quiescent (run walCfg init witnessSeq) ∧ ¬ OnceAt (run walCfg init witnessSeq) := by decide

/-! ### C41_once_partial -/

/-- the worker never executes `get_next_task` while a put is still an uncommitted WAL record -/
def Disciplined (c : Cfg) : St → List Action → Prop
  | _, [] => True
  | s, a :: as => (a = .w → s.pc = .fetch → s.pending = []) ∧ Disciplined c (step c s a) as

/-- invariant available when the queue holds frame ids and the schedule is disciplined -/
structure PInv (s : St) : Prop where
  enr_eq : ∀ i f, s.all[i]? = some f → f.enr = s.plog.count i
  q_iff : ∀ i f, s.all[i]? = some f → (f.q = true ↔ i ∈ s.qlog)
  st_iff : ∀ (i : Nat) (f : Fr), s.all[i]? = some f → (f.st = ESt.enriched ↔ (f.q = false ∨ 0 < f.enr))
  hold_lt : ∀ t, s.pc = .holding t → t < s.frames.length

theorem pinv_init : PInv init := by
  constructor <;> simp [init, St.all]

theorem getElem?_append_singleton {l : List Fr} {x f : Fr} {i : Nat} (h : (l ++ [x])[i]? = some f) :
    l[i]? = some f ∨ (i = l.length ∧ f = x) := by
  rw [List.getElem?_append] at h
  split at h
  · left; exact h
  · right
    rename_i hlt
    have hi : i - l.length = 0 := by
      cases hx : i - l.length with
      | zero => rfl
      | succ n => rw [hx] at h; simp at h
    rw [hi] at h
    simp at h
    exact ⟨by omega, h.symm⟩

theorem pinv_commitStep (s : St) (h : PInv s) : PInv (commitStep s) := by
  constructor
  · intro i f hf; rw [all_commitStep] at hf; simpa using h.enr_eq i f hf
  · intro i f hf; rw [all_commitStep] at hf; simpa using h.q_iff i f hf
  · intro i f hf; rw [all_commitStep] at hf; exact h.st_iff i f hf
  · intro t ht
    have := h.hold_lt t (by simpa using ht)
    rw [commitStep_frames_length]; omega

theorem pinv_putCore (c : Cfg) (hpol : c.pol = .frameId) (s : St) (i e : Bool) (hq : QInv c s) (h : PInv s) :
    PInv (putCore c s i e) := by
  have hall : (putCore c s i e).all = s.all ++ [putFr s i e] := all_putStep c s i e false
  have hlen : s.all.length = s.frames.length + s.pending.length := by simp [St.all]
  have hplog : (putCore c s i e).plog = s.plog := plog_putStep c s i e false
  have hqlog : (putCore c s i e).qlog = if (i && e) = true then s.qlog ++ [s.all.length] else s.qlog := by
    simp [putCore, putStep, queueId, hpol, hlen]
  have hbound : ∀ t ∈ s.qlog, t < s.all.length := by
    intro t ht; have := hq.bounded t ht; simpa [bound, hpol, hlen] using this
  constructor
  · intro k f hf
    rw [hall] at hf; rw [hplog]
    rcases getElem?_append_singleton hf with hf | ⟨hk, rfl⟩
    · exact h.enr_eq k f hf
    · -- a new frame: nothing processed carries its position yet
      simp only [putFr]
      have : k ∉ s.plog := by
        intro hm
        have := (plog_prefix hq).sublist.subset hm
        have := hbound k this
        omega
      exact (List.count_eq_zero.mpr this).symm
  · intro k f hf
    rw [hall] at hf; rw [hqlog]
    rcases getElem?_append_singleton hf with hf | ⟨hk, rfl⟩
    · have hk : k < s.all.length := by
        rcases Nat.lt_or_ge k s.all.length with hk | hk
        · exact hk
        · rw [List.getElem?_eq_none hk] at hf; cases hf
      have := h.q_iff k f hf
      split
      · simp only [List.mem_append, List.mem_singleton]
        constructor
        · intro hh; left; exact this.mp hh
        · intro hh; rcases hh with hh | hh
          · exact this.mpr hh
          · omega
      · exact this
    · simp only [putFr]
      by_cases hn : (i && e) = true
      · simp [hn, hk]
      · simp only [hn]
        constructor
        · intro hh; exact absurd hh (by simp)
        · intro hh; have := hbound k hh; omega
  · intro k f hf
    rw [hall] at hf
    rcases getElem?_append_singleton hf with hf | ⟨_, rfl⟩
    · exact h.st_iff k f hf
    · simp only [putFr]
      cases hn : (i && e) <;> simp [born]
  · intro t ht
    have := h.hold_lt t (by simpa [putCore, putStep] using ht)
    simpa [putCore, putStep] using this

theorem pinv_step (c : Cfg) (hpol : c.pol = .frameId) (s : St) (a : Action)
    (hd : a = .w → s.pc = .fetch → s.pending = []) (hq : QInv c s) (h : PInv s) : PInv (step c s a) := by
  cases a with
  | put i e au =>
    simp only [step]
    cases au
    · exact pinv_putCore c hpol s i e hq h
    · rw [putStep_auto]; exact pinv_commitStep _ (pinv_putCore c hpol s i e hq h)
  | search => exact h
  | commit => exact pinv_commitStep s h
  | stop => exact ⟨h.enr_eq, h.q_iff, h.st_iff, h.hold_lt⟩
  | w =>
    simp only [step]
    unfold workerStep
    cases hpc : s.pc with
    | head =>
      simp only
      split
      · exact ⟨h.enr_eq, h.q_iff, h.st_iff, by intro t ht; simp only at ht; split at ht <;> cases ht⟩
      · exact ⟨h.enr_eq, h.q_iff, h.st_iff, by intro t ht; simp at ht⟩
    | fetch =>
      simp only
      cases hqq : s.queue with
      | nil => exact ⟨h.enr_eq, h.q_iff, h.st_iff, by intro t ht; simp at ht⟩
      | cons t l =>
        refine ⟨h.enr_eq, h.q_iff, h.st_iff, ?_⟩
        intro t' ht'
        simp only [PC.holding.injEq] at ht'
        subst ht'
        have hp := hd rfl hpc
        have hm : t ∈ s.qlog := by rw [hq.qlog_eq, hqq]; simp
        have := hq.bounded t hm
        simpa [bound, hpol, hp] using this
    | holding t =>
      have ht := h.hold_lt t hpc
      simp only [processStep, ht, if_true]
      have e : ({ s with frames := enrichAt s.frames t, dirty := true, tdirty := true, plog := s.plog ++ [t], pc := PC.processed t } : St).all
          = enrichAt s.all t := by simp [St.all, enrichAt_append, ht]
      constructor
      · intro k f hf
        rw [e, getElem?_enrichAt] at hf
        by_cases hit : k = t
        · subst hit
          simp only [if_true] at hf
          cases hg : s.all[k]? with
          | none => rw [hg] at hf; cases hf
          | some g =>
            rw [hg] at hf; cases hf
            have := h.enr_eq k g hg
            simp [enrich, List.count_append, this]
        · simp only [hit, if_false] at hf
          have := h.enr_eq k f hf
          simp only [List.count_append, this]
          have : [t].count k = 0 := by simp [List.count_singleton]; omega
          omega
      · intro k f hf
        rw [e, getElem?_enrichAt] at hf
        by_cases hit : k = t
        · subst hit
          simp only [if_true] at hf
          cases hg : s.all[k]? with
          | none => rw [hg] at hf; cases hf
          | some g => rw [hg] at hf; cases hf; simpa [enrich] using h.q_iff k g hg
        · simp only [hit, if_false] at hf; exact h.q_iff k f hf
      · intro k f hf
        rw [e, getElem?_enrichAt] at hf
        by_cases hit : k = t
        · subst hit
          simp only [if_true] at hf
          cases hg : s.all[k]? with
          | none => rw [hg] at hf; cases hf
          | some g => rw [hg] at hf; cases hf; simp [enrich]
        · simp only [hit, if_false] at hf; exact h.st_iff k f hf
      · intro t' ht'; simp at ht'
    | processed t =>
      simp only [completeStep]
      refine ⟨h.enr_eq, h.q_iff, h.st_iff, ?_⟩
      intro t' ht'; simp only at ht'; split at ht' <;> cases ht'
    | ckpt =>
      have hc := pinv_commitStep s h
      exact ⟨hc.enr_eq, hc.q_iff, hc.st_iff, by intro t ht; simp at ht⟩
    | finalCk =>
      have hc := pinv_commitStep s h
      exact ⟨hc.enr_eq, hc.q_iff, hc.st_iff, by intro t ht; simp at ht⟩
    | stopped => exact h

theorem pinv_run (c : Cfg) (hpol : c.pol = .frameId) (s : St) (sched : List Action)
    (hd : Disciplined c s sched) (hq : QInv c s) (h : PInv s) : PInv (run c s sched) := by
  induction sched generalizing s with
  | nil => exact h
  | cons a as ih =>
    exact ih _ hd.2 (qinv_step c s a hq) (pinv_step c hpol s a hd.1 hq h)

theorem once_of_inv {c : Cfg} {s : St} (hq : QInv c s) (hp : PInv s) (hqs : Quiescent s) : OnceAt s := by
  intro f hf
  have hlogs := quiescent_logs hq hqs
  have hf' : f ∈ s.all := by simp [St.all, hf]
  obtain ⟨i, hi⟩ := List.getElem?_of_mem hf'
  have h1 := hp.enr_eq i f hi
  have h2 := hp.q_iff i f hi
  have h3 := hp.st_iff i f hi
  have hc := count_le_one_of_sorted (plog_sorted hq) i
  constructor
  · intro hqt
    have hm : i ∈ s.plog := by rw [hlogs]; exact h2.mp hqt
    have hpos : 0 < s.plog.count i := List.count_pos_iff.mpr hm
    have he : f.enr = 1 := by omega
    exact ⟨h3.mpr (Or.inr (by omega)), he⟩
  · intro hqf
    have hm : i ∉ s.plog := by
      rw [hlogs]; intro hm
      have := h2.mpr hm
      rw [hqf] at this; cases this
    rw [h1]; exact List.count_eq_zero.mpr hm

/-- **C41_once_partial** — if the queue held frame ids, then for every interval and every schedule in
    which the worker never runs `get_next_task` while a put is still uncommitted: at quiescence every
    frame that was queued is Enriched and was enriched exactly once, and no other frame was touched. -/
theorem C41_once_partial (interval : Nat) (sched : List Action)
    (hd : Disciplined { interval := interval, pol := .frameId } init sched) :
    Quiescent (run { interval := interval, pol := .frameId } init sched) →
    OnceAt (run { interval := interval, pol := .frameId } init sched) := by
  intro hqs
  have hq := qinv_run { interval := interval, pol := .frameId } init sched (qinv_init _)
  have hp := pinv_run { interval := interval, pol := .frameId } rfl init sched hd (qinv_init _) pinv_init
  exact once_of_inv hq hp hqs

instance decDisciplined (c : Cfg) : (s : St) → (l : List Action) → Decidable (Disciplined c s l)
  | _, [] => isTrue trivial
  | s, a :: as =>
    have := decDisciplined c (step c s a) as
    by unfold Disciplined; exact inferInstance

def exampleCfg : Cfg := { interval := 2, pol := .frameId }
def exampleSched : List Action :=
  [.put true true false, .put false false false, .put true true false, .commit,
   .w, .w, .w, .w, .w, .w, .w, .w, .w, .w, .w]

/-- non-vacuity: a disciplined schedule with two queued puts, one plain put and a quiescent end -/
example :
    Disciplined exampleCfg init exampleSched ∧ Quiescent (run exampleCfg init exampleSched) ∧
    (run exampleCfg init exampleSched).plog = [0, 2] ∧
    (run exampleCfg init exampleSched).frames.map (fun f => (f.st, f.enr)) =
      [(ESt.enriched, 1), (ESt.enriched, 0), (ESt.enriched, 1)] := by
  decide

end Mv.Worker
