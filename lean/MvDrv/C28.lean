/- Driver for C28 (persisted indexes answer like the in-memory ones).  Model: MvModel/Persist.lean.
   frames   = id:ts:role:status,…  | -            role d|c|i   status a|s|d      (frame table order)
   docs     = none | empty | id:hex;id:hex;…      f32 values as 8 hex digits each (as in drv_c13)
   manifest = none | <dim>:<index bytes hex | ->  `toc.indexes.vec` (dimension, the bytes it points to; - = placeholder)
   entries  = id:simhash:filterhex:tops,|-:weightSum:flags:lengthHint;…  | -     (as in drv_c39)
   requests:
     timeidx <frames>                                   → <hex of the time-index track rebuild_indexes writes>
     timeline <frames> <track hex|none> <limit|0> <since|-> <until|-> <rev 0|1>
                                                        → ok ts:id,… | ok - | err <name>      (read_track + build_timeline)
     timelinemem <frames> <limit|0> <since|-> <until|-> <rev 0|1>   → ok ts:id,… | ok -       (never serialised)
     vecenc <docs>                                      → <hex>                                 (VecIndexBuilder::finish)
     vecopen <manifest>                                 → <enabled 0|1> <dim|-> <docs>          (open_locked, index part)
     vecsearch <manifest> <q hex|-> <k>                 → ok ids | err notenabled | err dim e a | panic | nonfinite
                                                          (search_vec on a handle that opened the file; exact distances)
     vecdoctor <keeps 0|1|gen> <rv 0|1> <active ids,|all> <manifest> → <manifest> | fail        (apply_pending_rebuilds)
     sketchrt <variant> <entries>                       → ok <variant> <n> <entries> | err …    (persist + load of the sketch track)
     cands <thr> <qsimhash> <qfilter hex> <variant> <entries> → <ids passing on the live track> <ids passing after reload | err>
-/
import MvModel.Persist
import MvModel.DrvUtil
open Mv Mv.Persist

/-! ### frames / timeline -/

def parseRole : String → Option Timeline.Role
  | "d" => some .document | "c" => some .chunk | "i" => some .image | _ => none
def parseStatus : String → Option Timeline.Status
  | "a" => some .active | "s" => some .superseded | "d" => some .deleted | _ => none

def parseFrame (s : String) : Option Timeline.Frame :=
  match s.splitOn ":" with
  | [i, t, r, st] => do
    let i ← i.toNat?
    let t ← parseInt t
    let r ← parseRole r
    let st ← parseStatus st
    pure { id := i, ts := t, role := r, status := st }
  | _ => none

def parseFrames (s : String) : Option (List Timeline.Frame) :=
  if s == "-" then some [] else (s.splitOn ",").mapM parseFrame

def parseOptInt (s : String) : Option (Option Int) := if s == "-" then some none else (parseInt s).map some

def parseQuery (lim since untl rev : String) : Option Timeline.Query := do
  let l ← lim.toNat?
  let s ← parseOptInt since
  let u ← parseOptInt untl
  pure { limit := if l = 0 then none else some l, since := s, «until» := u, reverse := rev == "1" }

def showEntries (es : List Timeline.Entry) : String :=
  if es.isEmpty then "ok -" else "ok " ++ ",".intercalate (es.map fun e => s!"{e.ts}:{e.id}")

/-! ### vectors (wire format of drv_c13) -/

def words32 : List UInt8 → Option (List Nat)
  | [] => some []
  | a :: b :: c :: d :: rest =>
    (words32 rest).map fun t => (a.toNat * 2 ^ 24 + b.toNat * 2 ^ 16 + c.toNat * 2 ^ 8 + d.toNat) :: t
  | _ => none

def parseBits (s : String) : Option (List Nat) := (ofHex s).bind words32

def parseDoc (s : String) : Option (Vec.Doc Nat) :=
  match s.splitOn ":" with
  | [i, h] => match i.toNat?, parseBits h with
    | some fid, some e => some { frameId := fid, embedding := e }
    | _, _ => none
  | _ => none

def parseDocs (s : String) : Option (Option (List (Vec.Doc Nat))) :=
  if s == "none" then some none
  else if s == "empty" then some (some [])
  else ((s.splitOn ";").mapM parseDoc).map some

def showBits (e : List Nat) : String :=
  if e.isEmpty then "-" else
  String.join (e.map fun x => toHex [UInt8.ofNat (x / 2 ^ 24), UInt8.ofNat (x / 2 ^ 16), UInt8.ofNat (x / 2 ^ 8), UInt8.ofNat x])

def showDocs : Option (List (Vec.Doc Nat)) → String
  | none => "none"
  | some ds => if ds.isEmpty then "empty" else ";".intercalate (ds.map fun d => s!"{d.frameId}:{showBits d.embedding}")

def parseManifest (s : String) : Option VecDisk :=
  if s == "none" then some { man := none }
  else match s.splitOn ":" with
    | [d, h] => match d.toNat?, ofHex h with
      | some dim, some b => some { man := some (dim, b) }
      | _, _ => none
    | _ => none

def showManifest (d : VecDisk) : String :=
  match d.man with
  | none => "none"
  | some (dim, b) => s!"{dim}:{toHexW b}"

/-- finite → some (some r); NaN → some none; ±inf → none -/
def f32Class (bits : Nat) : Option (Option Rat) :=
  match Simd.f32ToRat bits with
  | some r => some (some r)
  | none => if bits % 2 ^ 23 ≠ 0 then some none else none

def showHits (r : Except Vec.Err (List (Vec.Hit (Option Rat)))) : String :=
  match r with
  | .ok hs => "ok " ++ showNats (hs.map (·.frameId))
  | .error .vecNotEnabled => "err notenabled"
  | .error (.dimMismatch e a) => s!"err dim {e} {a}"

/-- `search_vec` on the handle that opened `d`; the dimension / enabled checks run on bit patterns, the
    distances are exact rationals (NaN components give a NaN distance; infinities are refused) -/
def vecSearch (d : VecDisk) (qb : List Nat) (k : Nat) : String :=
  let m := openVec d
  match searchVecH (fun b => b) (fun _ _ => (0 : Nat)) (fun _ _ => some .eq) (fun _ => false) m d qb k with
  | .error .vecNotEnabled => "err notenabled"
  | .error (.dimMismatch e a) => s!"err dim {e} {a}"
  | .ok _ =>
    let docs := (ensureVec m d).getD []
    match docs.mapM (fun x => x.embedding.mapM f32Class), qb.mapM f32Class with
    | some _, some q =>
      if !q.isEmpty ∧ docs.any (fun x => x.embedding.length ≠ q.length) then "panic"
      else
        -- `ofBits` = exact value of the pattern (every pattern was classified above)
        showHits (searchVecH (fun b => (f32Class b).getD none) Vec.sqDistNan Vec.optRatCmp Vec.optIsNan m d q k)
    | _, _ => "nonfinite"

/-! ### sketch track (wire format of drv_c39) -/

open Sketch in
def parseVariant : String → Option Variant
  | "small" => some .small | "medium" => some .medium | "large" => some .large | _ => none

open Sketch in
def showVariant : Variant → String
  | .small => "small" | .medium => "medium" | .large => "large"

open Sketch in
def parseEntry (s : String) : Option Entry :=
  match s.splitOn ":" with
  | [id, sh, f, tops, tws, fl, lh] => do
    let id ← id.toNat?
    let sh ← sh.toNat?
    let f ← ofHex f
    let tops ← natList tops
    let tws ← tws.toNat?
    let fl ← fl.toNat?
    let lh ← lh.toNat?
    pure { frameId := id, simhash := sh, termFilter := f, topTerms := tops, termWeightSum := tws, flags := fl, lengthHint := lh }
  | _ => none

def parseSkEntries (s : String) : Option (List Sketch.Entry) :=
  if s == "-" then some [] else (s.splitOn ";").mapM parseEntry

def showSkEntry (e : Sketch.Entry) : String :=
  s!"{e.frameId}:{e.simhash}:{toHexW e.termFilter}:{showNats e.topTerms}:{e.termWeightSum}:{e.flags}:{e.lengthHint}"

def showSkEntries (es : List Sketch.Entry) : String :=
  if es.isEmpty then "-" else ";".intercalate (es.map showSkEntry)

def showRErr : Sketch.RErr → String
  | .io => "err io" | .magic => "err magic" | .entrySize => "err entry-size" | .length => "err length"
  | .overflow => "err overflow" | .panicMul => "panic mul" | .panicAdd => "panic add"

/-! ### requests -/

def step (_ : Unit) (ws : List String) : Unit × String :=
  let bad := ((), "bad-op")
  match ws with
  | ["timeidx", fr] => match parseFrames fr with
    | some frames => ((), toHexW (timeTrack frames))
    | none => bad
  | ["timeline", fr, tr, lim, since, untl, rev] =>
    match parseFrames fr, parseQuery lim since untl rev, (if tr == "none" then some none else (ofHex tr).map some) with
    | some frames, some q, some otrack =>
      let r := match otrack with
        | none => timelineFile frames [] none q
        | some b => timelineFile frames b (some ⟨0, b.length⟩) q
      match r with
      | .ok es => ((), showEntries es)
      | .error e => ((), "err " ++ e.name)
    | _, _, _ => bad
  | ["timelinemem", fr, lim, since, untl, rev] =>
    match parseFrames fr, parseQuery lim since untl rev with
    | some frames, some q => ((), showEntries (timelineMem frames q))
    | _, _ => bad
  | ["vecenc", sd] => match parseDocs sd with
    | some (some docs) => ((), toHexW (Vec.encodeDocs docs))
    | _ => bad
  | ["vecopen", sm] => match parseManifest sm with
    | some d =>
      let m := openVec d
      ((), s!"{if m.enabled then 1 else 0} {match m.manDim with | some x => toString x | none => "-"} {showDocs m.index}")
    | none => bad
  | ["vecsearch", sm, sq, sk] => match parseManifest sm, parseBits sq, sk.toNat? with
    | some d, some qb, some k => ((), vecSearch d qb k)
    | _, _, _ => bad
  | ["vecdoctor", sk, srv, sact, sm] =>
    match parseManifest sm, (if sact == "all" then some none else (natList sact).map some),
          (if sk == "gen" then some Mv.Gen.C28.DOCTOR_VEC_REBUILD_KEEPS else if sk == "1" then some true else if sk == "0" then some false else none) with
    | some d, some oact, some keeps =>
      let active : Nat → Bool := match oact with
        | none => fun _ => true
        | some l => fun i => l.contains i
      match doctorVec keeps (srv == "1") active d with
      | some d' => ((), showManifest d')
      | none => ((), "fail")
    | _, _, _ => bad
  | ["sketchrt", v, es] => match parseVariant v, parseSkEntries es with
    | some v, some es =>
      match reloadSketch (Sketch.Track.ofInserts v es) with
      | .ok t => ((), s!"ok {showVariant t.variant} {t.entries.length} {showSkEntries t.entries}")
      | .error e => ((), showRErr e)
    | _, _ => bad
  | ["cands", thr, qs, qf, v, es] => match thr.toNat?, qs.toNat?, ofHex qf, parseVariant v, parseSkEntries es with
    | some thr, some qs, some qf, some v, some es =>
      let q : Recall.QSketch := { simhash := qs, termFilter := qf, topTerms := [], tokenCount := 1 }
      let t := Sketch.Track.ofInserts v es
      let live := showNats (passingIds q thr t)
      match reloadSketch t with
      | .ok t' => ((), s!"{live} {showNats (passingIds q thr t')}")
      | .error e => ((), s!"{live} {showRErr e}")
    | _, _, _, _, _ => bad
  | _ => bad

def main : IO Unit := runDriver () step
