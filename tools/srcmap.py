#!/usr/bin/env python3
"""Record the fingerprints of every mirrored Rust function listed in props/*.json
(run by hand after a model has been (re)validated against the source; never at check time)."""
import glob, importlib.machinery, importlib.util, json, os, sys
loader = importlib.machinery.SourceFileLoader("check", "/verif/check")
spec = importlib.util.spec_from_loader("check", loader)
chk = importlib.util.module_from_spec(spec); loader.exec_module(chk)
out = {}
for p in sorted(glob.glob("/verif/props/C*.json")):
    for mir in json.load(open(p)).get("mirrors", []):
        key = f"{mir['file']}::{mir['fn']}"
        fp = chk.rust_fn_fingerprint(mir["file"], mir["fn"])
        if fp is None:
            print("WARNING: not found:", key)
        out[key] = fp
json.dump(out, open("/verif/props/srcmap.json", "w"), indent=1, sort_keys=True)
print(f"{len(out)} fingerprints recorded")
