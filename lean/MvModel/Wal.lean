/-
  Model of `/repo/src/io/wal.rs` (EmbeddedWal) — byte-accurate over the WAL region.
  The region is a `List UInt8` of length `S`; file offsets are relative to the region start.
  `H` is the record checksum function (blake3 in the implementation; abstract in theorems).
  Mirrors the code AFTER the repair "fix: WAL sentinel no longer wraps to offset 0 over pending
  records" (the pre-repair sentinel rule is kept as `writeZeroHeaderOld` for the regression theorem).
-/
import MvModel.Bytes
import MvModel.Gen.C05
namespace Mv.Wal

def ENTRY_HEADER_SIZE : Nat := Mv.Gen.C05.ENTRY_HEADER_SIZE
theorem EHS_eq : ENTRY_HEADER_SIZE = 48 := by decide

structure Rec where
  seq : Nat
  payload : Bytes
deriving Repr, DecidableEq

def Rec.size (r : Rec) : Nat := ENTRY_HEADER_SIZE + r.payload.length

/-- `write_record`: `[seq u64][len u32][4 reserved zero][H payload (32)][payload]` -/
def encodeRecord (H : Bytes → Bytes) (r : Rec) : Bytes :=
  u64le r.seq ++ u32le r.payload.length ++ zeros 4 ++ H r.payload ++ r.payload

inductive WalErr
  | tooLarge | tooSmall | full | readOnly
  | corrupt (off : Nat)
deriving Repr, DecidableEq

structure Wal where
  S : Nat                -- region_size
  region : Bytes
  wh : Nat               -- write_head  (0 ≤ wh ≤ S after the repair)
  ckh : Nat              -- checkpoint_head
  pend : Nat             -- pending_bytes
  seq : Nat              -- sequence
  ckseq : Nat            -- checkpoint_sequence
  appends : Nat          -- appends_since_checkpoint
  ro : Bool
deriving Repr, DecidableEq

/-- `scan_records`: parse from offset 0 until a zero header, the region end, or corruption.
    `fuel` bounds the number of records (each is ≥ 49 bytes, so `S` is always enough). -/
def scanFrom (H : Bytes → Bytes) (S : Nat) (region : Bytes) :
    Nat → Nat → List Rec → Except WalErr (List Rec × Nat)
  | 0, cursor, acc => .ok (acc.reverse, cursor)
  | fuel+1, cursor, acc =>
    if cursor + ENTRY_HEADER_SIZE ≤ S then
      let hdr := slice region cursor ENTRY_HEADER_SIZE
      let sequence := leVal (slice hdr 0 8)
      let length := leVal (slice hdr 8 4)
      let checksum := slice hdr 16 32
      if sequence = 0 ∧ length = 0 then .ok (acc.reverse, cursor)
      else if length = 0 ∨ cursor + ENTRY_HEADER_SIZE + length > S then .error (.corrupt cursor)
      else
        let payload := slice region (cursor + ENTRY_HEADER_SIZE) length
        if H payload ≠ checksum then .error (.corrupt cursor)
        else scanFrom H S region fuel (cursor + ENTRY_HEADER_SIZE + length)
               ({ seq := sequence, payload := payload } :: acc)
    else .ok (acc.reverse, cursor)

def scan (H : Bytes → Bytes) (S : Nat) (region : Bytes) : Except WalErr (List Rec × Nat) :=
  scanFrom H S region (S + 1) 0 []

def pendingSize (ckseq : Nat) (rs : List Rec) : Nat :=
  ((rs.filter (fun r => r.seq > ckseq)).map Rec.size).sum

/-- `write_zero_header` (repaired): returns the new region and the position it reports -/
def writeZeroHeader (w : Wal) (position : Nat) : Bytes × Nat :=
  if w.S = 0 then (w.region, 0)
  else
    let pos := min position w.S
    let remaining := w.S - pos
    if remaining < ENTRY_HEADER_SIZE then
      (if remaining > 0 then writeAt w.region pos (zeros remaining) else w.region, pos)
    else (writeAt w.region pos (zeros ENTRY_HEADER_SIZE), pos)

/-- the rule before the repair: the sentinel (and the write head) jump to offset 0 -/
def writeZeroHeaderOld (w : Wal) (position : Nat) : Bytes × Nat :=
  if w.S = 0 then (w.region, 0)
  else
    let pos := position % w.S
    let remaining := w.S - pos
    if remaining < ENTRY_HEADER_SIZE then
      let r1 := if remaining > 0 then writeAt w.region pos (zeros remaining) else w.region
      (writeAt r1 0 (zeros ENTRY_HEADER_SIZE), 0)
    else (writeAt w.region pos (zeros ENTRY_HEADER_SIZE), pos)

/-- `maybe_write_sentinel` -/
def maybeSentinel (w : Wal) : Wal :=
  if w.ro ∨ w.S = 0 then w
  else if w.pend ≥ w.S then w
  else
    let (region, next) := writeZeroHeader w w.wh
    { w with region := region, wh := next }

def maybeSentinelOld (w : Wal) : Wal :=
  if w.ro ∨ w.S = 0 then w
  else if w.pend ≥ w.S then w
  else
    let (region, next) := writeZeroHeaderOld w w.wh
    { w with region := region, wh := next }

/-- `append_entry` → new state and the sequence number returned -/
def append (H : Bytes → Bytes) (w : Wal) (payload : Bytes) : Except WalErr (Wal × Nat) :=
  if w.ro then .error .readOnly
  else if payload.length > 4294967295 then .error .tooLarge
  else
    let entrySize := ENTRY_HEADER_SIZE + payload.length
    if entrySize > w.S then .error .tooSmall
    else if w.pend + entrySize > w.S then .error .full
    else
      let wrapping := w.wh + entrySize > w.S
      if wrapping ∧ w.pend > 0 then .error .full
      else
        let wh := if wrapping then 0 else w.wh
        let next := w.seq + 1
        let region := writeAt w.region wh (encodeRecord H { seq := next, payload := payload })
        let w' := { w with region := region, wh := wh + entrySize, pend := w.pend + entrySize,
                           seq := next, appends := w.appends + 1 }
        .ok (maybeSentinel w', next)

/-- the same with the pre-repair cursor arithmetic (`% region_size`, sentinel to 0) -/
def appendOld (H : Bytes → Bytes) (w : Wal) (payload : Bytes) : Except WalErr (Wal × Nat) :=
  if w.ro then .error .readOnly
  else if payload.length > 4294967295 then .error .tooLarge
  else
    let entrySize := ENTRY_HEADER_SIZE + payload.length
    if entrySize > w.S then .error .tooSmall
    else if w.pend + entrySize > w.S then .error .full
    else
      let wrapping := w.wh + entrySize > w.S
      if wrapping ∧ w.pend > 0 then .error .full
      else
        let wh := if wrapping then 0 else w.wh
        let next := w.seq + 1
        let region := writeAt w.region wh (encodeRecord H { seq := next, payload := payload })
        let w' := { w with region := region, wh := (wh + entrySize) % w.S, pend := w.pend + entrySize,
                           seq := next, appends := w.appends + 1 }
        .ok (maybeSentinelOld w', next)

/-- `record_checkpoint`: returns the state and the two header fields it writes
    (`wal_checkpoint_pos`, `wal_sequence`) -/
def checkpoint (w : Wal) : Except WalErr (Wal × Nat × Nat) :=
  if w.ro then .error .readOnly
  else
    let w' := { w with ckh := w.wh, pend := 0, appends := 0, ckseq := w.seq }
    .ok (maybeSentinel w', w'.ckh, w'.ckseq)

/-- `records_after` (and `pending_records` = `records_after checkpoint_sequence`) -/
def recordsAfter (H : Bytes → Bytes) (w : Wal) (k : Nat) : Except WalErr (Wal × List Rec) :=
  match scan H w.S w.region with
  | .error e => .error e
  | .ok (entries, nextHead) =>
    let w' := { w with seq := (entries.getLast?.map (·.seq)).getD w.seq,
                       pend := pendingSize w.ckseq entries, wh := nextHead }
    let w'' := if w.ro then w' else maybeSentinel w'
    .ok (w'', entries.filter (fun r => r.seq > k))

def pendingRecords (H : Bytes → Bytes) (w : Wal) : Except WalErr (Wal × List Rec) :=
  recordsAfter H w w.ckseq

/-- `open_internal`: state from a region image and the header's (wal_sequence, wal_checkpoint_pos) -/
def openFromHeader (H : Bytes → Bytes) (S : Nat) (region : Bytes) (hdrSeq hdrCk : Nat) (ro : Bool) :
    Except WalErr Wal :=
  match scan H S region with
  | .error e => .error e
  | .ok (entries, nextHead) =>
    let w : Wal := { S := S, region := region, wh := nextHead, ckh := hdrCk % S,
                     pend := pendingSize hdrSeq entries,
                     seq := (entries.getLast?.map (·.seq)).getD hdrSeq,
                     ckseq := hdrSeq, appends := 0, ro := ro }
    .ok (if ro then w else maybeSentinel w)

/-- a fresh zero-filled region opened with a zero header -/
def init (S : Nat) : Wal :=
  { S := S, region := zeros S, wh := 0, ckh := 0, pend := 0, seq := 0, ckseq := 0, appends := 0, ro := false }

/-- `should_checkpoint`: `pend / S ≥ num/den` as exact rational comparison, or the period -/
def shouldCheckpoint (w : Wal) : Bool :=
  if w.ro ∨ w.S = 0 then false
  else decide (w.pend * Mv.Gen.C05.THRESHOLD_DEN ≥ Mv.Gen.C05.THRESHOLD_NUM * w.S)
       || decide (w.appends ≥ Mv.Gen.C05.CHECKPOINT_PERIOD)

end Mv.Wal
