//! C12 placeholder (being written)
use memvid_core::verif_hooks as vh;
fn main() {
    println!("{:?}", vh::acl_normalize_scalar(Some(" \"Ab\" ")));
}
