/-
  C22 — no panic or hang on arbitrary file bytes.

  One totality theorem per hand-written byte-level decoder of MvModel/Decoders.lean:
  `C22_total_<decoder> : ∀ inputs, (run inputs).Safe` where `Safe` = the outcome is a result or an
  error (no panic, no abort, no fuel exhaustion).  Where the CURRENT source has an unchecked
  operation the theorem is an exact characterisation of the crash (`.._crash_iff`) with the
  source-derived flag as a premise, a concrete witness is proved to crash the unrepaired shape, and
  the unconditional statement lives in MvProps/C22Repaired.lean, which elaborates only when
  /repo has the repairs of /verif/fixes/{C22,C22-sketch-reader,C30}.diff.

  Black boxes (`Toc::decode`, zstd, serde_json, Tantivy, LexIndex, VecIndex) are parameters or
  the point where a model stops; `C22_compose` states that a crash of the modelled `open_locked`
  composition can only be a panic of the (unwrapped) `Toc::decode` black box.
-/
import MvProps.C22Lemmas
import MvProps.C39
namespace Mv.Dec
open Mv

/-! ### D1 header -/

theorem headerDecode_safe (b : Bytes) : (headerDecode b).Safe := by
  unfold headerDecode
  split
  · rfl
  · rename_i hlen
    have hl : b.length = 4096 := by
      have := Header.HEADER_SIZE_eq; simp only [ne_eq, Decidable.not_not] at hlen; omega
    simp only [bind_eq]
    refine Safe_bind (extractArrayP_safe _ _ _) fun _ _ => ?_
    split; · rfl
    refine Safe_bind (extractArrayP_safe _ _ _) fun _ _ => ?_
    split; · rfl
    refine Safe_bind (idxP_safe (by rw [Header.SPEC_BYTES_OFFSET_eq]; omega)) fun _ _ => ?_
    split; · rfl
    refine Safe_bind (idxP_safe (by rw [Header.SPEC_BYTES_OFFSET_eq]; omega)) fun _ _ => ?_
    split; · rfl
    refine Safe_bind (extractArrayP_safe _ _ _) fun _ _ => ?_
    refine Safe_bind (extractArrayP_safe _ _ _) fun _ _ => ?_
    split; · rfl
    refine Safe_bind (extractArrayP_safe _ _ _) fun _ _ => ?_
    split; · rfl
    refine Safe_bind (extractArrayP_safe _ _ _) fun _ _ => ?_
    refine Safe_bind (extractArrayP_safe _ _ _) fun _ _ => ?_
    refine Safe_bind (extractArrayP_safe _ _ _) fun _ _ => ?_
    rfl

/-- **C22_total_header** — `HeaderCodec::read` on any file: a header or an error. -/
theorem C22_total_header (file : Bytes) : (headerRead file).Safe := by
  unfold headerRead
  simp only [bind_eq]
  exact Safe_bind (readAt_safe _ _ _) fun _ _ => headerDecode_safe _

theorem bind_eq_ok {α β : Type} {x : Out α} {f : α → Out β} {b : β} (h : x.bind f = .ok b) :
    ∃ a, x = .ok a ∧ f a = .ok b := by
  cases x with
  | ok a => exact ⟨a, rfl, h⟩
  | err e => cases h
  | panic w => cases h
  | abort w => cases h
  | hang => cases h

theorem extractArrayP_ok {b x : Bytes} {off n : Nat} (h : extractArrayP b off n = .ok x) : x.length = n := by
  unfold extractArrayP getRange at h
  split at h
  · rename_i s hs
    split at hs
    · rename_i hc
      injection hs with hs; injection h with h
      rw [← h, ← hs]
      have : off + n - off = n := by omega
      rw [this]; exact slice_length _ _ _ (by omega)
    · cases hs
  · cases h

theorem leVal8 {x : Bytes} (h : x.length = 8) : leVal x < 2^64 := by
  have := leVal_lt x; rw [h] at this; omega

/-- the fields a decoded header carries are `u64`s, and `wal_size` is not 0 -/
theorem headerDecode_range {b : Bytes} {h : Header.Header} (hd : headerDecode b = .ok h) :
    h.footerOffset < 2^64 ∧ h.walOffset < 2^64 ∧ h.walSize < 2^64 ∧ h.walSequence < 2^64 ∧ h.walSize ≠ 0 := by
  unfold headerDecode at hd
  split at hd; · cases hd
  simp only [bind_eq] at hd
  obtain ⟨_, _, hd⟩ := bind_eq_ok hd
  split at hd; · cases hd
  obtain ⟨_, _, hd⟩ := bind_eq_ok hd
  split at hd; · cases hd
  obtain ⟨_, _, hd⟩ := bind_eq_ok hd
  split at hd; · cases hd
  obtain ⟨_, _, hd⟩ := bind_eq_ok hd
  split at hd; · cases hd
  obtain ⟨fo, hfo, hd⟩ := bind_eq_ok hd
  obtain ⟨wo, hwo, hd⟩ := bind_eq_ok hd
  split at hd; · cases hd
  obtain ⟨ws, hws, hd⟩ := bind_eq_ok hd
  split at hd; · cases hd
  rename_i hws0
  obtain ⟨cp, hcp, hd⟩ := bind_eq_ok hd
  obtain ⟨sq, hsq, hd⟩ := bind_eq_ok hd
  obtain ⟨ck, hck, hd⟩ := bind_eq_ok hd
  injection hd with hd
  subst hd
  exact ⟨leVal8 (extractArrayP_ok hfo), leVal8 (extractArrayP_ok hwo), leVal8 (extractArrayP_ok hws),
    leVal8 (extractArrayP_ok hsq), hws0⟩

/-! ### D3 `verify_toc_prefix` -/

/-- **C22_total_toc_prefix** — `verify_toc_prefix` on any byte string: `Ok(())` or an error. -/
theorem C22_total_toc_prefix (b : Bytes) : (verifyTocPrefix b).Safe := by
  unfold verifyTocPrefix
  split; · rfl
  simp only [bind_eq]
  refine Safe_bind (readU64_safe _ _ _) fun _ _ => ?_
  split; · rfl
  refine Safe_bind (readU64_safe _ _ _) fun _ _ => ?_
  split; · rfl
  refine Safe_bind (readU64_safe _ _ _) fun _ _ => ?_
  split; · rfl
  split <;> rfl

/-! ### D2 `read_toc` -/

theorem FOOTER_SIZE_eq : FOOTER_SIZE = 56 := Footer.FOOTER_SIZE_eq

/-- **C22_total_read_toc** — the length arithmetic, footer decode, slices and prefix test of
    `read_toc`, up to the call of `Toc::decode`, on any file and any header `footer_offset`. -/
theorem C22_total_read_toc (H : Bytes → Bytes) (file : Bytes) (footerOffset : Nat) :
    (readTocBytes H file footerOffset).Safe := by
  unfold readTocBytes
  simp only [bind_eq]
  split; · rfl
  rename_i hlen
  refine Safe_bind (subP_safe (by omega)) fun total ht => ?_
  obtain ⟨ht, _⟩ := subP_ok ht
  split; · rfl
  split; · rfl
  rename_i _ hsmall
  have hbl : (file.drop footerOffset).length = total := by simp [ht]
  rw [FOOTER_SIZE_eq] at hsmall ⊢
  refine Safe_bind (subP_safe (by omega)) fun fs hfs => ?_
  obtain ⟨hfs, _⟩ := subP_ok hfs
  refine Safe_bind (sliceP_safe (by omega)) fun _ _ => ?_
  split
  · rfl
  · refine Safe_bind (sliceP_safe (by omega)) fun _ _ => ?_
    split; · rfl
    split; · rfl
    exact Safe_bind (C22_total_toc_prefix _) fun _ _ => rfl

/-- a crash of `read_toc` is a panic inside `Toc::decode` -/
theorem readToc_crash {H : Bytes → Bytes} {dec : Bytes → BB TocV} {file : Bytes} {fo : Nat}
    (h : ¬ (readToc H dec file fo).Safe) : ∃ b, dec b = .panicked := by
  unfold readToc at h
  simp only [bind_eq] at h
  rcases crash_bind h with h | ⟨tb, _, h⟩
  · exact absurd (C22_total_read_toc H file fo) h
  · refine ⟨tb, ?_⟩
    cases hd : dec tb with
    | ok a => rw [hd] at h; exact absurd (safe_ok a) h
    | err => rw [hd] at h; exact absurd (safe_err _) h
    | panicked => rfl

/-! ### D4 footer scan -/

/-- **C22_total_footer_scan** — `find_last_valid_footer` is the total function `Footer.findLast`
    (structural recursion on the search bound; C31 proves what it returns). -/
theorem C22_total_footer_scan (H : Bytes → Bytes) (bytes : Bytes) :
    (footerScan H bytes).Safe ∧ footerScan H bytes = .ok (Footer.findLast H bytes) := ⟨rfl, rfl⟩

/-! ### D5 `scan_range_for_toc`, `recover_toc` -/

/-- `Toc::decode` never panics (the black-box assumption; only fuzzed) -/
def NoPanic {α : Type} (dec : Bytes → BB α) : Prop := ∀ b, dec b ≠ .panicked

theorem scanLoop_safe (H : Bytes → Bytes) (dec : Bytes → BB TocV) (data : Bytes) (scanStart : Nat)
    (hmin : data.length - Gen.C22.MAX_TOC_BYTES ≤ scanStart) :
    ∀ k, scanStart + k ≤ data.length → (scanLoop H dec data scanStart k).Safe
  | 0, _ => rfl
  | k + 1, hk => by
    have ih := scanLoop_safe H dec data scanStart hmin k (by omega)
    unfold scanLoop
    simp only
    refine Safe_bind (sliceP_safe ⟨by omega, Nat.le_refl _⟩) fun sl hsl => ?_
    obtain ⟨_, _, _, hl⟩ := sliceP_ok hsl
    split; · exact ih
    split; · exfalso; omega
    split; · exact ih
    refine Safe_bind (subP_safe (by omega)) fun mid hmid => ?_
    obtain ⟨hmid, _⟩ := subP_ok hmid
    split; · exfalso; omega
    split; · exact ih
    split
    · split
      · rfl
      · exact ih
    · exact ih

/-- **C22_total_scan_range** — the backward TOC scan: every `data[offset..]`, the `split_at` and the
    `debug_assert!(slice.len() <= MAX_TOC_BYTES)` are in range for any data and any `(start, end)`;
    `Toc::decode` is wrapped in `catch_unwind`, so not even a black-box panic escapes.  Termination is
    structural (at most `end - scan_start` iterations — each hashing the whole tail: quadratic). -/
theorem C22_total_scan_range (H : Bytes → Bytes) (dec : Bytes → BB TocV) (data : Bytes) (start end_ : Nat) :
    (scanRange H dec data start end_).Safe := by
  unfold scanRange
  split; · rfl
  rename_i hc
  simp only
  apply scanLoop_safe
  · exact Nat.le_max_right _ _
  · have : max start (data.length - Gen.C22.MAX_TOC_BYTES) ≤ data.length := by
      apply Nat.max_le.mpr; constructor <;> omega
    omega

theorem hintAttempt_safe (dec : Bytes → BB TocV) (mmap : Bytes) (hint : Nat) : (hintAttempt dec mmap hint).Safe := by
  unfold hintAttempt
  simp only [bind_eq]
  split
  · split
    · refine Safe_bind (sliceP_safe ⟨by omega, by omega⟩) fun _ _ => ?_
      split
      · split <;> rfl
      · rfl
    · rfl
  · rfl

theorem scanRanges_safe (H : Bytes → Bytes) (dec : Bytes → BB TocV) (mmap : Bytes) :
    ∀ rs, (scanRanges H dec mmap rs).Safe
  | [] => rfl
  | (s, e) :: rest => by
    unfold scanRanges
    simp only [bind_eq]
    refine Safe_bind (C22_total_scan_range H dec mmap s e) fun r _ => ?_
    cases r with
    | some found => rfl
    | none => exact scanRanges_safe H dec mmap rest

/-- **C22_total_recover_toc** — `recover_toc` (footer scan, hinted attempt, backward scans): no
    out-of-range slice, no hang; its only unwrapped black-box call is `Toc::decode` on the
    footer-validated bytes. -/
theorem C22_total_recover_toc (H : Bytes → Bytes) (dec : Bytes → BB TocV) (hdec : NoPanic dec)
    (mmap : Bytes) (hint : Option Nat) : (recoverToc H dec mmap hint).Safe := by
  unfold recoverToc
  simp only
  refine Safe_bind ?_ fun r _ => ?_
  · split
    · rename_i fs _
      cases hd : dec fs.tocBytes with
      | ok t => rfl
      | err => rfl
      | panicked => exact absurd hd (hdec _)
    · rfl
  · cases r with
    | some found => rfl
    | none =>
      simp only
      refine Safe_bind ?_ fun r _ => ?_
      · cases hint with
        | some h => exact hintAttempt_safe dec mmap h
        | none => rfl
      · cases r with
        | some found => rfl
        | none => exact scanRanges_safe H dec mmap _

/-! #### how much the scan hashes (the known finding `quadratic-toc-scan-exceeds-time-limit`) -/

/-- bytes fed to blake3 by `scanLoop` over the offsets `scanStart .. scanStart + k` when no candidate is
    accepted: every offset whose tail has at least 32 bytes hashes that whole tail (body ++ 32 zero bytes) -/
def scanWork (len scanStart : Nat) : Nat → Nat
  | 0 => 0
  | k + 1 => (if len - (scanStart + k) ≥ 32 then len - (scanStart + k) else 0) + scanWork len scanStart k

theorem scanWork_mono (len s : Nat) : ∀ k j, k ≤ j → scanWork len s k ≤ scanWork len s j
  | k, 0, h => by have : k = 0 := by omega
                  subst this; exact Nat.le_refl _
  | k, j + 1, h => by
    by_cases hk : k = j + 1
    · subst hk; exact Nat.le_refl _
    · have := scanWork_mono len s k j (by omega)
      simp only [scanWork]; omega

theorem scanWork_exact (len : Nat) : ∀ k, k + 31 ≤ len → 2 * scanWork len 0 k + k * k = k * (2 * len + 1)
  | 0, _ => by simp [scanWork]
  | k + 1, h => by
    have ih := scanWork_exact len k (by omega)
    have e1 : (k + 1) * (k + 1) = k * k + 2 * k + 1 := by
      rw [Nat.add_mul, Nat.mul_add, Nat.mul_one, Nat.one_mul]; omega
    have e2 : (k + 1) * (2 * len + 1) = k * (2 * len + 1) + (2 * len + 1) := by
      rw [Nat.add_mul, Nat.one_mul]
    simp only [scanWork, Nat.zero_add]
    rw [if_pos (by omega), e1, e2]
    omega

/-- **C22_scan_work_quadratic** — scanning a whole buffer of `len ≤ MAX_TOC_BYTES` bytes in which nothing is
    accepted hashes at least `(len - 31) * (len + 32) / 2` bytes: quadratic, not a hang, but beyond any
    fixed time limit for files of a few MiB. -/
theorem C22_scan_work_quadratic (len : Nat) (h : 32 ≤ len) :
    2 * scanWork len 0 len + (len - 31) * (len - 31) ≥ (len - 31) * (2 * len + 1) := by
  have hm := scanWork_mono len 0 (len - 31) len (by omega)
  have he := scanWork_exact len (len - 31) (by omega)
  omega

example : scanWork 100 0 100 = 4554 := by decide

/-! ### D6 `locate_footer_window` -/

theorem windowLoop_safe (H : Bytes → Bytes) (mmap : Bytes) (hlen : mmap.length < 2^63) :
    ∀ fuel window, 1 ≤ window → window ≤ mmap.length → mmap.length < fuel + window →
      (windowLoop H mmap fuel window).Safe
  | 0, w, _, h2, h3 => by omega
  | fuel + 1, w, h1, h2, h3 => by
    unfold windowLoop
    refine Safe_bind (subP_safe h2) fun start hs => ?_
    obtain ⟨hs, _⟩ := subP_ok hs
    refine Safe_bind (sliceP_safe ⟨by omega, Nat.le_refl _⟩) fun tail _ => ?_
    split; · rfl
    split; · rfl
    rename_i hne
    refine Safe_bind (mulP_safe (by omega)) fun w2 hw2 => ?_
    obtain ⟨hw2, _⟩ := mulP_ok hw2
    apply windowLoop_safe H mmap hlen fuel
    · simp only [Nat.min_def]; split <;> omega
    · exact Nat.min_le_right _ _
    · simp only [Nat.min_def]; split <;> omega

/-- **C22_total_locate_window** — the doubling search window of `locate_footer_window` (any
    positive `MAX_SEARCH_SIZE`): `mmap.len() - window` and `window * 2` stay in range and the loop
    ends within `len + 1` rounds (fuel never runs out: no hang). -/
theorem C22_total_locate_window (maxSearch : Nat) (hmax : 1 ≤ maxSearch) (H : Bytes → Bytes) (mmap : Bytes)
    (hlen : mmap.length < 2^63) : (locateWindowWith maxSearch H mmap).Safe := by
  unfold locateWindowWith
  split; · rfl
  apply windowLoop_safe H mmap hlen
  · simp only [Nat.min_def]; split <;> omega
  · exact Nat.min_le_right _ _
  · simp only [Nat.min_def]; split <;> omega

theorem locateWindow_safe (H : Bytes → Bytes) (mmap : Bytes) (hlen : mmap.length < 2^63) :
    (locateWindow H mmap).Safe :=
  C22_total_locate_window _ (by decide) H mmap hlen

/-! ### D7 WAL scan and open -/

/-- what a completed scan guarantees (and: it completed — no crash) -/
def WalPost (file : Bytes) (offset : Nat) (r : Out (List Wal.Rec × Nat)) : Prop :=
  match r with
  | .ok (recs, next) => (recs.map Wal.Rec.size).sum = next ∧ (next = 0 ∨ offset + next ≤ file.length)
  | .err _ => True
  | _ => False

theorem post_bind {α β : Type} {P : Out β → Prop} (herr : ∀ e, P (.err e)) {x : Out α} {f : α → Out β}
    (hx : x.Safe) (hf : ∀ a, x = .ok a → P (f a)) : P (x.bind f) := by
  cases x with
  | ok a => exact hf a rfl
  | err e => exact herr e
  | panic w => exact absurd hx (not_safe_panic w)
  | abort w => exact absurd hx (not_safe_abort w)
  | hang => exact absurd hx not_safe_hang

theorem leVal_slice4 (b : Bytes) (off : Nat) : leVal (slice b off 4) < 2^32 := by
  have h1 := leVal_lt (slice b off 4)
  have h2 : (slice b off 4).length ≤ 4 := slice_length_le _ _ _
  have h3 : 256 ^ (slice b off 4).length ≤ 256 ^ 4 := Nat.pow_le_pow_right (by decide) h2
  have h4 : (256 : Nat) ^ 4 = 2^32 := by decide
  omega

theorem EHS_eq : EHS = 48 := Wal.EHS_eq

theorem walLoop_post (H : Bytes → Bytes) (file : Bytes) (offset size : Nat)
    (hlen : file.length < 2^63) (ho : offset < 2^64) (hs : size < 2^64) :
    ∀ fuel cursor acc, ((acc.map Wal.Rec.size).sum = cursor) → (cursor = 0 ∨ offset + cursor ≤ file.length) →
      file.length + 2 ≤ cursor + fuel → WalPost file offset (walLoop H file offset size fuel cursor acc)
  | 0, cursor, acc, _, hc, hf => by omega
  | fuel + 1, cursor, acc, hsum, hc, hf => by
    unfold walLoop
    rw [EHS_eq]
    have herr : ∀ e, WalPost file offset (.err e) := fun _ => trivial
    refine post_bind herr (addP_safe (by omega)) fun c48 hc48 => ?_
    obtain ⟨hc48, _⟩ := addP_ok hc48
    split
    · refine post_bind herr (addP_safe (by omega)) fun pos hpos => ?_
      obtain ⟨hpos, _⟩ := addP_ok hpos
      refine post_bind herr (readAt_safe _ _ _) fun hdr hhdr => ?_
      obtain ⟨_, hp63, hpl, _⟩ := readAt_ok hhdr
      simp only
      have hlen4 := leVal_slice4 hdr 8
      split
      · -- sentinel
        show WalPost file offset (.ok (acc.reverse, cursor))
        refine ⟨?_, hc⟩
        rw [List.map_reverse, List.sum_reverse]; exact hsum
      · split
        · trivial
        · refine post_bind herr (addP_safe (by omega)) fun e he => ?_
          split
          · trivial
          · refine post_bind herr (readSeq_safe _ _ _) fun payload hpay => ?_
            obtain ⟨hpay, hpl2⟩ := readSeq_ok hpay
            split
            · trivial
            · refine post_bind herr (addP_safe (by omega)) fun adv hadv => ?_
              obtain ⟨hadv, _⟩ := addP_ok hadv
              refine post_bind herr (addP_safe (by omega)) fun c' hc' => ?_
              obtain ⟨hc', _⟩ := addP_ok hc'
              have hpaylen : payload.length = leVal (slice hdr 8 4) := by
                rw [hpay]; exact slice_length _ _ _ hpl2
              apply walLoop_post H file offset size hlen ho hs fuel
              · simp only [List.map_cons, List.sum_cons, Wal.Rec.size, hpaylen, Wal.EHS_eq]
                omega
              · right; omega
              · omega
    · show WalPost file offset (.ok (acc.reverse, cursor))
      refine ⟨?_, hc⟩
      rw [List.map_reverse, List.sum_reverse]; exact hsum

theorem walScan_post (H : Bytes → Bytes) (file : Bytes) (offset size : Nat)
    (hlen : file.length < 2^63) (ho : offset < 2^64) (hs : size < 2^64) :
    WalPost file offset (walScan H file offset size) :=
  walLoop_post H file offset size hlen ho hs _ 0 [] rfl (.inl rfl) (by omega)

theorem WalPost.safe {file : Bytes} {offset : Nat} {r : Out (List Wal.Rec × Nat)} (h : WalPost file offset r) : r.Safe := by
  cases r with
  | ok a => rfl
  | err e => rfl
  | panic w => exact h.elim
  | abort w => exact h.elim
  | hang => exact h.elim

/-- **C22_total_wal_scan** — `scan_records` over any file, any header `wal_offset` / `wal_size`:
    `cursor + 48`, `offset + cursor`, `cursor + 48 + length` never overflow, every read is an I/O
    error or in range, and the loop ends (each round consumes ≥ 49 file bytes; the fuel
    `file.len() + 2` never runs out). -/
theorem C22_total_wal_scan (H : Bytes → Bytes) (file : Bytes) (offset size : Nat)
    (hlen : file.length < 2^63) (ho : offset < 2^64) (hs : size < 2^64) :
    (walScan H file offset size).Safe :=
  (walScan_post H file offset size hlen ho hs).safe

theorem sumP_ok : ∀ (l : List Nat), l.sum < 2^64 → sumP l = .ok l.sum
  | [], _ => rfl
  | x :: xs, h => by
    simp only [List.sum_cons] at h
    unfold sumP
    rw [sumP_ok xs (by omega)]
    simp only [bind_ok, addP, List.sum_cons]
    rw [if_pos h]

theorem sum_filter_map_le (p : Wal.Rec → Bool) : ∀ (l : List Wal.Rec),
    ((l.filter p).map Wal.Rec.size).sum ≤ (l.map Wal.Rec.size).sum
  | [] => Nat.le_refl _
  | x :: xs => by
    have ih := sum_filter_map_le p xs
    simp only [List.filter_cons]
    split <;> simp only [List.map_cons, List.sum_cons] <;> omega

/-- **C22_total_wal_open** — `EmbeddedWal::open` / `open_read_only`: the scan, the `u64` sum of the
    pending sizes and the sentinel position arithmetic (`position % region_size`,
    `region_offset + pos`). -/
theorem C22_total_wal_open (H : Bytes → Bytes) (file : Bytes) (offset size ckSeq : Nat) (ro : Bool)
    (hlen : file.length < 2^63) (ho : offset < 2^64) (hs : size < 2^64) :
    (walOpen H file offset size ckSeq ro).Safe := by
  unfold walOpen
  split; · rfl
  simp only [bind_eq]
  have hpost := walScan_post H file offset size hlen ho hs
  refine Safe_bind hpost.safe fun r hr => ?_
  obtain ⟨recs, next⟩ := r
  rw [hr] at hpost
  obtain ⟨hsum, hnext⟩ := hpost
  simp only
  have hle := sum_filter_map_le (fun r => decide (r.seq > ckSeq)) recs
  have hnext63 : next < 2^63 := by omega
  rw [sumP_ok _ (by omega)]
  simp only [bind_ok]
  split; · rfl
  split; · rfl
  split; · rfl
  rename_i hrem
  have hmod : min next size % size = min next size := by
    apply Nat.mod_eq_of_lt
    simp only [Nat.min_def] at hrem ⊢; split at hrem <;> split <;> omega
  have hmin : min next size ≤ next := Nat.min_le_left _ _
  refine Safe_bind (addP_safe (by rw [hmod]; omega)) fun _ _ => ?_
  split <;> rfl

theorem walAppendGuards_safe (ro : Bool) (size pending writeHead payloadLen : Nat)
    (hp : pending < 2^63) (hw : writeHead < 2^63) : (walAppendGuards ro size pending writeHead payloadLen).Safe := by
  unfold walAppendGuards
  rw [EHS_eq]
  split; · rfl
  split; · rfl
  refine Safe_bind (addP_safe (by omega)) fun es hes => ?_
  obtain ⟨hes, _⟩ := addP_ok hes
  split; · rfl
  refine Safe_bind (addP_safe (by omega)) fun _ _ => ?_
  split; · rfl
  refine Safe_bind (addP_safe (by omega)) fun _ _ => ?_
  split <;> rfl

/-- **C22_wal_append_crash_iff** — `EmbeddedWal::append_entry` (state of an opened WAL: pending bytes and
    write head below `2^63`) panics exactly when the source adds unchecked, every capacity test passes and
    the current sequence number is `u64::MAX`. -/
theorem C22_wal_append_crash_iff (checked ro : Bool) (size pending writeHead sequence payloadLen : Nat)
    (hp : pending < 2^63) (hw : writeHead < 2^63) :
    ¬ (walAppendWith checked ro size pending writeHead sequence payloadLen).Safe ↔
      checked = false ∧ walAppendGuards ro size pending writeHead payloadLen = .ok () ∧ sequence + 1 ≥ 2^64 := by
  unfold walAppendWith
  have hg := walAppendGuards_safe ro size pending writeHead payloadLen hp hw
  cases hr : walAppendGuards ro size pending writeHead payloadLen with
  | ok u =>
    simp only [bind_ok]
    cases checked
    · simp only [Bool.false_eq_true, if_false, addP]
      split
      · constructor
        · intro hc; exact absurd (safe_ok _) hc
        · intro ⟨_, _, h⟩; omega
      · constructor
        · intro _; exact ⟨trivial, trivial, by omega⟩
        · intro _; exact not_safe_panic _
    · simp only [if_true]
      constructor
      · intro hc; exfalso; apply hc; split <;> rfl
      · intro ⟨h, _⟩; cases h
  | err e =>
    simp only [bind_err]
    constructor
    · intro hc; exact absurd (safe_err _) hc
    · intro ⟨_, h, _⟩; cases h
  | panic w => rw [hr] at hg; exact absurd hg (not_safe_panic w)
  | abort w => rw [hr] at hg; exact absurd hg (not_safe_abort w)
  | hang => rw [hr] at hg; exact absurd hg not_safe_hang

theorem walAppend_safe (h : Gen.C22.WAL_APPEND_SEQ_CHECKED = true) (ro : Bool) (size pending writeHead sequence payloadLen : Nat)
    (hp : pending < 2^63) (hw : writeHead < 2^63) : (walAppend ro size pending writeHead sequence payloadLen).Safe := by
  apply Classical.byContradiction
  intro hc
  unfold walAppend at hc
  have := (C22_wal_append_crash_iff _ _ _ _ _ _ _ hp hw).mp hc
  rw [h] at this; exact absurd this.1 (by decide)

/-- the one-edit witness: a fresh 64 KiB WAL whose header says `wal_sequence = u64::MAX` -/
example : walAppendWith false false 65536 0 0 (2^64 - 1) 100 = .panic "add-overflow" := by decide
example : walAppendWith true false 65536 0 0 (2^64 - 1) 100 = .err "sequence" := by decide
example : walAppendWith false false 65536 0 0 7 100 = .ok 8 := by decide

/-! ### D8 time index -/

/-- **C22_time_index_crash_iff** — `read_track` crashes exactly when it reaches the pre-allocation
    with a declared count whose request overflows `isize::MAX` bytes ("capacity overflow" panic) or
    is refused by the allocator (abort); everything else (`checked_mul`, the length tests, the read
    loop, which ends at the end of the file) is a result or an error. -/
theorem C22_time_index_crash_iff (allocOk : Nat → Bool) (file : Bytes) (offset length : Nat) :
    ¬ (timeIndexRead allocOk file offset length).Safe ↔
      offset < 2^63 ∧ ∃ count, TimeIndex.reachesPrealloc file offset length = some count ∧
        (TimeIndex.preallocPanics (TimeIndex.preallocRequest count) = true ∨
         allocOk (TimeIndex.preallocRequest count * 16) = false) := by
  unfold timeIndexRead
  split
  · rename_i h; constructor
    · intro hc; exact absurd (safe_err _) hc
    · intro ⟨h', _⟩; omega
  · rename_i h
    cases hr : TimeIndex.reachesPrealloc file offset length with
    | none =>
      simp only
      constructor
      · intro hc; exfalso; apply hc; split <;> rfl
      · intro ⟨_, c, hc, _⟩; cases hc
    | some count =>
      simp only
      constructor
      · intro hc
        refine ⟨by omega, count, rfl, ?_⟩
        split at hc
        · left; assumption
        · split at hc
          · right; rename_i h2; simpa using h2
          · exfalso; apply hc; split <;> rfl
      · intro ⟨_, c, hc, hor⟩
        injection hc with hc; subst hc
        rcases hor with hp | ha
        · rw [if_pos hp]; exact not_safe_panic _
        · split
          · exact not_safe_panic _
          · rw [if_pos (by simp [ha])]; exact not_safe_abort _

/-- on the uncapped source (`Vec::with_capacity(count as usize)`) a 12-byte track declaring
    `2^59` entries, read with the matching `length`, panics -/
theorem C22_time_index_witness (allocOk : Nat → Bool) (h : TimeIndex.PREALLOC_CAP = none) :
    timeIndexRead allocOk (TimeIndex.MAGIC ++ u64le (2^59)) 0 (12 + 16 * 2^59) = .panic "capacity-overflow" := by
  have hr : TimeIndex.reachesPrealloc (TimeIndex.MAGIC ++ u64le (2^59)) 0 (12 + 16 * 2^59) = some (2^59) := by decide
  have hq : TimeIndex.preallocRequest (2^59) = 2^59 := by unfold TimeIndex.preallocRequest; rw [h]
  unfold timeIndexRead
  rw [if_neg (by decide), hr]
  simp only [hq]
  rw [if_pos (by decide)]

/-! ### D9 sketch track -/

/-- **C22_sketch_crash_iff** — `read_sketch_track` crashes exactly when the source multiplies
    unchecked, the 24-byte header is well-formed, and `entry_count * entry_size ≥ 2^64`
    (from `C39_reader_panic_iff`); the entry loop ends at the end of the file. -/
theorem C22_sketch_crash_iff (file : Bytes) (offset length : Nat) :
    ¬ (sketchRead file offset length).Safe ↔
      offset < 2^63 ∧ Gen.C39.READER_CHECKED_ARITH = false ∧ Sketch.HeaderOk file offset ∧
        leVal (slice (slice file offset Sketch.HDR) 8 8) * leVal (slice (slice file offset Sketch.HDR) 6 2) ≥ 2^64 := by
  have hiff := Sketch.C39_reader_panic_iff file offset length
  unfold sketchRead
  split
  · constructor
    · intro hc; exact absurd (safe_err _) hc
    · intro ⟨h', _⟩; omega
  · rename_i h
    cases hr : Sketch.readTrack file offset length with
    | ok t =>
      simp only
      constructor
      · intro hc; exact absurd (safe_ok _) hc
      · intro ⟨_, h1, h2, h3⟩
        have := hiff.2.mpr ⟨h1, h2, h3⟩
        rw [hr] at this; cases this
    | error e =>
      cases e with
      | panicMul =>
        simp only
        constructor
        · intro _; have := hiff.2.mp hr; exact ⟨by omega, this⟩
        · intro _; exact not_safe_panic _
      | panicAdd => exact absurd hr (fun h => hiff.1.mp h)
      | io => simp only; constructor
              · intro hc; exact absurd (safe_err _) hc
              · intro ⟨_, h1, h2, h3⟩; have := hiff.2.mpr ⟨h1, h2, h3⟩; rw [hr] at this; cases this
      | magic => simp only; constructor
                 · intro hc; exact absurd (safe_err _) hc
                 · intro ⟨_, h1, h2, h3⟩; have := hiff.2.mpr ⟨h1, h2, h3⟩; rw [hr] at this; cases this
      | entrySize => simp only; constructor
                     · intro hc; exact absurd (safe_err _) hc
                     · intro ⟨_, h1, h2, h3⟩; have := hiff.2.mpr ⟨h1, h2, h3⟩; rw [hr] at this; cases this
      | length => simp only; constructor
                  · intro hc; exact absurd (safe_err _) hc
                  · intro ⟨_, h1, h2, h3⟩; have := hiff.2.mpr ⟨h1, h2, h3⟩; rw [hr] at this; cases this
      | overflow => simp only; constructor
                    · intro hc; exact absurd (safe_err _) hc
                    · intro ⟨_, h1, h2, h3⟩; have := hiff.2.mpr ⟨h1, h2, h3⟩; rw [hr] at this; cases this

theorem sketchRead_safe (hflag : Gen.C39.READER_CHECKED_ARITH = true) (file : Bytes) (offset length : Nat) :
    (sketchRead file offset length).Safe := by
  apply Classical.byContradiction
  intro hc
  have := (C22_sketch_crash_iff file offset length).mp hc
  rw [hflag] at this
  exact absurd this.2.1 (by decide)

/-! ### D10 memories track / logic mesh header -/

/-- **C22_total_track_header** — with the length test written `data.len() - 14 < len` the 14-byte
    header decoder (magic, version, `u64` length, slice handed to zstd) is total. -/
theorem C22_total_track_header (magic : Bytes) (versionOk : Nat → Bool) (data : Bytes) (hlen : data.length < 2^64) :
    (trackHeader magic versionOk true data).Safe := by
  unfold trackHeader
  split; · rfl
  rename_i h14
  simp only [bind_eq]
  refine Safe_bind (sliceP_safe (by omega)) fun _ _ => ?_
  split; · rfl
  refine Safe_bind (idxP_safe (by omega)) fun _ _ => ?_
  refine Safe_bind (idxP_safe (by omega)) fun _ _ => ?_
  split; · rfl
  refine Safe_bind (sliceP_safe (by omega)) fun lb _ => ?_
  simp only [if_true]
  refine Safe_bind (Safe_bind (subP_safe (by omega)) fun _ _ => rfl) fun short hshort => ?_
  obtain ⟨room, hroom, hshort⟩ := bind_eq_ok hshort
  obtain ⟨hroom, _⟩ := subP_ok hroom
  injection hshort with hshort
  split; · rfl
  rename_i hns
  have hfit : leVal lb ≤ room := by
    rw [← hshort] at hns; simpa using hns
  refine Safe_bind (addP_safe (by omega)) fun e he => ?_
  obtain ⟨he, _⟩ := addP_ok he
  exact sliceP_safe (by omega)

/-- **C22_track_header_crash_iff** — with the source's `data.len() < 14 + len` the decoder panics
    exactly when magic and version are accepted and the declared length is within 14 of
    `usize::MAX` (the addition overflows). -/
theorem C22_track_header_crash_iff (magic : Bytes) (versionOk : Nat → Bool) (data : Bytes) (hlen : data.length < 2^64) :
    ¬ (trackHeader magic versionOk false data).Safe ↔
      14 ≤ data.length ∧ slice data 0 4 = magic ∧
      versionOk ((data.getD 4 0).toNat + 256 * (data.getD 5 0).toNat) = true ∧
      14 + leVal (slice data 6 8) ≥ 2^64 := by
  unfold trackHeader
  split
  · constructor
    · intro hc; exact absurd (safe_err _) hc
    · intro ⟨h, _⟩; omega
  · rename_i h14
    have h14' : 14 ≤ data.length := by omega
    simp only [bind_eq, sliceP, idxP]
    rw [if_pos (by omega)]
    have e4 : data[4]? = some (data.getD 4 0) := by
      rw [List.getD_eq_getElem?_getD, List.getElem?_eq_getElem (by omega : 4 < data.length)]; rfl
    have e5 : data[5]? = some (data.getD 5 0) := by
      rw [List.getD_eq_getElem?_getD, List.getElem?_eq_getElem (by omega : 5 < data.length)]; rfl
    simp only [bind_ok, e4, e5, Nat.sub_zero]
    split
    · rename_i hm; constructor
      · intro hc; exact absurd (safe_err _) hc
      · intro ⟨_, hm', _⟩; exact absurd hm' hm
    · rename_i hm
      simp only [Decidable.not_not] at hm
      split
      · rename_i hv; constructor
        · intro hc; exact absurd (safe_err _) hc
        · intro ⟨_, _, hv', _⟩; exact absurd hv' hv
      · rename_i hv
        simp only [Bool.not_eq_true, Bool.not_eq_false] at hv
        rw [if_pos (by omega)]
        simp only [bind_ok, Bool.false_eq_true, if_false, (by omega : 14 - 6 = 8)]
        unfold addP
        split
        · rename_i hfit
          simp only [bind_ok]
          constructor
          · intro hc; exfalso; apply hc
            split
            · rfl
            · rename_i hns
              have : 14 + leVal (slice data 6 8) ≤ data.length := by simpa using hns
              rw [if_pos ⟨by omega, this⟩]; rfl
          · intro ⟨_, _, _, hov⟩; omega
        · rename_i hov
          simp only [bind_panic]
          constructor
          · intro _; exact ⟨h14', hm, hv, by omega⟩
          · intro _; exact not_safe_panic _

/-- the 14-byte witness `"MVMC" 01 00 ff×8`: the unchecked shape panics on it -/
theorem C22_memories_witness :
    trackHeader Gen.C22.MEMORIES_MAGIC (fun v => v == Gen.C22.MEMORIES_VERSION) false
      (Gen.C22.MEMORIES_MAGIC ++ [1, 0] ++ List.replicate 8 255) = .panic "add-overflow" := by decide

theorem C22_mesh_witness :
    trackHeader Gen.C22.MESH_MAGIC (fun v => decide (v ≤ Gen.C22.MESH_VERSION)) false
      (Gen.C22.MESH_MAGIC ++ [1, 0] ++ List.replicate 8 255) = .panic "add-overflow" := by decide

/-! ### D17 `read_range` and the track loaders -/

/-- **C22_total_read_range** — `Memvid::read_range` (`checked_add`, file length, `MAX_INDEX_BYTES`) -/
theorem C22_total_read_range (file : Bytes) (offset length : Nat) : (readRange file offset length).Safe := by
  unfold readRange
  split
  · rfl
  · split
    · rfl
    · exact readAt_safe _ _ _

theorem loadTrack_safe (hdr : Bytes → Out Bytes) (hh : ∀ d, d.length < 2^64 → (hdr d).Safe) (file : Bytes) (s : Span) :
    (loadTrack hdr file s).Safe := by
  unfold loadTrack
  split; · rfl
  rename_i hbig
  simp only [bind_eq]
  refine Safe_bind (readAt_safe _ _ _) fun buf hbuf => ?_
  obtain ⟨_, _, _, hl⟩ := readAt_ok hbuf
  apply hh
  have : Gen.C22.MAX_INDEX_BYTES < 2^64 := by decide
  omega

/-! ### D11 frames, D12 data end, D13 frame bounds -/

theorem framesLoop_safe (fileLen : Nat) : ∀ (fs : List FrameV) (prev prevOff : Nat), (framesLoop fileLen fs prev prevOff).Safe
  | [], _, _ => rfl
  | f :: fs, prev, prevOff => by
    unfold framesLoop
    split
    · rfl
    · split
      · rfl
      · split
        · rfl
        · exact framesLoop_safe fileLen fs _ _

/-- **C22_total_frames** — `ensure_non_overlapping_frames` (filter, sort by offset, `checked_add`,
    bounds and overlap tests) on any frame table. -/
theorem C22_total_frames (frames : List FrameV) (fileLen : Nat) : (ensureNonOverlapping frames fileLen).Safe :=
  framesLoop_safe _ _ _ _

theorem maxEnd_lt {acc off len : Nat} (h : acc < 2^64) : maxEnd acc off len < 2^64 := by
  unfold maxEnd
  split
  · rename_i e he
    have := (checkedAdd_some he).2
    exact Nat.max_lt.mpr ⟨h, this⟩
  · exact h

theorem foldl_maxEnd_frames_lt : ∀ (fs : List FrameV) (acc : Nat), acc < 2^64 →
    fs.foldl (fun acc f => maxEnd acc f.off f.len) acc < 2^64
  | [], _, h => h
  | _ :: fs, _, h => foldl_maxEnd_frames_lt fs _ (maxEnd_lt h)

theorem foldl_maxEnd_spans_lt : ∀ (ss : List Span) (acc : Nat), acc < 2^64 →
    ss.foldl (fun acc s => maxEnd acc s.off s.len) acc < 2^64
  | [], _, h => h
  | _ :: ss, _, h => foldl_maxEnd_spans_lt ss _ (maxEnd_lt h)

/-- **C22_total_data_end** — `compute_data_end` and `compute_payload_region_end` use only
    saturating / checked additions: the result is a `u64` for any TOC and header. -/
theorem C22_total_data_end (walOffset walSize footerOffset : Nat) (t : TocV) (hf : footerOffset < 2^64) :
    computeDataEnd walOffset walSize footerOffset t < 2^64 ∧ computePayloadEnd walOffset walSize t < 2^64 := by
  have hs : satAdd walOffset walSize < 2^64 := by have := satAdd_le walOffset walSize; omega
  constructor
  · unfold computeDataEnd
    apply foldl_maxEnd_spans_lt
    apply foldl_maxEnd_frames_lt
    exact Nat.max_lt.mpr ⟨hs, hf⟩
  · unfold computePayloadEnd
    exact foldl_maxEnd_frames_lt _ _ hs

/-- **C22_total_frame_bounds** — `validate_frame_bounds` + `read_frame_payload_bytes` -/
theorem C22_total_frame_bounds (file : Bytes) (walOffset walSize dataEnd off len : Nat) :
    (validateFrameBounds walOffset walSize dataEnd file.length off len).Safe ∧
    (readFramePayload file walOffset walSize dataEnd off len).Safe := by
  have h1 : (validateFrameBounds walOffset walSize dataEnd file.length off len).Safe := by
    unfold validateFrameBounds
    repeat (first | rfl | split)
  refine ⟨h1, ?_⟩
  unfold readFramePayload
  simp only [bind_eq]
  exact Safe_bind h1 fun _ _ => readAt_safe _ _ _

/-! ### D14 timeline, D15 planner, D16 blob reader -/

/-- **C22_total_timeline** — the `usize` conversions of `build_timeline`: no panic, and only ids
    inside the frame table are looked up successfully. -/
theorem C22_total_timeline (ids : List Nat) (limit : Option Nat) (nFrames : Nat) :
    ∃ r, timelineSelect ids limit nFrames = .ok r ∧ ∀ id ∈ r, id < nFrames := by
  refine ⟨_, rfl, ?_⟩
  intro id hid
  have := (List.mem_filter.mp hid).2
  simpa using this

/-- **C22_planner_crash_iff** — `DoctorPlanner::compute` panics exactly when the
    `debug_assert!(probe.wal_pending == 0)` is in the source and the probe found pending records. -/
theorem C22_planner_crash_iff (asserts : Bool) (walPending : Nat) :
    ¬ (plannerComputeWith asserts walPending).Safe ↔ asserts = true ∧ walPending ≠ 0 := by
  unfold plannerComputeWith
  cases asserts <;> by_cases h : walPending = 0 <;> simp [h, Out.Safe, Out.crashes]

/-- without the assertion the planner handles pending records: it plans a WalReplay phase -/
theorem C22_total_planner (walPending : Nat) :
    plannerComputeWith false walPending = .ok (decide (walPending > 0)) := by
  simp [plannerComputeWith]

/-- **C22_blob_seek_crash_iff** — `BlobReader::seek(SeekFrom::Start(t))` panics exactly when the
    position arithmetic is the unchecked `*start + *pos` and `start + t ≥ 2^64` with `t ≤ len`. -/
theorem C22_blob_seek_crash_iff (checked : Bool) (start len target : Nat) :
    ¬ (blobSeekWith checked start len target).Safe ↔ checked = false ∧ target ≤ len ∧ start + target ≥ 2^64 := by
  unfold blobSeekWith
  split
  · constructor
    · intro hc; exact absurd (safe_err _) hc
    · intro ⟨_, h, _⟩; omega
  · cases checked
    · simp only [Bool.false_eq_true, if_false, bind_eq, addP]
      split
      · simp only [bind_ok]
        constructor
        · intro hc; exfalso; apply hc; split <;> rfl
        · intro ⟨_, _, h⟩; omega
      · simp only [bind_panic]
        constructor
        · intro _; exact ⟨by simp, by omega, by omega⟩
        · intro _; exact not_safe_panic _
    · simp only [if_true]
      constructor
      · intro hc; exfalso; apply hc
        split
        · rfl
        · split <;> rfl
      · intro ⟨h, _⟩; cases h

/-- **C22_total_blob** — through `blob_reader` a file-backed `BlobReader` only exists for a frame whose
    stored bytes were read in full (`verifies`), so `start + len ≤ file length < 2^63` and even the
    unchecked `*start + *pos` cannot overflow; without that pre-read the checked addition is needed. -/
theorem C22_total_blob (verifies checked : Bool) (hv : (verifies || checked) = true) (fileLen start len target : Nat)
    (ckOk : Bool) (hlen : fileLen < 2^63) : (blobOpenSeekWith verifies checked fileLen start len target ckOk).Safe := by
  unfold blobOpenSeekWith
  split; · rfl
  rename_i hs
  split; · rfl
  rename_i hpre
  apply Classical.byContradiction
  intro hc
  obtain ⟨hck, htl, hov⟩ := (C22_blob_seek_crash_iff _ _ _ _).mp hc
  subst hck
  simp only [Bool.or_false] at hv
  subst hv
  simp only [Bool.true_and, Bool.and_eq_true, decide_eq_true_eq, Bool.or_eq_true, Bool.not_eq_true', not_and, not_or] at hpre
  by_cases hl : len > 0
  · have := (hpre hl).1
    omega
  · omega

/-! ### repaired shapes as consequences of the source-derived flags -/

theorem timeIndexRead_safe_of_cap (allocOk : Nat → Bool) (c : Nat) (hcap : TimeIndex.PREALLOC_CAP = some c)
    (hc : c * 16 ≤ 2^63 - 1) (hmem : ∀ n, n ≤ c * 16 → allocOk n = true) (file : Bytes) (offset length : Nat) :
    (timeIndexRead allocOk file offset length).Safe := by
  apply Classical.byContradiction
  intro hcr
  obtain ⟨_, count, _, hor⟩ := (C22_time_index_crash_iff allocOk file offset length).mp hcr
  have hreq : TimeIndex.preallocRequest count ≤ c := by
    unfold TimeIndex.preallocRequest; rw [hcap]; exact Nat.min_le_right _ _
  rcases hor with hp | ha
  · unfold TimeIndex.preallocPanics at hp
    have : TimeIndex.preallocRequest count * 16 > 2^63 - 1 := by simpa using hp
    omega
  · rw [hmem _ (by omega)] at ha; cases ha

theorem plannerCompute_safe (h : Gen.C22.DOCTOR_ASSERTS_NO_PENDING = false) (n : Nat) : (plannerCompute n).Safe := by
  apply Classical.byContradiction
  intro hc
  unfold plannerCompute at hc
  have := (C22_planner_crash_iff _ _).mp hc
  rw [h] at this; exact absurd this.1 (by decide)

theorem blobSeek_safe (h : Gen.C22.BLOB_CHECKED = true) (start len target : Nat) : (blobSeek start len target).Safe := by
  apply Classical.byContradiction
  intro hc
  unfold blobSeek at hc
  have := (C22_blob_seek_crash_iff _ _ _ _).mp hc
  rw [h] at this; exact absurd this.1 (by decide)

theorem memoriesHeader_safe (h : Gen.C22.MEMORIES_LEN_CHECKED = true) (data : Bytes) (hl : data.length < 2^64) :
    (memoriesHeader data).Safe := by
  unfold memoriesHeader; rw [h]; exact C22_total_track_header _ _ _ hl

theorem meshHeader_safe (h : Gen.C22.MESH_LEN_CHECKED = true) (data : Bytes) (hl : data.length < 2^64) :
    (meshHeader data).Safe := by
  unfold meshHeader; rw [h]; exact C22_total_track_header _ _ _ hl

/-! ### composition -/

theorem readToc_safe (H : Bytes → Bytes) (dec : Bytes → BB TocV) (hdec : NoPanic dec) (file : Bytes) (fo : Nat) :
    (readToc H dec file fo).Safe := by
  apply Classical.byContradiction
  intro hc
  obtain ⟨b, hb⟩ := readToc_crash hc
  exact hdec b hb

theorem optRun_safe {α : Type} (o : Option Span) (f : Span → Out α) (hf : ∀ s, (f s).Safe) : (optRun o f).Safe := by
  unfold optRun
  split
  · exact Safe_bind (hf _) fun _ _ => rfl
  · rfl

theorem headerRead_range {file : Bytes} {h : Header.Header} (hd : headerRead file = .ok h) :
    h.footerOffset < 2^64 ∧ h.walOffset < 2^64 ∧ h.walSize < 2^64 ∧ h.walSequence < 2^64 ∧ h.walSize ≠ 0 := by
  unfold headerRead at hd
  simp only [bind_eq] at hd
  obtain ⟨_, _, hd⟩ := bind_eq_ok hd
  exact headerDecode_range hd

/-- **C22_compose** — the composition `open_locked` runs (header → `read_toc` | `recover_toc` → frame
    table check → WAL open → generation → data end → track loaders up to their black boxes): with
    the repaired shapes (premises `hs hm hl`, discharged from the source in C22Repaired) and a file
    shorter than `2^63` bytes, it returns a handle or an error unless `Toc::decode` itself panics at
    one of its two unwrapped call sites. -/
theorem C22_compose (H : Bytes → Bytes) (dec : Bytes → BB TocV) (hdec : NoPanic dec) (file : Bytes)
    (hlen : file.length < 2^63)
    (hs : Gen.C39.READER_CHECKED_ARITH = true) (hm : Gen.C22.MEMORIES_LEN_CHECKED = true)
    (hl : Gen.C22.MESH_LEN_CHECKED = true) : (openLocked H dec file).Safe := by
  unfold openLocked
  simp only [bind_eq]
  refine Safe_bind (C22_total_header file) fun hdr hh => ?_
  obtain ⟨_, hwo, hws, _, _⟩ := headerRead_range hh
  refine Safe_bind ?_ fun r _ => ?_
  · have hrt := readToc_safe H dec hdec file hdr.footerOffset
    unfold tocOrRecover
    cases hr : readToc H dec file hdr.footerOffset with
    | ok t => rfl
    | err e => exact C22_total_recover_toc H dec hdec file _
    | panic w => rw [hr] at hrt; exact absurd hrt (not_safe_panic w)
    | abort w => rw [hr] at hrt; exact absurd hrt (not_safe_abort w)
    | hang => rw [hr] at hrt; exact absurd hrt not_safe_hang
  · obtain ⟨toc, fo⟩ := r
    simp only
    refine Safe_bind (C22_total_frames _ _) fun _ _ => ?_
    refine Safe_bind (C22_total_wal_open H file _ _ _ false hlen hwo hws) fun _ _ => ?_
    refine Safe_bind (locateWindow_safe H file hlen) fun _ _ => ?_
    refine Safe_bind (optRun_safe _ _ fun s => loadTrack_safe _ (memoriesHeader_safe hm) file s) fun _ _ => ?_
    refine Safe_bind (optRun_safe _ _ fun s => loadTrack_safe _ (meshHeader_safe hl) file s) fun _ _ => ?_
    refine Safe_bind (optRun_safe _ _ fun s => sketchRead_safe hs file s.off s.len) fun _ _ => ?_
    rfl

/-- the same, read as "every crash of the composition is a black-box panic" -/
theorem C22_compose_crash (H : Bytes → Bytes) (dec : Bytes → BB TocV) (file : Bytes) (hlen : file.length < 2^63)
    (hs : Gen.C39.READER_CHECKED_ARITH = true) (hm : Gen.C22.MEMORIES_LEN_CHECKED = true)
    (hl : Gen.C22.MESH_LEN_CHECKED = true) (hc : ¬ (openLocked H dec file).Safe) : ∃ b, dec b = .panicked := by
  apply Classical.byContradiction
  intro hne
  exact hc (C22_compose H dec (fun b hb => hne ⟨b, hb⟩) file hlen hs hm hl)

/-! ### non-vacuity: concrete instances -/

example : NoPanic (fun _ : Bytes => (BB.err : BB TocV)) := fun _ h => by cases h
example : headerRead [1, 2, 3] = .err "io" := by decide
example : verifyTocPrefix (zeros 24) = .ok () := by decide
example : verifyTocPrefix (u64le 0 ++ u64le 1 ++ u64le 0) = .err "inconsistent" := by decide
/-- a 24-byte TOC followed by its footer is handed to `Toc::decode` -/
example : readTocBytes (fun _ => zeros 32) (zeros 24 ++ Footer.encode ⟨24, zeros 32, 7⟩) 0 = .ok (zeros 24) := by decide
example : readTocBytes (fun _ => zeros 32) (zeros 24 ++ Footer.encode ⟨24, zeros 32, 7⟩) 81 = .err "footer_beyond_file" := by decide
example : walScan (fun _ => zeros 32) (zeros 100) 4 96 = .ok ([], 0) := by decide
example : walScan (fun _ => zeros 32) (zeros 10) 4 96 = .err "io" := by decide
example : (walScan (fun _ => zeros 32) (zeros 10) (2^64 - 1) (2^64 - 1)).Safe := by decide
example : trackHeader Gen.C22.MEMORIES_MAGIC (fun v => v == 1) true
    (Gen.C22.MEMORIES_MAGIC ++ [1, 0] ++ u64le 2 ++ [9, 8]) = .ok [9, 8] := by decide
example : trackHeader Gen.C22.MEMORIES_MAGIC (fun v => v == 1) true
    (Gen.C22.MEMORIES_MAGIC ++ [1, 0] ++ List.replicate 8 255) = .err "truncated" := by decide
example : plannerComputeWith true 1 = .panic "debug_assert-wal_pending" := by decide
example : plannerComputeWith false 1 = .ok true := by decide
example : blobSeekWith false (2^63 - 1) (2^64 - 1) (2^63 + 1) = .panic "add-overflow" := by decide
example : blobSeekWith true (2^63 - 1) (2^64 - 1) (2^63 + 1) = .err "overflow" := by decide
example : blobOpenSeekWith true false 1000 (2^63 - 1) (2^64 - 1) (2^63 + 1) false = .err "checksum" := by decide
example : blobOpenSeekWith false false 1000 (2^63 - 1) (2^64 - 1) (2^63 + 1) false = .panic "add-overflow" := by decide
example : blobOpenSeekWith true false 1000 100 50 50 true = .ok 50 := by decide
example : timelineSelect [5, 1, 2^64 - 1, 0] (some 3) 2 = .ok [1] := by decide
example : ensureNonOverlapping [⟨100, 10, true⟩, ⟨105, 10, true⟩] 1000 = .err "overlap" := by decide
example : ensureNonOverlapping [⟨2^64 - 1, 10, true⟩] 1000 = .err "overflow" := by decide
example : ensureNonOverlapping [⟨2^64 - 1, 10, false⟩, ⟨200, 5, true⟩, ⟨100, 10, true⟩] 1000 = .ok () := by decide
example : ensureNonOverlapping [⟨100, 10, true⟩, ⟨100, 10, true⟩, ⟨110, 1, true⟩] 1000 = .ok () := by decide
example : ensureNonOverlapping [⟨100, 10, true⟩, ⟨100, 9, true⟩] 1000 = .err "overlap" := by decide

end Mv.Dec
